package main

// determ: a small structured abstract interpreter over a function body. The
// abstract state maps a key (a mutex, an event flag) to the *set* of modes it
// may be in; branches join by union, loops iterate to a fixpoint. Unlike
// Walker it supports `select`, and it yields one joined state per program
// point instead of one state per path. Used by R-lockset and R-wait.

import (
	"go/ast"
	"go/constant"
	"go/token"
	"go/types"
	"sort"
	"strings"

	"golang.org/x/tools/go/packages"
)

const (
	dfU uint8 = 1 // unlocked / not happened
	dfR uint8 = 2 // read-locked
	dfW uint8 = 4 // write-locked / happened
)

type dfState map[string]uint8

func (s dfState) clone() dfState {
	if s == nil {
		return nil
	}
	o := dfState{}
	for k, v := range s {
		o[k] = v
	}
	return o
}

func (s dfState) get(k string) uint8 {
	if v, ok := s[k]; ok {
		return v
	}
	return dfU
}

func dfJoin(a, b dfState) dfState {
	if a == nil {
		return b.clone()
	}
	if b == nil {
		return a.clone()
	}
	o := dfState{}
	for k := range a {
		o[k] = a.get(k) | b.get(k)
	}
	for k := range b {
		o[k] = a.get(k) | b.get(k)
	}
	return o
}

func dfEqual(a, b dfState) bool {
	if (a == nil) != (b == nil) {
		return false
	}
	for k := range a {
		if a.get(k) != b.get(k) {
			return false
		}
	}
	for k := range b {
		if a.get(k) != b.get(k) {
			return false
		}
	}
	return true
}

func dfModeString(m uint8) string {
	var p []string
	if m&dfU != 0 {
		p = append(p, "unlocked")
	}
	if m&dfR != 0 {
		p = append(p, "RLock")
	}
	if m&dfW != 0 {
		p = append(p, "Lock")
	}
	return strings.Join(p, "|")
}

func (s dfState) String() string {
	var ks []string
	for k := range s {
		if !strings.HasPrefix(k, "defer|") {
			ks = append(ks, k)
		}
	}
	sort.Strings(ks)
	var p []string
	for _, k := range ks {
		p = append(p, k+"="+dfModeString(s[k]))
	}
	return strings.Join(p, ", ")
}

type dfExit struct {
	kind string // return | panic | end
	stmt ast.Stmt
	st   dfState // after deferred calls
}

type dfFlow struct {
	info *types.Info
	// Call: state transfer of a call (deferred == true when run at function exit).
	Call func(call *ast.CallExpr, st dfState)
	// At records the state in which node n (a simple statement or an evaluated
	// expression) executes. Called repeatedly while loops stabilise; the last
	// call for a node carries the joined state.
	At func(n ast.Node, st dfState)

	Exits    map[ast.Stmt]*dfExit
	EndExit  *dfExit
	defers   map[string]*ast.CallExpr
	loops    []*dfLoop
	Unsupp   []token.Pos
	funcLits []*ast.FuncLit
}

type dfLoop struct {
	label     string
	breaks    dfState
	continues dfState
	isLoop    bool
}

func (f *dfFlow) Run(body *ast.BlockStmt, entry dfState) {
	f.Exits = map[ast.Stmt]*dfExit{}
	f.defers = map[string]*ast.CallExpr{}
	out := f.stmts(body.List, entry.clone())
	if out != nil {
		f.EndExit = &dfExit{kind: "end", st: f.applyDefers(out)}
	}
}

func (f *dfFlow) applyDefers(st dfState) dfState {
	// a deferred call registered on every path runs; one registered on some
	// paths yields both outcomes
	res := st.clone()
	var ks []string
	for k := range f.defers {
		ks = append(ks, k)
	}
	sort.Strings(ks)
	for i := len(ks) - 1; i >= 0; i-- {
		k := ks[i]
		m := res.get("defer|" + k)
		if m&dfW == 0 {
			continue
		}
		with := res.clone()
		f.Call(f.defers[k], with)
		if m&dfU != 0 {
			res = dfJoin(res, with)
		} else {
			res = with
		}
	}
	return res
}

func (f *dfFlow) at(n ast.Node, st dfState) {
	if f.At != nil && n != nil {
		f.At(n, st)
	}
}

// eval: the expression is evaluated in st; calls inside it transfer the state.
func (f *dfFlow) eval(e ast.Expr, st dfState) {
	if e == nil {
		return
	}
	f.at(e, st)
	ast.Inspect(e, func(n ast.Node) bool {
		switch x := n.(type) {
		case *ast.FuncLit:
			f.funcLits = append(f.funcLits, x)
			return false
		case *ast.CallExpr:
			if f.Call != nil {
				f.Call(x, st)
			}
		}
		return true
	})
}

func (f *dfFlow) constCond(e ast.Expr) (bool, bool) {
	if tv, ok := f.info.Types[e]; ok && tv.Value != nil && tv.Value.Kind() == constant.Bool {
		return constant.BoolVal(tv.Value), true
	}
	return false, false
}

func (f *dfFlow) stmts(list []ast.Stmt, st dfState) dfState {
	for _, s := range list {
		if st == nil {
			return nil
		}
		st = f.stmt(s, "", st)
	}
	return st
}

func (f *dfFlow) simple(s ast.Stmt, st dfState) {
	if s == nil {
		return
	}
	f.at(s, st)
	ast.Inspect(s, func(n ast.Node) bool {
		switch x := n.(type) {
		case *ast.FuncLit:
			f.funcLits = append(f.funcLits, x)
			return false
		case *ast.CallExpr:
			if f.Call != nil {
				f.Call(x, st)
			}
		}
		return true
	})
}

func (f *dfFlow) findLoop(label string, needLoop bool) *dfLoop {
	for i := len(f.loops) - 1; i >= 0; i-- {
		l := f.loops[i]
		if label != "" {
			if l.label == label {
				return l
			}
			continue
		}
		if !needLoop || l.isLoop {
			return l
		}
	}
	return nil
}

func (f *dfFlow) isPanic(s ast.Stmt) bool { return IsPanicCall(f.info, s) }

func (f *dfFlow) stmt(s ast.Stmt, label string, st dfState) dfState {
	switch x := s.(type) {
	case nil:
		return st
	case *ast.BlockStmt:
		return f.stmts(x.List, st)
	case *ast.LabeledStmt:
		return f.stmt(x.Stmt, x.Label.Name, st)
	case *ast.IfStmt:
		f.simple(x.Init, st)
		f.eval(x.Cond, st)
		thenLive, elseLive := true, true
		if v, ok := f.constCond(x.Cond); ok {
			thenLive, elseLive = v, !v
		}
		var o1, o2 dfState
		if thenLive {
			o1 = f.stmts(x.Body.List, st.clone())
		}
		if elseLive {
			if x.Else != nil {
				o2 = f.stmt(x.Else, "", st.clone())
			} else {
				o2 = st.clone()
			}
		}
		return dfJoin(o1, o2)
	case *ast.ForStmt:
		f.simple(x.Init, st)
		return f.loop(label, st, x.Cond, x.Post, x.Body, nil)
	case *ast.RangeStmt:
		f.eval(x.X, st)
		return f.loop(label, st, nil, nil, x.Body, x)
	case *ast.SwitchStmt:
		f.simple(x.Init, st)
		if x.Tag != nil {
			f.eval(x.Tag, st)
		}
		return f.clauses(label, st, x.Body.List, func(c ast.Stmt) ([]ast.Expr, []ast.Stmt, ast.Stmt, bool) {
			cc := c.(*ast.CaseClause)
			return cc.List, cc.Body, nil, cc.List == nil
		}, false)
	case *ast.TypeSwitchStmt:
		f.simple(x.Init, st)
		f.simple(x.Assign, st)
		return f.clauses(label, st, x.Body.List, func(c ast.Stmt) ([]ast.Expr, []ast.Stmt, ast.Stmt, bool) {
			cc := c.(*ast.CaseClause)
			return nil, cc.Body, nil, cc.List == nil
		}, false)
	case *ast.SelectStmt:
		return f.clauses(label, st, x.Body.List, func(c ast.Stmt) ([]ast.Expr, []ast.Stmt, ast.Stmt, bool) {
			cc := c.(*ast.CommClause)
			return nil, cc.Body, cc.Comm, cc.Comm == nil
		}, true)
	case *ast.ReturnStmt:
		f.simple(x, st)
		f.Exits[x] = &dfExit{kind: "return", stmt: x, st: f.applyDefers(st)}
		return nil
	case *ast.BranchStmt:
		lbl := ""
		if x.Label != nil {
			lbl = x.Label.Name
		}
		switch x.Tok {
		case token.BREAK:
			if l := f.findLoop(lbl, false); l != nil {
				l.breaks = dfJoin(l.breaks, st)
			}
		case token.CONTINUE:
			if l := f.findLoop(lbl, true); l != nil {
				l.continues = dfJoin(l.continues, st)
			}
		default:
			f.Unsupp = append(f.Unsupp, x.Pos())
			return st
		}
		return nil
	case *ast.DeferStmt:
		k := exprStr(x.Call)
		f.defers[k] = x.Call
		st["defer|"+k] = dfW
		for _, a := range x.Call.Args {
			f.eval(a, st)
		}
		return st
	case *ast.GoStmt:
		for _, a := range x.Call.Args {
			f.eval(a, st)
		}
		if fl, ok := x.Call.Fun.(*ast.FuncLit); ok {
			f.funcLits = append(f.funcLits, fl)
		}
		return st
	case *ast.EmptyStmt:
		return st
	default:
		f.simple(s, st)
		if f.isPanic(s) {
			f.Exits[s] = &dfExit{kind: "panic", stmt: s, st: f.applyDefers(st)}
			return nil
		}
		return st
	}
}

func (f *dfFlow) loop(label string, in dfState, cond ast.Expr, post ast.Stmt, body *ast.BlockStmt, rng *ast.RangeStmt) dfState {
	head := in.clone()
	var l *dfLoop
	for iter := 0; iter < 12; iter++ {
		l = &dfLoop{label: label, isLoop: true}
		f.loops = append(f.loops, l)
		st := head.clone()
		if cond != nil {
			f.eval(cond, st)
		}
		out := f.stmts(body.List, st)
		f.loops = f.loops[:len(f.loops)-1]
		back := dfJoin(out, l.continues)
		if back != nil && post != nil {
			f.simple(post, back)
		}
		next := dfJoin(in, back)
		if dfEqual(next, head) {
			break
		}
		head = next
	}
	exit := l.breaks
	if cond != nil || rng != nil {
		exit = dfJoin(exit, head)
	}
	return exit
}

func (f *dfFlow) clauses(label string, in dfState, list []ast.Stmt, split func(ast.Stmt) ([]ast.Expr, []ast.Stmt, ast.Stmt, bool), isSelect bool) dfState {
	l := &dfLoop{label: label}
	f.loops = append(f.loops, l)
	var out dfState
	hasDefault := false
	for _, c := range list {
		exprs, body, comm, isDef := split(c)
		if isDef {
			hasDefault = true
		}
		st := in.clone()
		for _, e := range exprs {
			f.eval(e, st)
		}
		if comm != nil {
			f.simple(comm, st)
		}
		out = dfJoin(out, f.stmts(body, st))
	}
	f.loops = f.loops[:len(f.loops)-1]
	if !hasDefault && !isSelect {
		out = dfJoin(out, in)
	}
	return dfJoin(out, l.breaks)
}

// ---- mutex operations ----

// dfMutexOp recognises X.Lock() / RLock() / Unlock() / RUnlock() on a
// sync.Mutex / sync.RWMutex and names the mutex by owner type + field.
func dfMutexOp(info *types.Info, call *ast.CallExpr) (key, op string, ok bool) {
	sel, isSel := ast.Unparen(call.Fun).(*ast.SelectorExpr)
	if !isSel {
		return "", "", false
	}
	fn, _ := info.Uses[sel.Sel].(*types.Func)
	if fn == nil || fn.Pkg() == nil || fn.Pkg().Path() != "sync" {
		return "", "", false
	}
	switch fn.Name() {
	case "Lock", "RLock", "Unlock", "RUnlock":
	default:
		return "", "", false
	}
	recv := fn.Type().(*types.Signature).Recv()
	if recv == nil {
		return "", "", false
	}
	rt := recv.Type()
	if p, isP := rt.(*types.Pointer); isP {
		rt = p.Elem()
	}
	n, isN := rt.(*types.Named)
	if !isN || (n.Obj().Name() != "Mutex" && n.Obj().Name() != "RWMutex") {
		return "", "", false
	}
	return dfMutexKey(info, sel.X), fn.Name(), true
}

// dfMutexKey: "Owner.Field" for a mutex that is a struct field, else the
// expression text.
func dfMutexKey(info *types.Info, e ast.Expr) string {
	e = ast.Unparen(e)
	if u, ok := e.(*ast.UnaryExpr); ok && u.Op == token.AND {
		e = ast.Unparen(u.X)
	}
	if s, ok := e.(*ast.SelectorExpr); ok {
		if sl := info.Selections[s]; sl != nil && sl.Kind() == types.FieldVal {
			return dfOwnerName(sl.Recv()) + "." + s.Sel.Name
		}
	}
	return exprStr(e)
}

func dfOwnerName(t types.Type) string {
	if p, ok := t.(*types.Pointer); ok {
		t = p.Elem()
	}
	if n, ok := t.(*types.Named); ok {
		return n.Obj().Name()
	}
	return moTypeSig(t)
}

func dfApplyMutex(st dfState, key, op string) {
	switch op {
	case "Lock":
		st[key] = dfW
	case "RLock":
		st[key] = dfR
	case "Unlock", "RUnlock":
		st[key] = dfU
	}
}

// ---- interprocedural transfer ----

// dfInterproc gives dfFlow a call transfer that looks through the module's own
// functions: a call of a function (or an immediately applied / deferred
// function literal) that — directly or through further static calls — performs
// one of the primitive operations changes the state the way its body does
// (the callee is interpreted with the caller's state as entry state; the result
// is the join over its normal exits). So `vm.lockCores()` with
// `func (vm *VM) lockCores() { vm.Cores.Lock.Lock() }` is a Lock, and
// `defer func() { mu.Unlock() }()` an Unlock at exit. Functions that never
// reach a primitive operation are skipped (identity).
type dfInterproc struct {
	c *Ctx
	// Prim applies a primitive operation to st and reports whether call is one.
	Prim    func(info *types.Info, call *ast.CallExpr, st dfState) bool
	touches map[*types.Func]bool
	memo    map[string]dfState
	active  map[*types.Func]bool
}

func newDfInterproc(c *Ctx, prim func(info *types.Info, call *ast.CallExpr, st dfState) bool) *dfInterproc {
	z := &dfInterproc{c: c, Prim: prim, touches: map[*types.Func]bool{}, memo: map[string]dfState{}, active: map[*types.Func]bool{}}
	// functions that (transitively, through static calls) contain a primitive operation
	calls := map[*types.Func][]*types.Func{}
	for _, p := range c.All {
		for _, fd := range AllFuncDecls(p) {
			obj, _ := p.TypesInfo.Defs[fd.Name].(*types.Func)
			if obj == nil {
				continue
			}
			ast.Inspect(fd.Body, func(n ast.Node) bool {
				call, ok := n.(*ast.CallExpr)
				if !ok {
					return true
				}
				if prim(p.TypesInfo, call, dfState{}) {
					z.touches[obj] = true
				} else if fn := CalleeOf(p.TypesInfo, call); fn != nil {
					if o := fn.Origin(); o != nil {
						fn = o
					}
					calls[obj] = append(calls[obj], fn)
				}
				return true
			})
		}
	}
	for changed := true; changed; {
		changed = false
		for f, cs := range calls {
			if z.touches[f] {
				continue
			}
			for _, g := range cs {
				if z.touches[g] {
					z.touches[f] = true
					changed = true
					break
				}
			}
		}
	}
	return z
}

// CallFn returns the Call hook for a dfFlow over a body typed by info.
func (z *dfInterproc) CallFn(info *types.Info) func(call *ast.CallExpr, st dfState) {
	return func(call *ast.CallExpr, st dfState) { z.transfer(info, call, st, 0) }
}

func (z *dfInterproc) transfer(info *types.Info, call *ast.CallExpr, st dfState, depth int) {
	if z.Prim(info, call, st) {
		return
	}
	if depth > 4 {
		return
	}
	var body *ast.BlockStmt
	binfo := info
	key := ""
	var fn *types.Func
	if lit, ok := ast.Unparen(call.Fun).(*ast.FuncLit); ok {
		body = lit.Body
	} else if fn = CalleeOf(info, call); fn != nil {
		if o := fn.Origin(); o != nil {
			fn = o
		}
		if !z.touches[fn] || z.active[fn] {
			return
		}
		ref := moDeclOf(z.c, fn)
		if ref == nil || ref.fd.Body == nil {
			return
		}
		body, binfo = ref.fd.Body, ref.pkg.TypesInfo
		key = fn.FullName()
	}
	if body == nil {
		return
	}
	entry := dfState{}
	for k, v := range st {
		if !strings.HasPrefix(k, "defer|") {
			entry[k] = v
		}
	}
	var out dfState
	mk := ""
	if key != "" {
		mk = key + "|" + entry.String()
		if m, ok := z.memo[mk]; ok {
			out = m
		}
	}
	if out == nil {
		if fn != nil {
			z.active[fn] = true
		}
		fl := &dfFlow{info: binfo}
		fl.Call = func(c2 *ast.CallExpr, s2 dfState) { z.transfer(binfo, c2, s2, depth+1) }
		fl.Run(body, entry)
		for _, e := range fl.Exits {
			if e.kind == "return" {
				out = dfJoin(out, e.st)
			}
		}
		if fl.EndExit != nil {
			out = dfJoin(out, fl.EndExit.st)
		}
		if fn != nil {
			delete(z.active, fn)
		}
		if out == nil {
			out = dfState{"<noreturn>": dfW}
		}
		if mk != "" {
			z.memo[mk] = out
		}
	}
	if _, never := out["<noreturn>"]; never {
		return // the callee does not return normally: nothing after the call executes with a new state
	}
	for k := range st {
		if !strings.HasPrefix(k, "defer|") {
			st[k] = out.get(k)
		}
	}
	for k, v := range out {
		if !strings.HasPrefix(k, "defer|") {
			st[k] = v
		}
	}
}

// dfReaching: the declared functions of the module whose body contains a node
// satisfying direct, or that statically call such a function (transitively).
func dfReaching(c *Ctx, direct func(p *packages.Package, n ast.Node) bool) map[*types.Func]bool {
	reach := map[*types.Func]bool{}
	calls := map[*types.Func][]*types.Func{}
	for _, p := range c.All {
		for _, fd := range AllFuncDecls(p) {
			obj, _ := p.TypesInfo.Defs[fd.Name].(*types.Func)
			if obj == nil {
				continue
			}
			ast.Inspect(fd.Body, func(n ast.Node) bool {
				if n == nil {
					return true
				}
				if direct(p, n) {
					reach[obj] = true
				}
				if call, ok := n.(*ast.CallExpr); ok {
					if fn := CalleeOf(p.TypesInfo, call); fn != nil {
						if o := fn.Origin(); o != nil {
							fn = o
						}
						calls[obj] = append(calls[obj], fn)
					}
				}
				return true
			})
		}
	}
	for changed := true; changed; {
		changed = false
		for f, cs := range calls {
			if reach[f] {
				continue
			}
			for _, g := range cs {
				if reach[g] {
					reach[f] = true
					changed = true
					break
				}
			}
		}
	}
	return reach
}
