package main

// Round 7 addition of the rt group (identifier prefix r7rt).

import (
	"fmt"
	"go/ast"
	"go/types"
	"sort"
	"strings"

	"golang.org/x/tools/go/packages"
)

func init() {
	register(&Rule{ID: "R-string-normal", Floor: 2, Run: r7rtStringNormal,
		Doc: "both value libraries keep every string value in Unicode normal form (the constructor normalises its text with golang.org/x/text/unicode/norm): equality, len and iteration of strings rely on it. Condition: every composite literal of the string value struct, in the whole module, takes its text payload from (a) the result of a norm.<Form>.String / .Bytes call, or (b) the payload field of an existing string value unchanged; a function whose literal takes the payload from a bare parameter is a non-normalising constructor, and every call of it must pass the payload field of an existing string value unchanged (a concatenation, slice, conversion or any other computed text is not normal in general: the concatenation of two NFC strings need not be NFC). One obligation per literal and per call of a non-normalising constructor."})
}

func r7rtStringNormal(c *Ctx) []Obligation {
	var obs []Obligation
	for _, l := range []*mbLib{mbLoadLib(c, mbRelVM, "vm"), mbLoadLib(c, mbRelInterp, "interp")} {
		// the string value struct: the implementer whose only exported basic field is a string
		var strImpl *mbImpl
		var payload *types.Var
		for _, im := range l.impls {
			for i := 0; i < im.st.NumFields(); i++ {
				f := im.st.Field(i)
				if b, ok := f.Type().Underlying().(*types.Basic); ok && b.Info()&types.IsString != 0 && f.Exported() {
					if tk, ok := mbKindMap(c)[im.KindName()]; ok && strings.HasPrefix(tk, "String") {
						strImpl, payload = im, f
					}
				}
			}
		}
		if strImpl == nil {
			obs = append(obs, Obligation{Key: "string-normal|" + l.tag + "|string value struct", Status: Undecided, Detail: "no value struct with a string payload mapped to the string type kind found"})
			continue
		}
		isPayloadOf := func(info *types.Info, e ast.Expr) bool {
			sel, ok := ast.Unparen(e).(*ast.SelectorExpr)
			if !ok {
				return false
			}
			s, ok := info.Selections[sel]
			return ok && s.Obj() == payload
		}
		isNormCall := func(info *types.Info, fd *ast.FuncDecl, e ast.Expr, depth int) bool {
			var rec func(e ast.Expr, depth int) bool
			rec = func(e ast.Expr, depth int) bool {
				e = ast.Unparen(e)
				switch x := e.(type) {
				case *ast.CallExpr:
					if fn := CalleeOf(info, x); fn != nil && fn.Pkg() != nil && strings.HasSuffix(fn.Pkg().Path(), "unicode/norm") {
						return true
					}
					// string(norm.NFC.Bytes(...))
					if tv, ok := info.Types[x.Fun]; ok && tv.IsType() && len(x.Args) == 1 {
						return rec(x.Args[0], depth+1)
					}
				case *ast.Ident:
					if depth < 3 && fd != nil {
						if o := info.Uses[x]; o != nil {
							if defs := mbCollectDefs(info, fd.Body)[o]; len(defs) == 1 {
								return rec(defs[0], depth+1)
							}
						}
					}
				}
				return false
			}
			return rec(e, depth)
		}
		// literals of the string struct anywhere in the module
		nonNorm := map[*types.Func]int{} // constructor -> index of the parameter that becomes the payload
		type site struct {
			key, pos, detail string
			st               Status
		}
		var sites []site
		for _, p := range r7rtPkgs(c) {
			info := p.TypesInfo
			for _, fd := range AllFuncDecls(p) {
				if fd.Body == nil {
					continue
				}
				fname := relPkg(p.PkgPath) + "." + FuncName(fd)
				n := 0
				ast.Inspect(fd.Body, func(nd ast.Node) bool {
					cl, ok := nd.(*ast.CompositeLit)
					if !ok {
						return true
					}
					nt, ok := types.Unalias(info.TypeOf(cl)).(*types.Named)
					if !ok || nt.Obj() != strImpl.named.Obj() {
						return true
					}
					var pe ast.Expr
					for i, el := range cl.Elts {
						if kv, ok := el.(*ast.KeyValueExpr); ok {
							if id, ok := kv.Key.(*ast.Ident); ok && id.Name == payload.Name() {
								pe = kv.Value
							}
						} else if i < strImpl.st.NumFields() && strImpl.st.Field(i) == payload {
							pe = el
						}
					}
					n++
					key := fmt.Sprintf("string-normal|%s|%s|literal #%d of %s", l.tag, fname, n, strImpl.Name())
					switch {
					case pe == nil:
						sites = append(sites, site{key, c.Pos(cl.Pos()), "empty text", Discharged})
					case isNormCall(info, fd, pe, 0):
						sites = append(sites, site{key, c.Pos(cl.Pos()), "the payload is the result of a unicode/norm call", Discharged})
					case isPayloadOf(info, pe):
						sites = append(sites, site{key, c.Pos(cl.Pos()), "the payload is the payload of an existing string value", Discharged})
					default:
						// a bare parameter: a non-normalising constructor, judged at its calls
						if id, ok := ast.Unparen(pe).(*ast.Ident); ok {
							if fn, ok := info.Defs[fd.Name].(*types.Func); ok {
								for i, po := range mbParamObjs(info, fd) {
									if po != nil && info.Uses[id] == po {
										nonNorm[fn] = i
										sites = append(sites, site{key, c.Pos(cl.Pos()), "non-normalising constructor: the payload is parameter " + fmt.Sprint(i) + "; its calls are checked", Discharged})
										return true
									}
								}
							}
						}
						sites = append(sites, site{key, c.Pos(cl.Pos()), "the payload `" + exprStr(pe) + "` is neither normalised here nor the unchanged payload of an existing string value", Violated})
					}
					return true
				})
			}
		}
		// calls of non-normalising constructors
		if len(nonNorm) > 0 {
			for _, p := range r7rtPkgs(c) {
				info := p.TypesInfo
				for _, fd := range AllFuncDecls(p) {
					if fd.Body == nil {
						continue
					}
					fname := relPkg(p.PkgPath) + "." + FuncName(fd)
					n := 0
					ast.Inspect(fd.Body, func(nd ast.Node) bool {
						call, ok := nd.(*ast.CallExpr)
						if !ok {
							return true
						}
						fn := CalleeOf(info, call)
						idx, ok := nonNorm[fn]
						if !ok || idx >= len(call.Args) {
							return true
						}
						n++
						key := fmt.Sprintf("string-normal|%s|%s|call #%d of non-normalising %s", l.tag, fname, n, fn.Name())
						if isPayloadOf(info, call.Args[idx]) || isNormCall(info, fd, call.Args[idx], 0) {
							sites = append(sites, site{key, c.Pos(call.Pos()), "receives the unchanged payload of an existing string value", Discharged})
						} else {
							sites = append(sites, site{key, c.Pos(call.Pos()), "the constructor " + fn.Name() + " does not normalise and receives the computed text `" + exprStr(call.Args[idx]) + "`: the result need not be in normal form (e.g. \"e\" + \"\\u0301\" is not NFC although both parts are), so equality, len and iteration of the value disagree with a literal of the same text", Violated})
						}
						return true
					})
				}
			}
		}
		for _, s := range sites {
			obs = append(obs, Obligation{Key: s.key, Pos: s.pos, Status: s.st, Detail: s.detail, Nontrivial: true})
		}
	}
	sort.SliceStable(obs, func(i, j int) bool { return obs[i].Key < obs[j].Key })
	return obs
}

// r7rtPkgs: the module's packages in a fixed order.
func r7rtPkgs(c *Ctx) []*packages.Package {
	var out []*packages.Package
	for _, p := range c.All {
		if strings.HasPrefix(p.PkgPath, ModPath) {
			out = append(out, p)
		}
	}
	sort.Slice(out, func(i, j int) bool { return out[i].PkgPath < out[j].PkgPath })
	return out
}
