package main

import (
	"fmt"
	"go/ast"
	"go/token"
	"go/types"
	"sort"
	"strings"
)

// r5sib — part of R-unify-seed: the result type of a construct with alternative branches is `never` only if every
// alternative diverges.
//
// The two-branch unifiers (functions with a TypeCheck between the result types of two analysed blocks of the node:
// if/else, try/catch) return a node whose result type is taken from one of the branches. All paths of the function
// are enumerated with (a) the branches that exist on the path (the else block is analysed only when the node has
// one: without it the construct has an implicit alternative that completes), (b) the decisions taken on
// `X.ResultType.Kind() == never` for each branch X, (c) the source of the last value assigned to the result type
// (the type of branch X, the never type, something else). At every return:
//   - result = type of branch X: the path knows that X is not never, or that every OTHER alternative is never
//     (then never is right when X is never too) — and there is no implicit alternative unless X is known not never;
//   - result = the never type: every branch of the path is known to be never and there is no implicit alternative.
// Otherwise a diverging branch types the whole construct `never` although another alternative completes: the
// enclosing block is taken for terminated, the optimizer deletes the statements that follow (C19/C20), the
// compiler's stack discipline for the expression statement is off (C11), and follow-up type errors are hidden (C03).

type r5nrState struct {
	exists map[string]bool // branch (role term) analysed on this path
	never  map[string]int  // +1: known never, -1: known not never
	alias  map[types.Object]string
	// bool locals that name a never test: tryDiverges := tryBlock.ResultType.Kind() == never → "+<branch>" / "-<branch>"
	conds  map[types.Object]string
	src    string // "", "branch:<term>", "never", "other"
	srcPos token.Pos
}

func r5nrClone(s *r5nrState) *r5nrState {
	n := &r5nrState{exists: map[string]bool{}, never: map[string]int{}, alias: map[types.Object]string{}, conds: map[types.Object]string{}, src: s.src, srcPos: s.srcPos}
	for k, v := range s.conds {
		n.conds[k] = v
	}
	for k, v := range s.exists {
		n.exists[k] = v
	}
	for k, v := range s.never {
		n.never[k] = v
	}
	for k, v := range s.alias {
		n.alias[k] = v
	}
	return n
}

func r5sibNeverResultObligations(c *Ctx, e *r2sibEngine) []Obligation {
	env := r4usEnvOf(c, e)
	p := c.Pkg("homescript/analyzer")
	info := p.TypesInfo
	var out []Obligation
	for _, fd := range AllFuncDecls(p) {
		if fd.Body == nil {
			continue
		}
		f := r2sibFuncOf(c, p, fd)
		// two-branch unifier: a TypeCheck between the result types of two analysed blocks
		isUnifier := false
		ast.Inspect(fd.Body, func(n ast.Node) bool {
			call, ok := n.(*ast.CallExpr)
			if ok && CalleeOf(info, call) == e.roles.typeCheck && len(call.Args) >= 2 {
				a, b := f.norm(call.Args[0]), f.norm(call.Args[1])
				if a != b && r4usBranchTerm(a) && r4usBranchTerm(b) {
					isUnifier = true
				}
			}
			return true
		})
		if !isUnifier {
			continue
		}
		// the result-type variable: the local that becomes a field of the returned node
		var resVar types.Object
		resField := ""
		ast.Inspect(fd.Body, func(n ast.Node) bool {
			rs, ok := n.(*ast.ReturnStmt)
			if !ok {
				return true
			}
			for _, r := range rs.Results {
				cl, ok := ast.Unparen(r).(*ast.CompositeLit)
				if !ok {
					continue
				}
				for _, el := range cl.Elts {
					kv, ok := el.(*ast.KeyValueExpr)
					if !ok {
						continue
					}
					v := ast.Unparen(kv.Value)
					for {
						if call, ok := v.(*ast.CallExpr); ok {
							if sel, ok := ast.Unparen(call.Fun).(*ast.SelectorExpr); ok && r2sibStripMethods[sel.Sel.Name] {
								v = ast.Unparen(sel.X)
								continue
							}
						}
						break
					}
					if id, ok := v.(*ast.Ident); ok {
						if o, ok := info.Uses[id].(*types.Var); ok && !o.IsField() {
							if n, ok := types.Unalias(o.Type()).(*types.Named); ok && n.Obj().Name() == "Type" {
								resVar, resField = o, exprStr(kv.Key)
							}
						}
					}
				}
			}
			return true
		})
		if resVar == nil {
			out = append(out, Obligation{Key: fmt.Sprintf("homescript/analyzer.%s|result type|never only if every alternative diverges", FuncName(fd)), Pos: c.Pos(fd.Pos()), Status: Undecided,
				Detail: "the function unifies two branches but no local of the Type interface becomes a field of the node it returns: shape not understood"})
			continue
		}
		// X.ResultType (span adapters and aliases aside) → role term of the branch X
		var branchOf func(st *r5nrState, x ast.Expr) string
		branchOf = func(st *r5nrState, x ast.Expr) string {
			x = ast.Unparen(x)
			for {
				if call, ok := x.(*ast.CallExpr); ok {
					if sel, ok := ast.Unparen(call.Fun).(*ast.SelectorExpr); ok && r2sibStripMethods[sel.Sel.Name] {
						x = ast.Unparen(sel.X)
						continue
					}
				}
				break
			}
			if id, ok := x.(*ast.Ident); ok {
				if o := info.Uses[id]; o != nil {
					if t, ok := st.alias[o]; ok {
						return t
					}
				}
			}
			t := f.norm(x)
			if r4usBranchTerm(t) {
				return t
			}
			return ""
		}
		isNeverCtor := func(x ast.Expr) bool {
			k := r4usCtorKind(c, e, info, x)
			return k != nil && k == env.never
		}
		// `T.Kind()` with T the result type of a branch
		kindOf := func(st *r5nrState, x ast.Expr) string {
			call, ok := ast.Unparen(x).(*ast.CallExpr)
			if !ok || len(call.Args) != 0 {
				return ""
			}
			sel, ok := ast.Unparen(call.Fun).(*ast.SelectorExpr)
			if !ok || sel.Sel.Name != "Kind" {
				return ""
			}
			return branchOf(st, sel.X)
		}
		w := &Walker[*r5nrState]{Clone: r5nrClone}
		w.MaxPaths = 20000
		w.IsPanic = func(s ast.Stmt) bool { return IsPanicCall(info, s) }
		noteDescents := func(st *r5nrState, n ast.Node) {
			ast.Inspect(n, func(m ast.Node) bool {
				if call, ok := m.(*ast.CallExpr); ok && r2sibDescent(CalleeOf(info, call)) && len(call.Args) > 0 {
					t := f.norm(call) + ".ResultType"
					if r4usBranchTerm(t) {
						st.exists[t] = true
					}
				}
				return true
			})
		}
		assign := func(st *r5nrState, lhs ast.Expr, rhs ast.Expr, pos token.Pos) {
			id, ok := ast.Unparen(lhs).(*ast.Ident)
			if !ok {
				return
			}
			o := info.Defs[id]
			if o == nil {
				o = info.Uses[id]
			}
			if o == nil {
				return
			}
			if o == resVar {
				switch {
				case rhs == nil:
					st.src = "other"
				case isNeverCtor(rhs):
					st.src = "never"
				default:
					if b := branchOf(st, rhs); b != "" {
						st.src = "branch:" + b
					} else {
						st.src = "other"
					}
				}
				st.srcPos = pos
				return
			}
			delete(st.alias, o)
			delete(st.conds, o)
			if be, ok := ast.Unparen(rhs).(*ast.BinaryExpr); ok && rhs != nil && (be.Op == token.EQL || be.Op == token.NEQ) {
				for _, pr := range [][2]ast.Expr{{be.X, be.Y}, {be.Y, be.X}} {
					if b := kindOf(st, pr[0]); b != "" && ConstOf(info, pr[1]) == env.never {
						if be.Op == token.EQL {
							st.conds[o] = "+" + b
						} else {
							st.conds[o] = "-" + b
						}
					}
				}
			}
			if rhs != nil {
				if b := branchOf(st, rhs); b != "" {
					if n, ok := types.Unalias(o.Type()).(*types.Named); ok && n.Obj().Name() == "Type" {
						st.alias[o] = b
					}
				}
			}
		}
		w.OnStmt = func(st *r5nrState, s ast.Stmt) (*r5nrState, bool) {
			noteDescents(st, s)
			switch x := s.(type) {
			case *ast.AssignStmt:
				if len(x.Lhs) == len(x.Rhs) {
					for i := range x.Lhs {
						assign(st, x.Lhs[i], x.Rhs[i], x.Pos())
					}
				}
			case *ast.DeclStmt:
				if gd, ok := x.Decl.(*ast.GenDecl); ok {
					for _, sp := range gd.Specs {
						if vs, ok := sp.(*ast.ValueSpec); ok {
							for i, n := range vs.Names {
								if i < len(vs.Values) {
									assign(st, n, vs.Values[i], x.Pos())
								} else {
									assign(st, n, nil, x.Pos())
								}
							}
						}
					}
				}
			}
			return st, true
		}
		w.OnCond = func(st *r5nrState, cond ast.Expr, taken bool) (*r5nrState, bool) {
			noteDescents(st, cond)
			if id, ok := ast.Unparen(cond).(*ast.Ident); ok {
				if nc, ok := st.conds[info.Uses[id]]; ok {
					v := 1
					if (nc[0] == '+') != taken {
						v = -1
					}
					if old, ok := st.never[nc[1:]]; ok && old != v {
						return st, false
					}
					st.never[nc[1:]] = v
				}
				return st, true
			}
			be, ok := ast.Unparen(cond).(*ast.BinaryExpr)
			if !ok || (be.Op != token.EQL && be.Op != token.NEQ) {
				return st, true
			}
			for _, pr := range [][2]ast.Expr{{be.X, be.Y}, {be.Y, be.X}} {
				if b := kindOf(st, pr[0]); b != "" && ConstOf(info, pr[1]) == env.never {
					v := 1
					if (be.Op == token.EQL) != taken {
						v = -1
					}
					if old, ok := st.never[b]; ok && old != v {
						return st, false
					}
					st.never[b] = v
				}
			}
			return st, true
		}
		w.OnCase = func(st *r5nrState, sw *ast.SwitchStmt, vals, others []ast.Expr) (*r5nrState, bool) {
			b := kindOf(st, sw.Tag)
			if b == "" {
				return st, true
			}
			has := func(list []ast.Expr) bool {
				for _, v := range list {
					if ConstOf(info, v) == env.never {
						return true
					}
				}
				return false
			}
			v := 0
			switch {
			case vals != nil && has(vals) && len(vals) == 1:
				v = 1
			case vals != nil && !has(vals):
				v = -1
			case vals == nil && has(others):
				v = -1
			}
			if v != 0 {
				if old, ok := st.never[b]; ok && old != v {
					return st, false
				}
				st.never[b] = v
			}
			return st, true
		}
		var bad []string
		seen := map[string]bool{}
		nPaths := 0
		short := func(t string) string {
			t = f.pretty(t)
			t = strings.TrimSuffix(strings.TrimPrefix(t, "desc[AnalyzedBlock]("), ").ResultType")
			return t
		}
		w.Exit = func(st *r5nrState, o outcome) {
			if o.kind != cReturn {
				return
			}
			nPaths++
			var branches []string
			for b := range st.exists {
				branches = append(branches, b)
			}
			sort.Strings(branches)
			implicit := len(branches) < 2
			msg := ""
			switch {
			case strings.HasPrefix(st.src, "branch:"):
				x := st.src[7:]
				if st.never[x] == -1 {
					break
				}
				othersNever := !implicit
				for _, b := range branches {
					if b != x && st.never[b] != 1 {
						othersNever = false
					}
				}
				if !othersNever {
					other := "the other branch is not known to diverge"
					if implicit {
						other = "there is no other branch on this path (the construct completes when the branch is not taken)"
					}
					msg = fmt.Sprintf("the result type is the type of %s (%s) although %s is not known to be different from never and %s", short(x), c.Pos(st.srcPos), short(x), other)
				}
			case st.src == "never":
				all := !implicit
				for _, b := range branches {
					if st.never[b] != 1 {
						all = false
					}
				}
				if !all {
					msg = fmt.Sprintf("the result type is set to never (%s) on a path that does not know every branch to be never", c.Pos(st.srcPos))
				}
			}
			if msg != "" && !seen[msg] {
				seen[msg] = true
				bad = append(bad, msg)
			}
		}
		w.Run(fd.Body, &r5nrState{exists: map[string]bool{}, never: map[string]int{}, alias: map[types.Object]string{}, conds: map[types.Object]string{}})
		ob := Obligation{Key: fmt.Sprintf("homescript/analyzer.%s|result type|never only if every alternative diverges", FuncName(fd)), Pos: c.Pos(fd.Pos()), Nontrivial: true}
		sort.Strings(bad)
		switch {
		case w.Overflow || len(w.Unsupported) > 0 || nPaths == 0:
			ob.Status = Undecided
			ob.Detail = "the paths of the function could not be enumerated"
		case len(bad) > 0:
			if len(bad) > 3 {
				bad = append(bad[:3], fmt.Sprintf("… (%d more)", len(bad)-3))
			}
			ob.Status = Violated
			ob.Detail = fmt.Sprintf("%s of the returned node: %s — a diverging branch would type the whole construct never although an alternative completes", resField, strings.Join(bad, "; "))
		default:
			ob.Detail = fmt.Sprintf("%d paths: whenever %s of the returned node is the type of a branch, that branch is known not to be never or every other alternative is known to be never; never itself only when all branches are", nPaths, resField)
		}
		out = append(out, ob)
	}
	return out
}
