package main

import (
	"fmt"
	"go/ast"
	"go/types"
	"sort"
)

// R-setspan-deep: re-positioning a type (Type.SetSpan) is how the analyzer makes a later mismatch
// point at the expression being checked instead of at the place the type was first written. A
// composite type that moves itself but leaves a component type behind reports mismatches INSIDE it
// at the old place (another statement, another file).
func init() {
	register(&Rule{ID: "R-setspan-deep", Floor: 3, Run: ruleSetSpanDeep,
		Doc: "for every implementer of the analyzer's Type interface: each method that takes a span and returns a Type (SetSpan and its variants) re-positions every field of the struct that is itself a Type — the field is the receiver of a call of the same interface method (directly, or under a nil test) — or the field does not occur in the method at all and the method returns the receiver unchanged"})
}

func ruleSetSpanDeep(c *Ctx) []Obligation {
	p := c.Pkg("homescript/analyzer/ast")
	if p == nil {
		return []Obligation{{Key: "anchor", Status: Undecided, Detail: "analyzer/ast not loaded", Nontrivial: true}}
	}
	info := p.TypesInfo
	to := p.Types.Scope().Lookup("Type")
	if to == nil {
		return []Obligation{{Key: "anchor", Status: Undecided, Detail: "interface Type not found", Nontrivial: true}}
	}
	iface, ok := to.Type().Underlying().(*types.Interface)
	if !ok {
		return []Obligation{{Key: "anchor", Status: Undecided, Detail: "Type is not an interface", Nontrivial: true}}
	}
	var obs []Obligation
	for _, fd := range AllFuncDecls(p) {
		if fd.Recv == nil || fd.Body == nil || len(fd.Recv.List) != 1 || len(fd.Recv.List[0].Names) != 1 {
			continue
		}
		fn, _ := info.Defs[fd.Name].(*types.Func)
		if fn == nil {
			continue
		}
		sig := fn.Type().(*types.Signature)
		rt := sig.Recv().Type()
		if !types.Implements(rt, iface) {
			continue
		}
		// span-taking, Type-returning
		if sig.Results().Len() != 1 || !types.Identical(sig.Results().At(0).Type(), to.Type()) || sig.Params().Len() == 0 {
			continue
		}
		allSpans := true
		for i := 0; i < sig.Params().Len(); i++ {
			if n := recvNamed(sig.Params().At(i).Type()); n == nil || n.Obj().Name() != "Span" {
				allSpans = false
			}
		}
		if !allSpans {
			continue
		}
		st, ok := rt.Underlying().(*types.Struct)
		if !ok {
			continue
		}
		recvObj := info.Defs[fd.Recv.List[0].Names[0]]
		for i := 0; i < st.NumFields(); i++ {
			f := st.Field(i)
			if !types.Identical(f.Type(), to.Type()) {
				continue
			}
			moved, mentioned := false, false
			ast.Inspect(fd.Body, func(n ast.Node) bool {
				sel, ok := n.(*ast.SelectorExpr)
				if !ok || info.Uses[sel.Sel] != f {
					return true
				}
				if id, ok := ast.Unparen(sel.X).(*ast.Ident); !ok || info.Uses[id] != recvObj {
					return true
				}
				mentioned = true
				return true
			})
			ast.Inspect(fd.Body, func(n ast.Node) bool {
				call, ok := n.(*ast.CallExpr)
				if !ok {
					return true
				}
				msel, ok := call.Fun.(*ast.SelectorExpr)
				if !ok {
					return true
				}
				m, _ := info.Uses[msel.Sel].(*types.Func)
				if m == nil {
					return true
				}
				ms := m.Type().(*types.Signature)
				if ms.Results().Len() != 1 || !types.Identical(ms.Results().At(0).Type(), to.Type()) || ms.Params().Len() == 0 {
					return true
				}
				if fs, ok := ast.Unparen(msel.X).(*ast.SelectorExpr); ok && info.Uses[fs.Sel] == f {
					if id, ok := ast.Unparen(fs.X).(*ast.Ident); ok && info.Uses[id] == recvObj {
						moved = true
					}
				}
				return true
			})
			o := Obligation{Key: fmt.Sprintf("%s.%s|component %s moves along", types.TypeString(rt, func(*types.Package) string { return "" }), fn.Name(), f.Name()), Pos: c.Pos(fd.Pos()), Nontrivial: true}
			switch {
			case moved:
				o.Status, o.Detail = Discharged, "the component is re-positioned by the same interface method"
			case !mentioned:
				o.Status, o.Detail = Violated, "the method builds its result without the component " + f.Name() + " (dropped), or returns the receiver unchanged although it is composite"
			default:
				o.Status, o.Detail = Violated, "the component " + f.Name() + " is handed on with its old position: a mismatch inside the composite type is then reported where the type was first written (an earlier statement, or the exporting module's file) instead of at the value being checked"
			}
			obs = append(obs, o)
		}
	}
	sort.Slice(obs, func(i, j int) bool { return obs[i].Key < obs[j].Key })
	return obs
}
