package main

import (
	"fmt"
	"go/ast"
	"go/token"
	"go/types"
	"sort"
	"strings"
)

// R-modifier-token-agreement (C15, C07; parser).
//
// Several places of the parser turn an optional keyword in front of a construct
// (`pub` / `event` before `fn`; `type` / `templ` / `trigger` before an import
// item) into a constant of an enum of package ast that is stored in the node
// (FunctionDefinition.Modifier, ImportStatementCandidate.Kind). For every use of
// such a constant as a value (assigned to a local, passed to a parser method,
// stored in a node) the rule computes its justification: the keyword kinds K for
// which the use sits in a branch taken because the CURRENT TOKEN IS K (if / else-if
// on `cursor.Kind == K`, a boolean local holding that test, a case of a switch over
// the cursor's kind) and that the method consumes as a modifier (a next() / expect(K)
// inside a branch conditioned on K). A use outside any such branch is the default:
// the value of the path on which the source says nothing.
//
// Necessary condition: all uses of one constant — across all sites — have the same
// justification. `FN_MODIFIER_PUB` is justified by `pub` at the top level and in
// impl blocks; a site where it is the unconditional default gives a function the
// source did not mark `pub` the visibility of a public one (C15: only pub items can
// be imported).

func init() {
	register(&Rule{ID: "R-modifier-token-agreement", Floor: 7, Run: ruleR5parseModifierAgreement,
		Doc: "for every constant of an enum type of package parser/ast that a parser method uses as a value (right-hand side of an assignment to a local, argument of a call, field of a node literal): the set of modifier keywords that justify the use — the token kinds K such that the use lies in a branch taken because the current token is K (if/else-if on cursor.Kind == K, a boolean local holding that test, a case of a switch over the cursor's kind) and K is consumed as a modifier by the method (next()/expect(K) inside a branch conditioned on K); empty = the unconditional default — is the same at every use of that constant in the parser (sibling agreement of the modifier-parsing sites: top level, impl blocks, annotated functions; the three import forms). A constant that one site derives from a keyword and another site uses as the default marks constructs the source did not mark (an un-annotated `fn` parsed as `pub`: importable although private, C15); two different keywords for one constant swap modifiers."})
}

type r5parsePending struct {
	node               ast.Node
	name, where, group string
}

type r5parseUse struct {
	fn    string
	pos   token.Pos
	just  string
	where string
}

func ruleR5parseModifierAgreement(c *Ctx) []Obligation {
	e := r2parseEngineOf(c)
	px := e.px
	info := e.info
	uses := map[string][]r5parseUse{} // "Type.CONST" -> uses
	posOf := map[string]token.Pos{}
	for _, fd := range e.fds {
		parents := pxParents(fd.Body)
		// boolean locals that hold a test of the cursor's kind
		alias := map[types.Object]string{}
		ast.Inspect(fd.Body, func(n ast.Node) bool {
			as, ok := n.(*ast.AssignStmt)
			if !ok || len(as.Lhs) != len(as.Rhs) {
				return true
			}
			for i, l := range as.Lhs {
				id, ok := l.(*ast.Ident)
				if !ok {
					continue
				}
				o := info.Defs[id]
				if o == nil {
					o = info.Uses[id]
				}
				if k, eq, ok := px.kindAtom(info, as.Rhs[i]); ok && eq && o != nil {
					if old, dup := alias[o]; dup && old != k {
						alias[o] = "?"
					} else {
						alias[o] = k
					}
				} else if o != nil {
					if _, had := alias[o]; had {
						alias[o] = "?"
					}
				}
			}
			return true
		})
		// positive kind atoms of a condition
		var condKinds func(x ast.Expr, out map[string]bool)
		condKinds = func(x ast.Expr, out map[string]bool) {
			x = ast.Unparen(x)
			switch y := x.(type) {
			case *ast.BinaryExpr:
				if y.Op == token.LAND || y.Op == token.LOR {
					condKinds(y.X, out)
					condKinds(y.Y, out)
					return
				}
				if k, eq, ok := px.kindAtom(info, y); ok && eq {
					out[k] = true
				}
			case *ast.Ident:
				if k := alias[info.Uses[y]]; k != "" && k != "?" {
					out[k] = true
				}
			case *ast.CallExpr:
				// self.at(K): a pure one-line test of the cursor's kind against its parameter
				if k := r5parseKindTestCall(e, y); k != "" {
					out[k] = true
				}
			}
		}
		// region -> kinds it is conditioned on (positively)
		regionKinds := func(n ast.Node, child ast.Node) map[string]bool {
			out := map[string]bool{}
			switch x := n.(type) {
			case *ast.IfStmt:
				if child == ast.Node(x.Body) {
					condKinds(x.Cond, out)
				}
			case *ast.CaseClause:
				if sw, ok := parents[parents[x]].(*ast.SwitchStmt); ok && sw.Tag != nil && px.isCurKind(info, sw.Tag) {
					for _, v := range x.List {
						if k := px.canonKind(info, v); k != "" {
							out[k] = true
						}
					}
				} else if ok && sw.Tag == nil {
					for _, v := range x.List {
						condKinds(v, out)
					}
				}
			}
			return out
		}
		// boolean flags: `flag = true` only inside branches conditioned on one and the same kind set
		{
			flagKinds := map[types.Object]string{}
			ast.Inspect(fd.Body, func(n ast.Node) bool {
				as, ok := n.(*ast.AssignStmt)
				if !ok || len(as.Lhs) != len(as.Rhs) {
					return true
				}
				for i, l := range as.Lhs {
					id, ok := l.(*ast.Ident)
					if !ok {
						continue
					}
					o := info.Defs[id]
					if o == nil {
						o = info.Uses[id]
					}
					if o == nil {
						continue
					}
					if b, ok := o.Type().Underlying().(*types.Basic); !ok || b.Kind() != types.Bool {
						continue
					}
					if _, isAtomAlias := alias[o]; isAtomAlias {
						continue
					}
					tv := info.Types[as.Rhs[i]]
					switch {
					case tv.Value != nil && tv.Value.String() == "false":
					case tv.Value != nil && tv.Value.String() == "true":
						var ks []string
						var child ast.Node = as
						for p := parents[as]; p != nil; child, p = p, parents[p] {
							if rk := regionKinds(p, child); len(rk) > 0 {
								for k := range rk {
									ks = append(ks, k)
								}
								break
							}
						}
						sort.Strings(ks)
						j := strings.Join(ks, "|")
						if j == "" || strings.Contains(j, "|") {
							j = "?"
						}
						if old, seen := flagKinds[o]; seen && old != j {
							j = "?"
						}
						flagKinds[o] = j
					default:
						flagKinds[o] = "?"
					}
				}
				return true
			})
			for o, k := range flagKinds {
				alias[o] = k
			}
		}
		// modifier kinds of this method: a next() / expect(K) whose NEAREST enclosing
		// kind-conditioned branch is conditioned on K
		modifier := map[string]bool{}
		ast.Inspect(fd.Body, func(m ast.Node) bool {
			call, ok := m.(*ast.CallExpr)
			if !ok {
				return true
			}
			g := CalleeOf(info, call)
			isNext := px.isNext(g)
			isExpect := g != nil && px.expectF[g]
			if !isNext && !isExpect {
				return true
			}
			var child ast.Node = call
			for p := parents[call]; p != nil; child, p = p, parents[p] {
				kinds := regionKinds(p, child)
				if len(kinds) == 0 {
					continue
				}
				if isNext {
					for k := range kinds {
						modifier[k] = true
					}
				} else {
					for _, a := range call.Args {
						if k := px.canonKind(info, a); k != "" && kinds[k] {
							modifier[k] = true
						}
					}
				}
				break
			}
			return true
		})
		justify := func(n ast.Node, stop ast.Node) string {
			child := n
			excluded := map[string]bool{}
			for p := parents[n]; p != nil; child, p = p, parents[p] {
				if p == stop {
					// the uses sit in different branches of this very `if`: its branches count;
					// any other common ancestor (a clause, a block) is the shared context
					if _, isIf := p.(*ast.IfStmt); !isIf {
						break
					}
				}
				if ifs, ok := p.(*ast.IfStmt); ok && ifs.Else != nil && child == ast.Node(ifs.Else) && !r5parseHasAnd(ifs.Cond) {
					// the else branch of `if K1 || K2`: the current token is none of them
					condKinds(ifs.Cond, excluded)
				}
				var ks []string
				for k := range regionKinds(p, child) {
					if modifier[k] && !excluded[k] {
						ks = append(ks, k)
					}
				}
				if len(ks) > 0 {
					sort.Strings(ks)
					return strings.Join(ks, "|")
				}
				if p == stop {
					break
				}
			}
			return ""
		}
		// value uses of enum constants of package ast, grouped by what they flow into
		var pending []r5parsePending
		ast.Inspect(fd.Body, func(n ast.Node) bool {
			x, ok := n.(ast.Expr)
			if !ok {
				return true
			}
			k := ConstOf(info, x)
			if k == nil || k.Pkg() == nil || k.Pkg().Path() != e.sp.astPkg || c.EnumOf(k.Type()) == nil {
				return true
			}
			if sel, isSel := parents[n].(*ast.SelectorExpr); isSel && sel.Sel == n {
				return true // counted at the selector
			}
			where, group := "", ""
			tname := k.Type().(*types.Named).Obj().Name()
			switch p := parents[n].(type) {
			case *ast.AssignStmt:
				for i, r := range p.Rhs {
					if r == x && len(p.Lhs) == len(p.Rhs) {
						where = "assigned to " + exprStr(p.Lhs[i])
						group = "expr " + exprStr(p.Lhs[i])
						if id, ok := ast.Unparen(p.Lhs[i]).(*ast.Ident); ok {
							o := info.Defs[id]
							if o == nil {
								o = info.Uses[id]
							}
							if o != nil {
								group = fmt.Sprintf("var@%d", o.Pos())
							}
						}
					}
				}
			case *ast.ValueSpec:
				for i, v := range p.Values {
					if v == x && i < len(p.Names) {
						where = "assigned to " + p.Names[i].Name
						if o := info.Defs[p.Names[i]]; o != nil {
							group = fmt.Sprintf("var@%d", o.Pos())
						}
					}
				}
			case *ast.CallExpr:
				for i, a := range p.Args {
					if a == x {
						where = "argument of " + exprStr(p.Fun)
						group = fmt.Sprintf("arg %s#%d", exprStr(p.Fun), i)
					}
				}
			case *ast.KeyValueExpr:
				if p.Value == x {
					where = "field " + exprStr(p.Key)
					group = "field " + tname + " " + exprStr(p.Key)
				}
			case *ast.ReturnStmt:
				where, group = "returned", "return "+tname
			}
			if where == "" {
				return false // compared / switched on: not a value use
			}
			name := k.Type().(*types.Named).Obj().Name() + "." + k.Name()
			pending = append(pending, r5parsePending{node: n, name: name, where: where, group: group})
			return false
		})
		// justification: the kind-conditioned branches between the use and the lowest common
		// ancestor of all uses that flow into the same variable / parameter / field
		chain := func(n ast.Node) []ast.Node {
			var out []ast.Node
			for p := n; p != nil; p = parents[p] {
				out = append(out, p)
			}
			return out
		}
		lca := map[string]ast.Node{}
		for _, pu := range pending {
			c := chain(pu.node)
			old, ok := lca[pu.group]
			if !ok {
				lca[pu.group] = parents[pu.node]
				continue
			}
			in := map[ast.Node]bool{}
			for _, a := range c {
				in[a] = true
			}
			for a := old; a != nil; a = parents[a] {
				if in[a] {
					lca[pu.group] = a
					break
				}
			}
			if lca[pu.group] == old && !in[old] {
				lca[pu.group] = fd.Body
			}
		}
		for _, pu := range pending {
			uses[pu.name] = append(uses[pu.name], r5parseUse{fn: e.funcKey(fd), pos: pu.node.Pos(), just: justify(pu.node, lca[pu.group]), where: pu.where})
			if _, ok := posOf[pu.name]; !ok {
				posOf[pu.name] = pu.node.Pos()
			}
		}
	}
	var names []string
	for n := range uses {
		names = append(names, n)
	}
	sort.Strings(names)
	var obs []Obligation
	for _, name := range names {
		us := uses[name]
		byJust := map[string][]string{}
		for _, u := range us {
			j := u.just
			if j == "" {
				j = "default (no modifier token)"
			} else {
				j = "token " + j
			}
			byJust[j] = append(byJust[j], fmt.Sprintf("%s (%s, %s)", u.fn, u.where, c.Pos(u.pos)))
		}
		var js []string
		for j := range byJust {
			js = append(js, j)
		}
		sort.Strings(js)
		o := Obligation{Key: "ast." + name + "|justified by the same modifier token at every use", Pos: c.Pos(posOf[name]), Nontrivial: true, Status: Discharged}
		if len(js) == 1 {
			o.Detail = fmt.Sprintf("%d use(s), all: %s", len(us), js[0])
		} else {
			o.Status = Violated
			var parts []string
			for _, j := range js {
				parts = append(parts, j+" at "+strings.Join(byJust[j], ", "))
			}
			o.Detail = "the sites disagree on what makes a construct " + name + ": " + strings.Join(parts, " BUT ") + " — a construct without the keyword gets the marked value at the default site (or two keywords map to one value)"
		}
		obs = append(obs, o)
	}
	return obs
}

// r5parseKindTestCall: call of a parser method `func (p *Parser) at(k TokenKind) bool { return p.cur.Kind == k }`
// with a constant kind: the kind tested ("" otherwise).
func r5parseKindTestCall(e *r2parseEngine, call *ast.CallExpr) string {
	if len(call.Args) != 1 {
		return ""
	}
	k := e.px.canonKind(e.info, call.Args[0])
	if k == "" {
		return ""
	}
	fn := CalleeOf(e.info, call)
	fd := e.sp.decls[fn]
	if fn == nil || fd == nil || fd.Body == nil || len(fd.Body.List) != 1 || fd.Type.Params.NumFields() != 1 {
		return ""
	}
	ret, ok := fd.Body.List[0].(*ast.ReturnStmt)
	if !ok || len(ret.Results) != 1 {
		return ""
	}
	be, ok := ast.Unparen(ret.Results[0]).(*ast.BinaryExpr)
	if !ok || be.Op != token.EQL {
		return ""
	}
	x, y := be.X, be.Y
	if !e.px.isCurKind(e.info, x) {
		x, y = y, x
	}
	if !e.px.isCurKind(e.info, x) {
		return ""
	}
	id, ok := ast.Unparen(y).(*ast.Ident)
	if !ok || len(fd.Type.Params.List[0].Names) != 1 || e.info.Uses[id] != e.info.Defs[fd.Type.Params.List[0].Names[0]] {
		return ""
	}
	return k
}

func r5parseHasAnd(x ast.Expr) bool {
	found := false
	ast.Inspect(x, func(n ast.Node) bool {
		if b, ok := n.(*ast.BinaryExpr); ok && b.Op == token.LAND {
			found = true
		}
		return !found
	})
	return found
}
