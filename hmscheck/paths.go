package main

import (
	"go/ast"
	"go/token"
)

// E3 — structured path enumeration. The repository's code is goto-free, so
// the statement tree *is* the control-flow graph; walking it in
// continuation-passing style enumerates every acyclic entry→exit path, with
// short-circuit conditions decomposed into atoms and loops explored for zero
// and one iteration (rules that need loop invariance check the per-iteration
// effect through OnLoopIter).

type ctrlKind int

const (
	cNormal ctrlKind = iota
	cBreak
	cContinue
	cReturn
	cPanic
)

type outcome struct {
	kind  ctrlKind
	label string
	ret   *ast.ReturnStmt
	at    token.Pos
}

// Walker enumerates paths through a function body carrying a state S.
type Walker[S any] struct {
	Clone func(S) S
	// OnStmt is called for every simple statement (expression, assignment,
	// inc/dec, declaration, send, go). Return false to kill the path
	// (infeasible).
	OnStmt func(st S, s ast.Stmt) (S, bool)
	// OnCond is called for every atomic branch condition with the decision
	// taken. Return false when the decision is infeasible in st.
	OnCond func(st S, cond ast.Expr, taken bool) (S, bool)
	// OnCase is called when a switch clause is entered. tag may be nil
	// (tagless switch: the case expressions are then decomposed through
	// OnCond instead and OnCase is not called). vals == nil means default;
	// others holds the case expressions of all other clauses.
	OnCase func(st S, sw *ast.SwitchStmt, vals []ast.Expr, others []ast.Expr) (S, bool)
	// OnTypeCase: same for type switches (types == nil → default).
	OnTypeCase func(st S, sw *ast.TypeSwitchStmt, cc *ast.CaseClause) (S, bool)
	// OnDefer is called at a defer statement.
	OnDefer func(st S, d *ast.DeferStmt) (S, bool)
	// OnRange is called when a range loop is entered (before the body, once
	// per explored iteration) — nil is fine.
	OnRange func(st S, r *ast.RangeStmt) (S, bool)
	// OnLoopIter is called with the state before and after one full
	// iteration of a loop body (normal or continue completion).
	OnLoopIter func(loop ast.Stmt, before, after S)
	// LoopSummary, when set, replaces the 0/1-iteration exploration: the body
	// is walked once from `before`; `ends` are the states of the iterations
	// that complete normally (or by continue); the returned state is the
	// state after the loop (ok=false kills the path). break/return inside the
	// body propagate as usual.
	LoopSummary func(loop ast.Stmt, before S, ends []S) (S, bool)
	// IsPanic classifies an expression statement as diverging.
	IsPanic func(s ast.Stmt) bool
	// Exit receives every path end: return statement, panic, or falling off
	// the end of the body (ret == nil, kind == cNormal).
	Exit func(st S, o outcome)

	MaxPaths    int
	Paths       int
	Overflow    bool
	Unsupported []token.Pos // goto / fallthrough / select encountered

	defers []*ast.DeferStmt // defer statements executed on the path being explored
	// LoopUnroll: how many iterations to explore at most (default 1).
	LoopUnroll int
}

// PendingDefers returns, inside Exit, the defer statements executed on the
// path that is exiting, innermost (last executed = first to run) first.
func (w *Walker[S]) PendingDefers() []*ast.DeferStmt {
	out := make([]*ast.DeferStmt, 0, len(w.defers))
	for i := len(w.defers) - 1; i >= 0; i-- {
		out = append(out, w.defers[i])
	}
	return out
}

func (w *Walker[S]) Run(body *ast.BlockStmt, st S) {
	if w.MaxPaths == 0 {
		w.MaxPaths = 20000
	}
	if w.LoopUnroll == 0 {
		w.LoopUnroll = 1
	}
	w.stmts(body.List, st, func(st S, o outcome) {
		w.Paths++
		if w.Paths > w.MaxPaths {
			w.Overflow = true
			return
		}
		if w.Exit != nil {
			w.Exit(st, o)
		}
	})
}

type cont[S any] func(S, outcome)

func (w *Walker[S]) stmts(list []ast.Stmt, st S, k cont[S]) {
	if w.Overflow {
		return
	}
	if len(list) == 0 {
		k(st, outcome{kind: cNormal})
		return
	}
	w.stmt(list[0], st, func(st2 S, o outcome) {
		if o.kind != cNormal {
			k(st2, o)
			return
		}
		w.stmts(list[1:], st2, k)
	})
}

func (w *Walker[S]) simple(s ast.Stmt, st S) (S, bool) {
	if s == nil {
		return st, true
	}
	if w.OnStmt != nil {
		return w.OnStmt(st, s)
	}
	return st, true
}

// cond explores the atomic decisions of a short-circuit condition.
func (w *Walker[S]) cond(e ast.Expr, st S, want bool, k func(S)) {
	e = ast.Unparen(e)
	switch x := e.(type) {
	case *ast.UnaryExpr:
		if x.Op == token.NOT {
			w.cond(x.X, st, !want, k)
			return
		}
	case *ast.BinaryExpr:
		if x.Op == token.LAND {
			if want {
				w.cond(x.X, st, true, func(s1 S) { w.cond(x.Y, s1, true, k) })
			} else {
				w.cond(x.X, w.Clone(st), false, k)
				w.cond(x.X, st, true, func(s1 S) { w.cond(x.Y, s1, false, k) })
			}
			return
		}
		if x.Op == token.LOR {
			if want {
				w.cond(x.X, w.Clone(st), true, k)
				w.cond(x.X, st, false, func(s1 S) { w.cond(x.Y, s1, true, k) })
			} else {
				w.cond(x.X, st, false, func(s1 S) { w.cond(x.Y, s1, false, k) })
			}
			return
		}
	}
	if w.OnCond != nil {
		s2, ok := w.OnCond(st, e, want)
		if !ok {
			return
		}
		k(s2)
		return
	}
	k(st)
}

func (w *Walker[S]) stmt(s ast.Stmt, st S, k cont[S]) {
	if w.Overflow {
		return
	}
	switch x := s.(type) {
	case *ast.BlockStmt:
		w.stmts(x.List, st, k)
	case *ast.LabeledStmt:
		w.labeled(x.Label.Name, x.Stmt, st, k)
	case *ast.IfStmt:
		st, ok := w.simple(x.Init, st)
		if !ok {
			return
		}
		w.cond(x.Cond, w.Clone(st), true, func(s1 S) { w.stmts(x.Body.List, s1, k) })
		w.cond(x.Cond, st, false, func(s1 S) {
			if x.Else == nil {
				k(s1, outcome{kind: cNormal})
			} else {
				w.stmt(x.Else, s1, k)
			}
		})
	case *ast.ForStmt, *ast.RangeStmt:
		w.loop(s, "", st, k)
	case *ast.SwitchStmt:
		w.switchStmt(x, "", st, k)
	case *ast.TypeSwitchStmt:
		w.typeSwitch(x, "", st, k)
	case *ast.ReturnStmt:
		st, ok := w.simple(x, st)
		if !ok {
			return
		}
		k(st, outcome{kind: cReturn, ret: x, at: x.Pos()})
	case *ast.BranchStmt:
		lbl := ""
		if x.Label != nil {
			lbl = x.Label.Name
		}
		switch x.Tok {
		case token.BREAK:
			k(st, outcome{kind: cBreak, label: lbl, at: x.Pos()})
		case token.CONTINUE:
			k(st, outcome{kind: cContinue, label: lbl, at: x.Pos()})
		default:
			w.Unsupported = append(w.Unsupported, x.Pos())
			k(st, outcome{kind: cNormal})
		}
	case *ast.DeferStmt:
		if w.OnDefer != nil {
			s2, ok := w.OnDefer(st, x)
			if !ok {
				return
			}
			st = s2
		}
		// everything that follows on this path is explored inside k (depth-first CPS),
		// so the pending-defer stack is exact for the path that reaches Exit
		w.defers = append(w.defers, x)
		k(st, outcome{kind: cNormal})
		w.defers = w.defers[:len(w.defers)-1]
	case *ast.SelectStmt:
		w.Unsupported = append(w.Unsupported, x.Pos())
		k(st, outcome{kind: cNormal})
	case *ast.EmptyStmt:
		k(st, outcome{kind: cNormal})
	default:
		if w.IsPanic != nil && w.IsPanic(s) {
			st, _ = w.simple(s, st)
			k(st, outcome{kind: cPanic, at: s.Pos()})
			return
		}
		st, ok := w.simple(s, st)
		if !ok {
			return
		}
		k(st, outcome{kind: cNormal})
	}
}

func (w *Walker[S]) labeled(label string, s ast.Stmt, st S, k cont[S]) {
	switch x := s.(type) {
	case *ast.ForStmt, *ast.RangeStmt:
		w.loop(s, label, st, k)
	case *ast.SwitchStmt:
		w.switchStmt(x, label, st, k)
	case *ast.TypeSwitchStmt:
		w.typeSwitch(x, label, st, k)
	default:
		w.stmt(s, st, k)
	}
}

func (w *Walker[S]) loop(s ast.Stmt, label string, st S, k cont[S]) {
	var body *ast.BlockStmt
	var cond ast.Expr
	var post ast.Stmt
	var rng *ast.RangeStmt
	switch x := s.(type) {
	case *ast.ForStmt:
		var ok bool
		st, ok = w.simple(x.Init, st)
		if !ok {
			return
		}
		body, cond, post = x.Body, x.Cond, x.Post
	case *ast.RangeStmt:
		body, rng = x.Body, x
	}
	exitLoop := func(st S) { k(st, outcome{kind: cNormal}) }
	if w.LoopSummary != nil {
		before := w.Clone(st)
		var ends []S
		enter := func(s1 S) {
			if rng != nil && w.OnRange != nil {
				var ok bool
				s1, ok = w.OnRange(s1, rng)
				if !ok {
					return
				}
			}
			w.stmts(body.List, s1, func(s2 S, o outcome) {
				switch {
				case o.kind == cNormal, o.kind == cContinue && (o.label == "" || o.label == label):
					s3, ok := w.simple(post, s2)
					if ok {
						ends = append(ends, s3)
					}
				case o.kind == cBreak && (o.label == "" || o.label == label):
					exitLoop(s2)
				default:
					k(s2, o)
				}
			})
		}
		if cond != nil {
			w.cond(cond, w.Clone(st), true, enter)
		} else {
			enter(w.Clone(st))
		}
		post2, ok := w.LoopSummary(s, before, ends)
		if !ok {
			return
		}
		if cond != nil {
			w.cond(cond, post2, false, exitLoop)
		} else if rng != nil {
			exitLoop(post2)
		}
		return
	}
	var iter func(st S, n int)
	iter = func(st S, n int) {
		// leave the loop (condition false / range exhausted)
		if cond != nil {
			w.cond(cond, w.Clone(st), false, exitLoop)
		} else if rng != nil {
			exitLoop(w.Clone(st))
		} // `for {}` can only be left by break/return
		if n >= w.LoopUnroll {
			return
		}
		enter := func(s1 S) {
			before := w.Clone(s1)
			w.stmts(body.List, s1, func(s2 S, o outcome) {
				switch {
				case o.kind == cNormal, o.kind == cContinue && (o.label == "" || o.label == label):
					s3, ok := w.simple(post, s2)
					if !ok {
						return
					}
					if w.OnLoopIter != nil {
						w.OnLoopIter(s, before, s3)
					}
					iter(s3, n+1)
					if cond == nil && rng == nil && n+1 >= w.LoopUnroll {
						// infinite loop: after the explored iterations the only exits are
						// the ones already seen; nothing more to enumerate.
					}
				case o.kind == cBreak && (o.label == "" || o.label == label):
					exitLoop(s2)
				default:
					k(s2, o)
				}
			})
		}
		if cond != nil {
			w.cond(cond, st, true, enter)
		} else if rng != nil {
			if w.OnRange != nil {
				s1, ok := w.OnRange(st, rng)
				if !ok {
					return
				}
				st = s1
			}
			enter(st)
		} else {
			enter(st)
		}
	}
	iter(st, 0)
}

func (w *Walker[S]) switchStmt(x *ast.SwitchStmt, label string, st S, k cont[S]) {
	st, ok := w.simple(x.Init, st)
	if !ok {
		return
	}
	var all []ast.Expr
	hasDefault := false
	for _, c := range x.Body.List {
		cc := c.(*ast.CaseClause)
		if cc.List == nil {
			hasDefault = true
		}
		all = append(all, cc.List...)
	}
	after := func(s2 S, o outcome) {
		if o.kind == cBreak && (o.label == "" || o.label == label) {
			k(s2, outcome{kind: cNormal})
			return
		}
		k(s2, o)
	}
	for _, c := range x.Body.List {
		cc := c.(*ast.CaseClause)
		for _, b := range cc.Body {
			if br, ok := b.(*ast.BranchStmt); ok && br.Tok == token.FALLTHROUGH {
				w.Unsupported = append(w.Unsupported, br.Pos())
			}
		}
		var others []ast.Expr
		for _, c2 := range x.Body.List {
			if c2 != c {
				others = append(others, c2.(*ast.CaseClause).List...)
			}
		}
		if x.Tag == nil {
			// tagless: clause taken iff earlier clauses false and one of its exprs true
			w.taglessClause(x, cc, w.Clone(st), after)
			continue
		}
		s1 := w.Clone(st)
		if w.OnCase != nil {
			var ok bool
			s1, ok = w.OnCase(s1, x, cc.List, others)
			if !ok {
				continue
			}
		}
		w.stmts(cc.Body, s1, after)
	}
	if !hasDefault {
		if x.Tag == nil {
			w.taglessClause(x, nil, st, after)
			return
		}
		s1 := st
		if w.OnCase != nil {
			var ok bool
			s1, ok = w.OnCase(s1, x, nil, all)
			if !ok {
				return
			}
		}
		k(s1, outcome{kind: cNormal})
	}
}

// taglessClause: all clauses before cc evaluate false, then (cc == nil:
// implicit empty default) or one of cc's expressions is true.
func (w *Walker[S]) taglessClause(x *ast.SwitchStmt, cc *ast.CaseClause, st S, k cont[S]) {
	var prior []ast.Expr
	for _, c := range x.Body.List {
		c := c.(*ast.CaseClause)
		if c == cc {
			break
		}
		prior = append(prior, c.List...)
	}
	if cc != nil && cc.List == nil {
		// explicit default: every other clause false
		prior = nil
		for _, c := range x.Body.List {
			prior = append(prior, c.(*ast.CaseClause).List...)
		}
	}
	var allFalse func(i int, st S, then func(S))
	allFalse = func(i int, st S, then func(S)) {
		if i == len(prior) {
			then(st)
			return
		}
		w.cond(prior[i], st, false, func(s1 S) { allFalse(i+1, s1, then) })
	}
	allFalse(0, st, func(s1 S) {
		if cc == nil {
			k(s1, outcome{kind: cNormal})
			return
		}
		if cc.List == nil {
			w.stmts(cc.Body, s1, k)
			return
		}
		// one of the expressions true: e1 | !e1&&e2 | ...
		var pick func(i int, st S)
		pick = func(i int, st S) {
			if i == len(cc.List) {
				return
			}
			w.cond(cc.List[i], w.Clone(st), true, func(s2 S) { w.stmts(cc.Body, s2, k) })
			w.cond(cc.List[i], st, false, func(s2 S) { pick(i+1, s2) })
		}
		pick(0, s1)
	})
}

func (w *Walker[S]) typeSwitch(x *ast.TypeSwitchStmt, label string, st S, k cont[S]) {
	st, ok := w.simple(x.Init, st)
	if !ok {
		return
	}
	st, ok = w.simple(x.Assign, st)
	if !ok {
		return
	}
	after := func(s2 S, o outcome) {
		if o.kind == cBreak && (o.label == "" || o.label == label) {
			k(s2, outcome{kind: cNormal})
			return
		}
		k(s2, o)
	}
	hasDefault := false
	for _, c := range x.Body.List {
		cc := c.(*ast.CaseClause)
		if cc.List == nil {
			hasDefault = true
		}
		s1 := w.Clone(st)
		if w.OnTypeCase != nil {
			var ok bool
			s1, ok = w.OnTypeCase(s1, x, cc)
			if !ok {
				continue
			}
		}
		w.stmts(cc.Body, s1, after)
	}
	if !hasDefault {
		k(st, outcome{kind: cNormal})
	}
}
