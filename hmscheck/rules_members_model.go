package main

// Shared model for the `members` rule group (R-members, R-twin-tables,
// R-eq-symmetric, R-clone-fresh, R-value-fields): the two value libraries
// (homescript/runtime/value = "vm", homescript/interpreter/value = "interp")
// and the analyzer's type library (homescript/analyzer/ast), resolved by role
// through their exported interfaces (`Value`, `Type`) and the methods of
// those interfaces. Everything below is discovered from the loaded tree; no
// member name, kind name or constructor name of the repository is typed in.

import (
	"fmt"
	"go/ast"
	"go/token"
	"go/types"
	"sort"
	"strings"

	"golang.org/x/tools/go/packages"
)

const (
	mbRelAnalyzer = "homescript/analyzer/ast"
	mbRelVM       = "homescript/runtime/value"
	mbRelInterp   = "homescript/interpreter/value"
	mbRelVMEngine = "homescript/runtime"
	mbRelInEngine = "homescript/interpreter"
)

// ---------------------------------------------------------------------------
// value library
// ---------------------------------------------------------------------------

type mbImpl struct {
	lib     *mbLib
	named   *types.Named
	st      *types.Struct
	kind    *types.Const // constant returned by Kind()
	methods map[string]*ast.FuncDecl
}

func (i *mbImpl) Name() string { return i.named.Obj().Name() }
func (i *mbImpl) KindName() string {
	if i.kind == nil {
		return "?"
	}
	return i.kind.Name()
}

type mbCtor struct {
	impl *mbImpl
	none bool // constructor chain passes a nil payload (NewNoneOption)
}

type mbLib struct {
	c      *Ctx
	rel    string
	tag    string // "vm" | "interp"
	pkg    *packages.Package
	info   *types.Info
	valueT *types.Named // interface Value
	intrT  *types.Named // interrupt interface (second result of Value.Display)
	kinds  *Enum        // ValueKind
	impls  []*mbImpl
	byType map[*types.TypeName]*mbImpl
	decls  map[*types.Func]*ast.FuncDecl
	ctors  map[*types.Func]*mbCtor
	// interrupts
	intrImpls map[*types.TypeName]*types.Const // interrupt struct -> Kind() constant
	intrCtors map[*types.Func]*types.TypeName
	callees   map[*types.Func][]*types.Func // static call edges inside the library (lazily built)
}

var mbLibCache = map[*Ctx]map[string]*mbLib{}

func mbLoadLib(c *Ctx, rel, tag string) *mbLib {
	if m := mbLibCache[c]; m != nil && m[rel] != nil {
		return m[rel]
	}
	p := c.Pkg(rel)
	l := &mbLib{c: c, rel: rel, tag: tag, pkg: p, info: p.TypesInfo,
		byType: map[*types.TypeName]*mbImpl{}, decls: map[*types.Func]*ast.FuncDecl{}, ctors: map[*types.Func]*mbCtor{},
		intrImpls: map[*types.TypeName]*types.Const{}, intrCtors: map[*types.Func]*types.TypeName{}}
	obj, _ := p.Types.Scope().Lookup("Value").(*types.TypeName)
	if obj == nil {
		fatalf("anchor unresolved: %s.Value", rel)
	}
	l.valueT, _ = obj.Type().(*types.Named)
	iface, ok := l.valueT.Underlying().(*types.Interface)
	if !ok {
		fatalf("anchor unresolved: %s.Value is not an interface", rel)
	}
	for _, m := range []string{"Kind", "Display", "IsEqual", "Fields"} {
		if o, _, _ := types.LookupFieldOrMethod(l.valueT, false, p.Types, m); o == nil {
			fatalf("anchor unresolved: %s.Value.%s", rel, m)
		}
	}
	for _, fd := range AllFuncDecls(p) {
		if fn, ok := l.info.Defs[fd.Name].(*types.Func); ok {
			l.decls[fn] = fd
		}
	}
	mbDeclsOfInfo[l.info] = l.decls
	// kind enum = result type of Value.Kind
	ko, _, _ := types.LookupFieldOrMethod(l.valueT, false, p.Types, "Kind")
	l.kinds = c.EnumOf(ko.(*types.Func).Type().(*types.Signature).Results().At(0).Type())
	if l.kinds == nil {
		fatalf("anchor unresolved: %s value kind enum", rel)
	}
	// interrupt interface = pointee of second result of Display
	do, _, _ := types.LookupFieldOrMethod(l.valueT, false, p.Types, "Display")
	if ptr, ok := do.(*types.Func).Type().(*types.Signature).Results().At(1).Type().(*types.Pointer); ok {
		l.intrT, _ = ptr.Elem().(*types.Named)
	}
	if l.intrT == nil {
		fatalf("anchor unresolved: %s interrupt interface", rel)
	}
	scope := p.Types.Scope()
	for _, name := range scope.Names() {
		tn, ok := scope.Lookup(name).(*types.TypeName)
		if !ok || tn.IsAlias() {
			continue
		}
		named, ok := tn.Type().(*types.Named)
		if !ok {
			continue
		}
		st, ok := named.Underlying().(*types.Struct)
		if !ok {
			continue
		}
		if types.Implements(named, iface) || types.Implements(types.NewPointer(named), iface) {
			im := &mbImpl{lib: l, named: named, st: st, methods: map[string]*ast.FuncDecl{}}
			for _, fd := range AllFuncDecls(p) {
				if fd.Recv != nil && recvTypeName(fd.Recv.List[0].Type) == name {
					im.methods[fd.Name.Name] = fd
				}
			}
			im.kind = mbSingleReturnConst(l.info, im.methods["Kind"])
			l.impls = append(l.impls, im)
			l.byType[tn] = im
		}
		if ii, ok := l.intrT.Underlying().(*types.Interface); ok && (types.Implements(named, ii) || types.Implements(types.NewPointer(named), ii)) {
			var kfd *ast.FuncDecl
			for _, fd := range AllFuncDecls(p) {
				if fd.Recv != nil && recvTypeName(fd.Recv.List[0].Type) == name && fd.Name.Name == "Kind" {
					kfd = fd
				}
			}
			l.intrImpls[tn] = mbSingleReturnConst(l.info, kfd)
		}
	}
	sort.Slice(l.impls, func(i, j int) bool { return l.impls[i].Name() < l.impls[j].Name() })
	if len(l.impls) < 8 {
		fatalf("anchor unresolved: only %d implementers of %s.Value", len(l.impls), rel)
	}
	// interrupt constructors: package-level funcs returning *Interrupt whose
	// body builds exactly one interrupt struct
	for fn, fd := range l.decls {
		if fd.Recv != nil {
			continue
		}
		sig := fn.Type().(*types.Signature)
		if sig.Results().Len() != 1 {
			continue
		}
		if ptr, ok := sig.Results().At(0).Type().(*types.Pointer); !ok || !types.Identical(ptr.Elem(), l.intrT) {
			continue
		}
		seen := map[*types.TypeName]bool{}
		ast.Inspect(fd.Body, func(n ast.Node) bool {
			if cl, ok := n.(*ast.CompositeLit); ok {
				if nt, ok := types.Unalias(l.info.TypeOf(cl)).(*types.Named); ok {
					if _, isI := l.intrImpls[nt.Obj()]; isI {
						seen[nt.Obj()] = true
					}
				}
			}
			return true
		})
		if len(seen) == 1 {
			for tn := range seen {
				l.intrCtors[fn] = tn
			}
		} else if len(seen) == 0 {
			// wrapper around another constructor: resolved lazily by mbErrClass
		}
	}
	if mbLibCache[c] == nil {
		mbLibCache[c] = map[string]*mbLib{}
	}
	mbLibCache[c][rel] = l
	return l
}

// mbSingleReturnConst: the constant a one-return method returns. The returned
// expression may be the constant itself, a conversion of it, a package
// constant defined as an alias of it, a local bound to it, or a call of a
// one-return function of the package that yields it (resolved through the
// typed program, three levels).
func mbSingleReturnConst(info *types.Info, fd *ast.FuncDecl) *types.Const {
	if fd == nil || fd.Body == nil {
		return nil
	}
	var out *types.Const
	n := 0
	ast.Inspect(fd.Body, func(x ast.Node) bool {
		if r, ok := x.(*ast.ReturnStmt); ok && len(r.Results) == 1 {
			n++
			out = mbResolveConst(info, fd, r.Results[0], 0)
		}
		return true
	})
	if n != 1 {
		return nil
	}
	return out
}

func mbResolveConst(info *types.Info, fd *ast.FuncDecl, e ast.Expr, depth int) *types.Const {
	if depth > 3 {
		return nil
	}
	e = ast.Unparen(e)
	if k := ConstOf(info, e); k != nil {
		return mbCanonicalConst(k)
	}
	switch x := e.(type) {
	case *ast.Ident:
		// a local defined once
		o := info.Uses[x]
		if o == nil || fd == nil {
			return nil
		}
		var def ast.Expr
		cnt := 0
		ast.Inspect(fd.Body, func(nd ast.Node) bool {
			switch y := nd.(type) {
			case *ast.AssignStmt:
				for i, lh := range y.Lhs {
					if id, ok := lh.(*ast.Ident); ok && (info.Defs[id] == o || info.Uses[id] == o) {
						cnt++
						if len(y.Lhs) == len(y.Rhs) {
							def = y.Rhs[i]
						}
					}
				}
			case *ast.ValueSpec:
				for i, nm := range y.Names {
					if info.Defs[nm] == o {
						cnt++
						if i < len(y.Values) {
							def = y.Values[i]
						}
					}
				}
			}
			return true
		})
		if cnt == 1 && def != nil {
			return mbResolveConst(info, fd, def, depth+1)
		}
	case *ast.CallExpr:
		// conversion
		if tv, ok := info.Types[x.Fun]; ok && tv.IsType() && len(x.Args) == 1 {
			return mbResolveConst(info, fd, x.Args[0], depth+1)
		}
		// one-return function of the package
		if fn := CalleeOf(info, x); fn != nil {
			if hd := mbDeclsOfInfo[info][fn]; hd != nil && hd.Body != nil {
				var res *types.Const
				cnt := 0
				mbInspectNoLit(hd.Body, func(nd ast.Node) bool {
					if r, ok := nd.(*ast.ReturnStmt); ok && len(r.Results) == 1 {
						cnt++
						res = mbResolveConst(info, hd, r.Results[0], depth+1)
					}
					return true
				})
				if cnt == 1 {
					return res
				}
			}
		}
	}
	return nil
}

// mbCanonicalConst: a package constant defined as another name for a member
// of a constant enumeration (`const indexKind = IndexExpressionKind`) stands for
// that member: the exported constant of the same named type and value, when
// there is exactly one.
func mbCanonicalConst(k *types.Const) *types.Const {
	if k.Pkg() == nil || k.Exported() {
		return k
	}
	if _, named := types.Unalias(k.Type()).(*types.Named); !named {
		return k
	}
	var cand []*types.Const
	sc := k.Pkg().Scope()
	for _, nm := range sc.Names() {
		if o, ok := sc.Lookup(nm).(*types.Const); ok && o != k && o.Exported() && types.Identical(o.Type(), k.Type()) && o.Val().ExactString() == k.Val().ExactString() {
			cand = append(cand, o)
		}
	}
	if len(cand) == 1 {
		return cand[0]
	}
	return k
}

func (l *mbLib) implOfType(t types.Type) *mbImpl {
	if t == nil {
		return nil
	}
	if p, ok := t.(*types.Pointer); ok {
		t = p.Elem()
	}
	if n, ok := types.Unalias(t).(*types.Named); ok {
		return l.byType[n.Obj()]
	}
	return nil
}

func (l *mbLib) isValueIface(t types.Type) bool {
	return t != nil && types.Identical(t, l.valueT)
}

func (l *mbLib) isValuePtr(t types.Type) bool {
	p, ok := t.(*types.Pointer)
	return ok && types.Identical(p.Elem(), l.valueT)
}

// ctorOf resolves a function/method of the library returning *Value to the
// value struct it builds (following wrappers up to 3 levels).
func (l *mbLib) ctorOf(fn *types.Func) *mbCtor { return l.ctorOfDepth(fn, 0) }

func (l *mbLib) ctorOfDepth(fn *types.Func, depth int) *mbCtor {
	if fn == nil {
		return nil
	}
	if c, ok := l.ctors[fn]; ok {
		return c
	}
	fd := l.decls[fn]
	if fd == nil || depth > 3 {
		return nil
	}
	sig := fn.Type().(*types.Signature)
	if sig.Results().Len() < 1 || !l.isValuePtr(sig.Results().At(0).Type()) {
		return nil
	}
	l.ctors[fn] = nil // cycle guard
	seen := map[*mbImpl]bool{}
	mbInspectNoLit(fd.Body, func(n ast.Node) bool {
		if cl, ok := n.(*ast.CompositeLit); ok {
			if im := l.implOfType(l.info.TypeOf(cl)); im != nil {
				seen[im] = true
			}
		}
		return true
	})
	var res *mbCtor
	if len(seen) == 1 {
		for im := range seen {
			res = &mbCtor{impl: im}
		}
	} else if len(seen) == 0 {
		// all returns delegate to one constructor
		var got *mbCtor
		okAll := true
		n := 0
		mbInspectNoLit(fd.Body, func(x ast.Node) bool {
			r, ok := x.(*ast.ReturnStmt)
			if !ok || len(r.Results) == 0 {
				return true
			}
			n++
			call, ok := ast.Unparen(r.Results[0]).(*ast.CallExpr)
			if !ok {
				okAll = false
				return true
			}
			cc := l.ctorOfDepth(CalleeOf(l.info, call), depth+1)
			if cc == nil {
				okAll = false
				return true
			}
			cand := &mbCtor{impl: cc.impl, none: cc.none}
			for _, a := range call.Args {
				if id, ok := ast.Unparen(a).(*ast.Ident); ok && id.Name == "nil" && l.info.Uses[id] == types.Universe.Lookup("nil") {
					cand.none = true
				}
			}
			if got != nil && (got.impl != cand.impl || got.none != cand.none) {
				okAll = false
			}
			got = cand
			return true
		})
		if okAll && n > 0 {
			res = got
		}
	}
	l.ctors[fn] = res
	return res
}

// valueOfCall: the value struct a call expression builds, if its callee is a
// constructor of this library.
func (l *mbLib) valueOfCall(e ast.Expr) *mbCtor {
	call, ok := ast.Unparen(e).(*ast.CallExpr)
	if !ok {
		return nil
	}
	fn := CalleeOf(l.info, call)
	if fn == nil || fn.Pkg() != l.pkg.Types {
		return nil
	}
	cc := l.ctorOf(fn)
	if cc == nil {
		return nil
	}
	out := &mbCtor{impl: cc.impl, none: cc.none}
	return out
}

// errClass: the interrupt-kind constant name of an interrupt built by e
// ("" when e is not an interrupt constructor call of this library).
func (l *mbLib) errClass(e ast.Expr) string { return l.errClassDepth(l.info, e, 0) }

// errClassIn: same, for an expression of another package (the engine).
func (l *mbLib) errClassIn(info *types.Info, e ast.Expr) string { return l.errClassDepth(info, e, 0) }

func (l *mbLib) errClassDepth(info *types.Info, e ast.Expr, depth int) string {
	call, ok := ast.Unparen(e).(*ast.CallExpr)
	if !ok || depth > 3 {
		return ""
	}
	fn := CalleeOf(info, call)
	if fn == nil {
		return ""
	}
	if tn, ok := l.intrCtors[fn]; ok {
		if k := l.intrImpls[tn]; k != nil {
			return k.Name()
		}
		return "?" + tn.Name()
	}
	// wrapper: func returning *Interrupt whose single return is a ctor call
	if fd := l.decls[fn]; fd != nil && fd.Recv == nil {
		sig := fn.Type().(*types.Signature)
		if sig.Results().Len() == 1 {
			if ptr, ok := sig.Results().At(0).Type().(*types.Pointer); ok && types.Identical(ptr.Elem(), l.intrT) {
				// every return builds an interrupt of one class (a function that
				// also returns nil is a check, not a constructor)
				cls, all := "", true
				mbInspectNoLit(fd.Body, func(x ast.Node) bool {
					if r, ok := x.(*ast.ReturnStmt); ok && len(r.Results) == 1 {
						c := l.errClassDepth(l.info, r.Results[0], depth+1)
						if c == "" || (cls != "" && c != cls) {
							all = false
						}
						if c != "" {
							cls = c
						}
					}
					return true
				})
				if !all {
					return ""
				}
				return cls
			}
		}
	}
	return ""
}

// mbTwin strips the VM twin's naming prefix so that constant names of the two
// libraries can be compared.
func mbTwin(s string) string {
	s = strings.TrimPrefix(s, "Vm_")
	s = strings.TrimPrefix(s, "VM")
	return s
}

// mbInspectNoLit walks n without entering nested function literals.
func mbInspectNoLit(n ast.Node, f func(ast.Node) bool) {
	if n == nil {
		return
	}
	ast.Inspect(n, func(x ast.Node) bool {
		if x == nil {
			return false
		}
		if _, ok := x.(*ast.FuncLit); ok && x != n {
			return false
		}
		return f(x)
	})
}

func mbIsNil(info *types.Info, e ast.Expr) bool {
	id, ok := ast.Unparen(e).(*ast.Ident)
	if !ok || id.Name != "nil" {
		return false
	}
	_, isNil := info.Uses[id].(*types.Nil)
	return isNil
}

// ---------------------------------------------------------------------------
// table extraction (shared by the analyzer and the two runtimes)
// ---------------------------------------------------------------------------

type mbCondCtx struct {
	cond    ast.Expr // if condition
	neg     bool     // else branch
	sw      *ast.SwitchStmt
	clause  *ast.CaseClause
	loop    ast.Stmt // enclosing range/for
	typeSw  *ast.TypeSwitchStmt
	tclause *ast.CaseClause
}

type mbEntry struct {
	key   string
	val   ast.Expr
	pos   token.Pos
	guard []mbCondCtx
	enc   *ast.FuncDecl // the function the value expression is written in
	recv  types.Object  // the object that plays the receiver of Fields() there
}

type mbTable struct {
	entries []mbEntry
	dynamic []token.Pos // assignments with non-constant keys (object fields)
	panics  bool        // the method unconditionally panics (kind has no members)
	ok      bool
	why     string
}

func (t *mbTable) find(key string) []mbEntry {
	var out []mbEntry
	for _, e := range t.entries {
		if e.key == key {
			out = append(out, e)
		}
	}
	return out
}

// mbVisitStmts walks statements keeping the stack of enclosing conditions; it
// does not enter function literals.
func mbVisitStmts(list []ast.Stmt, stack []mbCondCtx, f func(s ast.Stmt, stack []mbCondCtx)) {
	for _, s := range list {
		mbVisitStmt(s, stack, f)
	}
}

func mbPush(stack []mbCondCtx, c mbCondCtx) []mbCondCtx {
	out := make([]mbCondCtx, len(stack)+1)
	copy(out, stack)
	out[len(stack)] = c
	return out
}

func mbVisitStmt(s ast.Stmt, stack []mbCondCtx, f func(s ast.Stmt, stack []mbCondCtx)) {
	if s == nil {
		return
	}
	f(s, stack)
	switch x := s.(type) {
	case *ast.BlockStmt:
		mbVisitStmts(x.List, stack, f)
	case *ast.LabeledStmt:
		mbVisitStmt(x.Stmt, stack, f)
	case *ast.IfStmt:
		mbVisitStmt(x.Init, stack, f)
		mbVisitStmts(x.Body.List, mbPush(stack, mbCondCtx{cond: x.Cond}), f)
		if x.Else != nil {
			mbVisitStmt(x.Else, mbPush(stack, mbCondCtx{cond: x.Cond, neg: true}), f)
		}
	case *ast.SwitchStmt:
		mbVisitStmt(x.Init, stack, f)
		for _, c := range x.Body.List {
			cc := c.(*ast.CaseClause)
			mbVisitStmts(cc.Body, mbPush(stack, mbCondCtx{sw: x, clause: cc}), f)
		}
	case *ast.TypeSwitchStmt:
		mbVisitStmt(x.Init, stack, f)
		for _, c := range x.Body.List {
			cc := c.(*ast.CaseClause)
			mbVisitStmts(cc.Body, mbPush(stack, mbCondCtx{typeSw: x, tclause: cc}), f)
		}
	case *ast.ForStmt:
		mbVisitStmt(x.Init, stack, f)
		mbVisitStmt(x.Post, mbPush(stack, mbCondCtx{loop: x}), f)
		mbVisitStmts(x.Body.List, mbPush(stack, mbCondCtx{loop: x}), f)
	case *ast.RangeStmt:
		mbVisitStmts(x.Body.List, mbPush(stack, mbCondCtx{loop: x}), f)
	}
}

// mbExtractTable reads a `Fields()` method: the returned map literal, or a
// local map literal extended by (guarded) `m["k"] = v` assignments. The table
// may be built by a helper of the package (`return self.members(), nil`,
// `return rangeMembers(span)`, `m := baseMembers(self); m["x"] = …`): the
// helper's body is read the same way (two levels); every entry remembers the
// function its value expression is written in and the object that plays the
// receiver there.
var mbDeclsOfInfo = map[*types.Info]map[*types.Func]*ast.FuncDecl{}

func mbExtractTable(info *types.Info, fd *ast.FuncDecl) mbTable {
	decls := mbDeclsOfInfo[info] // registered by mbLoadLib / mbLoadAn
	var t mbTable
	if fd == nil || fd.Body == nil {
		t.why = "no Fields method"
		return t
	}
	if len(fd.Body.List) == 1 && IsPanicCall(info, fd.Body.List[0]) {
		t.panics, t.ok = true, true
		return t
	}
	if bad := mbExtractInto(&t, info, fd, decls, mbRecvObj(info, fd), nil, 0); bad != "" {
		t.why = bad
		t.entries, t.dynamic = nil, nil
		return t
	}
	t.ok = true
	return t
}

// mbHelperTable: call is a call of a package function/method with a body;
// returns its declaration and the object that stands for `recv` inside it
// (its own receiver when called on recv, or the parameter recv is passed as).
func mbHelperTable(info *types.Info, call *ast.CallExpr, decls map[*types.Func]*ast.FuncDecl, recv types.Object) (*ast.FuncDecl, types.Object) {
	fn := CalleeOf(info, call)
	if fn == nil || decls == nil {
		return nil, nil
	}
	hd := decls[fn]
	if hd == nil || hd.Body == nil {
		return nil, nil
	}
	var inner types.Object
	isRecv := func(e ast.Expr) bool {
		id, ok := ast.Unparen(e).(*ast.Ident)
		return ok && recv != nil && info.Uses[id] == recv
	}
	if sel, ok := call.Fun.(*ast.SelectorExpr); ok && isRecv(sel.X) {
		inner = mbRecvObj(info, hd)
	}
	i := 0
	for _, f := range hd.Type.Params.List {
		for _, nm := range f.Names {
			if i < len(call.Args) && isRecv(call.Args[i]) {
				inner = info.Defs[nm]
			}
			i++
		}
	}
	return hd, inner
}

// mbCopiedTable: the assignment `target[key] = val` copies a local table into
// the result: key and val are the variables of an enclosing
// `for key, val := range src` over a local map `src` that is defined once, by a
// map literal, and every condition between that loop and the assignment is a
// presence test on the target (`if _, taken := target[key]; !taken`). Returns
// the literal and the conditions outside the loop.
func mbCopiedTable(info *types.Info, fd *ast.FuncDecl, key, val ast.Expr, stack []mbCondCtx, target types.Object) (*ast.CompositeLit, []mbCondCtx) {
	kid, ok := ast.Unparen(key).(*ast.Ident)
	if !ok {
		return nil, nil
	}
	vid, ok := ast.Unparen(val).(*ast.Ident)
	if !ok {
		return nil, nil
	}
	li := -1
	for i, g := range stack {
		if g.loop != nil {
			li = i
		}
	}
	if li < 0 {
		return nil, nil
	}
	rs, ok := stack[li].loop.(*ast.RangeStmt)
	if !ok {
		return nil, nil
	}
	rk, ok1 := rs.Key.(*ast.Ident)
	rv, ok2 := rs.Value.(*ast.Ident)
	if !ok1 || !ok2 || info.Defs[rk] == nil || info.Uses[kid] != info.Defs[rk] || info.Uses[vid] != info.Defs[rv] {
		return nil, nil
	}
	sid, ok := ast.Unparen(rs.X).(*ast.Ident)
	if !ok {
		return nil, nil
	}
	src := info.Uses[sid]
	if src == nil || src == target {
		return nil, nil
	}
	// conditions inside the loop: presence tests on the target only
	for _, g := range stack[li+1:] {
		if g.cond == nil {
			return nil, nil
		}
		okTest := false
		mbInspectNoLit(fd.Body, func(n ast.Node) bool {
			ifs, isIf := n.(*ast.IfStmt)
			if !isIf || ifs.Cond != g.cond {
				return true
			}
			if as, isAs := ifs.Init.(*ast.AssignStmt); isAs && len(as.Lhs) == 2 && len(as.Rhs) == 1 {
				if ix, isIx := ast.Unparen(as.Rhs[0]).(*ast.IndexExpr); isIx {
					if tid, isId := ast.Unparen(ix.X).(*ast.Ident); isId && info.Uses[tid] == target {
						okTest = true
					}
				}
			}
			return true
		})
		if !okTest {
			return nil, nil
		}
	}
	// the source: defined once, by a literal
	var lit *ast.CompositeLit
	ndef := 0
	mbInspectNoLit(fd.Body, func(n ast.Node) bool {
		switch x := n.(type) {
		case *ast.AssignStmt:
			for i, lh := range x.Lhs {
				id, isId := lh.(*ast.Ident)
				if !isId {
					// src[k] = … : the source is modified, not a plain literal table
					if ix, isIx := lh.(*ast.IndexExpr); isIx {
						if bid, isB := ast.Unparen(ix.X).(*ast.Ident); isB && info.Uses[bid] == src {
							ndef += 2
						}
					}
					continue
				}
				o := info.Defs[id]
				if o == nil {
					o = info.Uses[id]
				}
				if o != src {
					continue
				}
				ndef++
				if len(x.Lhs) == len(x.Rhs) {
					lit, _ = ast.Unparen(x.Rhs[i]).(*ast.CompositeLit)
				}
			}
		case *ast.ValueSpec:
			for i, nm := range x.Names {
				if info.Defs[nm] == src {
					ndef++
					if i < len(x.Values) {
						lit, _ = ast.Unparen(x.Values[i]).(*ast.CompositeLit)
					}
				}
			}
		}
		return true
	})
	if ndef != 1 || lit == nil {
		return nil, nil
	}
	return lit, stack[:li]
}

func mbExtractInto(t *mbTable, info *types.Info, fd *ast.FuncDecl, decls map[*types.Func]*ast.FuncDecl, recv types.Object, outer []mbCondCtx, depth int) string {
	var mapVar types.Object
	var lit *ast.CompositeLit
	nret := 0
	bad := ""
	addLit := func(cl *ast.CompositeLit, stack []mbCondCtx) {
		for _, el := range cl.Elts {
			kv, ok := el.(*ast.KeyValueExpr)
			if !ok {
				bad = "map literal element without key"
				continue
			}
			tv := info.Types[kv.Key]
			if tv.Value == nil {
				bad = "map literal key is not a constant: " + exprStr(kv.Key)
				continue
			}
			t.entries = append(t.entries, mbEntry{key: strings.Trim(tv.Value.ExactString(), `"`), val: kv.Value, pos: kv.Pos(), guard: stack, enc: fd, recv: recv})
		}
	}
	isMapMake := func(e ast.Expr) bool {
		call, ok := ast.Unparen(e).(*ast.CallExpr)
		if !ok {
			return false
		}
		id, ok := call.Fun.(*ast.Ident)
		if !ok {
			return false
		}
		b, ok := info.Uses[id].(*types.Builtin)
		return ok && b.Name() == "make"
	}
	// a table computed by a helper of the package
	viaHelper := func(call *ast.CallExpr, stack []mbCondCtx) bool {
		if depth >= 2 {
			return false
		}
		hd, inner := mbHelperTable(info, call, decls, recv)
		if hd == nil || hd == fd {
			return false
		}
		if len(hd.Body.List) == 1 && IsPanicCall(info, hd.Body.List[0]) {
			return false
		}
		if sub := mbExtractInto(t, info, hd, decls, inner, append(append([]mbCondCtx(nil), outer...), stack...), depth+1); sub != "" {
			bad = "table computed by " + exprStr(call.Fun) + ": " + sub
		}
		return true
	}
	join := func(stack []mbCondCtx) []mbCondCtx {
		if len(outer) == 0 {
			return stack
		}
		return append(append([]mbCondCtx(nil), outer...), stack...)
	}
	mbVisitStmts(fd.Body.List, nil, func(s ast.Stmt, stack []mbCondCtx) {
		r, ok := s.(*ast.ReturnStmt)
		if !ok || len(r.Results) == 0 {
			return
		}
		nret++
		switch x := ast.Unparen(r.Results[0]).(type) {
		case *ast.CompositeLit:
			if len(stack) != 0 {
				bad = "table literal returned under a condition"
			}
			lit = x
		case *ast.Ident:
			mapVar = info.Uses[x]
		case *ast.CallExpr:
			if !isMapMake(x) {
				if len(stack) != 0 || !viaHelper(x, stack) {
					bad = "returned table is computed by " + exprStr(x.Fun)
				}
			}
		default:
			bad = "unsupported return shape " + exprStr(r.Results[0])
		}
	})
	if nret != 1 {
		return fmt.Sprintf("%d return statements in %s (expected 1)", nret, FuncName(fd))
	}
	if lit != nil {
		addLit(lit, join(nil))
	}
	if mapVar != nil {
		defined := false
		def := func(rhs ast.Expr, stack []mbCondCtx) {
			if defined {
				bad = "table variable assigned twice"
			}
			defined = true
			switch rx := ast.Unparen(rhs).(type) {
			case *ast.CompositeLit:
				if len(stack) != 0 {
					bad = "table variable defined under a condition"
				}
				addLit(rx, join(nil))
			case *ast.CallExpr:
				if !isMapMake(rx) {
					if len(stack) != 0 || !viaHelper(rx, stack) {
						bad = "table variable computed by " + exprStr(rx.Fun)
					}
				}
			default:
				bad = "table variable defined by " + exprStr(rhs)
			}
		}
		mbVisitStmts(fd.Body.List, nil, func(s ast.Stmt, stack []mbCondCtx) {
			switch x := s.(type) {
			case *ast.DeclStmt:
				if gd, ok := x.Decl.(*ast.GenDecl); ok {
					for _, sp := range gd.Specs {
						if vs, ok := sp.(*ast.ValueSpec); ok {
							for i, nm := range vs.Names {
								if info.Defs[nm] == mapVar && i < len(vs.Values) {
									def(vs.Values[i], stack)
								}
							}
						}
					}
				}
			case *ast.AssignStmt:
				as := x
				for i, lhs := range as.Lhs {
					switch lx := lhs.(type) {
					case *ast.Ident:
						o := info.Defs[lx]
						if o == nil {
							o = info.Uses[lx]
						}
						if o != mapVar {
							continue
						}
						if len(as.Lhs) != len(as.Rhs) {
							if len(as.Rhs) == 1 && i == 0 {
								def(as.Rhs[0], stack) // m, err := helper(...)
							}
							continue
						}
						def(as.Rhs[i], stack)
					case *ast.IndexExpr:
						id, ok := ast.Unparen(lx.X).(*ast.Ident)
						if !ok || info.Uses[id] != mapVar || i >= len(as.Rhs) {
							continue
						}
						if tv := info.Types[lx.Index]; tv.Value != nil {
							t.entries = append(t.entries, mbEntry{key: strings.Trim(tv.Value.ExactString(), `"`), val: as.Rhs[i], pos: as.Pos(), guard: join(stack), enc: fd, recv: recv})
						} else if src, outerStack := mbCopiedTable(info, fd, lx.Index, as.Rhs[i], stack, mapVar); src != nil {
							// `for k, v := range builtins { fields[k] = v }`: the entries of
							// the local table `builtins` (a literal with constant keys)
							addLit(src, join(outerStack))
						} else {
							t.dynamic = append(t.dynamic, as.Pos())
						}
					}
				}
			}
		})
		if !defined {
			bad = "definition of the table variable not found"
		}
	}
	return bad
}

// ---------------------------------------------------------------------------
// analyzer type library
// ---------------------------------------------------------------------------

type mbAnImpl struct {
	named  *types.Named
	st     *types.Struct
	kind   *types.Const
	fields *ast.FuncDecl
	table  mbTable
}

type mbAn struct {
	c      *Ctx
	pkg    *packages.Package
	info   *types.Info
	typeT  *types.Named
	impls  []*mbAnImpl
	byType map[*types.TypeName]*mbAnImpl
	byKind map[string]*mbAnImpl
	kinds  []string // universe: kind constants of the implementers
	decls  map[*types.Func]*ast.FuncDecl
	// single-definition locals of the Fields method under evaluation
	curDefs map[types.Object]ast.Expr
}

var mbAnCache = map[*Ctx]*mbAn{}

func mbLoadAn(c *Ctx) *mbAn {
	if a := mbAnCache[c]; a != nil {
		return a
	}
	p := c.Pkg(mbRelAnalyzer)
	a := &mbAn{c: c, pkg: p, info: p.TypesInfo, byType: map[*types.TypeName]*mbAnImpl{}, byKind: map[string]*mbAnImpl{}, decls: map[*types.Func]*ast.FuncDecl{}}
	obj, _ := p.Types.Scope().Lookup("Type").(*types.TypeName)
	if obj == nil {
		fatalf("anchor unresolved: %s.Type", mbRelAnalyzer)
	}
	a.typeT, _ = obj.Type().(*types.Named)
	iface, ok := a.typeT.Underlying().(*types.Interface)
	if !ok {
		fatalf("anchor unresolved: %s.Type is not an interface", mbRelAnalyzer)
	}
	if o, _, _ := types.LookupFieldOrMethod(a.typeT, false, p.Types, "Fields"); o == nil {
		fatalf("anchor unresolved: %s.Type.Fields", mbRelAnalyzer)
	}
	for _, fd := range AllFuncDecls(p) {
		if fn, ok := a.info.Defs[fd.Name].(*types.Func); ok {
			a.decls[fn] = fd
		}
	}
	mbDeclsOfInfo[a.info] = a.decls
	scope := p.Types.Scope()
	for _, name := range scope.Names() {
		tn, ok := scope.Lookup(name).(*types.TypeName)
		if !ok || tn.IsAlias() {
			continue
		}
		named, ok := tn.Type().(*types.Named)
		if !ok {
			continue
		}
		st, ok := named.Underlying().(*types.Struct)
		if !ok || !(types.Implements(named, iface) || types.Implements(types.NewPointer(named), iface)) {
			continue
		}
		im := &mbAnImpl{named: named, st: st}
		for _, fd := range AllFuncDecls(p) {
			if fd.Recv == nil || recvTypeName(fd.Recv.List[0].Type) != name {
				continue
			}
			switch fd.Name.Name {
			case "Kind":
				im.kind = mbSingleReturnConst(a.info, fd)
			case "Fields":
				im.fields = fd
			}
		}
		if im.kind == nil {
			fatalf("anchor unresolved: %s.%s.Kind does not return one constant", mbRelAnalyzer, name)
		}
		im.table = mbExtractTable(a.info, im.fields)
		a.impls = append(a.impls, im)
		a.byType[tn] = im
		a.byKind[im.kind.Name()] = im
		a.kinds = append(a.kinds, im.kind.Name())
	}
	sort.Slice(a.impls, func(i, j int) bool { return a.impls[i].named.Obj().Name() < a.impls[j].named.Obj().Name() })
	sort.Strings(a.kinds)
	if len(a.impls) < 8 {
		fatalf("anchor unresolved: only %d implementers of analyzer Type", len(a.impls))
	}
	mbAnCache[c] = a
	return a
}

func (a *mbAn) isTypeIface(t types.Type) bool { return t != nil && types.Identical(t, a.typeT) }

// mbType is the abstract shape of an analyzer type expression.
type mbType struct {
	Kind    string // kind constant name, "" when generic
	Generic string // e.g. "self.Inner": type parameter of the receiver
	Inner   *mbType
	Fn      *mbFnSig
	Bad     string // could not be evaluated
}

type mbFnSig struct {
	Params   []*mbType
	Variadic bool
	Ret      *mbType
}

func (t *mbType) String() string {
	if t == nil {
		return "<nil>"
	}
	if t.Bad != "" {
		return "?(" + t.Bad + ")"
	}
	if t.Generic != "" {
		return "<" + t.Generic + ">"
	}
	s := strings.TrimSuffix(t.Kind, "TypeKind")
	if t.Fn != nil {
		var ps []string
		for _, p := range t.Fn.Params {
			ps = append(ps, p.String())
		}
		v := ""
		if t.Fn.Variadic {
			v = "..."
		}
		return "fn(" + strings.Join(ps, ", ") + v + ") -> " + t.Fn.Ret.String()
	}
	if t.Inner != nil {
		return s + "[" + t.Inner.String() + "]"
	}
	return s
}

// ctorFields: for a call of a package function whose body returns a composite
// literal of a struct, the argument expression bound to each struct field.
func (a *mbAn) ctorFields(call *ast.CallExpr) (st *types.Named, fields map[string]ast.Expr) {
	fn := CalleeOf(a.info, call)
	if fn == nil || fn.Pkg() != a.pkg.Types {
		return nil, nil
	}
	fd := a.decls[fn]
	if fd == nil || fd.Recv != nil {
		return nil, nil
	}
	var lit *ast.CompositeLit
	n := 0
	mbInspectNoLit(fd.Body, func(x ast.Node) bool {
		if cl, ok := x.(*ast.CompositeLit); ok {
			if nt, ok := types.Unalias(a.info.TypeOf(cl)).(*types.Named); ok {
				if _, isS := nt.Underlying().(*types.Struct); isS {
					n++
					lit = cl
					st = nt
					return false
				}
			}
		}
		return true
	})
	if n != 1 {
		return nil, nil
	}
	params := map[types.Object]int{}
	idx := 0
	for _, f := range fd.Type.Params.List {
		for _, nm := range f.Names {
			params[a.info.Defs[nm]] = idx
			idx++
		}
	}
	fields = map[string]ast.Expr{}
	for _, el := range lit.Elts {
		kv, ok := el.(*ast.KeyValueExpr)
		if !ok {
			continue
		}
		k, ok := kv.Key.(*ast.Ident)
		if !ok {
			continue
		}
		if id, ok := ast.Unparen(kv.Value).(*ast.Ident); ok {
			if pi, isP := params[a.info.Uses[id]]; isP && pi < len(call.Args) {
				fields[k.Name] = call.Args[pi]
			}
		}
	}
	return st, fields
}

// evalType evaluates a type-building expression inside a Fields() method.
func (a *mbAn) evalType(e ast.Expr, recv types.Object) *mbType {
	e = ast.Unparen(e)
	switch x := e.(type) {
	case *ast.SelectorExpr:
		// self.F where F has the interface type Type: a type parameter
		if id, ok := ast.Unparen(x.X).(*ast.Ident); ok && a.info.Uses[id] == recv && a.isTypeIface(a.info.TypeOf(x)) {
			return &mbType{Generic: "self." + x.Sel.Name}
		}
	case *ast.CallExpr:
		// kind-preserving methods of the Type interface on a type expression (SetSpan)
		if sel, ok := x.Fun.(*ast.SelectorExpr); ok {
			if a.isTypeIface(a.info.TypeOf(sel.X)) && a.isTypeIface(a.info.TypeOf(x)) {
				return a.evalType(sel.X, recv)
			}
		}
		st, fields := a.ctorFields(x)
		if st == nil {
			return &mbType{Bad: "call of " + exprStr(x.Fun) + " is not a type constructor"}
		}
		im := a.byType[st.Obj()]
		if im == nil {
			return &mbType{Bad: exprStr(x.Fun) + " builds " + st.Obj().Name() + ", not a Type"}
		}
		t := &mbType{Kind: im.kind.Name()}
		// fields of interface type Type: inner / return type; a field whose
		// type is another interface of the package: parameter list
		for i := 0; i < im.st.NumFields(); i++ {
			f := im.st.Field(i)
			arg := fields[f.Name()]
			switch {
			case a.isTypeIface(f.Type()):
				if arg == nil {
					continue
				}
				sub := a.evalType(arg, recv)
				if a.isParamListField(im) {
					if t.Fn == nil {
						t.Fn = &mbFnSig{}
					}
					t.Fn.Ret = sub
				} else {
					t.Inner = sub
				}
			case a.isParamKindIface(f.Type()):
				if t.Fn == nil {
					t.Fn = &mbFnSig{}
				}
				if arg == nil {
					t.Fn.Params = []*mbType{{Bad: "parameter list not passed"}}
					continue
				}
				ps, variadic, bad := a.evalParams(arg, recv)
				t.Fn.Params, t.Fn.Variadic = ps, variadic
				if bad != "" {
					t.Fn.Params = append(t.Fn.Params, &mbType{Bad: bad})
				}
			}
		}
		return t
	}
	return &mbType{Bad: "unsupported type expression " + exprStr(e)}
}

// isParamKindIface: an interface of the analyzer package (other than Type)
// implemented by structs that carry parameter lists.
func (a *mbAn) isParamKindIface(t types.Type) bool {
	n, ok := types.Unalias(t).(*types.Named)
	if !ok || n.Obj().Pkg() != a.pkg.Types || types.Identical(n, a.typeT) {
		return false
	}
	_, isI := n.Underlying().(*types.Interface)
	return isI
}

func (a *mbAn) isParamListField(im *mbAnImpl) bool {
	for i := 0; i < im.st.NumFields(); i++ {
		if a.isParamKindIface(im.st.Field(i).Type()) {
			return true
		}
	}
	return false
}

// evalParams evaluates the parameter-list argument of the function type
// constructor.
func (a *mbAn) evalParams(e ast.Expr, recv types.Object) (ps []*mbType, variadic bool, bad string) {
	call, ok := ast.Unparen(e).(*ast.CallExpr)
	if !ok {
		return nil, false, "parameter list is not a constructor call: " + exprStr(e)
	}
	st, fields := a.ctorFields(call)
	if st == nil {
		return nil, false, "parameter list constructor unresolved: " + exprStr(call.Fun)
	}
	sst := st.Underlying().(*types.Struct)
	for i := 0; i < sst.NumFields(); i++ {
		f := sst.Field(i)
		arg := fields[f.Name()]
		if a.isTypeIface(f.Type()) {
			variadic = true // a "remaining type" field
			continue
		}
		sl, ok := f.Type().(*types.Slice)
		if !ok || arg == nil {
			continue
		}
		switch ax := ast.Unparen(arg).(type) {
		case *ast.CallExpr: // make([]T, 0)
			if id, ok := ax.Fun.(*ast.Ident); ok {
				if b, ok := a.info.Uses[id].(*types.Builtin); ok && b.Name() == "make" {
					if len(ax.Args) >= 2 {
						if tv := a.info.Types[ax.Args[1]]; tv.Value != nil && tv.Value.ExactString() == "0" {
							continue
						}
					}
				}
			}
			return nil, variadic, "parameter slice built by " + exprStr(ax)
		case *ast.CompositeLit:
			for _, el := range ax.Elts {
				if a.isTypeIface(sl.Elem()) {
					ps = append(ps, a.evalType(el, recv))
					continue
				}
				pc, ok := ast.Unparen(el).(*ast.CallExpr)
				if !ok {
					return nil, variadic, "parameter element " + exprStr(el)
				}
				_, pf := a.ctorFields(pc)
				var pt *mbType
				if pst, ok := types.Unalias(sl.Elem()).(*types.Named); ok {
					if ps2, ok := pst.Underlying().(*types.Struct); ok {
						for j := 0; j < ps2.NumFields(); j++ {
							if a.isTypeIface(ps2.Field(j).Type()) && pf[ps2.Field(j).Name()] != nil {
								pt = a.evalType(pf[ps2.Field(j).Name()], recv)
							}
						}
					}
				}
				if pt == nil {
					pt = &mbType{Bad: "parameter type not found in " + exprStr(el)}
				}
				ps = append(ps, pt)
			}
		default:
			return nil, variadic, "parameter slice " + exprStr(arg)
		}
	}
	return ps, variadic, ""
}

// ---------------------------------------------------------------------------
// kind predicates of the analyzer (guards of conditional members)
// ---------------------------------------------------------------------------

type mbKindSet map[string]bool

func (s mbKindSet) String() string {
	var out []string
	for k := range s {
		out = append(out, strings.TrimSuffix(strings.TrimSuffix(k, "TypeKind"), "ValueKind"))
	}
	sort.Strings(out)
	return "{" + strings.Join(out, ",") + "}"
}

func (a *mbAn) universe() mbKindSet {
	u := mbKindSet{}
	for _, k := range a.kinds {
		u[k] = true
	}
	return u
}

func (a *mbAn) complement(s mbKindSet) mbKindSet {
	out := mbKindSet{}
	for _, k := range a.kinds {
		if !s[k] {
			out[k] = true
		}
	}
	return out
}

// kindOfExprSubject: e is `<subject>.Kind()` with subject of interface type
// Type → subject string.
func (a *mbAn) kindCallSubject(e ast.Expr) (string, bool) {
	if id, ok := ast.Unparen(e).(*ast.Ident); ok && a.curDefs != nil {
		if d := a.curDefs[a.info.Uses[id]]; d != nil {
			return a.kindCallSubject(d)
		}
	}
	call, ok := ast.Unparen(e).(*ast.CallExpr)
	if !ok || len(call.Args) != 0 {
		return "", false
	}
	sel, ok := call.Fun.(*ast.SelectorExpr)
	if !ok || sel.Sel.Name != "Kind" || !a.isTypeIface(a.info.TypeOf(sel.X)) {
		return "", false
	}
	return exprStr(sel.X), true
}

// predKinds evaluates a boolean guard over the kind of one subject into the
// set of kinds for which it holds.
func (a *mbAn) predKinds(e ast.Expr) (subject string, set mbKindSet, why string) {
	e = ast.Unparen(e)
	switch x := e.(type) {
	case *ast.UnaryExpr:
		if x.Op == token.NOT {
			s, set, why := a.predKinds(x.X)
			if why != "" {
				return "", nil, why
			}
			return s, a.complement(set), ""
		}
	case *ast.BinaryExpr:
		switch x.Op {
		case token.LOR, token.LAND:
			s1, k1, w1 := a.predKinds(x.X)
			s2, k2, w2 := a.predKinds(x.Y)
			if w1 != "" {
				return "", nil, w1
			}
			if w2 != "" {
				return "", nil, w2
			}
			if s1 != s2 {
				return "", nil, "guard mixes subjects " + s1 + " and " + s2
			}
			out := mbKindSet{}
			for _, k := range a.kinds {
				if (x.Op == token.LOR && (k1[k] || k2[k])) || (x.Op == token.LAND && k1[k] && k2[k]) {
					out[k] = true
				}
			}
			return s1, out, ""
		case token.EQL, token.NEQ:
			subj, ok := a.kindCallSubject(x.X)
			ce := x.Y
			if !ok {
				subj, ok = a.kindCallSubject(x.Y)
				ce = x.X
			}
			if !ok {
				break
			}
			k := ConstOf(a.info, ce)
			if k == nil {
				return "", nil, "comparison with non-constant " + exprStr(ce)
			}
			set := mbKindSet{k.Name(): true}
			if x.Op == token.NEQ {
				set = a.complement(set)
			}
			return subj, set, ""
		}
	case *ast.CallExpr:
		// subject.P() (method of interface Type) or subject.Kind().P()
		sel, ok := x.Fun.(*ast.SelectorExpr)
		if !ok || len(x.Args) != 0 {
			break
		}
		if subj, ok := a.kindCallSubject(sel.X); ok {
			set, why := a.kindMethodSet(sel.Sel.Name)
			return subj, set, why
		}
		if a.isTypeIface(a.info.TypeOf(sel.X)) {
			// every implementer's method must delegate to the same kind method
			out := mbKindSet{}
			for _, im := range a.impls {
				v, why := a.implPred(im, sel.Sel.Name)
				if why != "" {
					return "", nil, why
				}
				if v {
					out[im.kind.Name()] = true
				}
			}
			return exprStr(sel.X), out, ""
		}
	}
	return "", nil, "guard shape not understood: " + exprStr(e)
}

// kindMethodSet: a bool method on the kind type whose body is a switch over
// the receiver with clauses returning true / false (or panicking).
func (a *mbAn) kindMethodSet(name string) (mbKindSet, string) {
	var fd *ast.FuncDecl
	for fn, d := range a.decls {
		if fn.Name() != name || d.Recv == nil {
			continue
		}
		rt := a.info.TypeOf(d.Recv.List[0].Type)
		if _, isBasic := rt.Underlying().(*types.Basic); isBasic {
			fd = d
		}
	}
	if fd == nil {
		return nil, "kind predicate method " + name + " not found"
	}
	if len(fd.Body.List) != 1 {
		return nil, "kind predicate " + name + ": body is not a single switch"
	}
	sw, ok := fd.Body.List[0].(*ast.SwitchStmt)
	if !ok || sw.Tag == nil {
		return nil, "kind predicate " + name + ": body is not a switch over the receiver"
	}
	out := mbKindSet{}
	for _, c := range sw.Body.List {
		cc := c.(*ast.CaseClause)
		if len(cc.Body) != 1 {
			return nil, "kind predicate " + name + ": clause is not a single statement"
		}
		if IsPanicCall(a.info, cc.Body[0]) {
			continue
		}
		r, ok := cc.Body[0].(*ast.ReturnStmt)
		if !ok || len(r.Results) != 1 {
			return nil, "kind predicate " + name + ": clause does not return a literal"
		}
		tv := a.info.Types[r.Results[0]]
		if tv.Value == nil {
			return nil, "kind predicate " + name + ": clause returns a non-constant"
		}
		if tv.Value.ExactString() == "true" {
			if cc.List == nil {
				return nil, "kind predicate " + name + ": default returns true"
			}
			for _, v := range cc.List {
				k := ConstOf(a.info, v)
				if k == nil {
					return nil, "kind predicate " + name + ": non-constant case"
				}
				out[k.Name()] = true
			}
		}
	}
	return out, ""
}

// implPred: value of the bool method `name` on implementer im; the method must
// be `return self.Kind().name2()` or return a literal.
func (a *mbAn) implPred(im *mbAnImpl, name string) (bool, string) {
	var fd *ast.FuncDecl
	for fn, d := range a.decls {
		if fn.Name() == name && d.Recv != nil && recvTypeName(d.Recv.List[0].Type) == im.named.Obj().Name() {
			fd = d
		}
	}
	if fd == nil || len(fd.Body.List) != 1 {
		return false, "predicate " + im.named.Obj().Name() + "." + name + " not a single return"
	}
	r, ok := fd.Body.List[0].(*ast.ReturnStmt)
	if !ok || len(r.Results) != 1 {
		return false, "predicate " + im.named.Obj().Name() + "." + name + " not a single return"
	}
	if tv := a.info.Types[r.Results[0]]; tv.Value != nil {
		return tv.Value.ExactString() == "true", ""
	}
	call, ok := ast.Unparen(r.Results[0]).(*ast.CallExpr)
	if ok {
		if sel, ok := call.Fun.(*ast.SelectorExpr); ok {
			if inner, ok := ast.Unparen(sel.X).(*ast.CallExpr); ok {
				if isel, ok := inner.Fun.(*ast.SelectorExpr); ok && isel.Sel.Name == "Kind" {
					if id, ok := ast.Unparen(isel.X).(*ast.Ident); ok && fd.Recv.List[0].Names != nil && a.info.Uses[id] == a.info.Defs[fd.Recv.List[0].Names[0]] {
						set, why := a.kindMethodSet(sel.Sel.Name)
						if why != "" {
							return false, why
						}
						return set[im.kind.Name()], ""
					}
				}
			}
		}
	}
	return false, "predicate " + im.named.Obj().Name() + "." + name + ": body not understood: " + exprStr(r.Results[0])
}

// guardKinds intersects the conditions on the stack of a table entry.
func (a *mbAn) guardKinds(stack []mbCondCtx) (subject string, set mbKindSet, why string) {
	set = a.universe()
	for _, g := range stack {
		var s string
		var k mbKindSet
		switch {
		case g.cond != nil:
			s, k, why = a.predKinds(g.cond)
			if why != "" {
				return "", nil, why
			}
			if g.neg {
				k = a.complement(k)
			}
		case g.sw != nil:
			if g.sw.Tag == nil {
				return "", nil, "tagless switch guard"
			}
			subj, ok := a.kindCallSubject(g.sw.Tag)
			if !ok {
				return "", nil, "switch guard over " + exprStr(g.sw.Tag)
			}
			s = subj
			k = mbKindSet{}
			if g.clause.List == nil {
				others := mbKindSet{}
				for _, c := range g.sw.Body.List {
					for _, v := range c.(*ast.CaseClause).List {
						if kc := ConstOf(a.info, v); kc != nil {
							others[kc.Name()] = true
						}
					}
				}
				k = a.complement(others)
			} else {
				for _, v := range g.clause.List {
					kc := ConstOf(a.info, v)
					if kc == nil {
						return "", nil, "non-constant case " + exprStr(v)
					}
					k[kc.Name()] = true
				}
			}
		default:
			return "", nil, "member added inside a loop or type switch"
		}
		if subject != "" && s != subject {
			return "", nil, "guards over different subjects"
		}
		subject = s
		for kk := range set {
			if !k[kk] {
				delete(set, kk)
			}
		}
	}
	return subject, set, ""
}

// ---------------------------------------------------------------------------
// value kind <-> type kind
// ---------------------------------------------------------------------------

// mbKindMap reads the VM library's `ValueKind.TypeKind()` switch: value kind
// constant name -> analyzer type kind constant name.
func mbKindMap(c *Ctx) map[string]string {
	vm := mbLoadLib(c, mbRelVM, "vm")
	var fd *ast.FuncDecl
	for fn, d := range vm.decls {
		if d.Recv == nil || fn.Name() != "TypeKind" {
			continue
		}
		if types.Identical(vm.info.TypeOf(d.Recv.List[0].Type), vm.kinds.Type) {
			fd = d
		}
	}
	if fd == nil {
		fatalf("anchor unresolved: %s ValueKind.TypeKind", mbRelVM)
	}
	out := map[string]string{}
	ast.Inspect(fd.Body, func(n ast.Node) bool {
		cc, ok := n.(*ast.CaseClause)
		if !ok {
			return true
		}
		if len(cc.Body) == 1 {
			if r, ok := cc.Body[0].(*ast.ReturnStmt); ok && len(r.Results) == 1 {
				if tk := ConstOf(vm.info, r.Results[0]); tk != nil {
					for _, v := range cc.List {
						if vk := ConstOf(vm.info, v); vk != nil {
							out[vk.Name()] = tk.Name()
						}
					}
				}
			}
		}
		return true
	})
	if len(out) < 8 {
		fatalf("anchor unresolved: ValueKind.TypeKind maps only %d kinds", len(out))
	}
	return out
}

func mbShortKind(s string) string {
	return strings.TrimSuffix(strings.TrimSuffix(s, "TypeKind"), "ValueKind")
}
