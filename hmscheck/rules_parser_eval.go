package main

import (
	"go/ast"
	"go/constant"
	"go/token"
	"go/types"
)

// Table extraction by evaluation. The lexeme / operator / binding-power tables
// of the front end are functions over a small enum (`T.String()`,
// `TokenAsInfixOperator(kind)`, `TokenKind.Prec()`). Whether such a function
// is spelled as a switch, an if-chain, a lookup in a map literal or a helper
// call does not matter for the table it denotes, so the table is obtained by
// evaluating the function once per constant of the enum with the shared
// constant-propagating path evaluator of the operator rules (opsEng): the
// input is bound to the constant, decidable tests are decided, map / slice
// literals are indexed, callees that receive the constant are inlined. The
// syntactic extractors that were there first are kept as a fall-back for the
// constants the evaluator cannot decide.

type pxEvalOut struct {
	ok     bool // every feasible path returns one and the same value
	panics bool // some feasible path panics (ok is false)
	why    string
	vals   []opsVal // the results (one per result of the function)
}

var pxEngCache = map[*Ctx]*opsEng{}

func pxEngOf(c *Ctx) *opsEng {
	if g := pxEngCache[c]; g != nil {
		return g
	}
	g := newOpsEng(c)
	pxEngCache[c] = g
	return g
}

// pxEvalOn evaluates fd with `in` (its receiver or a parameter) bound to k.
func pxEvalOn(c *Ctx, fd *ast.FuncDecl, in types.Object, k *types.Const) (out pxEvalOut) {
	if fd == nil || fd.Body == nil || in == nil || k == nil {
		return pxEvalOut{why: "no body / input"}
	}
	defer func() {
		if r := recover(); r != nil {
			out = pxEvalOut{why: "evaluator gave up"}
		}
	}()
	g := pxEngOf(c)
	cfg := &opsCfg{g: g, maxDepth: 3, nodeDims: map[*types.TypeName]*types.Const{}, opndDims: map[*types.TypeName]*types.Const{}}
	paths, ok := g.walk(cfg, fd, map[types.Object]opsVal{in: {k: ovConst, c: k}}, 0, 0)
	if !ok {
		return pxEvalOut{why: "path overflow"}
	}
	var res []opsVal
	for _, p := range paths {
		if p.out == cPanic {
			return pxEvalOut{panics: true, why: "panics"}
		}
		if p.out != cReturn {
			return pxEvalOut{why: "falls off the end"}
		}
		vals := p.ret
		if len(vals) == 1 && vals[0].k == ovTuple {
			vals = vals[0].tup
		}
		if res == nil {
			res = vals
			continue
		}
		if len(res) != len(vals) {
			return pxEvalOut{why: "ambiguous"}
		}
		for i := range res {
			if res[i].String() != vals[i].String() {
				return pxEvalOut{why: "ambiguous"}
			}
		}
	}
	if res == nil {
		return pxEvalOut{why: "no path"}
	}
	return pxEvalOut{ok: true, vals: res}
}

// pxRecvObj: the receiver variable of a method declaration (nil: unnamed).
func pxRecvObj(info *types.Info, fd *ast.FuncDecl) types.Object {
	if fd == nil || fd.Recv == nil || len(fd.Recv.List) == 0 || len(fd.Recv.List[0].Names) == 0 {
		return nil
	}
	return info.Defs[fd.Recv.List[0].Names[0]]
}

// pxParamObj: the i-th parameter variable of a declaration (nil: unnamed).
func pxParamObj(info *types.Info, fd *ast.FuncDecl, i int) types.Object {
	n := 0
	for _, f := range fd.Type.Params.List {
		if len(f.Names) == 0 {
			n++
			continue
		}
		for _, nm := range f.Names {
			if n == i {
				return info.Defs[nm]
			}
			n++
		}
	}
	return nil
}

func pxValString(v opsVal) (string, bool) {
	if v.k == ovLit && v.lit != nil && v.lit.Kind() == constant.String {
		return constant.StringVal(v.lit), true
	}
	if v.k == ovConst && v.c != nil && v.c.Val().Kind() == constant.String {
		return constant.StringVal(v.c.Val()), true
	}
	return "", false
}

func pxValInt(v opsVal) (int64, bool) {
	var cv constant.Value
	switch {
	case v.k == ovLit && v.lit != nil:
		cv = v.lit
	case v.k == ovConst && v.c != nil:
		cv = v.c.Val()
	default:
		return 0, false
	}
	if cv.Kind() != constant.Int && cv.Kind() != constant.Float {
		return 0, false
	}
	n, exact := constant.Int64Val(constant.ToInt(cv))
	return n, exact
}

// ---------------------------------------------------------------------
// Predicate helpers in branch conditions. A condition such as
// `!self.atEnd()` or `self.atCloser(lexer.RParen)` says the same as the
// boolean expression the helper returns. Before a body is walked, calls of
// side-effect free boolean helpers of lexer / parser in `if` / `for`
// conditions are replaced by that expression (parameters substituted by the
// argument expressions), so that the walkers see the cursor tests themselves —
// wherever they are written. Containers are copied, leaves shared (types.Info
// lookups on leaves keep working; synthetic nodes have no type information and
// are only ever decomposed).

func (r *pxRoles) expandPredsBlock(info *types.Info, b *ast.BlockStmt) *ast.BlockStmt {
	if b == nil {
		return b
	}
	x := &pxPredExpander{r: r, info: info}
	if !x.needed(b) {
		return b
	}
	return x.stmt(b).(*ast.BlockStmt)
}

type pxPredExpander struct {
	r    *pxRoles
	info *types.Info
}

// predDecl: call is a call of a declared boolean helper of lexer / parser.
func (x *pxPredExpander) predDecl(call *ast.CallExpr) (*types.Func, *ast.FuncDecl) {
	fn := CalleeOf(x.info, call)
	if fn == nil {
		return nil, nil
	}
	fd := x.r.decls[fn]
	if fd == nil || fd.Body == nil {
		return nil, nil
	}
	sig := fn.Type().(*types.Signature)
	if sig.Results().Len() != 1 || sig.Variadic() {
		return nil, nil
	}
	if b, ok := sig.Results().At(0).Type().Underlying().(*types.Basic); !ok || b.Kind() != types.Bool {
		return nil, nil
	}
	return fn, fd
}

func (x *pxPredExpander) needed(n ast.Node) bool {
	found := false
	check := func(e ast.Expr) {
		if e == nil || found {
			return
		}
		pxAtoms(e, func(a ast.Expr) {
			if call, ok := ast.Unparen(a).(*ast.CallExpr); ok {
				if _, fd := x.predDecl(call); fd != nil {
					found = true
				}
			}
		})
	}
	ast.Inspect(n, func(m ast.Node) bool {
		switch s := m.(type) {
		case *ast.FuncLit:
			return false
		case *ast.IfStmt:
			check(s.Cond)
		case *ast.ForStmt:
			check(s.Cond)
		}
		return !found
	})
	return found
}

func (x *pxPredExpander) list(l []ast.Stmt) []ast.Stmt {
	out := make([]ast.Stmt, len(l))
	for i, s := range l {
		out[i] = x.stmt(s)
	}
	return out
}

func (x *pxPredExpander) stmt(s ast.Stmt) ast.Stmt {
	if s == nil || !x.needed(s) {
		return s
	}
	switch n := s.(type) {
	case *ast.BlockStmt:
		c := *n
		c.List = x.list(n.List)
		return &c
	case *ast.LabeledStmt:
		c := *n
		c.Stmt = x.stmt(n.Stmt)
		return &c
	case *ast.IfStmt:
		c := *n
		c.Cond = x.expr(n.Cond, 0)
		c.Body = x.stmt(n.Body).(*ast.BlockStmt)
		if n.Else != nil {
			c.Else = x.stmt(n.Else)
		}
		return &c
	case *ast.ForStmt:
		c := *n
		if n.Cond != nil {
			c.Cond = x.expr(n.Cond, 0)
		}
		c.Body = x.stmt(n.Body).(*ast.BlockStmt)
		return &c
	case *ast.RangeStmt:
		c := *n
		c.Body = x.stmt(n.Body).(*ast.BlockStmt)
		return &c
	case *ast.SwitchStmt:
		c := *n
		c.Body = x.stmt(n.Body).(*ast.BlockStmt)
		return &c
	case *ast.TypeSwitchStmt:
		c := *n
		c.Body = x.stmt(n.Body).(*ast.BlockStmt)
		return &c
	case *ast.CaseClause:
		c := *n
		c.Body = x.list(n.Body)
		return &c
	}
	return s
}

// expr expands the predicate calls among the atoms of a condition.
func (x *pxPredExpander) expr(e ast.Expr, depth int) ast.Expr {
	switch n := e.(type) {
	case *ast.ParenExpr:
		c := *n
		c.X = x.expr(n.X, depth)
		return &c
	case *ast.UnaryExpr:
		if n.Op == token.NOT {
			c := *n
			c.X = x.expr(n.X, depth)
			return &c
		}
	case *ast.BinaryExpr:
		if n.Op == token.LAND || n.Op == token.LOR {
			c := *n
			c.X, c.Y = x.expr(n.X, depth), x.expr(n.Y, depth)
			return &c
		}
	case *ast.CallExpr:
		if in := x.inline(n, depth); in != nil {
			return &ast.ParenExpr{Lparen: n.Pos(), X: in, Rparen: n.End()}
		}
	}
	return e
}

func (x *pxPredExpander) isBoolLit(e ast.Expr) (val, ok bool) {
	if tv, has := x.info.Types[ast.Unparen(e)]; has && tv.Value != nil && tv.Value.Kind() == constant.Bool {
		return constant.BoolVal(tv.Value), true
	}
	return false, false
}

// inline: the boolean expression a predicate call stands for (nil: not expandable).
func (x *pxPredExpander) inline(call *ast.CallExpr, depth int) ast.Expr {
	if depth > 3 {
		return nil
	}
	fn, fd := x.predDecl(call)
	if fd == nil {
		return nil
	}
	finfo := x.r.declPkg[fn].TypesInfo
	if finfo != x.info {
		return nil // helper of another package: its leaves are typed by another types.Info
	}
	// arguments must be side-effect free and cheap: constants, identifiers, field selections
	env := map[types.Object]ast.Expr{}
	sig := fn.Type().(*types.Signature)
	for i := 0; i < sig.Params().Len(); i++ {
		if i >= len(call.Args) {
			return nil
		}
		if !pxPureLeaf(call.Args[i]) {
			return nil
		}
		if po := pxParamObj(finfo, fd, i); po != nil {
			env[po] = call.Args[i]
		}
	}
	pos := call.Pos()
	not := func(e ast.Expr) ast.Expr {
		return &ast.UnaryExpr{OpPos: pos, Op: token.NOT, X: &ast.ParenExpr{Lparen: pos, X: e, Rparen: pos}}
	}
	bin := func(op token.Token, a, b ast.Expr) ast.Expr {
		return &ast.BinaryExpr{X: &ast.ParenExpr{Lparen: pos, X: a, Rparen: pos}, OpPos: pos, Op: op, Y: &ast.ParenExpr{Lparen: pos, X: b, Rparen: pos}}
	}
	ite := func(c, a, b ast.Expr) ast.Expr {
		if v, ok := x.isBoolLit(a); ok {
			if v {
				return bin(token.LOR, c, b)
			}
			return bin(token.LAND, not(c), b)
		}
		if v, ok := x.isBoolLit(b); ok {
			if v {
				return bin(token.LOR, not(c), a)
			}
			return bin(token.LAND, c, a)
		}
		return bin(token.LOR, bin(token.LAND, c, a), bin(token.LAND, not(c), b))
	}
	var subst func(e ast.Expr) ast.Expr
	subst = func(e ast.Expr) ast.Expr {
		switch n := e.(type) {
		case nil:
			return nil
		case *ast.Ident:
			if a, ok := env[finfo.Uses[n]]; ok {
				return a
			}
			if v, ok := finfo.Uses[n].(*types.Var); ok && !v.IsField() && v.Pkg() != nil && v.Parent() != v.Pkg().Scope() && v != pxRecvObj(finfo, fd) {
				if _, isParam := env[v]; !isParam {
					return nil // a local of the helper: not expressible at the call site
				}
			}
			return n
		case *ast.BasicLit:
			return n
		case *ast.ParenExpr:
			in := subst(n.X)
			if in == nil {
				return nil
			}
			c := *n
			c.X = in
			return &c
		case *ast.UnaryExpr:
			in := subst(n.X)
			if in == nil {
				return nil
			}
			c := *n
			c.X = in
			return &c
		case *ast.StarExpr:
			in := subst(n.X)
			if in == nil {
				return nil
			}
			c := *n
			c.X = in
			return &c
		case *ast.BinaryExpr:
			a, b := subst(n.X), subst(n.Y)
			if a == nil || b == nil {
				return nil
			}
			c := *n
			c.X, c.Y = a, b
			return &c
		case *ast.SelectorExpr:
			if _, isPkg := finfo.Uses[n.Sel].(*types.Const); isPkg {
				return n // pkg.Const
			}
			in := subst(n.X)
			if in == nil {
				return nil
			}
			if in == n.X {
				return n
			}
			c := *n
			c.X = in
			return &c
		case *ast.CallExpr:
			// a nested predicate is expanded in turn; any other call stays a call (with substituted arguments)
			c := *n
			c.Args = make([]ast.Expr, len(n.Args))
			for i, a := range n.Args {
				c.Args[i] = subst(a)
				if c.Args[i] == nil {
					return nil
				}
			}
			if _, pd := x.predDecl(n); pd != nil {
				sub := &pxPredExpander{r: x.r, info: finfo}
				if in := sub.inline(&c, depth+1); in != nil {
					return &ast.ParenExpr{Lparen: pos, X: in, Rparen: pos}
				}
			}
			return &c
		}
		return nil
	}
	var toExpr func(list []ast.Stmt) ast.Expr
	toExpr = func(list []ast.Stmt) ast.Expr {
		if len(list) == 0 {
			return nil
		}
		switch s := list[0].(type) {
		case *ast.ReturnStmt:
			if len(s.Results) != 1 {
				return nil
			}
			return subst(s.Results[0])
		case *ast.IfStmt:
			if s.Init != nil {
				return nil
			}
			c := subst(s.Cond)
			if c == nil {
				return nil
			}
			a := toExpr(s.Body.List)
			if a == nil {
				return nil
			}
			rest := list[1:]
			if s.Else != nil {
				switch el := s.Else.(type) {
				case *ast.BlockStmt:
					rest = append(append([]ast.Stmt{}, el.List...), rest...)
				default:
					rest = append([]ast.Stmt{el}, rest...)
				}
			}
			b := toExpr(rest)
			if b == nil {
				return nil
			}
			return ite(c, a, b)
		case *ast.BlockStmt:
			return toExpr(append(append([]ast.Stmt{}, s.List...), list[1:]...))
		}
		return nil
	}
	out := toExpr(fd.Body.List)
	if out == nil {
		return nil
	}
	// predicates inside the expansion that are atoms of its boolean structure
	return x.expr(out, depth+1)
}

func pxPureLeaf(e ast.Expr) bool {
	switch n := ast.Unparen(e).(type) {
	case *ast.Ident, *ast.BasicLit:
		return true
	case *ast.SelectorExpr:
		return pxPureLeaf(n.X)
	}
	return false
}
