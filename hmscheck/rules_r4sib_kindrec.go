package main

import (
	"fmt"
	"go/ast"
	"go/types"
	"sort"
	"strings"

	"golang.org/x/tools/go/packages"
)

// R-kind-recurse: a recursive function that dispatches on the kind of a structured value descends into every
// kind that has components, or into (almost) none of them.

func init() {
	register(&Rule{ID: "R-kind-recurse", Floor: 12, Run: ruleR4KindRecurse,
		Doc: "a *recursive kind dispatch* is found by shape: a function that calls itself (directly or through a helper of its package) and contains a `switch x.Kind()` / `switch x.(type)` over a value x of a data interface of the module (the analyzer's Type, a runtime Value, the parameter-list kind of a function type; program trees — parser nodes and Analyzed* nodes — are left to the traversal rules: a node may hold code that is deliberately not entered, such as the body of a function literal). The implementers of that interface are enumerated; an implementer *has components* when one of its fields can hold a value of the type the function recurses over (directly, through a pointer, a slice, a map or a nested struct such as ObjectTypeField — the criterion R-eq-dynamic uses for statically typed containers). The clauses of one switch that handle implementers with components are siblings: each either descends (its body contains a recursive call) or answers without looking inside. When the switch descends for at least three times as many of them as it does not, the ones that do not are deviants: the function is evidently meant to inspect the whole structure (CheckAny: 'an any occurs somewhere in this type'; TypeCheck: 'the types agree at every depth'), and a kind with components that is answered by a constant makes the answer wrong exactly for the values of that kind — ?any is declared any-free and the run-time cast of an annotated let is not requested (C18, C12), an option of mismatching inner types is accepted (C03). A clause that ends in panic rejects loudly and is not a deviant. Switches that descend for a minority of the kinds (a default-value test that only looks into objects) are listed as information."})
}

type r4krImpl struct {
	named *types.Named
	kind  *types.Const // constant its Kind() returns, when it has one
	comp  string       // name of the field that holds a component
}

func ruleR4KindRecurse(c *Ctx) []Obligation {
	var out []Obligation
	pkgs := append([]*packages.Package(nil), c.All...)
	sort.Slice(pkgs, func(i, j int) bool { return pkgs[i].PkgPath < pkgs[j].PkgPath })
	byTypes := map[*types.Package]*packages.Package{}
	for _, p := range pkgs {
		byTypes[p.Types] = p
	}
	moduleIface := func(t types.Type) (*types.Named, *types.Interface) {
		if t == nil {
			return nil, nil
		}
		if pt, ok := t.(*types.Pointer); ok {
			t = pt.Elem()
		}
		n, ok := types.Unalias(t).(*types.Named)
		if !ok || n.Obj().Pkg() == nil || !strings.HasPrefix(n.Obj().Pkg().Path(), ModPath) {
			return nil, nil
		}
		it, ok := n.Underlying().(*types.Interface)
		if !ok || it.NumMethods() == 0 {
			return nil, nil
		}
		return n, it
	}
	// implementers of an interface: the named struct types of its package (and of the packages that import it are
	// not needed: every family of this module lives in one package)
	implCache := map[*types.Named][]*types.Named{}
	implsOf := func(n *types.Named, it *types.Interface) []*types.Named {
		if r, ok := implCache[n]; ok {
			return r
		}
		var r []*types.Named
		sc := n.Obj().Pkg().Scope()
		for _, name := range sc.Names() {
			tn, ok := sc.Lookup(name).(*types.TypeName)
			if !ok || tn.IsAlias() {
				continue
			}
			nt, ok := tn.Type().(*types.Named)
			if !ok || nt == n {
				continue
			}
			if _, isIface := nt.Underlying().(*types.Interface); isIface {
				continue
			}
			if types.Implements(nt, it) || types.Implements(types.NewPointer(nt), it) {
				r = append(r, nt)
			}
		}
		implCache[n] = r
		return r
	}
	var holds func(t types.Type, domain []*types.Named, depth int) bool
	holds = func(t types.Type, domain []*types.Named, depth int) bool {
		if depth > 4 {
			return false
		}
		if n, ok := types.Unalias(t).(*types.Named); ok {
			for _, d := range domain {
				if n == d {
					return true
				}
			}
		}
		switch u := t.Underlying().(type) {
		case *types.Slice:
			return holds(u.Elem(), domain, depth+1)
		case *types.Array:
			return holds(u.Elem(), domain, depth+1)
		case *types.Pointer:
			return holds(u.Elem(), domain, depth+1)
		case *types.Map:
			return holds(u.Elem(), domain, depth+1)
		case *types.Struct:
			if _, named := types.Unalias(t).(*types.Named); named && depth > 0 {
				for i := 0; i < u.NumFields(); i++ {
					if holds(u.Field(i).Type(), domain, depth+1) {
						return true
					}
				}
			}
		}
		return false
	}
	for _, p := range pkgs {
		if !strings.HasPrefix(p.PkgPath, ModPath) {
			continue
		}
		info := p.TypesInfo
		// helpers of the package that call a function directly (one level of mutual recursion)
		callsOf := map[*types.Func]map[*types.Func]bool{}
		for _, fd := range AllFuncDecls(p) {
			fn, _ := info.Defs[fd.Name].(*types.Func)
			if fn == nil || fd.Body == nil {
				continue
			}
			callsOf[fn] = map[*types.Func]bool{}
			ast.Inspect(fd.Body, func(n ast.Node) bool {
				if call, ok := n.(*ast.CallExpr); ok {
					if cal := CalleeOf(info, call); cal != nil && cal.Pkg() == p.Types {
						callsOf[fn][cal] = true
					}
				}
				return true
			})
		}
		reachCache := map[[2]*types.Func]bool{}
		reaches := func(from, to *types.Func) bool {
			k := [2]*types.Func{from, to}
			if v, ok := reachCache[k]; ok {
				return v
			}
			seen := map[*types.Func]bool{from: true}
			work := []*types.Func{from}
			hit := false
			for len(work) > 0 && !hit {
				x := work[len(work)-1]
				work = work[:len(work)-1]
				for y := range callsOf[x] {
					if y == to {
						hit = true
						break
					}
					if !seen[y] {
						seen[y] = true
						work = append(work, y)
					}
				}
			}
			reachCache[k] = hit
			return hit
		}
		for _, fd := range AllFuncDecls(p) {
			fn, _ := info.Defs[fd.Name].(*types.Func)
			if fn == nil || fd.Body == nil {
				continue
			}
			isRec := func(call *ast.CallExpr) bool {
				cal := CalleeOf(info, call)
				if cal == nil {
					return false
				}
				if cal == fn {
					return true
				}
				return cal.Pkg() == p.Types && reaches(cal, fn)
			}
			recursive := false
			ast.Inspect(fd.Body, func(n ast.Node) bool {
				if call, ok := n.(*ast.CallExpr); ok && isRec(call) {
					recursive = true
				}
				return !recursive
			})
			if !recursive {
				continue
			}
			// the types the function recurses over: its interface-typed parameters (and receiver)
			var domain []*types.Named
			sig := fn.Type().(*types.Signature)
			for i := 0; i < sig.Params().Len(); i++ {
				if n, _ := moduleIface(sig.Params().At(i).Type()); n != nil {
					domain = append(domain, n)
				}
			}
			if len(domain) == 0 {
				continue
			}
			f := r2sibFuncOf(c, p, fd)
			nSwitch := map[string]int{}
			ast.Inspect(fd.Body, func(n ast.Node) bool {
				var tagExpr ast.Expr
				var body *ast.BlockStmt
				typeSwitch := false
				switch sw := n.(type) {
				case *ast.SwitchStmt:
					call, ok := ast.Unparen(sw.Tag).(*ast.CallExpr)
					if !ok || len(call.Args) != 0 {
						return true
					}
					sel, ok := ast.Unparen(call.Fun).(*ast.SelectorExpr)
					if !ok || sel.Sel.Name != "Kind" {
						return true
					}
					tagExpr, body = sel.X, sw.Body
				case *ast.TypeSwitchStmt:
					var x ast.Expr
					switch a := sw.Assign.(type) {
					case *ast.AssignStmt:
						if len(a.Rhs) == 1 {
							x = a.Rhs[0]
						}
					case *ast.ExprStmt:
						x = a.X
					}
					ta, ok := ast.Unparen(x).(*ast.TypeAssertExpr)
					if !ok {
						return true
					}
					tagExpr, body, typeSwitch = ta.X, sw.Body, true
				default:
					return true
				}
				in, it := moduleIface(info.TypeOf(tagExpr))
				if in == nil {
					return true
				}
				// program trees are not data: a node may hold code that is deliberately not entered now (the body of a
				// function literal is run when the closure is called); the tree walkers have their own traversal rules
				if ipath := in.Obj().Pkg().Path(); strings.HasSuffix(ipath, "/parser/ast") || strings.HasSuffix(ipath, "/analyzer/ast") && strings.HasPrefix(in.Obj().Name(), "Analyzed") {
					return true
				}
				impls := implsOf(in, it)
				ip := byTypes[in.Obj().Pkg()]
				var members []r4krImpl
				for _, nt := range impls {
					st, ok := nt.Underlying().(*types.Struct)
					if !ok {
						continue
					}
					m := r4krImpl{named: nt}
					for i := 0; i < st.NumFields(); i++ {
						if holds(st.Field(i).Type(), domain, 1) {
							m.comp = st.Field(i).Name()
							break
						}
					}
					if m.comp == "" {
						continue
					}
					if ip != nil {
						if kfd := FuncDecl(ip, nt.Obj().Name(), "Kind"); kfd != nil && kfd.Body != nil {
							m.kind = constOfBody(ip, kfd, 0)
						}
					}
					members = append(members, m)
				}
				if len(members) == 0 {
					return true
				}
				sort.Slice(members, func(i, j int) bool { return members[i].named.Obj().Name() < members[j].named.Obj().Name() })
				// clause of each member
				var def *ast.CaseClause
				clauseOf := map[*types.Named]*ast.CaseClause{}
				for _, st := range body.List {
					cc, ok := st.(*ast.CaseClause)
					if !ok {
						continue
					}
					if cc.List == nil {
						def = cc
						continue
					}
					for _, e := range cc.List {
						for _, m := range members {
							if typeSwitch {
								t := info.TypeOf(e)
								if t != nil && recvNamed(t) == m.named {
									clauseOf[m.named] = cc
								}
							} else if k := ConstOf(info, e); k != nil && m.kind != nil && k == m.kind {
								clauseOf[m.named] = cc
							}
						}
					}
				}
				if !typeSwitch {
					// a kind switch needs the constants: members without one cannot be placed
					var ms []r4krImpl
					for _, m := range members {
						if m.kind != nil {
							ms = append(ms, m)
						}
					}
					members = ms
				}
				type verdict struct {
					m       r4krImpl
					cc      *ast.CaseClause
					descend bool
					panics  bool
					where   string
				}
				var vs []verdict
				nDesc := 0
				for _, m := range members {
					v := verdict{m: m, cc: clauseOf[m.named], where: "its own clause"}
					if v.cc == nil {
						v.cc, v.where = def, "the default clause"
					}
					if v.cc == nil {
						v.where = "no clause (falls through the switch)"
					} else {
						ast.Inspect(v.cc, func(x ast.Node) bool {
							if call, ok := x.(*ast.CallExpr); ok && isRec(call) {
								v.descend = true
							}
							return true
						})
						v.panics = len(v.cc.Body) > 0 && IsPanicCall(info, v.cc.Body[len(v.cc.Body)-1])
					}
					if v.descend {
						nDesc++
					}
					vs = append(vs, v)
				}
				nNot := 0
				for _, v := range vs {
					if !v.descend && !v.panics {
						nNot++
					}
				}
				tag := f.pretty(f.norm(tagExpr))
				skey := fmt.Sprintf("%s.%s|switch on %s", relPkg(p.PkgPath), FuncName(fd), tag)
				nSwitch[skey]++
				if k := nSwitch[skey]; k > 1 {
					skey = fmt.Sprintf("%s #%d", skey, k)
				}
				if nDesc == 0 {
					return true // this switch is not where the function descends
				}
				majority := nDesc >= 2 && nDesc >= 3*nNot
				for _, v := range vs {
					name := v.m.named.Obj().Name()
					if v.m.kind != nil && !typeSwitch {
						name = v.m.kind.Name()
					}
					ob := Obligation{Key: skey + "|" + name, Pos: c.Pos(n.Pos()), Nontrivial: true}
					if v.cc != nil {
						ob.Pos = c.Pos(v.cc.Pos())
					}
					comp := fmt.Sprintf("%s.%s holds component values", v.m.named.Obj().Name(), v.m.comp)
					switch {
					case v.descend:
						ob.Detail = fmt.Sprintf("%s; handled by %s, which descends", comp, v.where)
						if !majority {
							ob.Status = Info
						}
					case v.panics:
						ob.Detail = fmt.Sprintf("%s; handled by %s, which ends in panic (rejected loudly)", comp, v.where)
						if !majority {
							ob.Status = Info
						}
					case majority:
						ob.Status = Violated
						ob.Detail = fmt.Sprintf("%s, but %s answers without a recursive call while the switch descends into %d of the %d kinds with components: the answer is wrong for exactly the values of this kind (their components are never looked at)", comp, v.where, nDesc, len(vs))
					default:
						ob.Status = Info
						ob.Detail = fmt.Sprintf("%s; %s does not descend — neither do most of its siblings (%d of %d descend): this function does not inspect whole structures", comp, v.where, nDesc, len(vs))
					}
					out = append(out, ob)
				}
				return true
			})
		}
	}
	sort.SliceStable(out, func(i, j int) bool { return out[i].Key < out[j].Key })
	return out
}
