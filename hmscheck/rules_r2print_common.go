package main

// r2print: shared path machinery of the path-sensitive traversal rules
// (R-print-all-paths, R-print-delimiters, R-predicate-all-paths,
// R-rebuild-all-paths, R-block-empty, R-json-list-length).
//
// The rules of rules_trav*.go are *presence* checks ("the field is read
// somewhere in the clause"). The rules built on this file enumerate the paths
// of the code handling a node (Walker of paths.go) and carry, per path,
//   - facts about the emptiness of access paths rooted at the handled node
//     (`x.F == nil`, `len(x.F) == 0`, `!x.Flag`, a range loop over x.F that was
//     not entered),
//   - constants of bool / nil-able locals (so that flag idioms such as
//     `isEmpty := true; for … { isEmpty = false }; if isEmpty {…}` do not
//     produce infeasible paths),
//   - aliases of locals to access paths (`v := x.F`, `node := node.(T)`,
//     `for _, v := range x.F`, `b := rebuild(x.F)`).
//
// Range loops are wrapped, in a copy of the statement tree, into a synthetic
// `if <non-empty> { for … }` so that the zero-iteration exit of a loop over a
// field is a decision the rule sees (paths.go has no hook for it): the false
// branch records "the field is empty"; on the true branch the loop must be
// entered (a path that takes the true branch and still skips the loop is
// dropped at its end).

import (
	"fmt"
	"go/ast"
	"go/token"
	"go/types"
	"sort"
	"strings"

	"golang.org/x/tools/go/packages"
)

// ---------------------------------------------------------------------------
// loop wrapping
// ---------------------------------------------------------------------------

type r2pMarked struct {
	loop ast.Stmt // the (copied) loop
	x    ast.Expr // the list it runs over
}

type r2pLoops struct {
	marker  map[*ast.Ident]r2pMarked // synthetic condition -> loop
	forCond map[ast.Expr]ast.Stmt    // condition of a wrapped counting loop -> loop
	orig    map[ast.Node]ast.Node    // copied switch / clause / range -> original node
	copyOf  map[ast.Node]ast.Node    // original -> copy
}

func r2pWrap(body *ast.BlockStmt) (*ast.BlockStmt, *r2pLoops) {
	l := &r2pLoops{marker: map[*ast.Ident]r2pMarked{}, forCond: map[ast.Expr]ast.Stmt{}, orig: map[ast.Node]ast.Node{}, copyOf: map[ast.Node]ast.Node{}}
	return l.block(body), l
}

func (l *r2pLoops) note(orig, cp ast.Node) {
	l.orig[cp] = orig
	l.copyOf[orig] = cp
}

func (l *r2pLoops) block(b *ast.BlockStmt) *ast.BlockStmt {
	if b == nil {
		return nil
	}
	n := *b
	n.List = l.list(b.List)
	return &n
}

func (l *r2pLoops) list(in []ast.Stmt) []ast.Stmt {
	out := make([]ast.Stmt, len(in))
	for i, s := range in {
		out[i] = l.stmt(s)
	}
	return out
}

func (l *r2pLoops) clauses(b *ast.BlockStmt) *ast.BlockStmt {
	n := *b
	n.List = make([]ast.Stmt, len(b.List))
	// from the last clause to the first, so that `fallthrough` can be replaced by the (copied) body of the next clause
	for i := len(b.List) - 1; i >= 0; i-- {
		cc := b.List[i].(*ast.CaseClause)
		nc := *cc
		nc.Body = l.list(cc.Body)
		if k := len(nc.Body); k > 0 && i+1 < len(b.List) {
			if br, ok := nc.Body[k-1].(*ast.BranchStmt); ok && br.Tok == token.FALLTHROUGH {
				nc.Body = append(append([]ast.Stmt(nil), nc.Body[:k-1]...), n.List[i+1].(*ast.CaseClause).Body...)
			}
		}
		l.note(cc, &nc)
		n.List[i] = &nc
	}
	return &n
}

func (l *r2pLoops) stmt(s ast.Stmt) ast.Stmt {
	switch x := s.(type) {
	case *ast.BlockStmt:
		return l.block(x)
	case *ast.IfStmt:
		n := *x
		n.Body = l.block(x.Body)
		if x.Else != nil {
			n.Else = l.stmt(x.Else)
		}
		return &n
	case *ast.ForStmt:
		n := *x
		n.Body = l.block(x.Body)
		// for i := 0; i < len(X); i++ — a loop over the elements of X
		if lx := r2pCountingLoop(x); lx != nil {
			id := &ast.Ident{NamePos: x.Pos(), Name: "__r2p_nonempty"}
			l.marker[id] = r2pMarked{&n, lx}
			l.forCond[ast.Unparen(x.Cond)] = &n
			return &ast.IfStmt{If: x.Pos(), Cond: id, Body: &ast.BlockStmt{Lbrace: x.Pos(), List: []ast.Stmt{&n}, Rbrace: x.End()}}
		}
		return &n
	case *ast.RangeStmt:
		n := *x
		n.Body = l.block(x.Body)
		l.note(x, &n)
		id := &ast.Ident{NamePos: x.Pos(), Name: "__r2p_nonempty"}
		l.marker[id] = r2pMarked{&n, x.X}
		return &ast.IfStmt{If: x.Pos(), Cond: id, Body: &ast.BlockStmt{Lbrace: x.Pos(), List: []ast.Stmt{&n}, Rbrace: x.End()}}
	case *ast.SwitchStmt:
		n := *x
		n.Body = l.clauses(x.Body)
		l.note(x, &n)
		return &n
	case *ast.TypeSwitchStmt:
		n := *x
		n.Body = l.clauses(x.Body)
		l.note(x, &n)
		return &n
	case *ast.LabeledStmt:
		// a labelled loop keeps its shape (break/continue <label> address the loop itself)
		n := *x
		switch y := x.Stmt.(type) {
		case *ast.RangeStmt:
			m := *y
			m.Body = l.block(y.Body)
			l.note(y, &m)
			n.Stmt = &m
		default:
			n.Stmt = l.stmt(x.Stmt)
		}
		return &n
	}
	return s
}

// r2pCountingLoop: `for i := 0; i < len(X); …` (also `len(X) > i`, `i != len(X)`): returns X.
func r2pCountingLoop(f *ast.ForStmt) ast.Expr {
	as, ok := f.Init.(*ast.AssignStmt)
	if !ok || len(as.Lhs) != 1 || len(as.Rhs) != 1 || f.Cond == nil {
		return nil
	}
	iv, ok := as.Lhs[0].(*ast.Ident)
	if !ok {
		return nil
	}
	if k, ok := r2pIntLit(as.Rhs[0]); !ok || k != 0 {
		return nil
	}
	be, ok := ast.Unparen(f.Cond).(*ast.BinaryExpr)
	if !ok {
		return nil
	}
	a, b := ast.Unparen(be.X), ast.Unparen(be.Y)
	switch be.Op {
	case token.LSS, token.NEQ:
	case token.GTR:
		a, b = b, a
	default:
		return nil
	}
	if id, ok := a.(*ast.Ident); !ok || id.Name != iv.Name {
		return nil
	}
	call, ok := b.(*ast.CallExpr)
	if !ok || len(call.Args) != 1 {
		return nil
	}
	if id, ok := call.Fun.(*ast.Ident); !ok || id.Name != "len" {
		return nil
	}
	return call.Args[0]
}

// ---------------------------------------------------------------------------
// path state
// ---------------------------------------------------------------------------

const (
	r2pEmpty    = 1
	r2pNonEmpty = 2
)

type r2pState struct {
	facts   map[string]int       // access path -> r2pEmpty / r2pNonEmpty
	konst   map[types.Object]int // bool / nil-able local: 1 = true / non-nil, 2 = false / nil
	konstF  map[string]int       // the same for a field of a local struct value ("<object>.<field>")
	alias   map[types.Object]string
	must    map[ast.Stmt]bool
	entered map[ast.Stmt]bool
	trace   []string

	// R-print-*
	tmpl map[types.Object]r2pTmpl
	ctrl map[string]bool        // access paths that took part in a branch decision
	kind map[string]*travStruct // access paths (interface-typed children) whose node kind was decided on this path
	// guards: calls of string predicates of the module decided on this path (R-print-bare-guard)
	guards []r2pGuardRec
	// R-predicate-all-paths
	insp    map[string]bool
	sawAbs  string
	callVar map[types.Object]*ast.CallExpr
	acc     map[types.Object]map[string]bool // accumulator local (`ok = ok && f(x)`) -> children folded into it
	// R-rebuild-all-paths
	atoms map[types.Object]r2pAtoms
	elems map[types.Object][]r2pElem
	bare  map[types.Object]r2pAtoms // R-rebuild-delimiters: parts of the input held outside any delimiting position
}

type r2pGuardRec struct {
	fn    *types.Func
	paths map[string]bool // what the argument is made of
	val   bool
	line  int
}

func r2pNewState() *r2pState {
	return &r2pState{facts: map[string]int{}, konst: map[types.Object]int{}, konstF: map[string]int{}, alias: map[types.Object]string{},
		must: map[ast.Stmt]bool{}, entered: map[ast.Stmt]bool{},
		tmpl: map[types.Object]r2pTmpl{}, ctrl: map[string]bool{}, kind: map[string]*travStruct{},
		insp: map[string]bool{}, callVar: map[types.Object]*ast.CallExpr{}, acc: map[types.Object]map[string]bool{},
		atoms: map[types.Object]r2pAtoms{}, elems: map[types.Object][]r2pElem{}, bare: map[types.Object]r2pAtoms{}}
}

func r2pCopyMap[K comparable, V any](m map[K]V) map[K]V {
	o := make(map[K]V, len(m))
	for k, v := range m {
		o[k] = v
	}
	return o
}

func r2pClone(s *r2pState) *r2pState {
	return &r2pState{facts: r2pCopyMap(s.facts), konst: r2pCopyMap(s.konst), konstF: r2pCopyMap(s.konstF), alias: r2pCopyMap(s.alias),
		must: r2pCopyMap(s.must), entered: r2pCopyMap(s.entered), trace: append([]string(nil), s.trace...),
		tmpl: r2pCopyMap(s.tmpl), ctrl: r2pCopyMap(s.ctrl), kind: r2pCopyMap(s.kind), guards: append([]r2pGuardRec(nil), s.guards...),
		insp: r2pCopyMap(s.insp), sawAbs: s.sawAbs, callVar: r2pCopyMap(s.callVar), acc: r2pCopyMap(s.acc),
		atoms: r2pCopyMap(s.atoms), elems: r2pCopyMap(s.elems), bare: r2pCopyMap(s.bare)}
}

// feasible: every synthetic "non-empty" decision was followed by entering the loop.
func (s *r2pState) feasible() bool {
	for r := range s.must {
		if !s.entered[r] {
			return false
		}
	}
	return true
}

func (s *r2pState) traceStr() string {
	if len(s.trace) == 0 {
		return "(straight line)"
	}
	return strings.Join(s.trace, "; ")
}

// emptyUpTo: p or one of its prefixes is known to be empty (nil / no elements / false).
func (s *r2pState) emptyUpTo(p string) bool {
	for q := p; q != ""; {
		if s.facts[q] == r2pEmpty {
			return true
		}
		i := strings.LastIndex(q, ".")
		if i < 0 {
			break
		}
		q = q[:i]
	}
	return false
}

// ---------------------------------------------------------------------------
// environment: access paths, condition facts, assignments
// ---------------------------------------------------------------------------

type r2pEnv struct {
	c     *Ctx
	m     *travModel
	pkg   *packages.Package
	info  *types.Info
	fd    *ast.FuncDecl
	roots map[types.Object]string // parameters / receiver -> path root name
	loops *r2pLoops
}

func r2pNewEnv(c *Ctx, m *travModel, p *packages.Package, fd *ast.FuncDecl) *r2pEnv {
	e := &r2pEnv{c: c, m: m, pkg: p, info: p.TypesInfo, fd: fd, roots: map[types.Object]string{}}
	add := func(fl *ast.FieldList) {
		if fl == nil {
			return
		}
		for _, f := range fl.List {
			for _, n := range f.Names {
				if o := e.info.Defs[n]; o != nil && n.Name != "_" {
					e.roots[o] = n.Name
				}
			}
		}
	}
	add(fd.Recv)
	add(fd.Type.Params)
	return e
}

func (e *r2pEnv) line(p token.Pos) int { return e.c.Fset.Position(p).Line }

// pathOf: the access path an expression denotes (selector / deref / index /
// type-assert / address-of chains over a root or an aliased local), or "".
func (e *r2pEnv) pathOf(st *r2pState, x ast.Expr) string {
	return r2pNorm(e.rawPathOf(st, x))
}

// r2pNorm drops the element markers: a part of an element of x.F is treated as a part of x.F.
func r2pNorm(p string) string { return strings.ReplaceAll(p, "[]", "") }

// rawPathOf keeps the element markers ("x.F[]" is an element of the list x.F): the
// emptiness of an element (elem == nil) says nothing about the emptiness of the list.
func (e *r2pEnv) rawPathOf(st *r2pState, x ast.Expr) string {
	return r2pPath(e.info, x, func(id *ast.Ident) (string, bool) {
		o := e.info.Uses[id]
		if o == nil {
			o = e.info.Defs[id]
		}
		if o == nil {
			return "", false
		}
		if st != nil {
			if p, ok := st.alias[o]; ok {
				return p, true
			}
		}
		if p, ok := e.roots[o]; ok {
			return p, true
		}
		return "", false
	})
}

func r2pPath(info *types.Info, x ast.Expr, resolve func(*ast.Ident) (string, bool)) string {
	switch y := x.(type) {
	case *ast.ParenExpr:
		return r2pPath(info, y.X, resolve)
	case *ast.Ident:
		if p, ok := resolve(y); ok {
			return p
		}
	case *ast.SelectorExpr:
		if sel := info.Selections[y]; sel != nil && sel.Kind() == types.FieldVal {
			if p := r2pPath(info, y.X, resolve); p != "" {
				return p + "." + y.Sel.Name
			}
		}
	case *ast.StarExpr:
		return r2pPath(info, y.X, resolve)
	case *ast.UnaryExpr:
		if y.Op == token.AND {
			return r2pPath(info, y.X, resolve)
		}
	case *ast.IndexExpr:
		if p := r2pPath(info, y.X, resolve); p != "" {
			return p + "[]"
		}
	case *ast.SliceExpr:
		return r2pPath(info, y.X, resolve)
	case *ast.TypeAssertExpr:
		if y.Type != nil {
			return r2pPath(info, y.X, resolve)
		}
	case *ast.CallExpr:
		if tv, ok := info.Types[y.Fun]; ok && tv.IsType() && len(y.Args) == 1 {
			return r2pPath(info, y.Args[0], resolve)
		}
	}
	return ""
}

func r2pIsNil(info *types.Info, x ast.Expr) bool {
	id, ok := ast.Unparen(x).(*ast.Ident)
	if !ok {
		return false
	}
	_, isNil := info.Uses[id].(*types.Nil)
	return isNil
}

func r2pIntLit(x ast.Expr) (int, bool) {
	if bl, ok := ast.Unparen(x).(*ast.BasicLit); ok && bl.Kind == token.INT {
		switch bl.Value {
		case "0":
			return 0, true
		case "1":
			return 1, true
		}
	}
	return 0, false
}

func r2pIsBuiltin(info *types.Info, call *ast.CallExpr, name string) bool {
	if id, ok := ast.Unparen(call.Fun).(*ast.Ident); ok {
		if b, ok := info.Uses[id].(*types.Builtin); ok && b.Name() == name {
			return true
		}
	}
	return false
}

// r2pCondFact: what an atomic condition says about the emptiness of an access
// path: (path, emptyWhenTrue). Recognised: `p == nil`, `p != nil`, `len(p) ⋈ 0|1`,
// `p == ""`, a bool-typed path, and a niladic method of the module whose body
// is `return <such an atom over its receiver>` (e.g. IsLiteral()).
func r2pCondFact(e *r2pEnv, info *types.Info, atom ast.Expr, resolve func(*ast.Ident) (string, bool), depth int) (string, bool, bool) {
	atom = ast.Unparen(atom)
	switch x := atom.(type) {
	case *ast.UnaryExpr:
		if x.Op == token.NOT {
			p, ew, ok := r2pCondFact(e, info, x.X, resolve, depth)
			return p, !ew, ok
		}
	case *ast.BinaryExpr:
		a, b := x.X, x.Y
		op := x.Op
		if r2pIsNil(info, a) || func() bool { _, ok := r2pIntLit(a); return ok }() {
			a, b = b, a
			switch op {
			case token.LSS:
				op = token.GTR
			case token.GTR:
				op = token.LSS
			case token.LEQ:
				op = token.GEQ
			case token.GEQ:
				op = token.LEQ
			}
		}
		if r2pIsNil(info, b) {
			if p := r2pPath(info, a, resolve); p != "" {
				switch op {
				case token.EQL:
					return p, true, true
				case token.NEQ:
					return p, false, true
				}
			}
			return "", false, false
		}
		if bl, ok := ast.Unparen(b).(*ast.BasicLit); ok && bl.Kind == token.STRING && (bl.Value == `""` || bl.Value == "``") {
			if p := r2pPath(info, a, resolve); p != "" {
				switch op {
				case token.EQL:
					return p, true, true
				case token.NEQ:
					return p, false, true
				}
			}
			return "", false, false
		}
		if call, ok := ast.Unparen(a).(*ast.CallExpr); ok && r2pIsBuiltin(info, call, "len") && len(call.Args) == 1 {
			k, ok := r2pIntLit(b)
			p := r2pPath(info, call.Args[0], resolve)
			if !ok || p == "" {
				return "", false, false
			}
			switch {
			case op == token.EQL && k == 0, op == token.LSS && k == 1, op == token.LEQ && k == 0:
				return p, true, true
			case op == token.NEQ && k == 0, op == token.GTR && k == 0, op == token.GEQ && k == 1:
				return p, false, true
			}
			return "", false, false
		}
	case *ast.Ident, *ast.SelectorExpr:
		if b, ok := types.Unalias(info.TypeOf(atom)).Underlying().(*types.Basic); ok && b.Kind() == types.Bool {
			if p := r2pPath(info, atom, resolve); p != "" {
				return p, false, true
			}
		}
	case *ast.CallExpr:
		// niladic method of the module on an access path, body `return <atom>`
		if depth > 2 || len(x.Args) != 0 {
			break
		}
		se, ok := ast.Unparen(x.Fun).(*ast.SelectorExpr)
		if !ok {
			break
		}
		base := r2pPath(info, se.X, resolve)
		callee := CalleeOf(info, x)
		if base == "" || callee == nil {
			break
		}
		d := e.m.decls[callee]
		if d == nil || d.Fd.Recv == nil || len(d.Fd.Body.List) != 1 || len(d.Fd.Recv.List) == 0 || len(d.Fd.Recv.List[0].Names) == 0 {
			break
		}
		rs, ok := d.Fd.Body.List[0].(*ast.ReturnStmt)
		if !ok || len(rs.Results) != 1 {
			break
		}
		recv := d.Pkg.TypesInfo.Defs[d.Fd.Recv.List[0].Names[0]]
		return r2pCondFact(e, d.Pkg.TypesInfo, rs.Results[0], func(id *ast.Ident) (string, bool) {
			if d.Pkg.TypesInfo.Uses[id] == recv && recv != nil {
				return base, true
			}
			return "", false
		}, depth+1)
	}
	return "", false, false
}

// applyCond: common part of OnCond. ok=false: the decision is infeasible on this path.
func (e *r2pEnv) applyCond(st *r2pState, atom ast.Expr, taken bool) bool {
	atom = ast.Unparen(atom)
	if id, ok := atom.(*ast.Ident); ok && e.loops != nil {
		if mk, ok := e.loops.marker[id]; ok {
			p := e.pathOf(st, mk.x)
			if taken {
				if p != "" {
					if st.emptyUpTo(p) {
						return false
					}
					st.facts[p] = r2pNonEmpty
				}
				st.must[mk.loop] = true
				st.trace = append(st.trace, fmt.Sprintf("loop over %s entered (line %d)", exprStr(mk.x), e.line(mk.loop.Pos())))
			} else {
				if p != "" {
					if st.facts[p] == r2pNonEmpty {
						return false
					}
					st.facts[p] = r2pEmpty
				}
				st.trace = append(st.trace, fmt.Sprintf("%s empty (line %d)", exprStr(mk.x), e.line(mk.loop.Pos())))
			}
			return true
		}
	}
	if e.loops != nil {
		if loop, ok := e.loops.forCond[atom]; ok {
			if taken {
				st.entered[loop] = true
			}
			return true
		}
	}
	// constants of locals
	if v, known := e.konstOf(st, atom); known {
		if v != taken {
			return false
		}
		return true
	}
	resolve := func(id *ast.Ident) (string, bool) {
		o := e.info.Uses[id]
		if o == nil {
			return "", false
		}
		if p, ok := st.alias[o]; ok {
			return p, true
		}
		if p, ok := e.roots[o]; ok {
			return p, true
		}
		return "", false
	}
	if p, emptyWhenTrue, ok := r2pCondFact(e, e.info, atom, resolve, 0); ok && !strings.HasSuffix(p, "[]") {
		p = r2pNorm(p)
		want := r2pNonEmpty
		if emptyWhenTrue == taken {
			want = r2pEmpty
		}
		if want == r2pNonEmpty && st.emptyUpTo(p) {
			return false
		}
		if want == r2pEmpty && st.facts[p] == r2pNonEmpty {
			return false
		}
		st.facts[p] = want
	}
	st.trace = append(st.trace, fmt.Sprintf("%s is %v (line %d)", exprStr(atom), taken, e.line(atom.Pos())))
	return true
}

// konstOf: truth value of an atom over a local with a known constant.
func (e *r2pEnv) konstOf(st *r2pState, atom ast.Expr) (bool, bool) {
	// field of a local struct value: `state.warned`, `state.span != nil`
	fieldConst := func(x ast.Expr) int {
		if k, ok := e.fieldKey(x); ok {
			return st.konstF[k]
		}
		return 0
	}
	switch x := ast.Unparen(atom).(type) {
	case *ast.SelectorExpr:
		if b, ok := types.Unalias(e.info.TypeOf(x)).Underlying().(*types.Basic); ok && b.Kind() == types.Bool {
			if k := fieldConst(x); k != 0 {
				return k == 1, true
			}
		}
	case *ast.Ident:
		if o := e.info.Uses[x]; o != nil {
			if b, ok := types.Unalias(o.Type()).Underlying().(*types.Basic); ok && b.Kind() == types.Bool {
				if k := st.konst[o]; k != 0 {
					return k == 1, true
				}
			}
		}
	case *ast.BinaryExpr:
		if x.Op != token.EQL && x.Op != token.NEQ {
			break
		}
		a, b := x.X, x.Y
		if r2pIsNil(e.info, a) {
			a, b = b, a
		}
		if !r2pIsNil(e.info, b) {
			break
		}
		if k := fieldConst(ast.Unparen(a)); k != 0 {
			isNil := k == 2
			if x.Op == token.EQL {
				return isNil, true
			}
			return !isNil, true
		}
		if id, ok := ast.Unparen(a).(*ast.Ident); ok {
			if o := e.info.Uses[id]; o != nil {
				if k := st.konst[o]; k != 0 {
					isNil := k == 2
					if x.Op == token.EQL {
						return isNil, true
					}
					return !isNil, true
				}
			}
		}
	}
	return false, false
}

// noteAssign: constants and aliases of a plain local on `x := rhs` / `x = rhs` (rhs == nil: zero value).
func (e *r2pEnv) noteAssign(st *r2pState, o types.Object, rhs ast.Expr) {
	if o == nil {
		return
	}
	delete(st.konst, o)
	delete(st.alias, o)
	delete(st.callVar, o)
	e.clearFields(st, o)
	if stt, ok := types.Unalias(o.Type()).Underlying().(*types.Struct); ok && !e.addrTaken(o) {
		var lit *ast.CompositeLit
		if rhs != nil {
			lit, _ = ast.Unparen(rhs).(*ast.CompositeLit)
		}
		if rhs == nil || lit != nil {
			set := map[string]ast.Expr{}
			keyed := true
			if lit != nil {
				for _, el := range lit.Elts {
					if kv, ok := el.(*ast.KeyValueExpr); ok {
						if id, ok := kv.Key.(*ast.Ident); ok {
							set[id.Name] = kv.Value
						}
					} else {
						keyed = false
					}
				}
			}
			if keyed {
				for i := 0; i < stt.NumFields(); i++ {
					f := stt.Field(i)
					e.noteFieldStoreKey(st, r2pObjKey(o)+"."+f.Name(), f.Type(), set[f.Name()], set[f.Name()] == nil)
				}
			}
		}
	}
	if rhs == nil {
		switch t := types.Unalias(o.Type()).Underlying().(type) {
		case *types.Basic:
			if t.Kind() == types.Bool {
				st.konst[o] = 2
			}
		case *types.Pointer, *types.Interface, *types.Slice, *types.Map:
			st.konst[o] = 2
		}
		return
	}
	r := ast.Unparen(rhs)
	switch x := r.(type) {
	case *ast.Ident:
		switch {
		case r2pIsNil(e.info, x):
			st.konst[o] = 2
		case x.Name == "true" && e.info.Uses[x] == types.Universe.Lookup("true"):
			st.konst[o] = 1
		case x.Name == "false" && e.info.Uses[x] == types.Universe.Lookup("false"):
			st.konst[o] = 2
		}
	case *ast.UnaryExpr:
		if x.Op == token.AND {
			st.konst[o] = 1
		}
	}
	if p := e.rawPathOf(st, rhs); p != "" {
		st.alias[o] = p
	}
}

func (e *r2pEnv) objOf(id *ast.Ident) types.Object {
	if o := e.info.Defs[id]; o != nil {
		return o
	}
	return e.info.Uses[id]
}

// onRange: the range value (and key of a slice) variables stand for elements of the ranged path.
func (e *r2pEnv) onRange(st *r2pState, r *ast.RangeStmt) {
	st.entered[r] = true
	p := e.rawPathOf(st, r.X)
	if v, ok := r.Value.(*ast.Ident); ok && v.Name != "_" {
		o := e.objOf(v)
		delete(st.konst, o)
		delete(st.alias, o)
		if p != "" && o != nil {
			st.alias[o] = p + "[]"
		}
	}
	if k, ok := r.Key.(*ast.Ident); ok && k.Name != "_" {
		if o := e.objOf(k); o != nil {
			delete(st.konst, o)
			delete(st.alias, o)
		}
	}
}

// mentioned: every access path (and its prefixes) that occurs syntactically in the body, resolved without aliases.
func (e *r2pEnv) mentioned(root ast.Node) map[string]bool {
	out := map[string]bool{}
	ast.Inspect(root, func(n ast.Node) bool {
		x, ok := n.(ast.Expr)
		if !ok {
			return true
		}
		if p := e.pathOf(nil, x); p != "" {
			for q := p; ; {
				out[q] = true
				i := strings.LastIndex(q, ".")
				if i < 0 {
					break
				}
				q = q[:i]
			}
		}
		return true
	})
	return out
}

// pathsIn: the access paths read inside an expression (maximal chains), with aliases.
func (e *r2pEnv) pathsIn(st *r2pState, x ast.Node) []string {
	var out []string
	seen := map[string]bool{}
	var visit func(n ast.Node) bool
	visit = func(n ast.Node) bool {
		ex, ok := n.(ast.Expr)
		if !ok {
			return true
		}
		if _, isLit := ex.(*ast.FuncLit); isLit {
			return false
		}
		if p := e.pathOf(st, ex); p != "" {
			if !seen[p] {
				seen[p] = true
				out = append(out, p)
			}
			// indices of an index expression are still visited
			if ix, ok := ast.Unparen(ex).(*ast.IndexExpr); ok {
				ast.Inspect(ix.Index, visit)
			}
			return false
		}
		return true
	}
	ast.Inspect(x, visit)
	return out
}

// r2pCovers: does one of the given paths stand for p, a part of p, or a whole containing p?
func r2pCovers(have map[string]bool, p string) bool {
	for h := range have {
		if h == p || strings.HasPrefix(p, h+".") || strings.HasPrefix(h, p+".") {
			return true
		}
	}
	return false
}

func r2pSorted(m map[string]bool) []string {
	var ks []string
	for k := range m {
		ks = append(ks, k)
	}
	sort.Strings(ks)
	return ks
}

// restrictDispatch: inside the walk of a clause unit only the unit's clause of
// its host switch is feasible, and none of the sibling clauses of enclosing
// dispatches.
type r2pClauseFilter struct {
	loops  *r2pLoops
	host   ast.Stmt        // original switch statement
	clause *ast.CaseClause // original clause
	skip   map[ast.Node]bool
	// perSwitch: for every dispatch over the same subject (original switch statement) the clauses that name the
	// unit's kind; an empty set = the kind reaches the default clause (or no clause) of that switch
	perSwitch map[ast.Stmt]map[*ast.CaseClause]bool
}

// allowNone: may the switch be passed without entering any clause (no default, no clause matches)?
func (f *r2pClauseFilter) allowNone(sw ast.Stmt) bool {
	if f == nil {
		return true
	}
	var osw ast.Node = sw
	if o := f.loops.orig[sw]; o != nil {
		osw = o
	}
	if set, ok := f.perSwitch[osw.(ast.Stmt)]; ok {
		return len(set) == 0
	}
	if f.clause != nil && osw == ast.Node(f.host) {
		return false
	}
	return true
}

func (f *r2pClauseFilter) allow(sw ast.Stmt, cc *ast.CaseClause) bool {
	if f == nil {
		return true
	}
	if f.perSwitch != nil {
		var osw ast.Node = sw
		if o := f.loops.orig[sw]; o != nil {
			osw = o
		}
		var occ ast.Node = cc
		if o := f.loops.orig[cc]; o != nil {
			occ = o
		}
		if f.skip[occ] {
			return false
		}
		if set, ok := f.perSwitch[osw.(ast.Stmt)]; ok {
			if len(set) == 0 {
				return cc.List == nil // only the default clause
			}
			return set[occ.(*ast.CaseClause)]
		}
		return true
	}
	if f.clause == nil {
		return true
	}
	osw := f.loops.orig[sw]
	if osw == nil {
		osw = sw
	}
	var occ ast.Node = cc
	if o := f.loops.orig[cc]; o != nil {
		occ = o
	}
	if f.skip[occ] {
		return false
	}
	if osw == f.host {
		return occ == ast.Node(f.clause)
	}
	return true
}

// clauseOf finds the (copied) clause of a value switch from the vals slice handed to OnCase.
func r2pClauseOf(sw *ast.SwitchStmt, vals []ast.Expr) *ast.CaseClause {
	for _, c := range sw.Body.List {
		cc := c.(*ast.CaseClause)
		if vals == nil && cc.List == nil {
			return cc
		}
		if vals != nil && len(cc.List) == len(vals) && len(vals) > 0 && cc.List[0] == vals[0] {
			return cc
		}
	}
	return nil
}

func r2pObjKey(o types.Object) string { return fmt.Sprintf("%s@%d", o.Name(), o.Pos()) }

// fieldKey: `x.f` with x a local variable of struct type (by value) whose address is never taken.
func (e *r2pEnv) fieldKey(x ast.Expr) (string, bool) {
	se, ok := ast.Unparen(x).(*ast.SelectorExpr)
	if !ok {
		return "", false
	}
	id, ok := ast.Unparen(se.X).(*ast.Ident)
	if !ok {
		return "", false
	}
	o, ok := e.info.Uses[id].(*types.Var)
	if !ok || o.IsField() || o.Parent() == nil || (o.Pkg() != nil && o.Parent() == o.Pkg().Scope()) {
		return "", false
	}
	if _, isRoot := e.roots[o]; isRoot {
		return "", false
	}
	if _, ok := types.Unalias(o.Type()).Underlying().(*types.Struct); !ok || e.addrTaken(o) {
		return "", false
	}
	return r2pObjKey(o) + "." + se.Sel.Name, true
}

func (e *r2pEnv) addrTaken(o types.Object) bool {
	taken := false
	ast.Inspect(e.fd.Body, func(n ast.Node) bool {
		if u, ok := n.(*ast.UnaryExpr); ok && u.Op == token.AND {
			if id, ok := ast.Unparen(u.X).(*ast.Ident); ok && e.info.Uses[id] == o {
				taken = true
			}
		}
		// a method with pointer receiver called on the value takes its address as well
		if se, ok := n.(*ast.SelectorExpr); ok {
			if sel := e.info.Selections[se]; sel != nil && sel.Kind() == types.MethodVal {
				if id, ok := ast.Unparen(se.X).(*ast.Ident); ok && e.info.Uses[id] == o {
					if _, ptr := sel.Obj().Type().(*types.Signature).Recv().Type().(*types.Pointer); ptr {
						taken = true
					}
				}
			}
		}
		return !taken
	})
	return taken
}

func (e *r2pEnv) clearFields(st *r2pState, o types.Object) {
	pre := r2pObjKey(o) + "."
	for k := range st.konstF {
		if strings.HasPrefix(k, pre) {
			delete(st.konstF, k)
		}
	}
}

// noteFieldStoreKey: constant of a field after `x.f = rhs` (zero: the field takes its zero value).
func (e *r2pEnv) noteFieldStoreKey(st *r2pState, key string, t types.Type, rhs ast.Expr, zero bool) {
	delete(st.konstF, key)
	if zero {
		switch u := types.Unalias(t).Underlying().(type) {
		case *types.Basic:
			if u.Kind() == types.Bool {
				st.konstF[key] = 2
			}
		case *types.Pointer, *types.Interface, *types.Slice, *types.Map:
			st.konstF[key] = 2
		}
		return
	}
	switch x := ast.Unparen(rhs).(type) {
	case *ast.Ident:
		switch {
		case r2pIsNil(e.info, x):
			st.konstF[key] = 2
		case x.Name == "true" && e.info.Uses[x] == types.Universe.Lookup("true"):
			st.konstF[key] = 1
		case x.Name == "false" && e.info.Uses[x] == types.Universe.Lookup("false"):
			st.konstF[key] = 2
		}
	case *ast.UnaryExpr:
		if x.Op == token.AND {
			st.konstF[key] = 1
		}
	}
}

// noteFieldStores: the `x.f = rhs` parts of an assignment statement (called by every rule's OnStmt).
func (e *r2pEnv) noteFieldStores(st *r2pState, as *ast.AssignStmt) {
	for i, l := range as.Lhs {
		k, ok := e.fieldKey(l)
		if !ok {
			continue
		}
		if as.Tok != token.ASSIGN || len(as.Lhs) != len(as.Rhs) {
			delete(st.konstF, k)
			continue
		}
		e.noteFieldStoreKey(st, k, e.info.TypeOf(l), as.Rhs[i], false)
	}
}
