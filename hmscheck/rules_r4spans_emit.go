package main

import (
	"fmt"
	"go/ast"
	"go/types"
	"sort"
	"strings"
)

// R-emit-span-origin (R-span-runtime family, C08): the span recorded in the
// source map for an emitted instruction is the position every runtime failure
// of that instruction is reported at (interrupt span, stack trace, the
// line/column of a caught exception). It must lie within the construct being
// compiled: it has to be derived from the node in hand — its own span or the
// span of a syntax child — and never from a *type* that the node merely
// refers to: the span of an analyzer type is where the type was written, and
// for a named or imported type that is the `type X = …` definition or the
// import item, possibly in another file.
//
// Enumerated: every call, in package compiler, of the function that appends
// its span parameter to Function.SourceMap (resolved by that role) and of
// every function that forwards a span parameter to it; the span operand is
// classified by provenance through locals, parameters and the Type() method of
// the node's static type (`NewNullType(self.Range)` is the node's own span;
// `return self.ResultType` / an OptType field / the Type() of an expression
// interface is a reference).

func init() {
	register(&Rule{ID: "R-emit-span-origin", Floor: 90, Run: ruleEmitSpanOrigin,
		Doc: "every span the compiler records for an emitted instruction (operand of the function that appends to Function.SourceMap, directly or through span-forwarding helpers) is derived from the syntax node being compiled: the node's own span (Range field, Span(), or the span its Type() method builds from them) or the span of a child node, possibly through a local or a span parameter whose call sites are checked in turn. A span taken from an analyzer TYPE value (OptType.Span(), ResultType.Span(), expr.Type().Span(), a type's Range field) is a reference: for a named or imported type it is the position of the type definition / import item, so a runtime failure of the instruction (failed cast, validation, index …) is reported outside the construct that caused it. A zero errors.Span{} has no position at all."})
}

type r4spEmit struct {
	c       *Ctx
	info    *types.Info // package compiler
	spanT   *types.Named
	smF     *types.Var
	typeI   *types.Interface // analyzer/ast.Type
	typeN   *types.Named
	astPkgs map[string]bool
	decls   map[*types.Func]rdDecl // all module functions
	cdecls  map[*types.Func]*ast.FuncDecl
	flow    map[*types.Func]map[int]bool
}

func (r *r4spEmit) isTypeValue(t types.Type) bool {
	if t == nil {
		return false
	}
	if p, ok := t.(*types.Pointer); ok {
		t = p.Elem()
	}
	if types.Identical(t, r.typeN) {
		return true
	}
	n, ok := t.(*types.Named)
	if !ok || n.Obj().Pkg() == nil || n.Obj().Pkg() != r.typeN.Obj().Pkg() {
		return false
	}
	return types.Implements(n, r.typeI) || types.Implements(types.NewPointer(n), r.typeI)
}

func (r *r4spEmit) isNodeValue(t types.Type) bool {
	if t == nil || r.isTypeValue(t) {
		return false
	}
	if p, ok := t.(*types.Pointer); ok {
		t = p.Elem()
	}
	n, ok := t.(*types.Named)
	return ok && n.Obj().Pkg() != nil && r.astPkgs[n.Obj().Pkg().Path()]
}

func ruleEmitSpanOrigin(c *Ctx) []Obligation {
	sr := srtResolve(c)
	cp := c.Pkg("homescript/compiler")
	ap := c.Pkg("homescript/analyzer/ast")
	r := &r4spEmit{c: c, info: cp.TypesInfo, spanT: sr.spanT, smF: sr.smF, decls: rdDecls(c), cdecls: map[*types.Func]*ast.FuncDecl{}, flow: map[*types.Func]map[int]bool{},
		astPkgs: map[string]bool{ModPath + "/homescript/analyzer/ast": true, ModPath + "/homescript/parser/ast": true}}
	to := ap.Types.Scope().Lookup("Type")
	if to == nil {
		fatalf("anchor unresolved: analyzer/ast.Type")
	}
	r.typeN, _ = to.Type().(*types.Named)
	if r.typeN != nil {
		r.typeI, _ = r.typeN.Underlying().(*types.Interface)
	}
	if r.typeI == nil {
		fatalf("anchor unresolved: analyzer/ast.Type is not an interface")
	}
	info := r.info
	for _, fd := range AllFuncDecls(cp) {
		if fn, ok := info.Defs[fd.Name].(*types.Func); ok {
			r.cdecls[fn] = fd
		}
	}
	paramIndex := func(fd *ast.FuncDecl, obj types.Object) int {
		i := 0
		for _, f := range fd.Type.Params.List {
			for _, n := range f.Names {
				if info.Defs[n] == obj {
					return i
				}
				i++
			}
			if len(f.Names) == 0 {
				i++
			}
		}
		return -1
	}
	mark := func(fn *types.Func, fd *ast.FuncDecl, e ast.Expr) bool {
		id, ok := ast.Unparen(e).(*ast.Ident)
		if !ok {
			return false
		}
		obj := info.Uses[id]
		if obj == nil {
			return false
		}
		i := paramIndex(fd, obj)
		if i < 0 {
			return false
		}
		if r.flow[fn] == nil {
			r.flow[fn] = map[int]bool{}
		}
		if r.flow[fn][i] {
			return false
		}
		r.flow[fn][i] = true
		return true
	}
	// the emitter: appends a span parameter to Function.SourceMap
	for fn, fd := range r.cdecls {
		ast.Inspect(fd.Body, func(n ast.Node) bool {
			as, ok := n.(*ast.AssignStmt)
			if !ok || len(as.Lhs) != len(as.Rhs) {
				return true
			}
			for i, l := range as.Lhs {
				if spFieldOf(info, l) != r.smF {
					continue
				}
				if call, ok := ast.Unparen(as.Rhs[i]).(*ast.CallExpr); ok {
					if id, ok := call.Fun.(*ast.Ident); ok && id.Name == "append" {
						for _, a := range call.Args[1:] {
							mark(fn, fd, a)
						}
					}
				}
			}
			return true
		})
	}
	if len(r.flow) == 0 {
		fatalf("anchor unresolved: the compiler function that appends its span parameter to Function.%s", r.smF.Name())
	}
	// helpers that forward a span parameter
	for changed := true; changed; {
		changed = false
		for fn, fd := range r.cdecls {
			ast.Inspect(fd.Body, func(n ast.Node) bool {
				if call, ok := n.(*ast.CallExpr); ok {
					if cf := CalleeOf(info, call); cf != nil {
						for i := range r.flow[cf] {
							if i < len(call.Args) && mark(fn, fd, call.Args[i]) {
								changed = true
							}
						}
					}
				}
				return true
			})
		}
	}
	// uses
	type use struct {
		fd   *ast.FuncDecl
		expr ast.Expr
		what string
		call *ast.CallExpr
	}
	var fds []*ast.FuncDecl
	for _, fd := range r.cdecls {
		fds = append(fds, fd)
	}
	sort.Slice(fds, func(i, j int) bool { return fds[i].Pos() < fds[j].Pos() })
	var uses []use
	for _, fd := range fds {
		ast.Inspect(fd.Body, func(n ast.Node) bool {
			if call, ok := n.(*ast.CallExpr); ok {
				if cf := CalleeOf(info, call); cf != nil && r.flow[cf] != nil {
					var idx []int
					for i := range r.flow[cf] {
						idx = append(idx, i)
					}
					sort.Ints(idx)
					for _, i := range idx {
						if i < len(call.Args) {
							uses = append(uses, use{fd, call.Args[i], cf.Name() + "()", call})
						}
					}
				}
			}
			return true
		})
	}
	sort.SliceStable(uses, func(i, j int) bool { return uses[i].expr.Pos() < uses[j].expr.Pos() })
	if srtClauseFacts[c] == nil {
		srtDispatchOrder(sr)
	}
	clause := srtClauseFacts[c]
	var obs []Obligation
	cnt := map[string]int{}
	classes := map[string]int{}
	for _, u := range uses {
		st, class, det := r.classify(r.info, u.fd, u.expr, nil, 0)
		if st == Violated {
			// the position of an instruction the VM can neither fail at nor leave a
			// frame at (no source-map lookup in its clause, frame not moved) is never shown
			if op, ok := r.inertOpcode(u.call, clause); ok {
				st, det = Info, det+" — but every instruction emitted here is "+op+", whose VM clause never reads the source map and does not move the frame: the position is never reported"
			}
		}
		classes[class]++
		base := fmt.Sprintf("compiler.%s|%s|emitted span from %s", FuncName(u.fd), u.what, class)
		cnt[base]++
		key := base
		if cnt[base] > 1 {
			key = fmt.Sprintf("%s#%d", base, cnt[base])
		}
		obs = append(obs, Obligation{Key: key, Pos: c.Pos(u.expr.Pos()), Status: st, Detail: det, Nontrivial: class != "node" && class != "param"})
	}
	var cl []string
	for k, v := range classes {
		cl = append(cl, fmt.Sprintf("%s=%d", k, v))
	}
	sort.Strings(cl)
	obs = append(obs, Obligation{Key: "compiler|emitted span sources", Status: Info,
		Detail: fmt.Sprintf("%d source-map operands: %s; %d function(s) record or forward a span parameter", len(uses), strings.Join(cl, ", "), len(r.flow))})
	return obs
}

// r4spBind: receiver of a method being looked through, bound to the operand.
type r4spBind struct {
	obj  types.Object
	expr ast.Expr
	info *types.Info
	fd   *ast.FuncDecl
	up   *r4spBind
}

// classify decides the provenance of a span expression of function fd.
func (r *r4spEmit) classify(info *types.Info, fd *ast.FuncDecl, e ast.Expr, env *r4spBind, depth int) (Status, string, string) {
	e = ast.Unparen(e)
	if depth > 8 {
		return Undecided, "other", "provenance chain too deep at " + exprStr(e)
	}
	switch x := e.(type) {
	case *ast.CompositeLit:
		if t := info.Types[x].Type; t != nil && types.Identical(t, r.spanT) {
			if len(x.Elts) == 0 {
				return Violated, "zero", "errors.Span{}: the instruction has no position"
			}
			return Undecided, "other", "hand-built span " + exprStr(x)
		}
	case *ast.Ident:
		obj := info.Uses[x]
		if obj == nil {
			return Undecided, "other", x.Name
		}
		for b := env; b != nil; b = b.up {
			if b.obj == obj {
				return r.classify(b.info, b.fd, b.expr, b.up, depth+1)
			}
		}
		for _, f := range fd.Type.Params.List {
			for _, n := range f.Names {
				if info.Defs[n] == obj {
					return Discharged, "param", "span parameter " + x.Name + " (its operands are checked at the call sites)"
				}
			}
		}
		var defs []ast.Expr
		ast.Inspect(fd.Body, func(n ast.Node) bool {
			switch s := n.(type) {
			case *ast.AssignStmt:
				if len(s.Lhs) == len(s.Rhs) {
					for i, l := range s.Lhs {
						if id, ok := l.(*ast.Ident); ok && (info.Defs[id] == obj || info.Uses[id] == obj) {
							defs = append(defs, s.Rhs[i])
						}
					}
				}
			case *ast.ValueSpec:
				for i, n := range s.Names {
					if info.Defs[n] == obj && i < len(s.Values) {
						defs = append(defs, s.Values[i])
					}
				}
			}
			return true
		})
		if len(defs) == 0 {
			return Undecided, "other", "no definition of " + x.Name + " found"
		}
		worst, class, det := Discharged, "", ""
		for _, d := range defs {
			s, cl, dd := r.classify(info, fd, d, env, depth+1)
			if s == Violated || (s == Undecided && worst == Discharged) {
				worst, class, det = s, cl, dd
			}
			if det == "" {
				class, det = cl, dd
			}
		}
		return worst, class, x.Name + " := " + det
	case *ast.SelectorExpr:
		f := spFieldOf(info, x)
		if f == nil || !types.Identical(f.Type(), r.spanT) {
			return Undecided, "other", exprStr(x)
		}
		return r.ofValue(info, fd, x.X, env, depth, "field "+f.Name())
	case *ast.CallExpr:
		fn := CalleeOf(info, x)
		if fn == nil {
			return Undecided, "other", "span computed by " + exprStr(x.Fun)
		}
		sig := fn.Type().(*types.Signature)
		sel, isSel := ast.Unparen(x.Fun).(*ast.SelectorExpr)
		if sig.Recv() != nil && isSel && len(x.Args) == 0 && sig.Results().Len() == 1 && types.Identical(sig.Results().At(0).Type(), r.spanT) {
			// a span accessor: look through it when it returns a field / accessor of its receiver
			if d, ok := r.decls[fn]; ok && len(d.fd.Body.List) == 1 && d.fd.Recv != nil && len(d.fd.Recv.List[0].Names) > 0 && !r.isTypeValue(info.Types[sel.X].Type) {
				if ret, ok := d.fd.Body.List[0].(*ast.ReturnStmt); ok && len(ret.Results) == 1 {
					if ro := d.info.Defs[d.fd.Recv.List[0].Names[0]]; ro != nil && r.rootedAt(d.info, ret.Results[0], ro) {
						return r.classify(d.info, d.fd, ret.Results[0], &r4spBind{obj: ro, expr: sel.X, info: info, fd: fd, up: env}, depth+1)
					}
				}
			}
			return r.ofValue(info, fd, sel.X, env, depth, fn.Name()+"()")
		}
		return Undecided, "other", "span computed by " + exprStr(x.Fun)
	}
	return Undecided, "other", "span expression " + exprStr(e)
}

// rootedAt: e is a selector / call chain that starts at the identifier obj.
func (r *r4spEmit) rootedAt(info *types.Info, e ast.Expr, obj types.Object) bool {
	for {
		switch x := ast.Unparen(e).(type) {
		case *ast.SelectorExpr:
			e = x.X
		case *ast.CallExpr:
			s, ok := ast.Unparen(x.Fun).(*ast.SelectorExpr)
			if !ok {
				return false
			}
			e = s.X
		case *ast.Ident:
			return info.Uses[x] == obj
		default:
			return false
		}
	}
}

// ofValue: the span (how) of the value expression v.
func (r *r4spEmit) ofValue(info *types.Info, fd *ast.FuncDecl, v ast.Expr, env *r4spBind, depth int, how string) (Status, string, string) {
	v = ast.Unparen(v)
	if depth > 8 {
		return Undecided, "other", "provenance chain too deep at " + exprStr(v)
	}
	if id, ok := v.(*ast.Ident); ok {
		for b := env; b != nil; b = b.up {
			if b.obj == info.Uses[id] {
				return r.ofValue(b.info, b.fd, b.expr, b.up, depth+1, how)
			}
		}
	}
	if id, ok := v.(*ast.Ident); ok {
		// a local that names a value (`letType := node.Type()`, `child := node.Base`) is that value
		if obj := info.Uses[id]; obj != nil {
			if def := dgSingleDef(info, fd, obj); def != nil {
				return r.ofValue(info, fd, def, env, depth+1, how)
			}
		}
	}
	t := info.Types[v].Type
	if r.isTypeValue(t) {
		// X.Type(): what does the Type method of X's static type build the type from?
		if call, ok := v.(*ast.CallExpr); ok && len(call.Args) == 0 {
			if sel, ok := ast.Unparen(call.Fun).(*ast.SelectorExpr); ok {
				if fn := CalleeOf(info, call); fn != nil {
					if st, cl, det, ok := r.typeMethod(info, fd, sel.X, fn, env, depth); ok {
						return st, cl, det
					}
				}
			}
		}
		return Violated, "type reference", fmt.Sprintf("%s of the TYPE value %s (%s): the position where that type was written — for a named or imported type the `type … = …` definition or the import item, not the construct being compiled; a runtime failure of the instruction is reported there", how, exprStr(v), spTypeName(t))
	}
	if r.isNodeValue(t) {
		return Discharged, "node", how + " of the node " + exprStr(v) + " (" + spTypeName(t) + ")"
	}
	return Undecided, "other", how + " of " + exprStr(v) + ": neither a syntax node nor a type"
}

// typeMethod looks through `X.Type()` when X has a concrete static type whose
// Type method returns a type built by a constructor from X's own spans.
func (r *r4spEmit) typeMethod(info *types.Info, fd *ast.FuncDecl, recv ast.Expr, fn *types.Func, env *r4spBind, depth int) (Status, string, string, bool) {
	d, ok := r.decls[fn]
	if !ok || d.fd.Recv == nil || len(d.fd.Recv.List) == 0 || len(d.fd.Recv.List[0].Names) == 0 {
		return 0, "", "", false // interface method: any implementation
	}
	ro := d.info.Defs[d.fd.Recv.List[0].Names[0]]
	var rets []ast.Expr
	ast.Inspect(d.fd.Body, func(n ast.Node) bool {
		switch x := n.(type) {
		case *ast.FuncLit:
			return false
		case *ast.ReturnStmt:
			if len(x.Results) == 1 {
				rets = append(rets, x.Results[0])
			}
		}
		return true
	})
	if len(rets) == 0 || ro == nil {
		return 0, "", "", false
	}
	bind := &r4spBind{obj: ro, expr: recv, info: info, fd: fd, up: env}
	worst, class, det := Discharged, "", ""
	for _, ret := range rets {
		s, cl, dd := r.typeExprSpan(d.info, d.fd, ret, bind, depth+1)
		if s == Violated || (s == Undecided && worst == Discharged) {
			worst, class, det = s, cl, dd
		}
		if det == "" {
			class, det = cl, dd
		}
	}
	return worst, class, fn.Name() + "() of " + spTypeName(info.Types[recv].Type) + " = " + det, true
}

// typeExprSpan: the span of the type denoted by the type-valued expression e.
func (r *r4spEmit) typeExprSpan(info *types.Info, fd *ast.FuncDecl, e ast.Expr, env *r4spBind, depth int) (Status, string, string) {
	e = ast.Unparen(e)
	if depth > 8 {
		return Undecided, "other", "provenance chain too deep"
	}
	if call, ok := e.(*ast.CallExpr); ok {
		// conversion Type(X{…})
		if tv, ok := info.Types[call.Fun]; ok && tv.IsType() && len(call.Args) == 1 {
			return r.typeExprSpan(info, fd, call.Args[0], env, depth+1)
		}
		fn := CalleeOf(info, call)
		if fn != nil {
			sig := fn.Type().(*types.Signature)
			if sig.Recv() == nil {
				// a type constructor: the type's span is the span operand that ends up as its own span
				if arg, ok := r.ctorSpanArg(fn, call); ok {
					if arg == nil {
						return Violated, "zero", exprStr(call.Fun) + "() builds a type without a span"
					}
					s, cl, dd := r.classify(info, fd, arg, env, depth+1)
					return s, cl, exprStr(call.Fun) + "(… " + exprStr(arg) + ") → " + dd
				}
			} else if sel, ok := ast.Unparen(call.Fun).(*ast.SelectorExpr); ok && len(call.Args) == 0 {
				// self.Inner.Type()
				if st, cl, det, ok := r.typeMethod(info, fd, sel.X, fn, env, depth+1); ok {
					return st, cl, det
				}
			}
		}
	}
	if cl, ok := e.(*ast.CompositeLit); ok {
		for _, el := range cl.Elts {
			if kv, ok := el.(*ast.KeyValueExpr); ok {
				if t := info.Types[kv.Value].Type; t != nil && types.Identical(t, r.spanT) {
					return r.classify(info, fd, kv.Value, env, depth+1)
				}
			}
		}
	}
	return Violated, "type reference", "the stored type " + exprStr(e) + " (its span is where that type was written, not the node)"
}

// ctorSpanArg: for a constructor `func NewT(…, span errors.Span) Type`, the
// operand of call that becomes the span of the built type (nil, true: none).
func (r *r4spEmit) ctorSpanArg(fn *types.Func, call *ast.CallExpr) (ast.Expr, bool) {
	sig := fn.Type().(*types.Signature)
	if sig.Results().Len() != 1 || !r.isTypeValue(sig.Results().At(0).Type()) || sig.Variadic() {
		return nil, false
	}
	var spanIdx []int
	for i := 0; i < sig.Params().Len(); i++ {
		if types.Identical(sig.Params().At(i).Type(), r.spanT) {
			spanIdx = append(spanIdx, i)
		}
	}
	switch len(spanIdx) {
	case 0:
		return nil, true
	case 1:
		if spanIdx[0] < len(call.Args) {
			return call.Args[spanIdx[0]], true
		}
		return nil, false
	}
	// several: the one stored in the field the Span() method of the built type returns
	d, ok := r.decls[fn]
	if !ok {
		return nil, false
	}
	var lit *ast.CompositeLit
	ast.Inspect(d.fd.Body, func(n ast.Node) bool {
		if cl, ok := n.(*ast.CompositeLit); ok && lit == nil && r.isTypeValue(d.info.Types[cl].Type) {
			lit = cl
		}
		return lit == nil
	})
	if lit == nil {
		return nil, false
	}
	named, _ := d.info.Types[lit].Type.(*types.Named)
	if named == nil {
		return nil, false
	}
	var own *types.Var
	for i := 0; i < named.NumMethods(); i++ {
		m := named.Method(i)
		if m.Name() != "Span" {
			continue
		}
		if md, ok := r.decls[m]; ok && len(md.fd.Body.List) == 1 {
			if ret, ok := md.fd.Body.List[0].(*ast.ReturnStmt); ok && len(ret.Results) == 1 {
				own = spFieldOf(md.info, ret.Results[0])
			}
		}
	}
	if own == nil {
		return nil, false
	}
	for _, el := range lit.Elts {
		kv, ok := el.(*ast.KeyValueExpr)
		if !ok {
			continue
		}
		if k, ok := kv.Key.(*ast.Ident); ok && d.info.Uses[k] == own {
			if id, ok := ast.Unparen(kv.Value).(*ast.Ident); ok {
				i := 0
				for _, f := range d.fd.Type.Params.List {
					for _, n := range f.Names {
						if d.info.Defs[n] == d.info.Uses[id] && i < len(call.Args) {
							return call.Args[i], true
						}
						i++
					}
				}
			}
		}
	}
	return nil, false
}

// inertOpcode: every opcode constant among the operands of the emitting call
// names an instruction whose VM clause neither reads the source map nor moves
// the frame (and there is at least one, and no opcode-typed variable).
func (r *r4spEmit) inertOpcode(call *ast.CallExpr, clause map[*types.Const]srtClauseFact) (string, bool) {
	if call == nil || clause == nil {
		return "", false
	}
	var names []string
	ok := true
	var opT types.Type
	for k := range clause {
		opT = k.Type()
		break
	}
	if opT == nil {
		return "", false
	}
	for _, a := range call.Args {
		ast.Inspect(a, func(n ast.Node) bool {
			e, isE := n.(ast.Expr)
			if !isE {
				return true
			}
			tv, has := r.info.Types[e]
			if !has || tv.Type == nil || !types.Identical(tv.Type, opT) {
				return true
			}
			k := ConstOf(r.info, e)
			if k == nil {
				if _, isId := e.(*ast.Ident); isId {
					ok = false // an opcode chosen at run time of the compiler
				}
				return true
			}
			f, known := clause[k]
			if !known || f.lookups > 0 || f.moves {
				ok = false
			}
			names = append(names, k.Name())
			return false
		})
	}
	if !ok || len(names) == 0 {
		return "", false
	}
	return strings.Join(names, "/"), true
}
