package main

// R-map-order, round 4: the sub-obligations of a loop (`<loop>|carried <place>`,
// `<loop>|panic-vs-exit <call>`) and the reviewed table. A sub-obligation is
// decided on its own, whatever the table says about the loop. Only a VIOLATED
// sub-obligation consults the table: an entry under its key records it as a
// known finding (order-dependent-defect: keeps violating, with the recorded
// reason) or as reviewed benign; and — like a reviewed loop — a recorded
// finding whose loop MOVED (into a helper, another function, or whose range
// expression was renamed, so that no obligation carries the recorded key any
// more) is recognised by package + sub-obligation signature + type of the
// ranged map and keeps its entry and key.

import (
	"fmt"
	"strings"
)

type r4bSub struct {
	ob     Obligation
	l      *moLoop
	sig    string // "carried <place>" / "panic-vs-exit <call>" (without ordinal)
	ranged string
}

func r4bIsSubKey(k string) bool {
	return strings.Contains(k, "|carried ") || strings.Contains(k, "|panic-vs-exit ")
}

func r4bApplyReviews(reviewed map[string]moReviewed, order []string, subs []r4bSub) []Obligation {
	have := map[string]bool{}
	for _, s := range subs {
		have[s.ob.Key] = true
	}
	var orphans []string
	for _, k := range order {
		if r4bIsSubKey(k) && !have[k] {
			orphans = append(orphans, k)
		}
	}
	taken := map[string]bool{}
	apply := func(ob Obligation, r moReviewed, moved string) Obligation {
		switch r.Status {
		case "order-dependent-defect":
			ob.Detail = fmt.Sprintf("reviewed ORDER-DEPENDENT DEFECT%s: %s — analysis: %s", moved, r.Reason, ob.Detail)
		case "benign":
			ob.Status = Discharged
			ob.Detail = fmt.Sprintf("reviewed benign%s: %s — analysis: %s", moved, r.Reason, ob.Detail)
		default:
			ob.Status = Undecided
			ob.Detail = "maporder_reviewed.json: unknown status " + r.Status
		}
		return ob
	}
	var out []Obligation
	for _, s := range subs {
		ob := s.ob
		if ob.Status != Violated {
			out = append(out, ob)
			continue
		}
		if r, ok := reviewed[ob.Key]; ok {
			out = append(out, apply(ob, r, ""))
			continue
		}
		matched := false
		for _, k := range orphans {
			r := reviewed[k]
			if taken[k] || moKeyPkg(k) != moKeyPkg(ob.Key) || r.Effects != s.sig || r.Ranged == "" || moSigNorm(r.Ranged) != moSigNorm(s.ranged) {
				continue
			}
			taken[k] = true
			moved := fmt.Sprintf(" (moved loop: the loop of the recorded finding `%s` no longer exists; `%s` is the same finding over the same map type %s)", k, ob.Key, s.ranged)
			ob.Key = k
			out = append(out, apply(ob, r, moved))
			matched = true
			break
		}
		if !matched {
			out = append(out, ob)
		}
	}
	for _, k := range orphans {
		if !taken[k] {
			out = append(out, Obligation{Key: "reviewed-table|" + k, Status: Info, Detail: "entry of maporder_reviewed.json matches no obligation of the current tree (finding fixed, loop removed or renamed)"})
		}
	}
	return out
}
