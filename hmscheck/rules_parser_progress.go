package main

import (
	"fmt"
	"go/ast"
	"go/constant"
	"go/token"
	"go/types"
	"sort"
	"strings"

	"golang.org/x/tools/go/packages"
)

func init() {
	register(&Rule{ID: "R-loop-progress", Floor: 40, Run: ruleLoopProgress,
		Doc: "every `for` loop of lexer and parser that reads the input cursor (lexer: current/next rune; parser: current token) (P1) passes, on every path from the loop head back to the head, through a call that has moved the cursor when it returns normally — lexer advance, or parser next / a sub-parser whose *errors.Error result is then tested so that a failing call leaves the loop — and (P2) leaves the loop on every path once the input is exhausted (current rune nil / current token EOF, which next() reproduces forever), without dereferencing the nil rune; (P3, lexer) with exactly one rune left no path dereferences the nil look-ahead rune. A loop bounded by its own counter (`for i := a; i < n; i++` with i and n untouched by the body) needs neither: it ends like a range loop. Conditions are decided through predicate helpers (`for !self.atEnd()`) and, at end of input, through the binding powers of the EOF token. Together with the finiteness of the input this is termination of the loop; breaking either lets Parse spin or crash on some input (C05). Also decides that next() itself replaces the cursor whenever it returns nil."})
}

// solve computes the greatest fixpoint of the registered summaries.
func (s *pxSummaries) solve() {
	if s.busy {
		return
	}
	s.busy = true
	defer func() { s.busy = false }()
	for round := 0; round < 50; round++ {
		changed := false
		n := len(s.order)
		for i := 0; i < len(s.order); i++ {
			k := s.order[i]
			if !s.val[k] {
				continue // monotone: false stays false
			}
			v, why := s.compute(k)
			if !v {
				s.val[k], s.why[k] = false, why
				changed = true
			}
		}
		if !changed && len(s.order) == n {
			return
		}
	}
	fatalf("consumption summaries did not stabilise")
}

// stable runs f until it registers no new summary (f must be idempotent).
func (s *pxSummaries) stable(f func()) {
	for i := 0; i < 10; i++ {
		s.solve()
		n := len(s.order)
		f()
		if len(s.order) == n {
			return
		}
	}
	fatalf("summary discovery did not stabilise")
}

func (s *pxSummaries) compute(k string) (bool, string) {
	r := s.r
	fn := s.fnOf[k]
	fd := r.decls[fn]
	if fd == nil || fd.Body == nil {
		return false, "no body"
	}
	pk := r.declPkg[fn]
	info := pk.TypesInfo
	sig := fn.Type().(*types.Signature)
	init := pxNewState()
	// bind constant boolean parameters
	ctx := s.ctxOf[k]
	ci := 0
	pi := 0
	for _, f := range fd.Type.Params.List {
		names := f.Names
		if len(names) == 0 {
			pi++
			continue
		}
		for _, nm := range names {
			if pi < sig.Params().Len() {
				if t, ok := sig.Params().At(pi).Type().Underlying().(*types.Basic); ok && t.Kind() == types.Bool && !(sig.Variadic() && pi == sig.Params().Len()-1) {
					if ci < len(ctx) {
						switch ctx[ci] {
						case 'T':
							init.bools[info.Defs[nm]] = true
						case 'F':
							init.bools[info.Defs[nm]] = false
						}
					}
					ci++
				}
			}
			pi++
		}
	}
	errIdx := r.errIndex(sig)
	ok := true
	why := ""
	bad := func(st *pxState, at token.Pos, what string) {
		if ok {
			ok = false
			why = fmt.Sprintf("%s at %s after [%s]", what, r.c.Pos(at), strings.Join(st.decisions, ", "))
		}
	}
	res := r.pxWalk(fd.Body, init, pxWalkOpts{pkg: pk, pruneConsumed: true, maxPaths: 20000}, func(st *pxState, oc outcome) {
		if st.consumed || oc.kind == cPanic {
			return
		}
		if oc.ret == nil {
			bad(st, fd.End(), "falls off the end without having moved the cursor")
			return
		}
		if errIdx < 0 {
			bad(st, oc.ret.Pos(), "returns without having moved the cursor")
			return
		}
		switch r.classifyErrOperand(info, st, oc.ret, sig, errIdx) {
		case pxRetError, pxRetCondConsumed:
			return
		}
		bad(st, oc.ret.Pos(), "returns a nil error without having moved the cursor")
	})
	if res.overflow || len(res.unsupported) > 0 {
		return false, "path enumeration overflow / unsupported control flow"
	}
	return ok, why
}

type pxRetClass int

const (
	pxRetNormal       pxRetClass = iota // error operand nil or unknown: a normal return
	pxRetError                          // error operand known non-nil
	pxRetCondConsumed                   // nil only if a consuming call succeeded
)

// classifyErrOperand classifies the *errors.Error operand of a return.
func (r *pxRoles) classifyErrOperand(info *types.Info, st *pxState, ret *ast.ReturnStmt, sig *types.Signature, errIdx int) pxRetClass {
	var e ast.Expr
	if len(ret.Results) == sig.Results().Len() {
		e = ast.Unparen(ret.Results[errIdx])
	} else if len(ret.Results) == 1 {
		e = ast.Unparen(ret.Results[0]) // tuple pass-through
	} else {
		return pxRetNormal
	}
	switch x := e.(type) {
	case *ast.Ident:
		ob := info.Uses[x]
		if ob == nil {
			return pxRetNormal
		}
		if _, isNil := ob.(*types.Nil); isNil {
			return pxRetNormal
		}
		if v, known := st.nonnil[ob]; known && v {
			return pxRetError
		}
		if idx, ok := st.pend[ob]; ok && st.evs[idx].consumes {
			return pxRetCondConsumed
		}
	case *ast.CallExpr:
		g := CalleeOf(info, x)
		if g == nil {
			return pxRetNormal
		}
		if r.nonNil[g] {
			return pxRetError
		}
		for i := len(st.evs) - 1; i >= 0; i-- {
			if st.evs[i].call == x {
				if st.evs[i].consumes {
					return pxRetCondConsumed
				}
				break
			}
		}
	case *ast.UnaryExpr:
		if _, ok := x.X.(*ast.CompositeLit); ok && x.Op == token.AND {
			return pxRetError
		}
	}
	return pxRetNormal
}

// ---------------------------------------------------------------------

type pxLoop struct {
	pk    *packages.Package
	fd    *ast.FuncDecl
	loop  *ast.ForStmt
	outer ast.Stmt // the loop or its LabeledStmt
	key   string
}

// cursorLoops: every ForStmt of lexer/parser function declarations that
// mentions a cursor field or calls a declared lexer/parser function.
func (r *pxRoles) cursorLoops() []pxLoop {
	var out []pxLoop
	for _, pk := range []*packages.Package{r.lex.pkg, r.pkg} {
		info := pk.TypesInfo
		fds := AllFuncDecls(pk)
		sort.Slice(fds, func(i, j int) bool { return pxDeclKey(pk, fds[i]) < pxDeclKey(pk, fds[j]) })
		for _, fd := range fds {
			n := 0
			labels := map[*ast.ForStmt]*ast.LabeledStmt{}
			ast.Inspect(fd.Body, func(nd ast.Node) bool {
				if l, ok := nd.(*ast.LabeledStmt); ok {
					if f, ok := l.Stmt.(*ast.ForStmt); ok {
						labels[f] = l
					}
				}
				return true
			})
			ast.Inspect(fd.Body, func(nd ast.Node) bool {
				f, ok := nd.(*ast.ForStmt)
				if !ok {
					return true
				}
				n++
				touches := false
				ast.Inspect(f, func(m ast.Node) bool {
					switch x := m.(type) {
					case *ast.SelectorExpr:
						if v, _ := info.Uses[x.Sel].(*types.Var); v != nil && (v == r.curF || v == r.prevF || v == r.lex.curF || v == r.lex.nextF) {
							touches = true
						}
					case *ast.CallExpr:
						if g := CalleeOf(info, x); g != nil && r.decls[g] != nil {
							if sg := g.Type().(*types.Signature); sg.Recv() != nil {
								touches = true
							}
						}
					}
					return !touches
				})
				if !touches {
					return true
				}
				what := "for"
				if f.Cond != nil {
					what = "for " + exprStr(f.Cond)
				}
				lp := pxLoop{pk: pk, fd: fd, loop: f, outer: f, key: fmt.Sprintf("%s|loop#%d %s", pxDeclKey(pk, fd), n, what)}
				if l := labels[f]; l != nil {
					lp.outer = l
				}
				out = append(out, lp)
				return true
			})
		}
	}
	return out
}

func ruleLoopProgress(c *Ctx) []Obligation {
	r := pxDiscover(c)
	var obs []Obligation
	r.sum.stable(func() {
		obs = nil
		obs = append(obs, r.checkNextBase(), r.checkEOFAbsorbing())
		for _, lp := range r.cursorLoops() {
			obs = append(obs, r.loopP1(lp), r.loopP2(lp))
			if lp.pk == r.lex.pkg {
				obs = append(obs, r.loopP3(lp))
			}
		}
	})
	// inventory of the summaries the verdicts rest on
	var t, f []string
	for _, k := range r.sum.order {
		if r.sum.val[k] {
			t = append(t, k)
		} else {
			f = append(f, k)
		}
	}
	sort.Strings(t)
	sort.Strings(f)
	obs = append(obs, Obligation{Key: "summary|functions that move the cursor on every normal return", Pos: "-", Status: Info,
		Detail: fmt.Sprintf("%d (function, constant-bool-context) pairs move the cursor on every normal return; %d do not: %s", len(t), len(f), strings.Join(f, " "))})
	return obs
}

// checkNextBase: next() returns nil only after it has stored NextToken's
// result in the cursor field.
func (r *pxRoles) checkNextBase() Obligation {
	fd := r.decls[r.next]
	o := Obligation{Key: "parser.Parser." + r.next.Name() + "|replaces the cursor whenever it returns nil", Pos: r.c.Pos(fd.Pos()), Nontrivial: true}
	info := r.info
	sig := r.next.Type().(*types.Signature)
	errIdx := r.errIndex(sig)
	if errIdx < 0 {
		o.Status, o.Detail = Undecided, "next has no *errors.Error result"
		return o
	}
	type st struct {
		assigned bool
		nonnil   map[types.Object]bool
		tokErr   types.Object
	}
	var fails []string
	w := &Walker[*st]{
		Clone: func(s *st) *st {
			n := &st{assigned: s.assigned, tokErr: s.tokErr, nonnil: map[types.Object]bool{}}
			for k, v := range s.nonnil {
				n.nonnil[k] = v
			}
			return n
		},
		IsPanic: func(s ast.Stmt) bool { return IsPanicCall(info, s) },
		OnStmt: func(s *st, x ast.Stmt) (*st, bool) {
			// a helper that stores the token on each of its paths (`self.shift(token)`)
			if es, ok := x.(*ast.ExprStmt); ok {
				if call, ok := ast.Unparen(es.X).(*ast.CallExpr); ok && r.alwaysStoresCursor(CalleeOf(info, call), 0) {
					s.assigned = true
				}
			}
			if as, ok := x.(*ast.AssignStmt); ok {
				for _, l := range as.Lhs {
					if sel, ok := l.(*ast.SelectorExpr); ok && info.Uses[sel.Sel] == r.curF {
						s.assigned = true
					}
				}
				if len(as.Rhs) == 1 {
					if call, ok := as.Rhs[0].(*ast.CallExpr); ok && CalleeOf(info, call) == r.nextTok && len(as.Lhs) == 2 {
						if id, ok := as.Lhs[1].(*ast.Ident); ok {
							s.tokErr = info.Defs[id]
							if s.tokErr == nil {
								s.tokErr = info.Uses[id]
							}
						}
					}
				}
			}
			return s, true
		},
		OnCond: func(s *st, cond ast.Expr, taken bool) (*st, bool) {
			if b, ok := ast.Unparen(cond).(*ast.BinaryExpr); ok && (b.Op == token.NEQ || b.Op == token.EQL) {
				if id, ok := ast.Unparen(b.X).(*ast.Ident); ok {
					if ob := info.Uses[id]; ob != nil && r.isErrPtr(ob.Type()) {
						s.nonnil[ob] = (b.Op == token.NEQ) == taken
					}
				}
			}
			return s, true
		},
		Exit: func(s *st, oc outcome) {
			if oc.kind == cPanic {
				return
			}
			if oc.ret == nil || len(oc.ret.Results) != sig.Results().Len() {
				fails = append(fails, "a path leaves next without an explicit result")
				return
			}
			e := ast.Unparen(oc.ret.Results[errIdx])
			if id, ok := e.(*ast.Ident); ok {
				if v, known := s.nonnil[info.Uses[id]]; known && v {
					return // error exit
				}
			}
			if !s.assigned {
				fails = append(fails, fmt.Sprintf("the return at %s may yield a nil error although the cursor field %s was not replaced", r.c.Pos(oc.ret.Pos()), r.curF.Name()))
			}
		},
	}
	w.Run(fd.Body, &st{nonnil: map[types.Object]bool{}})
	if len(fails) > 0 {
		o.Status, o.Detail = Violated, strings.Join(fails, "; ")
	} else {
		o.Status, o.Detail = Discharged, fmt.Sprintf("every nil-returning path assigns %s from %s's result", r.curF.Name(), r.nextTok.Name())
	}
	return o
}

func (r *pxRoles) loopBlock(lp pxLoop) *ast.BlockStmt {
	return &ast.BlockStmt{List: []ast.Stmt{lp.outer}}
}

func pxConsumingCalls(st *pxState) string {
	var parts []string
	for _, e := range st.evs {
		if e.kind != pxEvCall {
			continue
		}
		tag := e.fn.Name()
		switch {
		case e.dropped:
			tag += "(error result dropped)"
		case e.hasErr && !e.ok:
			tag += "(success not established)"
		case !e.consumes:
			tag += "(may return normally without moving the cursor)"
		}
		parts = append(parts, tag)
	}
	if len(parts) == 0 {
		return "no lexer/parser call"
	}
	return strings.Join(parts, ", ")
}

// P1: every back edge has moved the cursor.
func (r *pxRoles) loopP1(lp pxLoop) Obligation {
	o := Obligation{Key: lp.key + "|P1 progress on every back edge", Pos: r.c.Pos(lp.loop.Pos()), Nontrivial: true}
	var fails []string
	iters := 0
	res := r.pxWalk(r.loopBlock(lp), pxNewState(), pxWalkOpts{pkg: lp.pk, maxPaths: 20000,
		onLoopIter: func(loop ast.Stmt, before, after *pxState) {
			if loop.Pos() != lp.loop.Pos() || before.consumed {
				return
			}
			iters++
			if !after.consumed {
				fails = append(fails, fmt.Sprintf("path [%s] returns to the loop head without a successful cursor move: %s", strings.Join(after.decisions, ", "), pxConsumingCalls(after)))
			}
		}}, nil)
	counted, cwhy := pxCountedLoop(lp.pk.TypesInfo, lp.loop)
	switch {
	case res.overflow || len(res.unsupported) > 0:
		o.Status, o.Detail = Undecided, "path enumeration overflow or unsupported control flow (goto/select)"
	case len(fails) > 0 && counted:
		// a back edge that does not move the cursor is harmless when the loop is bounded by its own counter
		o.Status, o.Detail = Discharged, fmt.Sprintf("%d back-edge path(s) do not move the cursor, but the loop is counted (%s): it ends by its counter like a range loop", len(fails), cwhy)
	case len(fails) > 0:
		sort.Strings(fails)
		if len(fails) > 4 {
			fails = append(fails[:4], fmt.Sprintf("… %d more", len(fails)-4))
		}
		o.Status, o.Detail = Violated, strings.Join(fails, " || ")
	default:
		o.Status, o.Detail = Discharged, fmt.Sprintf("%d back-edge path(s), each through a successful advance/next or a consuming sub-parser whose error is tested", iters)
	}
	return o
}

// pxCountedLoop: `for i := a; i < B; i++` (or the decreasing mirror image) where
// the body neither assigns i nor takes its address and the bound B is a
// constant, a variable the body does not assign, or len/cap/int(...) of such
// variables. Such a loop is bounded by its counter — it terminates whatever the
// cursor does, exactly like a range loop (which the rule does not enumerate).
func pxCountedLoop(info *types.Info, f *ast.ForStmt) (bool, string) {
	if f.Cond == nil || f.Post == nil {
		return false, ""
	}
	var ctr types.Object
	up := true
	switch p := f.Post.(type) {
	case *ast.IncDecStmt:
		id, ok := ast.Unparen(p.X).(*ast.Ident)
		if !ok {
			return false, ""
		}
		ctr, up = info.ObjectOf(id), p.Tok == token.INC
	case *ast.AssignStmt:
		if len(p.Lhs) != 1 || len(p.Rhs) != 1 || (p.Tok != token.ADD_ASSIGN && p.Tok != token.SUB_ASSIGN) {
			return false, ""
		}
		id, ok := ast.Unparen(p.Lhs[0]).(*ast.Ident)
		if !ok {
			return false, ""
		}
		tv := info.Types[p.Rhs[0]]
		if tv.Value == nil || tv.Value.Kind() != constant.Int || constant.Sign(tv.Value) <= 0 {
			return false, ""
		}
		ctr, up = info.ObjectOf(id), p.Tok == token.ADD_ASSIGN
	default:
		return false, ""
	}
	if ctr == nil {
		return false, ""
	}
	if b, ok := ctr.Type().Underlying().(*types.Basic); !ok || b.Info()&types.IsInteger == 0 {
		return false, ""
	}
	cond, ok := ast.Unparen(f.Cond).(*ast.BinaryExpr)
	if !ok {
		return false, ""
	}
	isCtr := func(e ast.Expr) bool {
		id, ok := ast.Unparen(e).(*ast.Ident)
		return ok && info.Uses[id] == ctr
	}
	var bound ast.Expr
	switch {
	case isCtr(cond.X) && ((up && (cond.Op == token.LSS || cond.Op == token.LEQ)) || (!up && (cond.Op == token.GTR || cond.Op == token.GEQ))):
		bound = cond.Y
	case isCtr(cond.Y) && ((up && (cond.Op == token.GTR || cond.Op == token.GEQ)) || (!up && (cond.Op == token.LSS || cond.Op == token.LEQ))):
		bound = cond.X
	default:
		return false, ""
	}
	// objects the body (or post) assigns / takes the address of
	assigned := map[types.Object]bool{}
	mark := func(e ast.Expr) {
		for {
			switch x := ast.Unparen(e).(type) {
			case *ast.Ident:
				if ob := info.ObjectOf(x); ob != nil {
					assigned[ob] = true
				}
				return
			case *ast.IndexExpr:
				e = x.X
			case *ast.StarExpr:
				e = x.X
			case *ast.SelectorExpr:
				if ob := info.Uses[x.Sel]; ob != nil {
					assigned[ob] = true
				}
				e = x.X
			default:
				return
			}
		}
	}
	opaque := false
	ast.Inspect(f.Body, func(n ast.Node) bool {
		switch x := n.(type) {
		case *ast.FuncLit:
			opaque = true
		case *ast.AssignStmt:
			for _, l := range x.Lhs {
				mark(l)
			}
		case *ast.IncDecStmt:
			mark(x.X)
		case *ast.UnaryExpr:
			if x.Op == token.AND {
				mark(x.X)
			}
		case *ast.RangeStmt:
			if x.Tok == token.ASSIGN {
				if x.Key != nil {
					mark(x.Key)
				}
				if x.Value != nil {
					mark(x.Value)
				}
			}
		}
		return true
	})
	if opaque || assigned[ctr] {
		return false, ""
	}
	var stable func(e ast.Expr) bool
	stable = func(e ast.Expr) bool {
		e = ast.Unparen(e)
		if tv, ok := info.Types[e]; ok && tv.Value != nil {
			return true
		}
		switch x := e.(type) {
		case *ast.Ident:
			ob := info.Uses[x]
			v, isVar := ob.(*types.Var)
			// a local / parameter the body does not assign (package-level state could be changed by a callee)
			return isVar && !assigned[ob] && !v.IsField() && v.Pkg() != nil && v.Parent() != v.Pkg().Scope()
		case *ast.CallExpr:
			if len(x.Args) != 1 {
				return false
			}
			if tv, ok := info.Types[x.Fun]; ok && tv.IsType() {
				return stable(x.Args[0]) // conversion
			}
			if id, ok := ast.Unparen(x.Fun).(*ast.Ident); ok {
				if b, ok := info.Uses[id].(*types.Builtin); ok && (b.Name() == "len" || b.Name() == "cap") {
					return stable(x.Args[0])
				}
			}
		case *ast.BinaryExpr:
			switch x.Op {
			case token.ADD, token.SUB, token.MUL, token.QUO:
				return stable(x.X) && stable(x.Y)
			}
		}
		return false
	}
	if !stable(bound) {
		return false, ""
	}
	dir := "++"
	if !up {
		dir = "--"
	}
	return true, fmt.Sprintf("%s%s against the loop-invariant bound %s", ctr.Name(), dir, exprStr(bound))
}

// P2: at end of input every path leaves the loop.
func (r *pxRoles) loopP2(lp pxLoop) Obligation {
	o := Obligation{Key: lp.key + "|P2 leaves the loop at end of input", Pos: r.c.Pos(lp.loop.Pos()), Nontrivial: true}
	var fails []string
	var faults []string
	seenFault := map[string]bool{}
	collect := func(st *pxState) {
		for _, f := range st.faults {
			if !seenFault[f] {
				seenFault[f] = true
				faults = append(faults, f)
			}
		}
	}
	res := r.pxWalk(r.loopBlock(lp), pxNewState(), pxWalkOpts{pkg: lp.pk, eof: true, maxPaths: 20000,
		onLoopIter: func(loop ast.Stmt, before, after *pxState) {
			collect(after)
			if loop.Pos() != lp.loop.Pos() {
				return
			}
			fails = append(fails, fmt.Sprintf("with the input exhausted, path [%s] returns to the loop head (the cursor cannot move any more: the loop never ends)", strings.Join(after.decisions, ", ")))
		}}, func(st *pxState, oc outcome) { collect(st) })
	if counted, _ := pxCountedLoop(lp.pk.TypesInfo, lp.loop); counted {
		// bounded by its counter: returning to the head at end of input is harmless (faults still count)
		fails = nil
	}
	switch {
	case res.overflow || len(res.unsupported) > 0:
		o.Status, o.Detail = Undecided, "path enumeration overflow or unsupported control flow (goto/select)"
	case len(fails) > 0 || len(faults) > 0:
		all := append(fails, faults...)
		sort.Strings(all)
		if len(all) > 4 {
			all = append(all[:4], fmt.Sprintf("… %d more", len(all)-4))
		}
		o.Status, o.Detail = Violated, strings.Join(all, " || ")
	default:
		what := "current token kind = " + r.eof
		if lp.pk == r.lex.pkg {
			what = "current and next rune nil"
		}
		o.Status, o.Detail = Discharged, "under "+what+" every feasible path leaves the loop (condition false, break or return)"
	}
	return o
}

// P3 (lexer): with exactly one rune left no path through the loop dereferences
// the (nil) look-ahead rune, nor the current rune after it was consumed.
func (r *pxRoles) loopP3(lp pxLoop) Obligation {
	o := Obligation{Key: lp.key + "|P3 no nil rune dereferenced with one rune left", Pos: r.c.Pos(lp.loop.Pos()), Nontrivial: true}
	var faults []string
	seen := map[string]bool{}
	collect := func(st *pxState) {
		for _, f := range st.faults {
			if !seen[f] {
				seen[f] = true
				faults = append(faults, f)
			}
		}
	}
	res := r.pxWalk(r.loopBlock(lp), pxNewState(), pxWalkOpts{pkg: lp.pk, lexOneLeft: true, maxPaths: 20000,
		onLoopIter: func(loop ast.Stmt, before, after *pxState) { collect(after) }}, func(st *pxState, oc outcome) { collect(st) })
	switch {
	case res.overflow || len(res.unsupported) > 0:
		o.Status, o.Detail = Undecided, "path enumeration overflow or unsupported control flow (goto/select)"
	case len(faults) > 0:
		sort.Strings(faults)
		if len(faults) > 3 {
			faults = append(faults[:3], fmt.Sprintf("… %d more", len(faults)-3))
		}
		o.Status, o.Detail = Violated, "the input ends one rune after the loop head is reached: "+strings.Join(faults, " || ")
	default:
		o.Status, o.Detail = Discharged, "current rune non-nil, next rune nil at the loop head; after any advance both nil: no path dereferences a nil rune"
	}
	return o
}

// checkEOFAbsorbing: with the input exhausted NextToken returns an EOF token
// and a nil error on every path — so that "current token kind = EOF" is stable
// under next(), which P2 relies on.
func (r *pxRoles) checkEOFAbsorbing() Obligation {
	fd := r.decls[r.nextTok]
	o := Obligation{Key: "lexer.Lexer." + r.nextTok.Name() + "|at end of input returns the EOF token and no error, every time", Pos: r.c.Pos(fd.Pos()), Nontrivial: true}
	info := r.lex.info
	var fails []string
	n := 0
	res := r.pxWalk(fd.Body, pxNewState(), pxWalkOpts{pkg: r.lex.pkg, eof: true, maxPaths: 20000}, func(st *pxState, oc outcome) {
		if oc.kind == cPanic {
			fails = append(fails, "a path panics at end of input")
			return
		}
		for _, f := range st.faults {
			fails = append(fails, f)
		}
		if oc.ret == nil || len(oc.ret.Results) != 2 {
			fails = append(fails, "a path leaves NextToken without (token, error)")
			return
		}
		n++
		kind := r.tokenKindOf(info, fd, oc.ret.Results[0], 0)
		isNil := false
		if id, ok := ast.Unparen(oc.ret.Results[1]).(*ast.Ident); ok {
			_, isNil = info.Uses[id].(*types.Nil)
		}
		if kind != r.eof || !isNil {
			fails = append(fails, fmt.Sprintf("the return at %s yields (%s, %s) at end of input", r.c.Pos(oc.ret.Pos()), exprStr(oc.ret.Results[0]), exprStr(oc.ret.Results[1])))
		}
	})
	switch {
	case res.overflow || len(res.unsupported) > 0:
		o.Status, o.Detail = Undecided, "path enumeration overflow or unsupported control flow"
	case len(fails) > 0 || n == 0:
		o.Status, o.Detail = Violated, strings.Join(pxDedupe(fails), " || ")
	default:
		o.Status, o.Detail = Discharged, fmt.Sprintf("%d feasible path(s) with the current rune nil, each returns newToken(%s, …), nil without moving", n, r.eof)
	}
	return o
}

// alwaysStoresCursor: every path through g (a parser function without result)
// assigns the cursor field: an assignment to it among the top-level statements
// of the body, before any return.
func (r *pxRoles) alwaysStoresCursor(g *types.Func, depth int) bool {
	gd := r.decls[g]
	if g == nil || gd == nil || gd.Body == nil || r.declPkg[g] != r.pkg || depth > 2 {
		return false
	}
	for _, s := range gd.Body.List {
		switch x := s.(type) {
		case *ast.ReturnStmt:
			return false
		case *ast.AssignStmt:
			for _, l := range x.Lhs {
				if sel, ok := l.(*ast.SelectorExpr); ok && r.info.Uses[sel.Sel] == r.curF {
					return true
				}
			}
		case *ast.ExprStmt:
			if call, ok := ast.Unparen(x.X).(*ast.CallExpr); ok && r.alwaysStoresCursor(CalleeOf(r.info, call), depth+1) {
				return true
			}
		case *ast.IfStmt, *ast.ForStmt, *ast.RangeStmt, *ast.SwitchStmt, *ast.TypeSwitchStmt, *ast.SelectStmt:
			// a nested return could leave before the store
			hasRet := false
			ast.Inspect(x, func(n ast.Node) bool {
				if _, ok := n.(*ast.ReturnStmt); ok {
					hasRet = true
				}
				return !hasRet
			})
			if hasRet {
				return false
			}
		}
	}
	return false
}

// tokenKindOf: the kind of the token an expression of the lexer builds — a call of the token
// constructor with a constant kind, a local holding one (single definition), a composite
// literal of the token type with a constant kind field, or a call of a helper every return of
// which is such a token. "" when not a constant.
func (r *pxRoles) tokenKindOf(info *types.Info, fd *ast.FuncDecl, e ast.Expr, depth int) string {
	e = ast.Unparen(e)
	switch x := e.(type) {
	case *ast.Ident:
		if def := pxLocalDefsOf(info, fd).single(info.Uses[x]); def != nil && def != e {
			return r.tokenKindOf(info, fd, def, depth+1)
		}
	case *ast.CompositeLit:
		if t := info.TypeOf(x); t != nil && types.Identical(t, r.tokenT) {
			for _, el := range x.Elts {
				if kv, ok := el.(*ast.KeyValueExpr); ok {
					if id, ok := kv.Key.(*ast.Ident); ok && info.Uses[id] == r.kindF {
						return r.canonKind(info, kv.Value)
					}
				}
			}
		}
	case *ast.CallExpr:
		g := CalleeOf(info, x)
		if g == nil {
			return ""
		}
		if g == r.lex.newToken && len(x.Args) > 0 {
			return r.canonKind(info, x.Args[0])
		}
		gd := r.decls[g]
		if gd == nil || gd.Body == nil || depth > 2 || r.declPkg[g] != r.lex.pkg {
			return ""
		}
		ginfo := r.declPkg[g].TypesInfo
		kind, n := "", 0
		same := true
		ast.Inspect(gd.Body, func(m ast.Node) bool {
			if _, ok := m.(*ast.FuncLit); ok {
				return false
			}
			if ret, ok := m.(*ast.ReturnStmt); ok && len(ret.Results) >= 1 {
				k := r.tokenKindOf(ginfo, gd, ret.Results[0], depth+1)
				if n > 0 && k != kind {
					same = false
				}
				kind = k
				n++
			}
			return true
		})
		if n > 0 && same {
			return kind
		}
	}
	return ""
}
