package main

import (
	"fmt"
	"go/ast"
	"go/constant"
	"go/token"
	"go/types"
	"sort"
	"strings"

	"golang.org/x/tools/go/packages"
)

// Shared model of the hand-written recursive-descent parser (package parser)
// used by R-prec, R-err-discipline, R-loop-progress, R-list-siblings and
// R-layout-independence. Roles are discovered, not named:
//   - the parser type is the receiver of the exported anchor Parser.Parse;
//   - "next" is the *Parser method that calls lexer.(*Lexer).NextToken; the
//     cursor field is the lexer.Token field of Parser that next assigns from
//     NextToken's result, the look-behind field the one assigned from the cursor;
//   - the "expect family" are the *Parser methods that compare the cursor's kind
//     with a TokenKind parameter and reach next;
//   - EOF / ',' are the kinds whose display string (TokenKind.String) is "EOF" / ",".

type pxRoles struct {
	c        *Ctx
	pkg      *packages.Package // homescript/parser
	info     *types.Info
	lex      *lexRoles
	parserT  *types.Named
	errT     *types.Named // errors.Error
	tokenT   *types.Named
	kindT    *types.Named
	kindEnum *Enum
	display  map[string]string // kind const name -> display
	byDisp   map[string]string // display -> canonical kind name
	next     *types.Func
	nextTok  *types.Func
	curF     *types.Var // Parser.CurrentToken (by role)
	prevF    *types.Var
	kindF    *types.Var // Token.Kind
	eof      string
	comma    string
	decls    map[*types.Func]*ast.FuncDecl // every declared function of lexer + parser
	declPkg  map[*types.Func]*packages.Package
	expectF  map[*types.Func]bool // expect family
	nextLike map[*types.Func]bool // next and parameterless wrappers that only return next()
	nonNil   map[*types.Func]bool // functions whose *errors.Error result is never nil
	sum      *pxSummaries
	eofPow   *pxEofPower
	powFn    *types.Func // the binding-power method of the token kind type
}

var pxRolesCache = map[*Ctx]*pxRoles{}

func pxDiscover(c *Ctx) *pxRoles {
	if r := pxRolesCache[c]; r != nil {
		return r
	}
	p := c.Pkg("homescript/parser")
	r := &pxRoles{c: c, pkg: p, info: p.TypesInfo, lex: discoverLexRoles(c),
		decls: map[*types.Func]*ast.FuncDecl{}, declPkg: map[*types.Func]*packages.Package{},
		expectF: map[*types.Func]bool{}, nonNil: map[*types.Func]bool{}}
	r.display = tokenDisplay(c, r.lex)
	r.tokenT, r.kindT = r.lex.tokenT, r.lex.kindT
	r.kindEnum = c.EnumOf(r.kindT)
	if r.kindEnum == nil {
		fatalf("anchor unresolved: lexer.TokenKind is not an enum")
	}
	r.byDisp = map[string]string{}
	for k, d := range r.display {
		if prev, dup := r.byDisp[d]; dup && prev != k {
			// two kinds share a display string: keep the lexically smaller, deterministic
			if prev < k {
				continue
			}
		}
		r.byDisp[d] = k
	}
	r.eof, r.comma = r.byDisp["EOF"], r.byDisp[","]
	if r.eof == "" || r.comma == "" {
		fatalf("anchor unresolved: no token kind displays as EOF / ','")
	}
	ep := c.Pkg("homescript/errors")
	eo, _ := ep.Types.Scope().Lookup("Error").(*types.TypeName)
	if eo == nil {
		fatalf("anchor unresolved: errors.Error")
	}
	r.errT = eo.Type().(*types.Named)
	po, _ := p.Types.Scope().Lookup("Parser").(*types.TypeName)
	if po == nil {
		fatalf("anchor unresolved: parser.Parser")
	}
	r.parserT = po.Type().(*types.Named)
	c.MustFunc("homescript/parser", "Parser", "Parse")
	// Token.Kind field
	if st, ok := r.tokenT.Underlying().(*types.Struct); ok {
		for i := 0; i < st.NumFields(); i++ {
			if types.Identical(st.Field(i).Type(), r.kindT) {
				r.kindF = st.Field(i)
			}
		}
	}
	if r.kindF == nil {
		fatalf("anchor unresolved: lexer.Token has no TokenKind field")
	}
	for _, pk := range []*packages.Package{r.lex.pkg, p} {
		for _, fd := range AllFuncDecls(pk) {
			if fn, ok := pk.TypesInfo.Defs[fd.Name].(*types.Func); ok {
				r.decls[fn] = fd
				r.declPkg[fn] = pk
			}
		}
	}
	// NextToken, next, cursor fields
	for i := 0; i < r.lex.lexerT.NumMethods(); i++ {
		if m := r.lex.lexerT.Method(i); m.Name() == "NextToken" {
			r.nextTok = m
		}
	}
	if r.nextTok == nil {
		fatalf("anchor unresolved: lexer.Lexer.NextToken")
	}
	for fn, fd := range r.decls {
		if r.declPkg[fn] != p || fd.Recv == nil || recvTypeName(fd.Recv.List[0].Type) != "Parser" {
			continue
		}
		var tokVar types.Object
		ast.Inspect(fd.Body, func(n ast.Node) bool {
			as, ok := n.(*ast.AssignStmt)
			if !ok || len(as.Rhs) != 1 {
				return true
			}
			if call, ok := as.Rhs[0].(*ast.CallExpr); ok && CalleeOf(r.info, call) == r.nextTok && len(as.Lhs) == 2 {
				if id, ok := as.Lhs[0].(*ast.Ident); ok {
					tokVar = r.info.Defs[id]
					if tokVar == nil {
						tokVar = r.info.Uses[id]
					}
				}
			}
			return true
		})
		if tokVar == nil {
			continue
		}
		if r.next != nil {
			fatalf("two *Parser methods call Lexer.NextToken: %s and %s", r.next.Name(), fn.Name())
		}
		r.next = fn
		// the store of the new token: in next itself or in a helper next hands the token to
		// (`self.shift(token)`), where the parameter stands for the token
		var findStore func(body *ast.BlockStmt, tok types.Object, depth int)
		findStore = func(body *ast.BlockStmt, tok types.Object, depth int) {
			ast.Inspect(body, func(n ast.Node) bool {
				switch x := n.(type) {
				case *ast.AssignStmt:
					for i, l := range x.Lhs {
						if len(x.Lhs) != len(x.Rhs) {
							break
						}
						sel, ok := l.(*ast.SelectorExpr)
						if !ok {
							continue
						}
						fv, _ := r.info.Uses[sel.Sel].(*types.Var)
						if fv == nil || !types.Identical(fv.Type(), r.tokenT) {
							continue
						}
						if id, ok := ast.Unparen(x.Rhs[i]).(*ast.Ident); ok && r.info.Uses[id] == tok {
							r.curF = fv
						} else if _, ok := ast.Unparen(x.Rhs[i]).(*ast.SelectorExpr); ok {
							r.prevF = fv
						}
					}
				case *ast.CallExpr:
					g := CalleeOf(r.info, x)
					gd := r.decls[g]
					if g == nil || gd == nil || gd.Body == nil || r.declPkg[g] != p || depth >= 2 {
						return true
					}
					for i, a := range x.Args {
						if id, ok := ast.Unparen(a).(*ast.Ident); ok && r.info.Uses[id] == tok {
							if po := pxParamObj(r.info, gd, i); po != nil {
								findStore(gd.Body, po, depth+1)
							}
						}
					}
				}
				return true
			})
		}
		findStore(fd.Body, tokVar, 0)
	}
	if r.next == nil || r.curF == nil {
		fatalf("anchor unresolved: the *Parser method that calls Lexer.NextToken and stores the token (next / cursor field)")
	}
	r.discoverNonNil()
	r.discoverExpectFamily()
	r.discoverNextLike()
	r.sum = &pxSummaries{r: r, val: map[string]bool{}, why: map[string]string{}}
	pxRolesCache[c] = r
	return r
}

// errIndex returns the index of the *errors.Error result of a signature, or -1.
func (r *pxRoles) errIndex(sig *types.Signature) int {
	if sig == nil {
		return -1
	}
	for i := 0; i < sig.Results().Len(); i++ {
		if r.isErrPtr(sig.Results().At(i).Type()) {
			return i
		}
	}
	return -1
}

func (r *pxRoles) isErrPtr(t types.Type) bool {
	p, ok := types.Unalias(t).(*types.Pointer)
	if !ok {
		return false
	}
	n, ok := types.Unalias(p.Elem()).(*types.Named)
	return ok && n.Obj() == r.errT.Obj()
}

// canonKind returns the canonical constant name of a TokenKind constant
// expression (aliases such as SINGLETON_TOKEN are folded by value).
func (r *pxRoles) canonKind(info *types.Info, e ast.Expr) string {
	k := ConstOf(info, e)
	if k == nil || !types.Identical(k.Type(), r.kindT) {
		return ""
	}
	return r.canonKindConst(k)
}

func (r *pxRoles) canonKindConst(k *types.Const) string {
	all := r.kindEnum.ByVal[k.Val().ExactString()]
	for _, a := range all {
		if _, ok := r.display[a.Name()]; ok {
			return a.Name()
		}
	}
	if len(all) > 0 {
		return all[len(all)-1].Name()
	}
	return k.Name()
}

// isCurKind: e is <recv>.<cursor>.Kind
func (r *pxRoles) isCurKind(info *types.Info, e ast.Expr) bool {
	sel, ok := ast.Unparen(e).(*ast.SelectorExpr)
	if !ok || info.Uses[sel.Sel] != r.kindF {
		return false
	}
	in, ok := ast.Unparen(sel.X).(*ast.SelectorExpr)
	return ok && info.Uses[in.Sel] == r.curF
}

// kindAtom decodes `cursor.Kind == K` / `!=` (either operand order).
func (r *pxRoles) kindAtom(info *types.Info, e ast.Expr) (kind string, eq bool, ok bool) {
	b, isBin := ast.Unparen(e).(*ast.BinaryExpr)
	if !isBin || (b.Op != token.EQL && b.Op != token.NEQ) {
		return "", false, false
	}
	x, y := b.X, b.Y
	if !r.isCurKind(info, x) {
		x, y = y, x
	}
	if !r.isCurKind(info, x) {
		return "", false, false
	}
	k := r.canonKind(info, y)
	if k == "" {
		return "", false, false
	}
	return k, b.Op == token.EQL, true
}

func (r *pxRoles) discoverNonNil() {
	// least fixpoint: every return's error result is &T{...} or a call of a non-nil function
	all := map[*types.Func]*ast.FuncDecl{}
	infoOf := map[*types.Func]*types.Info{}
	for fn, fd := range r.decls {
		all[fn], infoOf[fn] = fd, r.declPkg[fn].TypesInfo
	}
	ep := r.c.Pkg("homescript/errors")
	for _, fd := range AllFuncDecls(ep) {
		if fn, ok := ep.TypesInfo.Defs[fd.Name].(*types.Func); ok {
			all[fn], infoOf[fn] = fd, ep.TypesInfo
		}
	}
	for changed := true; changed; {
		changed = false
		for fn, fd := range all {
			if r.nonNil[fn] {
				continue
			}
			sig := fn.Type().(*types.Signature)
			idx := r.errIndex(sig)
			if idx < 0 {
				continue
			}
			info := infoOf[fn]
			good, n := true, 0
			ast.Inspect(fd.Body, func(nd ast.Node) bool {
				if _, ok := nd.(*ast.FuncLit); ok {
					return false
				}
				ret, ok := nd.(*ast.ReturnStmt)
				if !ok {
					return true
				}
				n++
				if len(ret.Results) != sig.Results().Len() {
					good = false
					return true
				}
				switch x := ast.Unparen(ret.Results[idx]).(type) {
				case *ast.UnaryExpr:
					if _, ok := x.X.(*ast.CompositeLit); !(ok && x.Op == token.AND) {
						good = false
					}
				case *ast.CallExpr:
					if g := CalleeOf(info, x); g == nil || !r.nonNil[g] {
						good = false
					}
				default:
					good = false
				}
				return true
			})
			if good && n > 0 {
				r.nonNil[fn] = true
				changed = true
			}
		}
	}
}

// discoverNextLike: next itself and every parameterless *Parser method whose
// body is the single statement `return <next-like>()`.
func (r *pxRoles) discoverNextLike() {
	r.nextLike = map[*types.Func]bool{r.next: true}
	for changed := true; changed; {
		changed = false
		for fn, fd := range r.decls {
			if r.nextLike[fn] || r.declPkg[fn] != r.pkg || fd.Recv == nil || fd.Type.Params.NumFields() != 0 || len(fd.Body.List) != 1 {
				continue
			}
			ret, ok := fd.Body.List[0].(*ast.ReturnStmt)
			if !ok || len(ret.Results) != 1 {
				continue
			}
			if call, ok := ast.Unparen(ret.Results[0]).(*ast.CallExpr); ok && len(call.Args) == 0 {
				if g := CalleeOf(r.info, call); g != nil && r.nextLike[g] {
					r.nextLike[fn] = true
					changed = true
				}
			}
		}
	}
}

func (r *pxRoles) isNext(fn *types.Func) bool { return fn != nil && r.nextLike[fn] }

func (r *pxRoles) discoverExpectFamily() {
	// direct members: compare cursor kind with a parameter (or a range variable
	// over a parameter) and call next
	for changed := true; changed; {
		changed = false
		for fn, fd := range r.decls {
			if r.expectF[fn] || r.declPkg[fn] != r.pkg || fd.Recv == nil {
				continue
			}
			params := map[types.Object]bool{}
			for _, f := range fd.Type.Params.List {
				for _, n := range f.Names {
					if o := r.info.Defs[n]; o != nil {
						t := o.Type()
						if s, ok := t.(*types.Slice); ok {
							t = s.Elem()
						}
						if types.Identical(t, r.kindT) {
							params[o] = true
						}
					}
				}
			}
			if len(params) == 0 {
				continue
			}
			ast.Inspect(fd.Body, func(n ast.Node) bool {
				if rg, ok := n.(*ast.RangeStmt); ok {
					if id, ok := ast.Unparen(rg.X).(*ast.Ident); ok && params[r.info.Uses[id]] {
						if v, ok := rg.Value.(*ast.Ident); ok {
							params[r.info.Defs[v]] = true
						}
					}
				}
				return true
			})
			cmp, reach := false, false
			ast.Inspect(fd.Body, func(n ast.Node) bool {
				switch x := n.(type) {
				case *ast.BinaryExpr:
					if x.Op == token.EQL || x.Op == token.NEQ {
						a, b := x.X, x.Y
						if !r.isCurKind(r.info, a) {
							a, b = b, a
						}
						if r.isCurKind(r.info, a) {
							if id, ok := ast.Unparen(b).(*ast.Ident); ok && params[r.info.Uses[id]] {
								cmp = true
							}
						}
					}
				case *ast.CallExpr:
					g := CalleeOf(r.info, x)
					if g == r.next {
						reach = true
					}
					if g != nil && r.expectF[g] {
						// delegation: passes its kind parameter on
						for _, a := range x.Args {
							if id, ok := ast.Unparen(a).(*ast.Ident); ok && params[r.info.Uses[id]] {
								cmp, reach = true, true
							}
						}
					}
				}
				return true
			})
			if cmp && reach {
				r.expectF[fn] = true
				changed = true
			}
		}
	}
	if len(r.expectF) == 0 {
		fatalf("anchor unresolved: no *Parser method compares the cursor kind with a TokenKind parameter and advances (expect family)")
	}
}

func (r *pxRoles) funcKey(fn *types.Func) string {
	pk := ""
	if fn.Pkg() != nil {
		pk = fn.Pkg().Name() + "."
	}
	if sig, ok := fn.Type().(*types.Signature); ok && sig.Recv() != nil {
		if n := recvNamed(sig.Recv().Type()); n != nil {
			return pk + n.Obj().Name() + "." + fn.Name()
		}
	}
	return pk + fn.Name()
}

func pxDeclKey(pk *packages.Package, fd *ast.FuncDecl) string {
	return pk.Types.Name() + "." + FuncName(fd)
}

// ---------------------------------------------------------------------
// fallthrough desugaring: `case A: s1; fallthrough; case B: s2` becomes
// `case A: s1; s2; case B: s2` (leaf statements are shared, containers are
// copied) so that the structured Walker models the real control flow.

func pxHasFallthrough(n ast.Node) bool {
	found := false
	ast.Inspect(n, func(n ast.Node) bool {
		if b, ok := n.(*ast.BranchStmt); ok && b.Tok == token.FALLTHROUGH {
			found = true
		}
		return !found
	})
	return found
}

func pxDesugar(b *ast.BlockStmt) *ast.BlockStmt {
	if b == nil || !pxHasFallthrough(b) {
		return b
	}
	return pxCopyStmt(b).(*ast.BlockStmt)
}

func pxCopyList(l []ast.Stmt) []ast.Stmt {
	out := make([]ast.Stmt, len(l))
	for i, s := range l {
		out[i] = pxCopyStmt(s)
	}
	return out
}

func pxCopyStmt(s ast.Stmt) ast.Stmt {
	if s == nil || !pxHasFallthrough(s) {
		return s
	}
	switch x := s.(type) {
	case *ast.BlockStmt:
		c := *x
		c.List = pxCopyList(x.List)
		return &c
	case *ast.LabeledStmt:
		c := *x
		c.Stmt = pxCopyStmt(x.Stmt)
		return &c
	case *ast.IfStmt:
		c := *x
		c.Body = pxCopyStmt(x.Body).(*ast.BlockStmt)
		if x.Else != nil {
			c.Else = pxCopyStmt(x.Else)
		}
		return &c
	case *ast.ForStmt:
		c := *x
		c.Body = pxCopyStmt(x.Body).(*ast.BlockStmt)
		return &c
	case *ast.RangeStmt:
		c := *x
		c.Body = pxCopyStmt(x.Body).(*ast.BlockStmt)
		return &c
	case *ast.TypeSwitchStmt:
		c := *x
		c.Body = pxCopyStmt(x.Body).(*ast.BlockStmt)
		return &c
	case *ast.CaseClause:
		c := *x
		c.Body = pxCopyList(x.Body)
		return &c
	case *ast.SwitchStmt:
		c := *x
		body := *x.Body
		clauses := make([]*ast.CaseClause, len(x.Body.List))
		for i, cl := range x.Body.List {
			cc := *(cl.(*ast.CaseClause))
			cc.Body = pxCopyList(cc.Body)
			clauses[i] = &cc
		}
		// resolve from the last clause backwards
		for i := len(clauses) - 1; i >= 0; i-- {
			n := len(clauses[i].Body)
			if n == 0 {
				continue
			}
			if br, ok := clauses[i].Body[n-1].(*ast.BranchStmt); ok && br.Tok == token.FALLTHROUGH && i+1 < len(clauses) {
				nb := append([]ast.Stmt{}, clauses[i].Body[:n-1]...)
				nb = append(nb, clauses[i+1].Body...)
				clauses[i].Body = nb
			}
		}
		body.List = make([]ast.Stmt, len(clauses))
		for i, cc := range clauses {
			body.List[i] = cc
		}
		c.Body = &body
		return &c
	}
	return s
}

// ---------------------------------------------------------------------
// Event walker: one abstract trace per path.

type pxEvKind int

const (
	pxEvCall pxEvKind = iota // call of a declared lexer/parser function
	pxEvTest                 // decided atom `cursor.Kind ==/!= K`
)

type pxEv struct {
	kind     pxEvKind
	fn       *types.Func
	call     *ast.CallExpr
	consumes bool // the callee consumes input whenever it returns normally (nil error)
	hasErr   bool
	ok       bool // normal completion established on this path
	dropped  bool // error result discarded
	expect   bool // callee is of the expect family
	argKinds []string
	tkind    string   // pxEvTest
	tset     []string // pxEvTest: the cursor is one of these kinds (clause of a switch listing several kinds)
	teq      bool
	taken    bool
	pos      token.Pos
}

type pxState struct {
	evs       []pxEv
	pend      map[types.Object]int // error variable -> index of the call event it holds
	nonnil    map[types.Object]bool
	bools     map[types.Object]bool
	ints      map[types.Object]int64 // integer locals with a known value (binding powers of the EOF token under the end-of-input assumption)
	consumed  bool
	lexRemain int // lexer scenarios: number of runes left (0, 1) or -1 when unknown
	decisions []string
	faults    []string // e.g. cursor dereference under the end-of-input assumption
}

func pxNewState() *pxState {
	return &pxState{lexRemain: -1, pend: map[types.Object]int{}, nonnil: map[types.Object]bool{}, bools: map[types.Object]bool{}, ints: map[types.Object]int64{}}
}

func pxClone(s *pxState) *pxState {
	n := &pxState{consumed: s.consumed, lexRemain: s.lexRemain,
		evs: append([]pxEv(nil), s.evs...), decisions: append([]string(nil), s.decisions...), faults: append([]string(nil), s.faults...),
		pend: make(map[types.Object]int, len(s.pend)), nonnil: make(map[types.Object]bool, len(s.nonnil)), bools: make(map[types.Object]bool, len(s.bools)), ints: make(map[types.Object]int64, len(s.ints))}
	for k, v := range s.ints {
		n.ints[k] = v
	}
	for k, v := range s.pend {
		n.pend[k] = v
	}
	for k, v := range s.nonnil {
		n.nonnil[k] = v
	}
	for k, v := range s.bools {
		n.bools[k] = v
	}
	return n
}

type pxWalkOpts struct {
	pkg           *packages.Package
	eof           bool // assume the input is exhausted for the whole walk
	lexOneLeft    bool // lexer: assume exactly one rune is left at the start of the walk
	pruneConsumed bool // stop exploring a path once consumption is established
	maxPaths      int
	onLoopIter    func(loop ast.Stmt, before, after *pxState)
}

type pxWalkResult struct {
	overflow    bool
	unsupported []token.Pos
}

// pxWalk enumerates the paths of body.
func (r *pxRoles) pxWalk(body *ast.BlockStmt, init *pxState, o pxWalkOpts, exit func(*pxState, outcome)) pxWalkResult {
	info := o.pkg.TypesInfo
	isLexer := o.pkg == r.lex.pkg
	body = pxDesugar(body)
	body = r.expandPredsBlock(info, body)
	if isLexer {
		if o.eof {
			init.lexRemain = 0
		} else if o.lexOneLeft {
			init.lexRemain = 1
		}
	}
	lexIsNil := func(st *pxState, v *types.Var) bool {
		return (v == r.lex.curF && st.lexRemain == 0) || (v == r.lex.nextF && st.lexRemain >= 0 && st.lexRemain <= 1)
	}
	var w *Walker[*pxState]
	boolOf := func(st *pxState, e ast.Expr) (bool, bool) {
		e = ast.Unparen(e)
		if tv, ok := info.Types[e]; ok && tv.Value != nil && tv.Value.Kind() == constant.Bool {
			return constant.BoolVal(tv.Value), true
		}
		if id, ok := e.(*ast.Ident); ok {
			if v, ok := st.bools[info.Uses[id]]; ok {
				return v, true
			}
		}
		return false, false
	}
	errVarOf := func(e ast.Expr) types.Object {
		id, ok := ast.Unparen(e).(*ast.Ident)
		if !ok || id.Name == "_" {
			return nil
		}
		o := info.Defs[id]
		if o == nil {
			o = info.Uses[id]
		}
		if o == nil || !r.isErrPtr(o.Type()) {
			return nil
		}
		return o
	}
	isNil := func(e ast.Expr) bool {
		id, ok := ast.Unparen(e).(*ast.Ident)
		if !ok {
			return false
		}
		_, isNilObj := info.Uses[id].(*types.Nil)
		return isNilObj
	}
	// lexer cursor pointer field (current/next) compared with nil
	lexPtrOf := func(e ast.Expr) *types.Var {
		sel, ok := ast.Unparen(e).(*ast.SelectorExpr)
		if !ok {
			return nil
		}
		if v, _ := info.Uses[sel.Sel].(*types.Var); v != nil && (v == r.lex.curF || v == r.lex.nextF) {
			return v
		}
		return nil
	}
	scanDeref := func(st *pxState, n ast.Node) {
		if !isLexer || n == nil || st.lexRemain < 0 {
			return
		}
		ast.Inspect(n, func(n ast.Node) bool {
			if _, ok := n.(*ast.FuncLit); ok {
				return false
			}
			if s, ok := n.(*ast.StarExpr); ok {
				if v := lexPtrOf(s.X); v != nil && lexIsNil(st, v) {
					st.faults = append(st.faults, fmt.Sprintf("%s dereferences %s, which is nil with %d rune(s) left (path [%s])", r.c.Pos(s.Pos()), v.Name(), st.lexRemain, strings.Join(st.decisions, ", ")))
				}
			}
			return true
		})
	}
	// evalBool decides a side-effect free boolean expression from the facts of the path:
	// constants, boolean locals with a known value, nil tests of the lexer's rune pointers
	// under a "runes left" assumption, kind tests of the cursor under the end-of-input
	// assumption, nil tests of error variables already decided on the path, and calls of
	// predicate helpers of lexer / parser (bodies made of `if … { return … }` / `return …`),
	// evaluated recursively. known=false: not decided. einfo is the types.Info of the code e is in.
	var evalBool func(st *pxState, einfo *types.Info, e ast.Expr, env map[types.Object]bool, depth int) (val, known bool)
	var evalPred func(st *pxState, einfo *types.Info, call *ast.CallExpr, env map[types.Object]bool, depth int) (val, known bool)
	lexPtrIn := func(einfo *types.Info, e ast.Expr) *types.Var {
		sel, ok := ast.Unparen(e).(*ast.SelectorExpr)
		if !ok {
			return nil
		}
		if v, _ := einfo.Uses[sel.Sel].(*types.Var); v != nil && (v == r.lex.curF || v == r.lex.nextF) {
			return v
		}
		return nil
	}
	isNilIn := func(einfo *types.Info, e ast.Expr) bool {
		id, ok := ast.Unparen(e).(*ast.Ident)
		if !ok {
			return false
		}
		_, isNilObj := einfo.Uses[id].(*types.Nil)
		return isNilObj
	}
	evalBool = func(st *pxState, einfo *types.Info, e ast.Expr, env map[types.Object]bool, depth int) (bool, bool) {
		e = ast.Unparen(e)
		if tv, ok := einfo.Types[e]; ok && tv.Value != nil && tv.Value.Kind() == constant.Bool {
			return constant.BoolVal(tv.Value), true
		}
		switch x := e.(type) {
		case *ast.Ident:
			ob := einfo.Uses[x]
			if v, ok := env[ob]; ok {
				return v, true
			}
			if v, ok := st.bools[ob]; ok {
				return v, true
			}
		case *ast.UnaryExpr:
			if x.Op == token.NOT {
				v, ok := evalBool(st, einfo, x.X, env, depth)
				return !v, ok
			}
		case *ast.BinaryExpr:
			switch x.Op {
			case token.LAND, token.LOR:
				a, aok := evalBool(st, einfo, x.X, env, depth)
				if aok && a == (x.Op == token.LOR) {
					return a, true // short circuit: the right operand is not evaluated
				}
				b, bok := evalBool(st, einfo, x.Y, env, depth)
				if aok && bok {
					return b, true
				}
				if bok && b == (x.Op == token.LOR) {
					return b, true // unknown && false = false, unknown || true = true (operands are side-effect free)
				}
				return false, false
			case token.EQL, token.NEQ:
				a, b := x.X, x.Y
				if isNilIn(einfo, a) {
					a, b = b, a
				}
				if isNilIn(einfo, b) {
					if v := lexPtrIn(einfo, a); v != nil && einfo == r.lex.info && st.lexRemain >= 0 {
						return (x.Op == token.EQL) == lexIsNil(st, v), true
					}
					if id, ok := ast.Unparen(a).(*ast.Ident); ok {
						if ob := einfo.Uses[id]; ob != nil && r.isErrPtr(ob.Type()) {
							if nn, known := st.nonnil[ob]; known {
								return (x.Op == token.NEQ) == nn, true
							}
						}
					}
					return false, false
				}
				if o.eof && einfo == r.info {
					if k, eq, ok := r.kindAtom(einfo, e); ok {
						return (k == r.eof) == eq, true
					}
				}
			}
		case *ast.CallExpr:
			return evalPred(st, einfo, x, env, depth)
		}
		return false, false
	}
	evalPred = func(st *pxState, einfo *types.Info, call *ast.CallExpr, env map[types.Object]bool, depth int) (bool, bool) {
		if depth > 3 {
			return false, false
		}
		fn := CalleeOf(einfo, call)
		fd := r.decls[fn]
		if fn == nil || fd == nil || fd.Body == nil {
			return false, false
		}
		sig := fn.Type().(*types.Signature)
		if sig.Results().Len() != 1 || sig.Variadic() {
			return false, false
		}
		if b, ok := sig.Results().At(0).Type().Underlying().(*types.Basic); !ok || b.Kind() != types.Bool {
			return false, false
		}
		finfo := r.declPkg[fn].TypesInfo
		// boolean parameters with a decidable argument are bound; other parameters stay unknown
		fenv := map[types.Object]bool{}
		for i := 0; i < sig.Params().Len() && i < len(call.Args); i++ {
			if po := pxParamObj(finfo, fd, i); po != nil {
				if v, ok := evalBool(st, einfo, call.Args[i], env, depth); ok {
					fenv[po] = v
				}
			}
		}
		// the body: straight-line `if c { … return x }` / `x := <bool>` / `return x`
		var run func(list []ast.Stmt) (val, known, returned bool)
		run = func(list []ast.Stmt) (bool, bool, bool) {
			for _, s := range list {
				switch x := s.(type) {
				case *ast.ReturnStmt:
					if len(x.Results) != 1 {
						return false, false, true
					}
					v, ok := evalBool(st, finfo, x.Results[0], fenv, depth+1)
					return v, ok, true
				case *ast.IfStmt:
					if x.Init != nil {
						as, ok := x.Init.(*ast.AssignStmt)
						if !ok || len(as.Lhs) != 1 || len(as.Rhs) != 1 {
							return false, false, true
						}
						id, ok := as.Lhs[0].(*ast.Ident)
						if !ok {
							return false, false, true
						}
						v, known := evalBool(st, finfo, as.Rhs[0], fenv, depth+1)
						if !known {
							return false, false, true
						}
						fenv[finfo.ObjectOf(id)] = v
					}
					c, ok := evalBool(st, finfo, x.Cond, fenv, depth+1)
					if !ok {
						return false, false, true
					}
					if c {
						if v, known, ret := run(x.Body.List); ret {
							return v, known, true
						}
					} else if x.Else != nil {
						var list []ast.Stmt
						switch el := x.Else.(type) {
						case *ast.BlockStmt:
							list = el.List
						default:
							list = []ast.Stmt{el}
						}
						if v, known, ret := run(list); ret {
							return v, known, true
						}
					}
				case *ast.AssignStmt:
					if len(x.Lhs) != 1 || len(x.Rhs) != 1 {
						return false, false, true
					}
					id, ok := x.Lhs[0].(*ast.Ident)
					if !ok {
						return false, false, true
					}
					v, known := evalBool(st, finfo, x.Rhs[0], fenv, depth+1)
					if !known {
						return false, false, true
					}
					fenv[finfo.ObjectOf(id)] = v
				case *ast.BlockStmt:
					if v, known, ret := run(x.List); ret {
						return v, known, true
					}
				default:
					return false, false, true
				}
			}
			return false, false, false
		}
		v, known, ret := run(fd.Body.List)
		if !ret {
			return false, false
		}
		return v, known
	}
	// intOf: the known value of an integer expression (constant or tracked local)
	intOf := func(st *pxState, e ast.Expr) (int64, bool) {
		e = ast.Unparen(e)
		if tv, ok := info.Types[e]; ok && tv.Value != nil && tv.Value.Kind() == constant.Int {
			return constant.Int64Val(tv.Value)
		}
		if id, ok := e.(*ast.Ident); ok {
			if v, ok := st.ints[info.Uses[id]]; ok {
				return v, true
			}
		}
		return 0, false
	}
	isUnsigned := func(e ast.Expr) bool {
		t := info.TypeOf(e)
		if t == nil {
			return false
		}
		b, ok := t.Underlying().(*types.Basic)
		return ok && b.Info()&types.IsUnsigned != 0
	}
	// cmpInts decides `x op y` for integers when both are known, or one is known and
	// the other is of an unsigned type (>= 0).
	cmpInts := func(st *pxState, b *ast.BinaryExpr) (bool, bool) {
		x, xok := intOf(st, b.X)
		y, yok := intOf(st, b.Y)
		if xok && yok {
			switch b.Op {
			case token.GTR:
				return x > y, true
			case token.GEQ:
				return x >= y, true
			case token.LSS:
				return x < y, true
			case token.LEQ:
				return x <= y, true
			}
			return false, false
		}
		if xok && x <= 0 && isUnsigned(b.Y) { // x <= 0 <= y
			switch b.Op {
			case token.GTR:
				return false, true // x > y impossible
			case token.LEQ:
				return true, true
			}
		}
		if yok && y <= 0 && isUnsigned(b.X) { // y <= 0 <= x
			switch b.Op {
			case token.LSS:
				return false, true
			case token.GEQ:
				return true, true
			}
		}
		return false, false
	}
	// record the calls of one statement/expression, in evaluation order.
	// top (may be nil) is the call whose error result is bound to errVar.
	record := func(st *pxState, n ast.Node, top *ast.CallExpr, errVar types.Object, topDropped bool) {
		if n == nil {
			return
		}
		var calls []*ast.CallExpr
		ast.Inspect(n, func(n ast.Node) bool {
			if _, ok := n.(*ast.FuncLit); ok {
				return false
			}
			if c, ok := n.(*ast.CallExpr); ok {
				calls = append(calls, c)
			}
			return true
		})
		sort.SliceStable(calls, func(i, j int) bool { return calls[i].End() < calls[j].End() })
		for _, call := range calls {
			fn := CalleeOf(info, call)
			if fn == nil {
				continue
			}
			if _, declared := r.decls[fn]; !declared {
				continue
			}
			sig := fn.Type().(*types.Signature)
			ev := pxEv{kind: pxEvCall, fn: fn, call: call, pos: call.Pos(), hasErr: r.errIndex(sig) >= 0, expect: r.expectF[fn]}
			for _, a := range call.Args {
				if k := r.canonKind(info, a); k != "" {
					ev.argKinds = append(ev.argKinds, k)
				}
			}
			// summary under constant boolean arguments
			if !r.nonNil[fn] { // an error constructor never "returns normally"
				ev.consumes = r.sum.lookup(fn, r.boolArgs(st, info, fn, call, boolOf))
			}
			switch {
			case !ev.hasErr:
				ev.ok = true
			case call == top && errVar != nil:
				// decided when the variable is tested
			case call == top && topDropped:
				ev.dropped = true
			case call != top:
				// value flows into an enclosing expression (return operand handled by caller)
			}
			st.evs = append(st.evs, ev)
			if ev.consumes && ev.ok {
				st.consumed = true
				if isLexer && st.lexRemain == 1 {
					st.lexRemain = 0
				}
			}
			if call == top && errVar != nil {
				st.pend[errVar] = len(st.evs) - 1
				delete(st.nonnil, errVar)
			}
		}
	}
	w = &Walker[*pxState]{
		Clone:    pxClone,
		MaxPaths: o.maxPaths,
		IsPanic:  func(s ast.Stmt) bool { return IsPanicCall(info, s) },
		OnCond: func(st *pxState, cond ast.Expr, taken bool) (*pxState, bool) {
			if o.pruneConsumed && st.consumed {
				return st, false
			}
			cond = ast.Unparen(cond)
			// boolean constant / known boolean parameter
			if v, ok := boolOf(st, cond); ok {
				return st, v == taken
			}
			// predicate helper of the lexer / parser whose value is decided by the facts of the path
			if call, ok := cond.(*ast.CallExpr); ok {
				if v, known := evalPred(st, info, call, nil, 0); known {
					record(st, cond, nil, nil, false)
					if v == taken {
						st.decisions = append(st.decisions, fmt.Sprintf("%s:%v", exprStr(cond), taken))
					}
					return st, v == taken
				}
			}
			// ordering of integers with a known value (binding powers at end of input)
			if b, ok := cond.(*ast.BinaryExpr); ok && (b.Op == token.GTR || b.Op == token.GEQ || b.Op == token.LSS || b.Op == token.LEQ) {
				if v, known := cmpInts(st, b); known {
					if v == taken {
						st.decisions = append(st.decisions, fmt.Sprintf("%s:%v", exprStr(cond), taken))
					}
					return st, v == taken
				}
			}
			if b, ok := cond.(*ast.BinaryExpr); ok && (b.Op == token.EQL || b.Op == token.NEQ) {
				// err ==/!= nil
				x, y := b.X, b.Y
				if isNil(x) {
					x, y = y, x
				}
				if isNil(y) {
					if v := errVarOf(x); v != nil {
						isNonNil := (b.Op == token.NEQ) == taken
						if known, ok := st.nonnil[v]; ok && known != isNonNil {
							return st, false
						}
						if idx, ok := st.pend[v]; ok {
							if !isNonNil {
								st.evs[idx].ok = true
								if st.evs[idx].consumes {
									st.consumed = true
									if isLexer && st.lexRemain == 1 {
										st.lexRemain = 0
									}
								}
							}
							delete(st.pend, v)
						}
						st.nonnil[v] = isNonNil
						st.decisions = append(st.decisions, fmt.Sprintf("%s:%v", exprStr(cond), taken))
						return st, true
					}
					if isLexer && st.lexRemain >= 0 {
						if v := lexPtrOf(x); v != nil {
							val := (b.Op == token.EQL) == lexIsNil(st, v)
							if val == taken {
								st.decisions = append(st.decisions, fmt.Sprintf("%s:%v", exprStr(cond), taken))
							}
							return st, val == taken
						}
					}
				}
				// cursor.Kind ==/!= K
				if !isLexer {
					if k, eq, ok := r.kindAtom(info, cond); ok {
						if o.eof {
							val := (k == r.eof) == eq
							if val != taken {
								return st, false
							}
						}
						st.evs = append(st.evs, pxEv{kind: pxEvTest, tkind: k, teq: eq, taken: taken, pos: cond.Pos()})
						st.decisions = append(st.decisions, fmt.Sprintf("%s:%v", exprStr(cond), taken))
						return st, true
					}
				}
			}
			scanDeref(st, cond)
			record(st, cond, nil, nil, false)
			st.decisions = append(st.decisions, fmt.Sprintf("%s:%v", exprStr(cond), taken))
			return st, true
		},
		OnCase: func(st *pxState, sw *ast.SwitchStmt, vals, others []ast.Expr) (*pxState, bool) {
			if o.pruneConsumed && st.consumed {
				return st, false
			}
			if !isLexer && r.isCurKind(info, sw.Tag) {
				var ks []string
				src := vals
				if vals == nil {
					src = others
				}
				for _, v := range src {
					if k := r.canonKind(info, v); k != "" {
						ks = append(ks, k)
					}
				}
				has := false
				for _, k := range ks {
					if k == r.eof {
						has = true
					}
				}
				if o.eof {
					if vals != nil && !has {
						return st, false
					}
					if vals == nil && has {
						return st, false
					}
				}
				if vals == nil {
					for _, k := range ks {
						st.evs = append(st.evs, pxEv{kind: pxEvTest, tkind: k, teq: true, taken: false, pos: sw.Pos()})
					}
					st.decisions = append(st.decisions, "switch "+exprStr(sw.Tag)+": default")
				} else {
					if len(ks) == 1 {
						st.evs = append(st.evs, pxEv{kind: pxEvTest, tkind: ks[0], teq: true, taken: true, pos: sw.Pos()})
					} else if len(ks) > 1 && len(ks) == len(src) {
						st.evs = append(st.evs, pxEv{kind: pxEvTest, tset: ks, teq: true, taken: true, pos: sw.Pos()})
					}
					st.decisions = append(st.decisions, "switch "+exprStr(sw.Tag)+": case "+strings.Join(ks, ","))
				}
				return st, true
			}
			scanDeref(st, sw.Tag)
			if vals == nil {
				st.decisions = append(st.decisions, "switch "+exprStr(sw.Tag)+": default")
			} else {
				var vs []string
				for _, v := range vals {
					vs = append(vs, exprStr(v))
				}
				st.decisions = append(st.decisions, "switch "+exprStr(sw.Tag)+": case "+strings.Join(vs, ","))
			}
			return st, true
		},
		OnStmt: func(st *pxState, s ast.Stmt) (*pxState, bool) {
			if o.pruneConsumed && st.consumed {
				return st, false
			}
			scanDeref(st, s)
			switch x := s.(type) {
			case *ast.ExprStmt:
				if call, ok := ast.Unparen(x.X).(*ast.CallExpr); ok {
					record(st, x.X, call, nil, true)
				} else {
					record(st, x.X, nil, nil, false)
				}
			case *ast.AssignStmt:
				// integer locals lose their known value when overwritten
				for _, l := range x.Lhs {
					if id, ok := ast.Unparen(l).(*ast.Ident); ok {
						if ob := info.ObjectOf(id); ob != nil {
							delete(st.ints, ob)
						}
					}
				}
				if len(x.Rhs) == 1 {
					if call, ok := ast.Unparen(x.Rhs[0]).(*ast.CallExpr); ok {
						// l, r := <cursor>.Kind.Prec() with the input exhausted: the powers of the EOF token
						if o.eof && !isLexer && len(x.Lhs) == 2 {
							if recv, isPow := r.isPowerCall(info, call); isPow && r.isCurKind(info, recv) {
								if pw, ok := r.eofPower(); ok {
									for i, l := range x.Lhs {
										if id, ok := ast.Unparen(l).(*ast.Ident); ok && id.Name != "_" {
											if ob := info.ObjectOf(id); ob != nil {
												st.ints[ob] = [2]int64{pw.l, pw.r}[i]
											}
										}
									}
								}
							}
						}
						var ev types.Object
						dropped := false
						if fn := CalleeOf(info, call); fn != nil {
							if idx := r.errIndex(fn.Type().(*types.Signature)); idx >= 0 && idx < len(x.Lhs) {
								ev = errVarOf(x.Lhs[idx])
								if ev == nil {
									dropped = true
								}
							}
						}
						// variables overwritten lose their facts
						for _, l := range x.Lhs {
							if v := errVarOf(l); v != nil {
								delete(st.pend, v)
								delete(st.nonnil, v)
							}
						}
						record(st, x.Rhs[0], call, ev, dropped)
						break
					}
				}
				for _, l := range x.Lhs {
					if v := errVarOf(l); v != nil {
						delete(st.pend, v)
						delete(st.nonnil, v)
					}
				}
				for i, rhs := range x.Rhs {
					record(st, rhs, nil, nil, false)
					if len(x.Lhs) == len(x.Rhs) {
						// err = <non-nil constructor> / nil / boolean constants
						if v := errVarOf(x.Lhs[i]); v != nil {
							if isNil(rhs) {
								st.nonnil[v] = false
							} else if call, ok := ast.Unparen(rhs).(*ast.CallExpr); ok {
								if g := CalleeOf(info, call); g != nil && r.nonNil[g] {
									st.nonnil[v] = true
								}
							}
						}
						if id, ok := x.Lhs[i].(*ast.Ident); ok {
							ob := info.Defs[id]
							if ob == nil {
								ob = info.Uses[id]
							}
							if ob != nil {
								if bv, ok := evalBool(st, info, rhs, nil, 0); ok {
									st.bools[ob] = bv
								} else {
									delete(st.bools, ob)
								}
							}
						}
					}
				}
			case *ast.ReturnStmt:
				// evaluated by the exit handler (needs the classification of the error operand)
			default:
				record(st, s, nil, nil, false)
			}
			return st, true
		},
		OnLoopIter: func(loop ast.Stmt, before, after *pxState) {
			if o.onLoopIter != nil {
				o.onLoopIter(loop, before, after)
			}
		},
		Exit: func(st *pxState, oc outcome) {
			if oc.ret != nil {
				record(st, oc.ret, nil, nil, false)
			}
			if exit != nil {
				exit(st, oc)
			}
		},
	}
	w.Run(body, init)
	return pxWalkResult{overflow: w.Overflow, unsupported: w.Unsupported}
}

// boolArgs renders the constant boolean arguments of a call ("T", "F", "?" per
// bool parameter) — the context under which the callee's summary is computed.
func (r *pxRoles) boolArgs(st *pxState, info *types.Info, fn *types.Func, call *ast.CallExpr, boolOf func(*pxState, ast.Expr) (bool, bool)) string {
	sig := fn.Type().(*types.Signature)
	var b strings.Builder
	for i := 0; i < sig.Params().Len(); i++ {
		t, ok := sig.Params().At(i).Type().Underlying().(*types.Basic)
		if !ok || t.Kind() != types.Bool {
			continue
		}
		if sig.Variadic() && i == sig.Params().Len()-1 {
			continue
		}
		c := "?"
		if i < len(call.Args) {
			if v, ok := boolOf(st, call.Args[i]); ok {
				if v {
					c = "T"
				} else {
					c = "F"
				}
			}
		}
		b.WriteString(c)
	}
	return b.String()
}

// ---------------------------------------------------------------------
// Consumption summaries (E5). C(f, ctx) = "whenever f returns normally (its
// *errors.Error result, if any, is nil) at least one successful cursor move
// (lexer: advance; parser: next) happened during the call". Greatest fixpoint
// over the call graph: sound for terminated calls by induction on call depth.

type pxSummaries struct {
	r     *pxRoles
	val   map[string]bool
	why   map[string]string // witness for a false summary
	order []string
	fnOf  map[string]*types.Func
	ctxOf map[string]string
	busy  bool
}

func (s *pxSummaries) key(fn *types.Func, ctx string) string {
	return s.r.funcKey(fn) + "[" + ctx + "]"
}

// lookup returns the current (possibly provisional) value of C(fn, ctx),
// registering the pair when it is new.
func (s *pxSummaries) lookup(fn *types.Func, ctx string) bool {
	k := s.key(fn, ctx)
	if v, ok := s.val[k]; ok {
		return v
	}
	if s.fnOf == nil {
		s.fnOf, s.ctxOf = map[string]*types.Func{}, map[string]string{}
	}
	s.fnOf[k], s.ctxOf[k] = fn, ctx
	s.val[k] = true
	if fn != s.r.lex.advance && fn != s.r.next {
		// everything except the two cursor primitives is computed
		s.order = append(s.order, k)
	}
	return true
}

// eofPower: the binding powers TokenKind.Prec gives the end-of-input token.
func (r *pxRoles) eofPower() (pxPair, bool) {
	if r.eofPow == nil {
		p := &pxEofPower{}
		func() {
			// the table is an optional refinement here: if it cannot be extracted the value stays unknown
			defer func() {
				if e := recover(); e != nil {
					p.ok = false
				}
			}()
			table, def, _, problems := r.extractPrec()
			p.ok = len(problems) == 0
			if v, has := table[r.eof]; has {
				p.p = v
			} else {
				p.p = def
			}
		}()
		r.eofPow = p
	}
	return r.eofPow.p, r.eofPow.ok
}

type pxEofPower struct {
	p  pxPair
	ok bool
}
