package main

// actx group — SSA machinery for R-cast-boundary (d) and (e): symbolic access
// paths relative to the parameters of an entry point (followed through static
// callees with the arguments substituted for the parameters), induction
// variables of counted/range loops, and a small constant evaluator that
// decides branch feasibility under an assumed value of `ReturnType.Kind()`.
// Nothing here looks at where a statement is written: a loop, a guard or a
// cast may sit in the entry point or in a helper that receives the values.

import (
	"fmt"
	"go/constant"
	"go/token"
	"go/types"
	"strconv"
	"strings"

	"golang.org/x/tools/go/ssa"
)

// ---------------------------------------------------------------------------
// frames and symbolic values

type actxFrame struct {
	fn    *ssa.Function
	env   map[*ssa.Parameter]string // parameter → symbolic value in the caller (absent: a root)
	depth int
	memo  map[ssa.Value]string
	// parameter → the argument value in the calling frame (for tracing a value to where it was made)
	bind map[*ssa.Parameter]actxBinding
}

type actxBinding struct {
	v  ssa.Value
	fr *actxFrame
}

// origin follows a value through parameter bindings (and interface
// re-wrappings) to the frame in which it was produced.
func (fr *actxFrame) origin(v ssa.Value) (ssa.Value, *actxFrame) {
	for i := 0; i < 8; i++ {
		switch x := v.(type) {
		case *ssa.Parameter:
			if b, ok := fr.bind[x]; ok && b.fr != nil {
				v, fr = b.v, b.fr
				continue
			}
		case *ssa.ChangeInterface:
			v = x.X
			continue
		}
		break
	}
	return v, fr
}

func actxNewFrame(fn *ssa.Function, env map[*ssa.Parameter]string, depth int) *actxFrame {
	if env == nil {
		env = map[*ssa.Parameter]string{}
	}
	return &actxFrame{fn: fn, env: env, depth: depth, memo: map[ssa.Value]string{}}
}

func actxUnknownSym(s string) bool { return s == "" || strings.Contains(s, "?") }

// callee frame: parameters bound to the symbolic values of the arguments.
func (fr *actxFrame) enter(call *ssa.CallCommon) *actxFrame {
	g := call.StaticCallee()
	if g == nil || g.Blocks == nil {
		return nil
	}
	env := map[*ssa.Parameter]string{}
	bind := map[*ssa.Parameter]actxBinding{}
	for i, p := range g.Params {
		if i < len(call.Args) {
			env[p] = fr.sym(call.Args[i])
			bind[p] = actxBinding{call.Args[i], fr}
		}
	}
	sub := actxNewFrame(g, env, fr.depth+1)
	sub.bind = bind
	return sub
}

// actxAllocValue: the alloc is a read-only copy of one value (a spilled
// parameter, a range variable, `x := e` whose fields are selected): exactly
// one store into it, no store through an address derived from it, the
// address never handed to a call or stored.
func actxAllocValue(a *ssa.Alloc) ssa.Value {
	var val ssa.Value
	n := 0
	okAll := true
	var derived func(v ssa.Value)
	derived = func(v ssa.Value) {
		refs := v.Referrers()
		if refs == nil {
			return
		}
		for _, r := range *refs {
			switch x := r.(type) {
			case *ssa.Store:
				if x.Addr == v {
					if v == ssa.Value(a) {
						n++
						val = x.Val
					} else {
						okAll = false
					}
				} else {
					okAll = false // the address itself is stored somewhere
				}
			case *ssa.FieldAddr:
				derived(x)
			case *ssa.IndexAddr:
				if x.X == v {
					derived(x)
				}
			case *ssa.UnOp, *ssa.DebugRef:
			default:
				okAll = false
			}
		}
	}
	derived(a)
	if !okAll || n != 1 {
		return nil
	}
	return val
}

func actxFieldName(t types.Type, i int) string {
	if p, ok := t.Underlying().(*types.Pointer); ok {
		t = p.Elem()
	}
	if st, ok := t.Underlying().(*types.Struct); ok && i < st.NumFields() {
		return st.Field(i).Name()
	}
	return fmt.Sprintf("#%d", i)
}

func actxIterSym(fn *ssa.Function, b *ssa.BasicBlock, off int64) string {
	return fmt.Sprintf("iter(%s:%d)%+d", fn.Name(), b.Index, off)
}

// actxAffine parses "iter(f:b)+c".
func actxAffine(s string) (base string, off int64, ok bool) {
	if !strings.HasPrefix(s, "iter(") {
		return "", 0, false
	}
	i := strings.Index(s, ")")
	if i < 0 || i+1 >= len(s) {
		return "", 0, false
	}
	n, err := strconv.ParseInt(s[i+1:], 10, 64)
	if err != nil {
		return "", 0, false
	}
	return s[:i+1], n, true
}

func actxIntSym(s string) (int64, bool) {
	n, err := strconv.ParseInt(s, 10, 64)
	return n, err == nil
}

func (fr *actxFrame) sym(v ssa.Value) string {
	if v == nil {
		return "?nil"
	}
	if s, ok := fr.memo[v]; ok {
		return s
	}
	fr.memo[v] = "?cycle"
	s := fr.sym1(v)
	fr.memo[v] = s
	return s
}

func (fr *actxFrame) sym1(v ssa.Value) string {
	unk := "?" + v.Name()
	switch x := v.(type) {
	case *ssa.Parameter:
		if s, ok := fr.env[x]; ok {
			return s
		}
		return "$" + fr.fn.Name() + "." + x.Name()
	case *ssa.Const:
		if x.Value == nil {
			return "nil"
		}
		return x.Value.ExactString()
	case *ssa.Alloc:
		if val := actxAllocValue(x); val != nil {
			return fr.sym(val)
		}
		return unk
	case *ssa.FieldAddr:
		b := fr.sym(x.X)
		if actxUnknownSym(b) {
			return unk
		}
		return b + "." + actxFieldName(x.X.Type(), x.Field)
	case *ssa.Field:
		b := fr.sym(x.X)
		if actxUnknownSym(b) {
			return unk
		}
		return b + "." + actxFieldName(x.X.Type(), x.Field)
	case *ssa.IndexAddr:
		b, i := fr.sym(x.X), fr.sym(x.Index)
		if actxUnknownSym(b) || actxUnknownSym(i) {
			return unk
		}
		return b + "[" + i + "]"
	case *ssa.Index:
		b, i := fr.sym(x.X), fr.sym(x.Index)
		if actxUnknownSym(b) || actxUnknownSym(i) {
			return unk
		}
		return b + "[" + i + "]"
	case *ssa.UnOp:
		if x.Op == token.MUL {
			return fr.sym(x.X)
		}
		return unk
	case *ssa.MakeInterface:
		return fr.sym(x.X)
	case *ssa.TypeAssert:
		// node.(T): the same value seen as its dynamic type
		if x.CommaOk {
			return unk
		}
		b := fr.sym(x.X)
		if actxUnknownSym(b) {
			return unk
		}
		name := x.AssertedType.String()
		if n, ok := x.AssertedType.(*types.Named); ok {
			name = n.Obj().Name()
		}
		return b + ".(" + name + ")"
	case *ssa.ChangeInterface:
		return fr.sym(x.X)
	case *ssa.ChangeType:
		return fr.sym(x.X)
	case *ssa.Convert:
		return fr.sym(x.X)
	case *ssa.Slice:
		if x.High == nil && x.Max == nil {
			if x.Low == nil {
				return fr.sym(x.X)
			}
			if k, ok := x.Low.(*ssa.Const); ok && k.Value != nil && k.Value.ExactString() == "0" {
				return fr.sym(x.X)
			}
		}
		return unk
	case *ssa.Call:
		if b, ok := x.Call.Value.(*ssa.Builtin); ok && b.Name() == "len" && len(x.Call.Args) == 1 {
			a := fr.sym(x.Call.Args[0])
			if actxUnknownSym(a) {
				return unk
			}
			return "len(" + a + ")"
		}
		// getter of an interface value (t.Kind()): named after the exported interface method
		if x.Call.IsInvoke() && len(x.Call.Args) == 0 && x.Call.Method.Exported() {
			a := fr.sym(x.Call.Value)
			if actxUnknownSym(a) {
				return unk
			}
			return x.Call.Method.Name() + "(" + a + ")"
		}
		// exported getter method of a tree value (node.FromModule.Ident()): same receiver, same name
		if g := x.Call.StaticCallee(); g != nil && !x.Call.IsInvoke() && g.Signature.Recv() != nil && len(x.Call.Args) == 1 && g.Object() != nil && g.Object().Exported() {
			a := fr.sym(x.Call.Args[0])
			if actxUnknownSym(a) {
				return unk
			}
			return g.Name() + "(" + a + ")"
		}
		return unk
	case *ssa.BinOp:
		if x.Op != token.ADD && x.Op != token.SUB {
			return unk
		}
		a, b := fr.sym(x.X), fr.sym(x.Y)
		if base, off, ok := actxAffine(a); ok {
			if n, ok := actxIntSym(b); ok {
				if x.Op == token.SUB {
					n = -n
				}
				return fmt.Sprintf("%s%+d", base, off+n)
			}
		}
		if base, off, ok := actxAffine(b); ok && x.Op == token.ADD {
			if n, ok := actxIntSym(a); ok {
				return fmt.Sprintf("%s%+d", base, off+n)
			}
		}
		if m, ok := actxIntSym(a); ok {
			if n, ok := actxIntSym(b); ok {
				if x.Op == token.SUB {
					return strconv.FormatInt(m-n, 10)
				}
				return strconv.FormatInt(m+n, 10)
			}
		}
		return unk
	case *ssa.Phi:
		h := x.Block()
		// induction variable: a constant from outside the loop, itself + 1 along every back edge
		var init string
		back, okInd := 0, true
		for i, e := range x.Edges {
			p := h.Preds[i]
			if h.Dominates(p) { // back edge
				back++
				bo, isBin := e.(*ssa.BinOp)
				if !isBin || bo.Op != token.ADD {
					okInd = false
					break
				}
				one := func(v ssa.Value) bool {
					k, ok := v.(*ssa.Const)
					return ok && k.Value != nil && k.Value.ExactString() == "1"
				}
				if !((bo.X == ssa.Value(x) && one(bo.Y)) || (bo.Y == ssa.Value(x) && one(bo.X))) {
					okInd = false
					break
				}
				continue
			}
			s := fr.sym(e)
			if _, isInt := actxIntSym(s); !isInt || (init != "" && init != s) {
				okInd = false
				break
			}
			init = s
		}
		if okInd && back > 0 && init != "" {
			n, _ := actxIntSym(init)
			return actxIterSym(fr.fn, h, n)
		}
		// otherwise: the same value along every edge
		same := ""
		for _, e := range x.Edges {
			s := fr.sym(e)
			if actxUnknownSym(s) || (same != "" && same != s) {
				return unk
			}
			same = s
		}
		if same != "" {
			return same
		}
		return unk
	}
	return unk
}

// ---------------------------------------------------------------------------
// dominance / reachability helpers

func actxInstrIndex(ins ssa.Instruction) int {
	for i, x := range ins.Block().Instrs {
		if x == ins {
			return i
		}
	}
	return -1
}

func actxInstrDominates(a, b ssa.Instruction) bool {
	if a.Block() == b.Block() {
		return actxInstrIndex(a) < actxInstrIndex(b)
	}
	return a.Block().Dominates(b.Block())
}

func actxReach(from *ssa.BasicBlock) map[*ssa.BasicBlock]bool {
	seen := map[*ssa.BasicBlock]bool{}
	if from == nil {
		return seen
	}
	work := []*ssa.BasicBlock{from}
	for len(work) > 0 {
		b := work[len(work)-1]
		work = work[:len(work)-1]
		if seen[b] {
			continue
		}
		seen[b] = true
		work = append(work, b.Succs...)
	}
	return seen
}

func actxReturns(fn *ssa.Function) []*ssa.Return {
	var out []*ssa.Return
	for _, b := range fn.Blocks {
		if len(b.Instrs) == 0 {
			continue
		}
		if r, ok := b.Instrs[len(b.Instrs)-1].(*ssa.Return); ok {
			out = append(out, r)
		}
	}
	return out
}

func actxHasReturn(blocks map[*ssa.BasicBlock]bool) bool {
	for b := range blocks {
		if len(b.Instrs) > 0 {
			if _, ok := b.Instrs[len(b.Instrs)-1].(*ssa.Return); ok {
				return true
			}
		}
	}
	return false
}

// ---------------------------------------------------------------------------
// cast events

type actxCastEv struct {
	at       ssa.Instruction // instruction of the frame's function: the DeepCast call or the call of a helper that always casts
	cast     *ssa.Call       // the DeepCast call itself
	arg, typ string          // symbolic first / second argument
	failSucc *ssa.BasicBlock // direct calls: successor taken when the error result is non-nil (nil: not tested)
	stops    bool            // helper calls: a failure never returns to the caller
	via      string
}

// actxFailSucc: the successor taken when result #idx of the call is non-nil.
func actxFailSucc(call *ssa.Call, idx int) *ssa.BasicBlock {
	refs := call.Referrers()
	if refs == nil {
		return nil
	}
	var out *ssa.BasicBlock
	n := 0
	for _, r := range *refs {
		ex, ok := r.(*ssa.Extract)
		if !ok || ex.Index != idx || ex.Referrers() == nil {
			continue
		}
		for _, r2 := range *ex.Referrers() {
			bo, ok := r2.(*ssa.BinOp)
			if !ok || (bo.Op != token.NEQ && bo.Op != token.EQL) || bo.Referrers() == nil {
				continue
			}
			other := bo.Y
			if other == ssa.Value(ex) {
				other = bo.X
			}
			if k, ok := other.(*ssa.Const); !ok || !k.IsNil() {
				continue
			}
			for _, r3 := range *bo.Referrers() {
				if iff, ok := r3.(*ssa.If); ok {
					n++
					if bo.Op == token.NEQ {
						out = iff.Block().Succs[0]
					} else {
						out = iff.Block().Succs[1]
					}
				}
			}
		}
	}
	if n != 1 {
		return nil
	}
	return out
}

func (fr *actxFrame) castEvents(deepCast *ssa.Function) []actxCastEv {
	var out []actxCastEv
	for _, b := range fr.fn.Blocks {
		for _, ins := range b.Instrs {
			call, ok := ins.(*ssa.Call)
			if !ok {
				continue
			}
			g := call.Call.StaticCallee()
			if g == nil {
				continue
			}
			if g == deepCast && len(call.Call.Args) >= 2 {
				out = append(out, actxCastEv{at: call, cast: call, arg: fr.sym(call.Call.Args[0]), typ: fr.sym(call.Call.Args[1]), failSucc: actxFailSucc(call, 1)})
				continue
			}
			if g.Pkg != fr.fn.Pkg || g.Blocks == nil || fr.depth >= 2 || g == fr.fn {
				continue
			}
			sub := fr.enter(&call.Call)
			if sub == nil {
				continue
			}
			rets := actxReturns(g)
			for _, ev := range sub.castEvents(deepCast) {
				always := true
				for _, r := range rets {
					if !actxInstrDominates(ev.at, r) {
						always = false
					}
				}
				stops := ev.stops || (ev.failSucc != nil && !actxHasReturn(actxReach(ev.failSucc)))
				if always && stops {
					out = append(out, actxCastEv{at: call, cast: ev.cast, arg: ev.arg, typ: ev.typ, stops: true, via: g.Name()})
				}
			}
		}
	}
	return out
}

// ---------------------------------------------------------------------------
// (d) validators: "every argument of the invocation went through DeepCast
// against the declared type of the parameter at the same position"

type actxValidator struct {
	block *ssa.BasicBlock // holds from the start of this block (the loop's exit)
	after ssa.Instruction // or: holds after this call
	desc  string
}

func (v actxValidator) dominates(ins ssa.Instruction) bool {
	if v.after != nil {
		return actxInstrDominates(v.after, ins)
	}
	return v.block == ins.Block() || v.block.Dominates(ins.Block())
}

// validators of the frame's function for the invocation `root`.
func (fr *actxFrame) validators(root string, deepCast *ssa.Function, c *Ctx) (vals []actxValidator, near []string) {
	argsPfx := root + ".Args["
	for _, ev := range fr.castEvents(deepCast) {
		if !strings.HasPrefix(ev.arg, argsPfx) || !strings.HasSuffix(ev.arg, "]") {
			continue
		}
		idx := ev.arg[len(argsPfx) : len(ev.arg)-1]
		base, off, ok := actxAffine(idx)
		where := c.Pos(ev.at.Pos())
		if !ok || off != 0 || !strings.HasPrefix(base, "iter("+fr.fn.Name()+":") {
			near = append(near, fmt.Sprintf("the cast at %s validates the single argument Args[%s], not every argument in a loop", where, idx))
			continue
		}
		bi, _ := strconv.Atoi(strings.TrimSuffix(strings.TrimPrefix(base, "iter("+fr.fn.Name()+":"), ")"))
		if bi < 0 || bi >= len(fr.fn.Blocks) {
			continue
		}
		h := fr.fn.Blocks[bi]
		var why []string
		if want := root + ".FunctionSignature.Params[" + idx + "].Type"; ev.typ != want {
			why = append(why, "DeepCast is not given the declared type of the parameter at the argument's position (second argument: "+ev.typ+")")
		}
		// the loop runs over every position: `index < len(Params)` / `len(Args)` tested in the header
		var done *ssa.BasicBlock
		if iff, ok := h.Instrs[len(h.Instrs)-1].(*ssa.If); ok {
			if bo, ok := iff.Cond.(*ssa.BinOp); ok && bo.Op == token.LSS && fr.sym(bo.X) == idx {
				n := fr.sym(bo.Y)
				if n == "len("+root+".FunctionSignature.Params)" || n == "len("+root+".Args)" {
					done = h.Succs[1]
				} else {
					why = append(why, "the validating loop is bounded by "+n+", not by the number of declared parameters / arguments")
				}
			}
		}
		if done == nil && len(why) == 0 {
			why = append(why, "the loop header does not test the argument position against the number of parameters / arguments")
		}
		if done != nil {
			for _, p := range done.Preds {
				if p != h {
					why = append(why, "the loop can be left before every argument is cast (break)")
					break
				}
			}
		}
		for i, p := range h.Preds {
			_ = i
			if h.Dominates(p) && !(ev.at.Block() == p || ev.at.Block().Dominates(p)) {
				why = append(why, "the loop can skip an argument before casting it (continue)")
				break
			}
		}
		if !ev.stops {
			if ev.failSucc == nil {
				why = append(why, "the error result of DeepCast is not tested")
			} else {
				fr2 := actxReach(ev.failSucc)
				if fr2[h] || (done != nil && fr2[done]) {
					why = append(why, "a failed cast neither panics nor returns")
				}
			}
		}
		if len(why) > 0 {
			near = append(near, fmt.Sprintf("loop at %s: %s", c.Pos(h.Instrs[0].Pos()), strings.Join(why, "; ")))
			continue
		}
		d := "a loop over every position"
		if ev.via != "" {
			d += " (cast in " + ev.via + ")"
		}
		vals = append(vals, actxValidator{block: done, desc: fmt.Sprintf("%s in %s DeepCasts Args[i] against Params[i].Type and stops on failure", d, fr.fn.Name())})
	}
	if fr.depth >= 2 {
		return vals, near
	}
	for _, b := range fr.fn.Blocks {
		for _, ins := range b.Instrs {
			call, ok := ins.(*ssa.Call)
			if !ok {
				continue
			}
			g := call.Call.StaticCallee()
			if g == nil || g == deepCast || g.Pkg != fr.fn.Pkg || g.Blocks == nil || g == fr.fn {
				continue
			}
			// only helpers that receive (part of) the invocation
			gets := false
			for _, a := range call.Call.Args {
				if s := fr.sym(a); s == root || strings.HasPrefix(s, root+".") {
					gets = true
				}
			}
			if !gets {
				continue
			}
			sub := fr.enter(&call.Call)
			svals, snear := sub.validators(root, deepCast, c)
			rets := actxReturns(g)
			found := false
			for _, v := range svals {
				all := true
				for _, r := range rets {
					if !v.dominates(r) {
						all = false
					}
				}
				if all {
					vals = append(vals, actxValidator{after: call, desc: v.desc + " (called at " + c.Pos(call.Pos()) + ")"})
					found = true
					break
				}
			}
			if !found {
				if len(svals) > 0 {
					near = append(near, g.Name()+" validates the arguments on some paths only (a return is not preceded by the completed loop)")
				}
				near = append(near, snear...)
			}
		}
	}
	return vals, near
}

// actxSpawners: functions of the package that start a goroutine, and the
// functions that reach one through static calls inside the package.
func actxSpawners(c *Ctx, sp *ssa.Package) (base, all map[*ssa.Function]bool) {
	base, all = map[*ssa.Function]bool{}, map[*ssa.Function]bool{}
	fns := ssaFuncsOf(c, sp)
	for fn := range fns {
		if fn.Parent() != nil {
			continue
		}
		for _, b := range fn.Blocks {
			for _, ins := range b.Instrs {
				if _, ok := ins.(*ssa.Go); ok {
					base[fn], all[fn] = true, true
				}
			}
		}
	}
	for changed := true; changed; {
		changed = false
		for fn := range fns {
			if all[fn] {
				continue
			}
			for _, b := range fn.Blocks {
				for _, ins := range b.Instrs {
					if ci, ok := ins.(ssa.CallInstruction); ok {
						if g := ci.Common().StaticCallee(); g != nil && all[g] {
							all[fn] = true
							changed = true
						}
					}
				}
			}
		}
	}
	return base, all
}

// actxCheckSpawn: every call of fr.fn that spawns a core is dominated by a
// validator of the invocation.
func actxCheckSpawn(c *Ctx, fr *actxFrame, root string, deepCast *ssa.Function, base, all map[*ssa.Function]bool) (nsink int, good []string, bad []string) {
	vals, near := fr.validators(root, deepCast, c)
	for _, b := range fr.fn.Blocks {
		for _, ins := range b.Instrs {
			ci, ok := ins.(ssa.CallInstruction)
			if !ok {
				continue
			}
			g := ci.Common().StaticCallee()
			if g == nil || !all[g] || g == fr.fn {
				continue
			}
			nsink++
			okv := false
			for _, v := range vals {
				if v.dominates(ins) {
					okv = true
					good = append(good, v.desc+", before "+g.Name()+" at "+c.Pos(ins.Pos()))
					break
				}
			}
			if okv {
				continue
			}
			if !base[g] && fr.depth < 2 {
				if call, isCall := ins.(*ssa.Call); isCall {
					if sub := fr.enter(&call.Call); sub != nil {
						n2, g2, b2 := actxCheckSpawn(c, sub, root, deepCast, base, all)
						if n2 > 0 && len(b2) == 0 {
							good = append(good, g2...)
							continue
						}
						bad = append(bad, b2...)
						continue
					}
				}
			}
			msg := fmt.Sprintf("%s at %s spawns the core", g.Name(), c.Pos(ins.Pos()))
			switch {
			case len(vals) > 0:
				msg += " on a path that does not pass the completed validation of the arguments (the core is spawned before / without the arguments being validated)"
			case len(near) > 0:
				msg += " and the arguments are not validated: " + strings.Join(actxUniq(near), " | ")
			default:
				msg += " and no loop DeepCasts the invocation arguments against the declared parameter types"
			}
			bad = append(bad, msg)
		}
	}
	return nsink, good, bad
}

// ---------------------------------------------------------------------------
// (e) constant evaluation under an assumed kind of the declared return type

type actxAbsKind int

const (
	abUnknown actxAbsKind = iota
	abConst
	abOther // a value of the enum different from every declared constant
	abNil
)

type actxAbs struct {
	k actxAbsKind
	c constant.Value
}

// actxKindEval: the assumptions under which branch conditions are folded:
// symbolic value (access path, "Kind(<path>)") → abstract constant.
type actxKindEval struct {
	c      *Ctx
	assume map[string]actxAbs
}

type actxEvalFrame struct {
	ev       *actxKindEval
	fr       *actxFrame
	abs      map[*ssa.Parameter]actxAbs
	feasible map[*ssa.BasicBlock]bool
	edges    map[[2]*ssa.BasicBlock]bool // feasible control-flow edges
	visiting map[ssa.Value]bool
}

func (ef *actxEvalFrame) edgeOK(from, to *ssa.BasicBlock) bool {
	return ef.feasible[from] && ef.edges[[2]*ssa.BasicBlock{from, to}]
}

func (ev *actxKindEval) newFrame(fr *actxFrame, abs map[*ssa.Parameter]actxAbs) *actxEvalFrame {
	ef := &actxEvalFrame{ev: ev, fr: fr, abs: abs, visiting: map[ssa.Value]bool{}}
	ef.computeFeasible()
	return ef
}

func (ef *actxEvalFrame) computeFeasible() {
	fn := ef.fr.fn
	ef.feasible = map[*ssa.BasicBlock]bool{}
	ef.edges = map[[2]*ssa.BasicBlock]bool{}
	if len(fn.Blocks) == 0 {
		return
	}
	ef.feasible[fn.Blocks[0]] = true
	for changed := true; changed; {
		changed = false
		var cur *ssa.BasicBlock
		add := func(b *ssa.BasicBlock) {
			if !ef.feasible[b] {
				ef.feasible[b] = true
				changed = true
			}
			if e := [2]*ssa.BasicBlock{cur, b}; !ef.edges[e] {
				ef.edges[e] = true
				changed = true
			}
		}
		for _, b := range fn.Blocks {
			cur = b
			if !ef.feasible[b] || len(b.Instrs) == 0 {
				continue
			}
			switch t := b.Instrs[len(b.Instrs)-1].(type) {
			case *ssa.If:
				v := ef.eval(t.Cond)
				if v.k == abConst && v.c.Kind() == constant.Bool {
					if constant.BoolVal(v.c) {
						add(b.Succs[0])
					} else {
						add(b.Succs[1])
					}
				} else {
					add(b.Succs[0])
					add(b.Succs[1])
				}
			case *ssa.Jump:
				add(b.Succs[0])
			}
		}
	}
}

func (ef *actxEvalFrame) enter(call *ssa.CallCommon) *actxEvalFrame {
	g := call.StaticCallee()
	if g == nil || g.Blocks == nil || ef.fr.depth >= 3 || len(g.Blocks) > 60 || !strings.HasPrefix(actxPkgPath(g), ModPath) {
		return nil
	}
	sub := ef.fr.enter(call)
	if sub == nil {
		return nil
	}
	abs := map[*ssa.Parameter]actxAbs{}
	for i, p := range g.Params {
		if i < len(call.Args) {
			abs[p] = ef.eval(call.Args[i])
		}
	}
	return ef.ev.newFrame(sub, abs)
}

func actxPkgPath(f *ssa.Function) string {
	if p := actxFnPkg(f); p != nil {
		return p.Path()
	}
	return ""
}

func (ef *actxEvalFrame) eval(v ssa.Value) actxAbs {
	if ef.visiting[v] {
		return actxAbs{}
	}
	ef.visiting[v] = true
	defer delete(ef.visiting, v)
	if _, isConst := v.(*ssa.Const); !isConst && len(ef.ev.assume) > 0 {
		if a, ok := ef.ev.assume[ef.fr.sym(v)]; ok {
			return a
		}
	}
	switch x := v.(type) {
	case *ssa.Const:
		if x.Value == nil {
			return actxAbs{k: abNil}
		}
		return actxAbs{k: abConst, c: x.Value}
	case *ssa.Parameter:
		return ef.abs[x]
	case *ssa.ChangeType:
		return ef.eval(x.X)
	case *ssa.Convert:
		return ef.eval(x.X)
	case *ssa.UnOp:
		if x.Op == token.NOT {
			if a := ef.eval(x.X); a.k == abConst && a.c.Kind() == constant.Bool {
				return actxAbs{k: abConst, c: constant.MakeBool(!constant.BoolVal(a.c))}
			}
		}
	case *ssa.Call:
		if x.Call.IsInvoke() {
			return actxAbs{}
		}
		if sig := x.Call.Signature(); sig == nil || sig.Results().Len() != 1 {
			return actxAbs{}
		}
		sub := ef.enter(&x.Call)
		if sub == nil {
			return actxAbs{}
		}
		var res actxAbs
		n := 0
		for _, r := range actxReturns(sub.fr.fn) {
			if !sub.feasible[r.Block()] || len(r.Results) != 1 {
				continue
			}
			a := sub.eval(r.Results[0])
			if a.k == abUnknown || (n > 0 && !actxAbsEq(a, res)) {
				return actxAbs{}
			}
			res = a
			n++
		}
		if n > 0 {
			return res
		}
	case *ssa.BinOp:
		if x.Op != token.EQL && x.Op != token.NEQ {
			return actxAbs{}
		}
		a, b := ef.eval(x.X), ef.eval(x.Y)
		eq, known := false, false
		switch {
		case a.k == abConst && b.k == abConst:
			eq, known = constant.Compare(a.c, token.EQL, b.c), true
		case (a.k == abOther && b.k == abConst) || (a.k == abConst && b.k == abOther):
			eq, known = false, true
		case a.k == abOther && b.k == abOther:
			eq, known = true, true
		case a.k == abNil && b.k == abNil:
			eq, known = true, true
		}
		if known {
			return actxAbs{k: abConst, c: constant.MakeBool(eq == (x.Op == token.EQL))}
		}
	case *ssa.Phi:
		var res actxAbs
		n := 0
		for i, e := range x.Edges {
			if !ef.edgeOK(x.Block().Preds[i], x.Block()) {
				continue
			}
			a := ef.eval(e)
			if a.k == abUnknown || (n > 0 && !actxAbsEq(a, res)) {
				return actxAbs{}
			}
			res = a
			n++
		}
		if n > 0 {
			return res
		}
	}
	return actxAbs{}
}

func actxAbsEq(a, b actxAbs) bool {
	if a.k != b.k {
		return false
	}
	if a.k == abConst {
		return constant.Compare(a.c, token.EQL, b.c)
	}
	return true
}

// actxRetInfo: one feasible return of the termination handler (followed into
// helpers that build the result).
type actxRetInfo struct {
	pos       token.Pos
	exception bool      // the exception field is set: not a value return
	cast      *ssa.Call // the value field is the (dereferenced) result of this DeepCast call
	castFr    *actxFrame
	why       string // why the value is not a cast result
	undecided string
}

// valueFieldStores: the values stored (on feasible blocks) into field i of a local struct.
// fieldStoresAt: only the stores that can reach the instruction `at` along feasible edges (a
// named result record that is filled on one path and returned on another: `result.Exception = …;
// return result` in one branch, `result.ReturnValue = …; return result` later).
func (ef *actxEvalFrame) fieldStoresAt(a *ssa.Alloc, field int, at ssa.Instruction) []ssa.Value {
	var out []ssa.Value
	reachCache := map[*ssa.BasicBlock]map[*ssa.BasicBlock]bool{}
	reaches := func(from *ssa.BasicBlock) map[*ssa.BasicBlock]bool {
		if r, ok := reachCache[from]; ok {
			return r
		}
		seen := map[*ssa.BasicBlock]bool{}
		work := []*ssa.BasicBlock{from}
		for len(work) > 0 {
			b := work[len(work)-1]
			work = work[:len(work)-1]
			if seen[b] {
				continue
			}
			seen[b] = true
			for _, s := range b.Succs {
				if ef.edgeOK(b, s) {
					work = append(work, s)
				}
			}
		}
		reachCache[from] = seen
		return seen
	}
	for _, r := range *a.Referrers() {
		fa, ok := r.(*ssa.FieldAddr)
		if !ok || fa.Field != field || fa.Referrers() == nil {
			continue
		}
		for _, r2 := range *fa.Referrers() {
			st, ok := r2.(*ssa.Store)
			if !ok || st.Addr != ssa.Value(fa) || !ef.feasible[st.Block()] {
				continue
			}
			if st.Block() == at.Block() {
				if actxInstrIndex(st) < actxInstrIndex(at) {
					out = append(out, st.Val)
				}
				continue
			}
			if reaches(st.Block())[at.Block()] {
				out = append(out, st.Val)
			}
		}
	}
	return out
}

func (ef *actxEvalFrame) fieldStores(a *ssa.Alloc, field int) []ssa.Value {
	var out []ssa.Value
	for _, r := range *a.Referrers() {
		fa, ok := r.(*ssa.FieldAddr)
		if !ok || fa.Field != field || fa.Referrers() == nil {
			continue
		}
		for _, r2 := range *fa.Referrers() {
			if st, ok := r2.(*ssa.Store); ok && st.Addr == ssa.Value(fa) && ef.feasible[st.Block()] {
				out = append(out, st.Val)
			}
		}
	}
	return out
}

// traceCast: v is, on every feasible path, the dereferenced first result of a DeepCast call.
func (ef *actxEvalFrame) traceCast(v ssa.Value, deepCast *ssa.Function, seen map[ssa.Value]bool) (*ssa.Call, *actxFrame, string) {
	if seen[v] {
		return nil, nil, ""
	}
	seen[v] = true
	switch x := v.(type) {
	case *ssa.Const:
		if x.IsNil() {
			return nil, nil, "the value returned to the host is nil (ReturnValue stays nil)"
		}
	case *ssa.MakeInterface:
		return ef.traceCast(x.X, deepCast, seen)
	case *ssa.ChangeInterface:
		return ef.traceCast(x.X, deepCast, seen)
	case *ssa.UnOp:
		if x.Op == token.MUL {
			if al, ok := x.X.(*ssa.Alloc); ok {
				// a local variable: every (feasible) store into it
				var call *ssa.Call
				var cfr *actxFrame
				n := 0
				for _, r := range *al.Referrers() {
					if st, ok := r.(*ssa.Store); ok && st.Addr == ssa.Value(al) && ef.feasible[st.Block()] {
						c2, f2, why := ef.traceCast(st.Val, deepCast, seen)
						if c2 == nil {
							return nil, nil, why
						}
						call, cfr = c2, f2
						n++
					}
				}
				if n > 0 {
					return call, cfr, ""
				}
			} else if call, cfr := ef.tracePtr(x.X, deepCast, map[ssa.Value]bool{}); call != nil {
				return call, cfr, ""
			}
		}
	case *ssa.Phi:
		var call *ssa.Call
		var cfr *actxFrame
		n := 0
		for i, e := range x.Edges {
			if !ef.edgeOK(x.Block().Preds[i], x.Block()) {
				continue
			}
			c2, f2, why := ef.traceCast(e, deepCast, seen)
			if c2 == nil {
				if why == "" {
					continue // cycle
				}
				return nil, nil, why
			}
			call, cfr = c2, f2
			n++
		}
		if n > 0 {
			return call, cfr, ""
		}
	case *ssa.Extract:
		// (*v, err) style helper results are not followed
	case *ssa.Call:
		if sub := ef.enter(&x.Call); sub != nil {
			var call *ssa.Call
			var cfr *actxFrame
			n := 0
			for _, r := range actxReturns(sub.fr.fn) {
				if !sub.feasible[r.Block()] || len(r.Results) != 1 {
					continue
				}
				c2, f2, why := sub.traceCast(r.Results[0], deepCast, map[ssa.Value]bool{})
				if c2 == nil {
					return nil, nil, why
				}
				call, cfr = c2, f2
				n++
			}
			if n > 0 {
				return call, cfr, ""
			}
		}
	}
	return nil, nil, "the value returned to the host (" + v.String() + ") is not the result of DeepCast"
}

// tracePtr: p is, on every feasible path, the first (pointer) result of a DeepCast call.
func (ef *actxEvalFrame) tracePtr(p ssa.Value, deepCast *ssa.Function, seen map[ssa.Value]bool) (*ssa.Call, *actxFrame) {
	if seen[p] {
		return nil, nil
	}
	seen[p] = true
	switch y := p.(type) {
	case *ssa.Extract:
		if call, ok := y.Tuple.(*ssa.Call); ok && y.Index == 0 && call.Call.StaticCallee() == deepCast {
			return call, ef.fr
		}
	case *ssa.Phi:
		var call *ssa.Call
		n := 0
		for i, e := range y.Edges {
			if !ef.edgeOK(y.Block().Preds[i], y.Block()) {
				continue
			}
			c2, _ := ef.tracePtr(e, deepCast, seen)
			if c2 == nil {
				return nil, nil
			}
			call = c2
			n++
		}
		if n > 0 {
			return call, ef.fr
		}
	}
	return nil, nil
}

// returns enumerates the feasible returns of the handler as result records.
func (ef *actxEvalFrame) returns(resType *types.Named, excField, valField int, deepCast *ssa.Function) []actxRetInfo {
	var out []actxRetInfo
	for _, r := range actxReturns(ef.fr.fn) {
		if !ef.feasible[r.Block()] || len(r.Results) != 1 {
			continue
		}
		res := r.Results[0]
		if call, ok := res.(*ssa.Call); ok {
			if sub := ef.enter(&call.Call); sub != nil && types.Identical(call.Type(), resType) {
				out = append(out, sub.returns(resType, excField, valField, deepCast)...)
				continue
			}
		}
		info := actxRetInfo{pos: r.Pos()}
		ld, ok := res.(*ssa.UnOp)
		var al *ssa.Alloc
		if ok && ld.Op == token.MUL {
			al, _ = ld.X.(*ssa.Alloc)
		}
		if al == nil {
			info.undecided = "the returned result is not built in a local struct (" + res.String() + ")"
			out = append(out, info)
			continue
		}
		for _, v := range ef.fieldStoresAt(al, excField, r) {
			if k, isConst := v.(*ssa.Const); !isConst || !k.IsNil() {
				info.exception = true
			}
		}
		if info.exception {
			out = append(out, info)
			continue
		}
		vals := ef.fieldStoresAt(al, valField, r)
		if len(vals) == 0 {
			info.why = "the value field of the result is never set (ReturnValue stays nil)"
		}
		for _, v := range vals {
			call, cfr, why := ef.traceCast(v, deepCast, map[ssa.Value]bool{})
			if call == nil {
				info.cast, info.why = nil, why
				break
			}
			info.cast, info.castFr = call, cfr
		}
		out = append(out, info)
	}
	return out
}

// ---------------------------------------------------------------------------
// must-pass / may-pass under assumptions

// knownNonNil: v is tested non-nil by a condition that dominates block at.
func actxKnownNonNil(v ssa.Value, at *ssa.BasicBlock) bool {
	for d := at; d != nil; d = d.Idom() {
		p := d.Idom()
		if p == nil || len(d.Preds) != 1 || d.Preds[0] != p || len(p.Instrs) == 0 {
			continue
		}
		iff, ok := p.Instrs[len(p.Instrs)-1].(*ssa.If)
		if !ok {
			continue
		}
		bo, ok := iff.Cond.(*ssa.BinOp)
		if !ok || (bo.Op != token.NEQ && bo.Op != token.EQL) {
			continue
		}
		other := bo.Y
		if bo.X != v {
			if bo.Y != v {
				continue
			}
			other = bo.X
		}
		if k, ok := other.(*ssa.Const); !ok || !k.IsNil() {
			continue
		}
		if (bo.Op == token.NEQ && d == p.Succs[0] && p.Succs[0] != p.Succs[1]) || (bo.Op == token.EQL && d == p.Succs[1] && p.Succs[0] != p.Succs[1]) {
			return true
		}
	}
	return false
}

// errorReturn: the return hands back a failure (a result of error/interrupt
// type that is known to be non-nil there).
func actxErrorReturn(r *ssa.Return) bool {
	for _, res := range r.Results {
		if !actxIsErrType(res.Type()) {
			continue
		}
		if k, ok := res.(*ssa.Const); ok && k.IsNil() {
			continue
		}
		if actxKnownNonNil(res, r.Block()) {
			return true
		}
		switch res.(type) {
		case *ssa.Alloc, *ssa.MakeInterface:
			return true
		}
	}
	return false
}

type actxHit func(ef *actxEvalFrame, ins ssa.Instruction) bool

// hitBlocks: feasible blocks that execute a hit — directly, or through a call
// of a small helper of the same package in which every normal return passes one.
func (ef *actxEvalFrame) hitBlocks(hit actxHit, must bool, stack map[*ssa.Function]bool) map[*ssa.BasicBlock]bool {
	out := map[*ssa.BasicBlock]bool{}
	for _, b := range ef.fr.fn.Blocks {
		if !ef.feasible[b] {
			continue
		}
		for _, ins := range b.Instrs {
			if hit(ef, ins) {
				out[b] = true
				break
			}
			call, ok := ins.(*ssa.Call)
			if !ok {
				continue
			}
			g := call.Call.StaticCallee()
			if g == nil || g.Pkg != ef.fr.fn.Pkg || stack[g] || g.Blocks == nil {
				continue
			}
			sub := ef.enter(&call.Call)
			if sub == nil {
				continue
			}
			stack[g] = true
			var ok2 bool
			if must {
				ok2 = sub.mustPass(hit, stack)
			} else {
				ok2 = sub.mayPass(hit, stack)
			}
			delete(stack, g)
			if ok2 {
				out[b] = true
				break
			}
		}
	}
	return out
}

// mustPass: every feasible path from the entry to a normal (non-error) return executes a hit.
func (ef *actxEvalFrame) mustPass(hit actxHit, stack map[*ssa.Function]bool) bool {
	if stack == nil {
		stack = map[*ssa.Function]bool{ef.fr.fn: true}
	}
	hb := ef.hitBlocks(hit, true, stack)
	fn := ef.fr.fn
	if len(fn.Blocks) == 0 {
		return false
	}
	seen := map[*ssa.BasicBlock]bool{}
	work := []*ssa.BasicBlock{fn.Blocks[0]}
	for len(work) > 0 {
		b := work[len(work)-1]
		work = work[:len(work)-1]
		if seen[b] || hb[b] {
			continue
		}
		seen[b] = true
		if len(b.Instrs) > 0 {
			if r, ok := b.Instrs[len(b.Instrs)-1].(*ssa.Return); ok && !actxErrorReturn(r) {
				return false
			}
		}
		for _, s := range b.Succs {
			if ef.edgeOK(b, s) {
				work = append(work, s)
			}
		}
	}
	return true
}

// mayPass: some feasible block executes a hit (helpers included).
func (ef *actxEvalFrame) mayPass(hit actxHit, stack map[*ssa.Function]bool) bool {
	if stack == nil {
		stack = map[*ssa.Function]bool{ef.fr.fn: true}
	}
	return len(ef.hitBlocks(hit, false, stack)) > 0
}

// uncoveredReturn: a normal return reachable without a hit (for the witness).
func (ef *actxEvalFrame) uncoveredReturn(hit actxHit) *ssa.Return {
	hb := ef.hitBlocks(hit, true, map[*ssa.Function]bool{ef.fr.fn: true})
	fn := ef.fr.fn
	seen := map[*ssa.BasicBlock]bool{}
	work := []*ssa.BasicBlock{fn.Blocks[0]}
	for len(work) > 0 {
		b := work[len(work)-1]
		work = work[:len(work)-1]
		if seen[b] || hb[b] {
			continue
		}
		seen[b] = true
		if len(b.Instrs) > 0 {
			if r, ok := b.Instrs[len(b.Instrs)-1].(*ssa.Return); ok && !actxErrorReturn(r) {
				return r
			}
		}
		for _, s := range b.Succs {
			if ef.edgeOK(b, s) {
				work = append(work, s)
			}
		}
	}
	return nil
}

// ---------------------------------------------------------------------------
// emission of a cast instruction

// actxInserters: the functions of the compiler package that append an
// instruction they are handed to an instruction list: they have a parameter
// of the instruction interface type and store into a field named
// Instructions. Value: the index of that parameter.
func actxInserters(c *Ctx) map[*ssa.Function]int {
	out := map[*ssa.Function]int{}
	sp := c.SSAPkg("homescript/compiler")
	var instrT types.Type
	if t := sp.Type("Instruction"); t != nil {
		instrT = t.Type()
	}
	if instrT == nil {
		return out
	}
	for _, fn := range actxAllFuncs(sp) {
		idx := -1
		for i, p := range fn.Params {
			if types.Identical(p.Type(), instrT) {
				idx = i
			}
		}
		if idx < 0 || !actxStoresInstructions(fn) {
			continue
		}
		out[fn] = idx
	}
	return out
}

func actxStoresInstructions(fn *ssa.Function) bool {
	for _, b := range fn.Blocks {
		for _, ins := range b.Instrs {
			if st, ok := ins.(*ssa.Store); ok {
				if fa, ok := st.Addr.(*ssa.FieldAddr); ok && actxFieldName(fa.X.Type(), fa.Field) == "Instructions" {
					return true
				}
			}
		}
	}
	return false
}

// actxCastEmitted: the instruction puts a CastInstruction into an instruction
// list: a call of an inserter whose instruction argument is — traced through
// the parameters of the helpers on the way — the conversion of a
// CastInstruction value to the instruction interface, or the store of such a
// value into the argument list of an append inside a function that writes an
// Instructions field. The conversion itself is not an emission (an argument
// built for a conditional emit helper is not emitted yet). Returns the
// conversion and the frame it was made in.
func actxCastEmitted(ef *actxEvalFrame, ins ssa.Instruction, castT types.Type, inserters map[*ssa.Function]int) (*ssa.MakeInterface, *actxFrame) {
	if castT == nil {
		return nil, nil
	}
	var cand ssa.Value
	switch x := ins.(type) {
	case ssa.CallInstruction:
		if g := x.Common().StaticCallee(); g != nil {
			if idx, ok := inserters[g]; ok && idx < len(x.Common().Args) {
				cand = x.Common().Args[idx]
			}
		}
	case *ssa.Store:
		if ia, ok := x.Addr.(*ssa.IndexAddr); ok {
			if _, isAlloc := ia.X.(*ssa.Alloc); isAlloc && actxStoresInstructions(ef.fr.fn) {
				cand = x.Val
			}
		}
	}
	if cand == nil {
		return nil, nil
	}
	v, fr := ef.fr.origin(cand)
	if mi, ok := v.(*ssa.MakeInterface); ok && types.Identical(mi.X.Type(), castT) {
		return mi, fr
	}
	return nil, nil
}

// actxCastTypeArgs: the symbolic values the CastInstruction behind the
// conversion was built from (constructor arguments / fields of the literal).
func actxCastTypeArgs(mi *ssa.MakeInterface, fr *actxFrame) []string {
	var out []string
	switch x := mi.X.(type) {
	case *ssa.Call:
		for _, a := range x.Call.Args {
			out = append(out, fr.sym(a))
		}
	case *ssa.UnOp:
		if al, ok := x.X.(*ssa.Alloc); ok && al.Referrers() != nil {
			for _, r := range *al.Referrers() {
				if fa, ok := r.(*ssa.FieldAddr); ok && fa.Referrers() != nil {
					for _, r2 := range *fa.Referrers() {
						if st, ok := r2.(*ssa.Store); ok && st.Addr == ssa.Value(fa) {
							out = append(out, fr.sym(st.Val))
						}
					}
				}
			}
		}
	}
	return out
}
