package main

import (
	"fmt"
	"go/ast"
	"go/token"
	"go/types"
	"sort"
	"strings"
)

// R-span-fresh-start and R-span-own-start (C08, parser part).
//
// R-span-shape decides that a span is well-formed (file, end = last consumed
// token, start before end). It cannot see that a span starts at the WRONG
// earlier token. Two structural facts close most of that gap:
//
//   fresh-start  a span (or start location) that is put into a node / handed to
//                a builder inside a loop iteration has its Start captured in
//                that same iteration — unless the construct also contains a
//                child node that begins at (or before) that Start (the
//                accumulating tree of the climbing loop: lhs' = f(start, lhs)),
//                or the span is stored into a variable that lives outside the
//                loop (the enclosing node's own span). Every cursor loop
//                consumes at least one token per iteration (R-loop-progress),
//                so a Start captured before the iteration lies, from the second
//                item on, on a token of an EARLIER sibling: the diagnostic about
//                item k covers items 1..k.
//   own-start    the node a parser method builds and returns starts at the token
//                that was current when the method was entered (or at the start
//                location / node it received as a parameter): its own span's
//                Start is read from the cursor before anything is consumed, or
//                is the Start of the first consumed token. A later capture makes
//                the span miss the construct's first token(s).

func init() {
	register(&Rule{ID: "R-span-fresh-start", Floor: 3, Run: ruleR2parseFreshStart,
		Doc: "every span / start location that a parser loop puts into a per-iteration construct (field of a node literal, argument of an ast constructor or of a builder method, top-level span construction) has its Start captured in the same loop iteration, unless the construct also contains a child node beginning at or before that Start (accumulating tree: lhs' = f(start, lhs)) or the span is stored into a variable declared outside the loop (span of the enclosing node). Loops consume >= 1 token per iteration (R-loop-progress), so a Start captured before the iteration is, from the second item on, a token of an earlier sibling: a diagnostic about the k-th item of a list then covers items 1..k — not 'within the construct that caused it' (C08)."})
	register(&Rule{ID: "R-span-own-start", Floor: 45, Run: ruleR2parseOwnStart,
		Doc: "the node a parser method builds and returns on a successful path starts at the method's own first token: the Start of its own span (Range/Span field, or the span given to its ast constructor) is read from the cursor before any token is consumed (or is the Start of the exactly-first consumed token), or is the start location / the start of the node the method received as a parameter; a builder call whose result is returned receives such a start. A Start captured after a token was consumed cuts the construct's first token(s) off every diagnostic about it, and breaks the induction R-span-shape / R-diag-span rely on (a child node spans 'current token at the call .. previous token after the call') (C08)."})
}

type r2parseSpanAgg struct {
	key    string
	pos    token.Pos
	status Status
	seen   int
	fails  []string
	notes  map[string]bool
}

type r2parseAggSet struct {
	m     map[string]*r2parseSpanAgg
	order []string
}

func (s *r2parseAggSet) get(key string, pos token.Pos) *r2parseSpanAgg {
	if s.m == nil {
		s.m = map[string]*r2parseSpanAgg{}
	}
	a := s.m[key]
	if a == nil {
		a = &r2parseSpanAgg{key: key, pos: pos, status: Discharged, notes: map[string]bool{}}
		s.m[key] = a
		s.order = append(s.order, key)
	}
	return a
}

func (a *r2parseSpanAgg) fail(st Status, msg string) {
	if st == Violated || (st == Undecided && a.status != Violated) {
		a.status = st
	}
	for _, f := range a.fails {
		if f == msg {
			return
		}
	}
	if len(a.fails) < 2 {
		a.fails = append(a.fails, msg)
	}
}

func (s *r2parseAggSet) obligations(c *Ctx) []Obligation {
	var obs []Obligation
	for _, k := range s.order {
		a := s.m[k]
		o := Obligation{Key: a.key, Pos: c.Pos(a.pos), Status: a.status, Nontrivial: true}
		if a.status == Discharged {
			var ns []string
			for n := range a.notes {
				ns = append(ns, n)
			}
			sort.Strings(ns)
			o.Detail = fmt.Sprintf("%s (%d successful path visits)", strings.Join(ns, " | "), a.seen)
		} else {
			o.Detail = strings.Join(a.fails, " || ")
		}
		obs = append(obs, o)
	}
	return obs
}

func r2parseLoopLabel(fd *ast.FuncDecl, pos token.Pos) string {
	label := "loop"
	ast.Inspect(fd.Body, func(n ast.Node) bool {
		switch x := n.(type) {
		case *ast.ForStmt:
			if x.Pos() == pos {
				if x.Cond != nil {
					label = "for " + spShort(exprStr(x.Cond))
				} else {
					label = "for {}"
				}
			}
		case *ast.RangeStmt:
			if x.Pos() == pos {
				label = "range " + spShort(exprStr(x.X))
			}
		}
		return true
	})
	return label
}

// ---------------------------------------------------------------------

func ruleR2parseFreshStart(c *Ctx) []Obligation {
	e := r2parseEngineOf(c)
	var obs []Obligation
	e.stable(func() { obs = r2parseFreshStart(e) })
	return obs
}

func r2parseFreshStart(e *r2parseEngine) []Obligation {
	aggs := &r2parseAggSet{}
	for _, fd := range e.fds {
		fd := fd
		run := e.newRun(fd, nil)
		if len(run.loops) == 0 {
			continue
		}
		fkey := e.funcKey(fd)
		// pend one observation: the Start `start` of a construct at `site`, with the sibling operands
		park := func(st *r2parseState, name string, site token.Pos, start *r2parseVal, sibs []*r2parseVal) {
			l, ok := run.innermostLoop(site)
			if !ok {
				return
			}
			key := fkey + "|" + name + " in `" + r2parseLoopLabel(fd, l.pos) + "`"
			it := st.loops[l.pos]
			p := r2parsePend{key: key, what: "fresh", pos: site, v: start, sibs: sibs}
			if it != nil {
				p.n = it.seq
				p.aux = it.String()
				// does the Start sit on the very token the loop condition looked at — the separator?
				if c := start.lb; l.sep != "" && c != nil && c == start.ub && c.seq > it.seq && c.off == 0 && c.D == it.D && c.U == it.U {
					p.aux2 = l.sep
				}
			} else {
				p.n = -1
			}
			st.pend = append(st.pend, p)
		}
		nodeSibs := func(vals []*r2parseVal, skip *r2parseVal) []*r2parseVal {
			var out []*r2parseVal
			for _, v := range vals {
				if v != skip && v != nil && v.k != r2parseSpan && v.k != r2parseLoc && v.hasSpan() {
					out = append(out, v)
				}
			}
			return out
		}
		run.obs.lit = func(st *r2parseState, lit *ast.CompositeLit, v *r2parseVal) {
			var names []string
			for n := range v.fields {
				names = append(names, n)
			}
			sort.Strings(names)
			var vals []*r2parseVal
			for _, n := range names {
				vals = append(vals, v.fields[n])
			}
			tn := spTypeName(v.typ)
			for _, n := range names {
				fv := v.fields[n]
				if fv.k == r2parseSpan && fv.start != nil && fv.start.k == r2parseLoc {
					park(st, tn+"."+n, lit.Pos(), fv.start, nodeSibs(vals, fv))
				}
			}
		}
		run.obs.call = func(st *r2parseState, call *ast.CallExpr, callee *types.Func, builtin string, args []*r2parseVal) {
			if callee == nil || callee == e.sp.until {
				return
			}
			sig := callee.Type().(*types.Signature)
			isCtor := callee.Pkg() != nil && callee.Pkg().Path() == e.sp.astPkg
			isCons := e.sp.isConsumer(callee)
			if !isCtor && !isCons {
				return
			}
			for i, a := range args {
				pname := fmt.Sprintf("argument %d", i+1)
				if i < sig.Params().Len() && sig.Params().At(i).Name() != "" {
					pname = "argument " + sig.Params().At(i).Name()
				}
				switch {
				case a.k == r2parseSpan && a.start != nil && a.start.k == r2parseLoc:
					park(st, pname+" of "+callee.Name(), call.Pos(), a.start, nodeSibs(args, a))
				case a.k == r2parseLoc && isCons:
					park(st, pname+" of "+callee.Name(), call.Pos(), a, nodeSibs(args, a))
				}
			}
		}
		run.obs.span = func(st *r2parseState, site ast.Node, v *r2parseVal, nested bool) {
			if nested || v.start == nil || v.start.k != r2parseLoc {
				return
			}
			park(st, "span construction", site.Pos(), v.start, nil)
		}
		run.obs.store = func(st *r2parseState, as *ast.AssignStmt, lhs ast.Expr, root types.Object, path []string, v *r2parseVal) {
			// a span stored into a variable that lives outside the loop: span of the enclosing node
			if v.k != r2parseSpan || v.built == nil {
				return
			}
			if l, ok := run.innermostLoop(as.Pos()); ok && !(root.Pos() > l.bodyLo && root.Pos() < l.bodyHi) {
				st.pend = append(st.pend, r2parsePend{what: "outer", pos: v.built.Pos(), aux: exprStr(lhs)})
			}
		}
		run.obs.bind = func(st *r2parseState, as *ast.AssignStmt, lhs ast.Expr, v *r2parseVal) {
			if v == nil || v.k != r2parseSpan || v.built == nil {
				return
			}
			obj := run.objOf(lhs)
			if obj == nil {
				return
			}
			if l, ok := run.innermostLoop(as.Pos()); ok && !(obj.Pos() > l.bodyLo && obj.Pos() < l.bodyHi) {
				st.pend = append(st.pend, r2parsePend{what: "outer", pos: v.built.Pos(), aux: exprStr(lhs)})
			}
		}
		run.obs.exit = func(st *r2parseState, o outcome, success bool, results []*r2parseVal) {
			if !success {
				return
			}
			outer := map[token.Pos]string{}
			for _, p := range st.pend {
				if p.what == "outer" {
					outer[p.pos] = p.aux
				}
			}
			for _, p := range st.pend {
				if p.what != "fresh" {
					continue
				}
				a := aggs.get(p.key, p.pos)
				a.seen++
				if dst, ok := outer[p.pos]; ok {
					a.notes["stored into "+dst+", which lives outside the loop (span of the enclosing construct)"] = true
					continue
				}
				if p.n < 0 {
					a.fail(Undecided, "the loop iteration entry was not observed on path "+st.path())
					continue
				}
				s := p.v
				if s.lb != nil && s.lb.seq > p.n {
					if p.aux2 != "" {
						a.fail(Violated, fmt.Sprintf("Start = %s is read at the entry of the iteration, before the separator %s that the loop condition tested is consumed: the item's span starts at the separator, not at the item; path %s", s.desc, p.aux2, st.path()))
						continue
					}
					a.notes["Start captured in the iteration: "+s.desc] = true
					continue
				}
				// covering child: a sibling node that begins at or before Start
				covered := ""
				for _, sib := range p.sibs {
					if sib.start == nil || sib.start.k != r2parseLoc {
						continue
					}
					if sib.start == s {
						covered = sib.desc
						break
					}
					if sib.start.ub != nil && s.lb != nil {
						if d, ok := r2parseTokDiffLB(sib.start.ub, s.lb); ok && d >= 0 {
							covered = sib.desc
							break
						}
					}
					if s.fromParam && sib.start.fromParam {
						// both handed in by the caller
						covered = sib.desc
						break
					}
				}
				if covered != "" {
					_ = covered
					a.notes["Start captured before the iteration, but the construct contains a child node (e.g. the tree built so far) that begins at or before it: accumulating construct"] = true
					continue
				}
				a.fail(Violated, fmt.Sprintf("Start = %s [%s] is captured BEFORE the loop iteration that builds the construct (iteration entered at: %s) and no child of the construct begins there: from the second iteration on the span starts at a token of an earlier sibling item (every iteration consumes >= 1 token); path %s",
					s.desc, s.lb, p.aux, st.path()))
			}
		}
		run.walk()
		for _, u := range run.undec {
			aggs.get(fkey+"|walk", fd.Pos()).fail(Undecided, u)
		}
	}
	return aggs.obligations(e.c)
}

// ---------------------------------------------------------------------

func ruleR2parseOwnStart(c *Ctx) []Obligation {
	e := r2parseEngineOf(c)
	var obs []Obligation
	e.stable(func() { obs = r2parseOwnStart(e) })
	return obs
}

// r2parseEntryStart: the location is the Start of the token that was current at entry.
func r2parseEntryStart(s *r2parseVal) (bool, string) {
	if s == nil || s.k != r2parseLoc {
		return false, "the Start has no understood provenance (" + s.String() + ")"
	}
	if s.edge != edgeStart {
		return false, "the Start is the END edge of a token: " + s.desc
	}
	if s.fromParam {
		return true, "start handed in by the caller (" + s.desc + ")"
	}
	if s.lb == nil || s.ub == nil || s.lb != s.ub {
		return false, fmt.Sprintf("the Start (%s) is only bounded [%s .. %s], not the first token", s.desc, s.lb, s.ub)
	}
	c := s.lb
	if c.D != c.U {
		return false, fmt.Sprintf("the Start (%s) is read after a variable number of tokens (%d..%d) were consumed", s.desc, c.D, c.U)
	}
	if c.D+c.off != 0 {
		return false, fmt.Sprintf("the Start (%s) is the %s: %d token(s) of the construct lie before it", s.desc, c, c.D+c.off)
	}
	return true, "first token of the method (" + s.desc + ")"
}

func r2parseOwnStart(e *r2parseEngine) []Obligation {
	aggs := &r2parseAggSet{}
	for _, fd := range e.fds {
		fd := fd
		fkey := e.funcKey(fd)
		run := e.newRun(fd, nil)
		var check func(st *r2parseState, v *r2parseVal, name string, depth int)
		check = func(st *r2parseState, v *r2parseVal, name string, depth int) {
			if v == nil {
				return
			}
			switch v.k {
			case r2parseNode:
				if v.hasSpan() {
					pos := fd.Pos()
					if v.lit != nil {
						pos = v.lit.Pos()
					}
					a := aggs.get(fkey+"|"+name+spTypeName(v.typ)+" starts at the method's first token", pos)
					a.seen++
					ok, msg := r2parseEntryStart(v.start)
					if ok {
						a.notes[msg] = true
					} else {
						a.fail(Violated, msg+"; path "+st.path())
					}
					return
				}
				if depth == 0 {
					// a wrapper without a span of its own: its built children
					var names []string
					for n := range v.fields {
						names = append(names, n)
					}
					sort.Strings(names)
					for _, n := range names {
						if f := v.fields[n]; f.k == r2parseNode && f.hasSpan() {
							check(st, f, spTypeName(v.typ)+"."+n+": ", depth+1)
						}
					}
				}
			case r2parseCall:
				if v.startFromArg && v.idx == 0 {
					a := aggs.get(fkey+"|result of "+v.fn.Name()+"() starts at the method's first token", v.call.Pos())
					a.seen++
					ok, msg := r2parseEntryStart(v.start)
					if ok {
						a.notes[msg] = true
					} else {
						a.fail(Violated, "the start location passed to "+v.fn.Name()+"(): "+msg+"; path "+st.path())
					}
				}
			}
		}
		run.obs.exit = func(st *r2parseState, o outcome, success bool, results []*r2parseVal) {
			if !success || len(results) == 0 {
				return
			}
			check(st, results[0], "", 0)
		}
		run.walk()
		for _, u := range run.undec {
			aggs.get(fkey+"|walk", fd.Pos()).fail(Undecided, u)
		}
	}
	return aggs.obligations(e.c)
}
