package main

import (
	"fmt"
	"go/ast"
	"go/token"
	"go/types"
	"golang.org/x/tools/go/packages"
	"sort"
	"strings"
)

// R-any-gate: the static checker's compatibility test lets a source type `any` (also nested: `?any`
// for `?int`) pass only under an option that its caller sets, and only callers whose construct is
// validated at runtime (the compiler emits the cast instruction for the node they build) set it.
// Without the gate a non-conforming dynamic value reaches statically typed code unchecked
// (`f(obj->k)` with `f(x: ?int)` made both engines panic on a Go type assertion).
func init() {
	register(&Rule{ID: "R-any-gate", Floor: 3, Run: ruleAnyGate,
		Doc: "in Analyzer.TypeCheck, on every path on which the source type's kind is AnyTypeKind and the expected kind is not any/unknown/never, `return nil` is reached only through a positive test of a field F of the options parameter; every place that sets F to true (composite literal or assignment) lies in a function that builds a node type for which the compiler emits the cast instruction (derived: first argument `node.X` of every call of the Opcode_Cast instruction constructor), or inside TypeCheck itself for the recursive calls on function PARAMETER types (arguments are validated where the function is called)"})
}

func ruleAnyGate(c *Ctx) []Obligation {
	var obs []Obligation
	ap := c.Pkg("homescript/analyzer")
	cp := c.Pkg("homescript/compiler")
	if ap == nil || cp == nil {
		return []Obligation{{Key: "gate|anchor", Status: Undecided, Detail: "analyzer or compiler package not loaded", Nontrivial: true}}
	}
	info := ap.TypesInfo
	var tc *ast.FuncDecl
	for _, fd := range AllFuncDecls(ap) {
		if fd.Name.Name == "TypeCheck" && fd.Recv != nil && fd.Body != nil && recvTypeName(fd.Recv.List[0].Type) == "Analyzer" {
			tc = fd
		}
	}
	if tc == nil {
		return []Obligation{{Key: "gate|anchor", Status: Undecided, Detail: "Analyzer.TypeCheck not found", Nontrivial: true}}
	}
	var params []*types.Var
	for _, f := range tc.Type.Params.List {
		for _, n := range f.Names {
			if v, ok := info.Defs[n].(*types.Var); ok {
				params = append(params, v)
			}
		}
	}
	if len(params) < 3 {
		return []Obligation{{Key: "gate|anchor", Status: Undecided, Detail: "TypeCheck has fewer than three named parameters", Nontrivial: true}}
	}
	got, exp := params[0], params[1]
	var opts *types.Var
	for _, p := range params[2:] {
		if _, ok := p.Type().Underlying().(*types.Struct); ok {
			opts = p
		}
	}
	if opts == nil {
		return []Obligation{{Key: "gate|anchor", Status: Undecided, Detail: "TypeCheck has no options struct parameter", Nontrivial: true}}
	}
	kindOf := func(e ast.Expr) *types.Var { // X.Kind() with X a parameter
		call, ok := ast.Unparen(e).(*ast.CallExpr)
		if !ok || len(call.Args) != 0 {
			return nil
		}
		sel, ok := call.Fun.(*ast.SelectorExpr)
		if !ok || sel.Sel.Name != "Kind" {
			return nil
		}
		id, ok := ast.Unparen(sel.X).(*ast.Ident)
		if !ok {
			return nil
		}
		v, _ := info.Uses[id].(*types.Var)
		return v
	}
	// innerKindOf: E.Kind() where E is a component reached from a parameter (got.(T).Inner, a local holding the
	// asserted value, …): returns the parameter the component belongs to
	var rootParam func(e ast.Expr, depth int) *types.Var
	rootParam = func(e ast.Expr, depth int) *types.Var {
		if depth > 6 {
			return nil
		}
		switch x := ast.Unparen(e).(type) {
		case *ast.Ident:
			v, _ := info.Uses[x].(*types.Var)
			if v == got || v == exp {
				return v
			}
			if v == nil {
				return nil
			}
			var defs []ast.Expr
			ast.Inspect(tc.Body, func(n ast.Node) bool {
				if as, ok := n.(*ast.AssignStmt); ok && len(as.Lhs) >= 1 && len(as.Rhs) == 1 {
					if lid, ok := as.Lhs[0].(*ast.Ident); ok && (info.Defs[lid] == v || info.Uses[lid] == v) {
						defs = append(defs, as.Rhs[0])
					}
				}
				return true
			})
			if len(defs) == 1 {
				return rootParam(defs[0], depth+1)
			}
		case *ast.SelectorExpr:
			return rootParam(x.X, depth+1)
		case *ast.TypeAssertExpr:
			return rootParam(x.X, depth+1)
		case *ast.StarExpr:
			return rootParam(x.X, depth+1)
		}
		return nil
	}
	innerKindOf := func(e ast.Expr) *types.Var {
		call, ok := ast.Unparen(e).(*ast.CallExpr)
		if !ok || len(call.Args) != 0 {
			return nil
		}
		sel, ok := call.Fun.(*ast.SelectorExpr)
		if !ok || sel.Sel.Name != "Kind" {
			return nil
		}
		if _, direct := ast.Unparen(sel.X).(*ast.Ident); direct && kindOf(e) != nil {
			return nil // the parameter itself: handled by kindOf
		}
		return rootParam(sel.X, 0)
	}
	constName := func(e ast.Expr) string {
		if k := ResolveConst(ap, tc, e, 0); k != nil {
			return k.Name()
		}
		return ""
	}
	tolerant := map[string]bool{"AnyTypeKind": true, "UnknownTypeKind": true, "NeverTypeKind": true}
	type pst struct {
		gotAny, gotNotAny bool
		expTol            bool
		gate              []*types.Var
		trace             []string
	}
	gateFields := map[*types.Var]bool{}
	var fails []string
	anyPaths := 0
	optField := func(e ast.Expr) *types.Var {
		sel, ok := ast.Unparen(e).(*ast.SelectorExpr)
		if !ok {
			return nil
		}
		id, ok := ast.Unparen(sel.X).(*ast.Ident)
		if !ok || info.Uses[id] != opts {
			return nil
		}
		fv, _ := info.Uses[sel.Sel].(*types.Var)
		return fv
	}
	w := &Walker[*pst]{
		Clone: func(s *pst) *pst {
			n := *s
			n.gate = append([]*types.Var(nil), s.gate...)
			n.trace = append([]string(nil), s.trace...)
			return &n
		},
		IsPanic:  func(s ast.Stmt) bool { return IsPanicCall(info, s) },
		MaxPaths: 200000,
		OnCase: func(s *pst, sw *ast.SwitchStmt, vals []ast.Expr, others []ast.Expr) (*pst, bool) {
			v := kindOf(sw.Tag)
			if v == nil {
				return s, true
			}
			has := func(list []ast.Expr, pred func(string) bool) (some, all bool) {
				all = len(list) > 0
				for _, e := range list {
					if pred(constName(e)) {
						some = true
					} else {
						all = false
					}
				}
				return
			}
			isAny := func(n string) bool { return n == "AnyTypeKind" }
			switch v {
			case got:
				if vals != nil {
					some, all := has(vals, isAny)
					if !some {
						// the source itself is not `any` here; a COMPONENT of it may still be tested for `any` below
						s.gotNotAny = false
						return s, true
					}
					if all {
						s.gotAny = true
					} else {
						s.gotAny = true // a clause shared with other kinds: `any` can take it
					}
				} else if some, _ := has(others, isAny); some {
					return s, false // default clause while another clause names `any`
				}
			case exp:
				if vals != nil {
					if _, all := has(vals, func(n string) bool { return tolerant[n] }); all {
						s.expTol = true
					} else if some, _ := has(vals, func(n string) bool { return n == "AnyTypeKind" }); some {
						s.expTol = true
					}
				}
			}
			return s, true
		},
		OnCond: func(s *pst, cond ast.Expr, taken bool) (*pst, bool) {
			e := ast.Unparen(cond)
			neg := false
			for {
				u, ok := e.(*ast.UnaryExpr)
				if !ok || u.Op != token.NOT {
					break
				}
				neg = !neg
				e = ast.Unparen(u.X)
			}
			if fv := optField(e); fv != nil {
				if taken != neg {
					s.gate = append(s.gate, fv)
				}
				return s, true
			}
			if be, ok := e.(*ast.BinaryExpr); ok && (be.Op == token.EQL || be.Op == token.NEQ) {
				v, k := kindOf(be.X), constName(be.Y)
				if v == nil {
					v, k = kindOf(be.Y), constName(be.X)
				}
				if v == nil {
					// a component of the source type is `any` (got.(OptionType).Inner.Kind() == AnyTypeKind)
					iv, ik := innerKindOf(be.X), constName(be.Y)
					if iv == nil {
						iv, ik = innerKindOf(be.Y), constName(be.X)
					}
					if iv == got && ik == "AnyTypeKind" && (be.Op == token.EQL) == (taken != neg) {
						s.gotAny = true
						s.trace = append(s.trace, "a component of the source type is any")
					}
				}
				if v != nil && k != "" {
					eq := (be.Op == token.EQL) == (taken != neg)
					switch {
					case v == got && k == "AnyTypeKind":
						if eq {
							s.gotAny = true
						} else {
							s.gotNotAny = true
						}
					case v == exp && tolerant[k] && eq:
						s.expTol = true
					}
				}
			}
			return s, true
		},
	}
	w.Exit = func(s *pst, o outcome) {
		if o.kind != cReturn || !s.gotAny || s.gotNotAny || s.expTol || o.ret == nil || len(o.ret.Results) != 1 {
			return
		}
		anyPaths++
		id, ok := ast.Unparen(o.ret.Results[0]).(*ast.Ident)
		if !ok || id.Name != "nil" {
			return // an error is returned: the source `any` is refused
		}
		if len(s.gate) == 0 {
			fails = append(fails, "a source type `any` is accepted unconditionally ("+c.Pos(o.ret.Pos())+"): an `any` inside the checked type passes for every expected type although nothing validates the value at runtime")
			return
		}
		for _, g := range s.gate {
			gateFields[g] = true
		}
	}
	w.Run(tc.Body, &pst{})
	o := Obligation{Key: "gate|TypeCheck|a source `any` is admitted only under an option of the caller", Pos: c.Pos(tc.Pos()), Nontrivial: true}
	switch {
	case w.Overflow || len(w.Unsupported) > 0:
		o.Status, o.Detail = Undecided, "path enumeration of TypeCheck failed"
	case len(fails) > 0:
		sort.Strings(fails)
		o.Status, o.Detail = Violated, fails[0]
	case anyPaths == 0:
		o.Status, o.Detail = Undecided, "no path of TypeCheck on which the source kind is AnyTypeKind was found (anchor lost)"
	default:
		var names []string
		for g := range gateFields {
			names = append(names, g.Name())
		}
		sort.Strings(names)
		o.Status, o.Detail = Discharged, fmt.Sprintf("%d paths with a source `any`: nil is returned only after a positive test of options.%s", anyPaths, strings.Join(names, "/"))
	}
	obs = append(obs, o)
	if o.Status != Discharged {
		return obs
	}
	// node types the compiler validates at runtime: first argument `node.X` of the cast-instruction constructor
	validated := map[*types.Named]bool{}
	castCtor := map[*types.Func]int{} // function → index of the argument that carries the type to validate against
	for _, fd := range AllFuncDecls(cp) {
		if fd.Body == nil || fd.Recv != nil {
			continue
		}
		ast.Inspect(fd.Body, func(n ast.Node) bool {
			if kv, ok := n.(*ast.KeyValueExpr); ok {
				if k := ResolveConst(cp, fd, kv.Value, 0); k != nil && k.Name() == "Opcode_Cast" {
					if fn, ok := cp.TypesInfo.Defs[fd.Name].(*types.Func); ok {
						castCtor[fn] = 0
					}
				}
			}
			return true
		})
	}
	// wrappers: a function that hands one of its own parameters on as that argument
	for changed := true; changed; {
		changed = false
		for _, fd := range AllFuncDecls(cp) {
			if fd.Body == nil {
				continue
			}
			self, _ := cp.TypesInfo.Defs[fd.Name].(*types.Func)
			if _, done := castCtor[self]; done || self == nil {
				continue
			}
			ast.Inspect(fd.Body, func(n ast.Node) bool {
				call, ok := n.(*ast.CallExpr)
				if !ok {
					return true
				}
				fn := CalleeOf(cp.TypesInfo, call)
				idx, isCtor := castCtor[fn]
				if fn == nil || !isCtor || idx >= len(call.Args) {
					return true
				}
				id, ok := ast.Unparen(call.Args[idx]).(*ast.Ident)
				if !ok {
					return true
				}
				sig := self.Type().(*types.Signature)
				for i := 0; i < sig.Params().Len(); i++ {
					if cp.TypesInfo.Uses[id] == sig.Params().At(i) {
						castCtor[self] = i
						changed = true
					}
				}
				return true
			})
		}
	}
	for _, fd := range AllFuncDecls(cp) {
		if fd.Body == nil {
			continue
		}
		ast.Inspect(fd.Body, func(n ast.Node) bool {
			call, ok := n.(*ast.CallExpr)
			if !ok || len(call.Args) == 0 {
				return true
			}
			fn := CalleeOf(cp.TypesInfo, call)
			idx, isCtor := castCtor[fn]
			if fn == nil || !isCtor || idx >= len(call.Args) {
				return true
			}
			arg := ast.Unparen(call.Args[idx])
			// a once-assigned local standing for node.X
			if id, ok := arg.(*ast.Ident); ok {
				if obj := cp.TypesInfo.Uses[id]; obj != nil {
					var defs []ast.Expr
					ast.Inspect(fd.Body, func(m ast.Node) bool {
						if as, ok := m.(*ast.AssignStmt); ok && len(as.Lhs) == len(as.Rhs) {
							for i, l := range as.Lhs {
								if lid, ok := l.(*ast.Ident); ok && (cp.TypesInfo.Defs[lid] == obj || cp.TypesInfo.Uses[lid] == obj) {
									defs = append(defs, as.Rhs[i])
								}
							}
						}
						return true
					})
					if len(defs) == 1 {
						arg = ast.Unparen(defs[0])
					}
				}
			}
			if sel, ok := arg.(*ast.SelectorExpr); ok {
				if t := cp.TypesInfo.TypeOf(sel.X); t != nil {
					if nm := recvNamed(t); nm != nil {
						validated[nm] = true
					}
				}
			}
			return true
		})
	}
	if len(validated) == 0 {
		obs = append(obs, Obligation{Key: "gate|validated constructs", Status: Undecided, Detail: "no call of the Opcode_Cast instruction constructor with a node field argument found in the compiler", Nontrivial: true})
		return obs
	}
	var vnames []string
	for nm := range validated {
		vnames = append(vnames, nm.Obj().Name())
	}
	sort.Strings(vnames)
	buildsValidated := func(p *types.Info, fd *ast.FuncDecl) string {
		if fd.Type.Results != nil {
			for _, r := range fd.Type.Results.List {
				if nm := recvNamed(p.TypeOf(r.Type)); nm != nil && validated[nm] {
					return nm.Obj().Name()
				}
			}
		}
		res := ""
		ast.Inspect(fd.Body, func(n ast.Node) bool {
			if cl, ok := n.(*ast.CompositeLit); ok {
				if nm := recvNamed(p.TypeOf(cl)); nm != nil && validated[nm] {
					res = nm.Obj().Name()
				}
			}
			return true
		})
		return res
	}
	// a helper that only validated builders call (transitively) counts as part of them
	declOf := map[*types.Func]*ast.FuncDecl{}
	infoOf := map[*ast.FuncDecl]*types.Info{}
	callers := map[*types.Func][]*ast.FuncDecl{}
	for _, p := range c.All {
		for _, fd := range AllFuncDecls(p) {
			if fd.Body == nil {
				continue
			}
			infoOf[fd] = p.TypesInfo
			if fn, ok := p.TypesInfo.Defs[fd.Name].(*types.Func); ok {
				declOf[fn] = fd
			}
		}
	}
	for fd, pi := range infoOf {
		fd := fd
		ast.Inspect(fd.Body, func(n ast.Node) bool {
			if call, ok := n.(*ast.CallExpr); ok {
				if fn := CalleeOf(pi, call); fn != nil && declOf[fn] != nil && declOf[fn] != fd {
					callers[fn] = append(callers[fn], fd)
				}
			}
			return true
		})
	}
	var builtBy func(pi *types.Info, fd *ast.FuncDecl, depth int) string
	builtBy = func(pi *types.Info, fd *ast.FuncDecl, depth int) string {
		if t := buildsValidated(pi, fd); t != "" {
			return t
		}
		fn, _ := pi.Defs[fd.Name].(*types.Func)
		if depth >= 3 || fn == nil || len(callers[fn]) == 0 {
			return ""
		}
		res := ""
		for _, cfd := range callers[fn] {
			t := builtBy(infoOf[cfd], cfd, depth+1)
			if t == "" {
				return ""
			}
			res = t
		}
		return res + " (through its only callers)"
	}
	// every setter of a gate field
	seen := map[string]int{}
	for _, p := range c.All {
		pi := p.TypesInfo
		for _, fd := range AllFuncDecls(p) {
			if fd.Body == nil {
				continue
			}
			fname := relPkg(p.PkgPath) + "." + FuncName(fd)
			emit := func(pos token.Pos, fv *types.Var, how string, local *types.Var) {
				key := fmt.Sprintf("gate|%s|sets %s", fname, fv.Name())
				seen[key]++
				if seen[key] > 1 {
					key += fmt.Sprintf("#%d", seen[key])
				}
				o := Obligation{Key: key, Pos: c.Pos(pos), Nontrivial: true}
				if fd == tc {
					// inside TypeCheck: only for the recursive calls on parameter types
					bad := ""
					if local == nil {
						bad = "the option is set on something that is not a local copy"
					} else {
						ast.Inspect(fd.Body, func(n ast.Node) bool {
							call, ok := n.(*ast.CallExpr)
							if !ok {
								return true
							}
							uses := false
							for _, a := range call.Args {
								if id, ok := ast.Unparen(a).(*ast.Ident); ok && pi.Uses[id] == local {
									uses = true
								}
							}
							if !uses {
								return true
							}
							if fn := CalleeOf(pi, call); fn == nil || fn != pi.Defs[tc.Name] || len(call.Args) < 2 {
								bad = "the tolerant options are handed to something other than the recursive check (" + c.Pos(call.Pos()) + ")"
								return true
							}
							for _, a := range call.Args[:2] {
								if !isFnParamTypeIn(pi, fd, a) {
									bad = "the tolerant options are used for `" + exprStr(a) + "`, which is not the type of a function parameter (" + c.Pos(call.Pos()) + ")"
								}
							}
							return true
						})
					}
					if bad != "" {
						o.Status, o.Detail = Violated, bad
					} else {
						o.Status, o.Detail = Discharged, "inside the check itself, used only for the recursive calls on function parameter types (arguments are validated where the function is called)"
					}
				} else if noneGuarded(p, fd, pos) {
					o.Status, o.Detail = Discharged, how+" under a test that the checked expression is the `none` literal: the value is statically known and conforms to every option type"
				} else if t := builtBy(pi, fd, 0); t != "" {
					o.Status, o.Detail = Discharged, how+" in a function that builds "+t+", for which the compiler emits the cast instruction"
				} else {
					o.Status, o.Detail = Violated, how+" in a function that builds none of the runtime-validated constructs ("+strings.Join(vnames, ", ")+"): a value whose type contains `any` is accepted here although nothing checks it at runtime"
				}
				obs = append(obs, o)
			}
			ast.Inspect(fd.Body, func(n ast.Node) bool {
				switch x := n.(type) {
				case *ast.KeyValueExpr:
					if id, ok := x.Key.(*ast.Ident); ok {
						if fv, ok := pi.Uses[id].(*types.Var); ok && gateFields[fv] {
							if tv, ok := pi.Types[x.Value]; !ok || tv.Value == nil || tv.Value.String() != "false" {
								emit(x.Pos(), fv, "the option is set by a literal", nil)
							}
						}
					}
				case *ast.AssignStmt:
					for i, l := range x.Lhs {
						sel, ok := ast.Unparen(l).(*ast.SelectorExpr)
						if !ok {
							continue
						}
						fv, ok := pi.Uses[sel.Sel].(*types.Var)
						if !ok || !gateFields[fv] {
							continue
						}
						if i < len(x.Rhs) {
							if tv, ok := pi.Types[x.Rhs[i]]; ok && tv.Value != nil && tv.Value.String() == "false" {
								continue
							}
						}
						var local *types.Var
						if id, ok := ast.Unparen(sel.X).(*ast.Ident); ok {
							if v, ok := pi.Uses[id].(*types.Var); ok && v != opts && !v.IsField() && v.Parent() != nil && v.Parent() != v.Pkg().Scope() {
								local = v
							}
						}
						emit(x.Pos(), fv, "the option is set by an assignment", local)
					}
				}
				return true
			})
		}
	}
	return obs
}

// noneGuarded: the statement at pos lies in the then-branch of an `if` whose condition (a conjunct of it) compares the
// Kind() of an expression node with the none-literal kind constant.
func noneGuarded(p *packages.Package, fd *ast.FuncDecl, pos token.Pos) bool {
	found := false
	ast.Inspect(fd.Body, func(n ast.Node) bool {
		ifs, ok := n.(*ast.IfStmt)
		if !ok || !(ifs.Body.Pos() <= pos && pos < ifs.Body.End()) {
			return true
		}
		var conj func(e ast.Expr)
		conj = func(e ast.Expr) {
			e = ast.Unparen(e)
			if be, ok := e.(*ast.BinaryExpr); ok {
				if be.Op == token.LAND {
					conj(be.X)
					conj(be.Y)
					return
				}
				if be.Op == token.EQL {
					for _, side := range []ast.Expr{be.X, be.Y} {
						if k := ResolveConst(p, fd, side, 0); k != nil && k.Name() == "NoneLiteralExpressionKind" {
							found = true
						}
					}
				}
			}
		}
		conj(ifs.Cond)
		return true
	})
	return found
}

// isFnParamType: e is `p.Type` (or a call on it such as p.Type.SetSpan(..)) where p is an element of a function type's
// parameter list (a struct that is the element type of a slice field of a function-parameter description).
func isFnParamType(info *types.Info, e ast.Expr) bool {
	return isFnParamTypeIn(info, nil, e)
}

func isFnParamTypeIn(info *types.Info, fd *ast.FuncDecl, e ast.Expr) bool {
	e = ast.Unparen(e)
	// the value variable of a range over a parameter type list
	if id, ok := e.(*ast.Ident); ok && fd != nil {
		obj := info.Uses[id]
		found := false
		ast.Inspect(fd.Body, func(n ast.Node) bool {
			if rs, ok := n.(*ast.RangeStmt); ok && rs.Value != nil {
				if vid, ok := rs.Value.(*ast.Ident); ok && info.Defs[vid] == obj && obj != nil {
					if isFnParamTypeIn(info, nil, &ast.IndexExpr{X: rs.X, Index: rs.X}) {
						found = true
					}
				}
			}
			return true
		})
		if found {
			return true
		}
	}
	for {
		if call, ok := e.(*ast.CallExpr); ok {
			if sel, ok := call.Fun.(*ast.SelectorExpr); ok {
				e = ast.Unparen(sel.X)
				continue
			}
		}
		break
	}
	// an element of a type list of a parameter description: P.ParamTypes[i], P.RemainingType
	{
		x := e
		if ix, ok := x.(*ast.IndexExpr); ok {
			x = ast.Unparen(ix.X)
		}
		if fs, ok := x.(*ast.SelectorExpr); ok {
			if nm := recvNamed(derefT(info.TypeOf(fs.X))); nm != nil && strings.Contains(nm.Obj().Name(), "Param") {
				if _, isStruct := nm.Underlying().(*types.Struct); isStruct {
					return true
				}
			}
		}
	}
	sel, ok := e.(*ast.SelectorExpr)
	if !ok {
		return false
	}
	t := info.TypeOf(sel.X)
	if t == nil {
		return false
	}
	if p, ok := t.(*types.Pointer); ok {
		t = p.Elem()
	}
	nm := recvNamed(t)
	if nm == nil {
		return false
	}
	// the struct is the element type of a []T field of a type implementing a function-parameter-kind interface:
	// accept by structure: a struct with exactly a name-like field and a field of an interface type named like the one `e` has
	st, ok := nm.Underlying().(*types.Struct)
	if !ok {
		return false
	}
	hasType := false
	for i := 0; i < st.NumFields(); i++ {
		if st.Field(i) == info.Uses[sel.Sel] {
			hasType = true
		}
	}
	if !hasType {
		return false
	}
	// is it used as the element of a slice field named Params somewhere in its package?
	scope := nm.Obj().Pkg().Scope()
	for _, name := range scope.Names() {
		tn, ok := scope.Lookup(name).(*types.TypeName)
		if !ok {
			continue
		}
		s2, ok := tn.Type().Underlying().(*types.Struct)
		if !ok {
			continue
		}
		for i := 0; i < s2.NumFields(); i++ {
			if sl, ok := s2.Field(i).Type().Underlying().(*types.Slice); ok && types.Identical(sl.Elem(), nm) && strings.Contains(tn.Name(), "Param") {
				return true
			}
		}
	}
	return false
}

func derefT(t types.Type) types.Type {
	if t == nil {
		return nil
	}
	if p, ok := t.(*types.Pointer); ok {
		return p.Elem()
	}
	return t
}
