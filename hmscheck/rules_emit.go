package main

import (
	"fmt"
	"go/ast"
	"go/constant"
	"go/token"
	"go/types"
	"sort"
	"strings"
)

// R-emit-balance — abstract interpretation of the bytecode emitter over the
// symbolic operand-stack height. See DESIGN.md §4 (R-emit-balance) and
// Appendix B. The per-opcode stack effects are *extracted from the VM's
// runInstruction* on every run (emVMEffects), so the emitter is checked
// against what the VM actually does.

func init() {
	register(&Rule{ID: "R-emit-balance", Floor: 40, Run: ruleEmitBalance,
		Doc: "operand-stack balance of the code the compiler emits, decided by abstract interpretation of the emitter functions over a symbolic stack height (per-opcode effects extracted from the VM's run loop): (a) at every emitted label all incoming heights — fall-through and every jump recorded for it — agree up to the value of a branch's own result (tail) expression; (b) every compileExpr case nets exactly one value when all its sub-expressions do (zero for the node kinds the analyzer types as null), every compileStmt case nets zero, every helper has one effect on all paths; (c) loops in the emitter have one per-iteration effect; (d) the argument count pushed before HostCall/Call_Val/Spawn equals the number of values pushed for it; (e) every label created in a case is emitted exactly once on every path that jumps to it"})
}

// ---- linear heights ----

type lin struct {
	c int
	s map[string]int
}

func linC(c int) lin { return lin{c: c} }
func linS(sym string) lin {
	return lin{s: map[string]int{sym: 1}}
}
func (a lin) add(b lin) lin {
	r := lin{c: a.c + b.c, s: map[string]int{}}
	for k, v := range a.s {
		r.s[k] += v
	}
	for k, v := range b.s {
		r.s[k] += v
	}
	for k, v := range r.s {
		if v == 0 {
			delete(r.s, k)
		}
	}
	return r
}
func (a lin) neg() lin {
	r := lin{c: -a.c, s: map[string]int{}}
	for k, v := range a.s {
		r.s[k] = -v
	}
	return r
}
func (a lin) sub(b lin) lin { return a.add(b.neg()) }
func (a lin) scale(n int) lin {
	r := lin{c: a.c * n, s: map[string]int{}}
	for k, v := range a.s {
		r.s[k] = v * n
	}
	return r
}
func (a lin) isZero() bool { return a.c == 0 && len(a.s) == 0 }
func (a lin) eq(b lin) bool { return a.sub(b).isZero() }
func (a lin) String() string {
	var keys []string
	for k := range a.s {
		keys = append(keys, k)
	}
	sort.Strings(keys)
	var b []string
	if a.c != 0 || len(keys) == 0 {
		b = append(b, fmt.Sprint(a.c))
	}
	for _, k := range keys {
		switch a.s[k] {
		case 1:
			b = append(b, "+"+k)
		case -1:
			b = append(b, "-"+k)
		default:
			b = append(b, fmt.Sprintf("%+d·%s", a.s[k], k))
		}
	}
	return strings.TrimPrefix(strings.Join(b, ""), "+")
}

// subst replaces every ν(...) symbol by v.
func (a lin) substNu(v int) lin {
	r := lin{c: a.c, s: map[string]int{}}
	for k, n := range a.s {
		if strings.HasPrefix(k, "ν(") {
			r.c += n * v
		} else {
			r.s[k] = n
		}
	}
	return r
}

// onlyTailDiff: a and b differ only in ν-symbols listed in tails.
func onlyTailDiff(a, b lin, tails map[string]bool) bool {
	d := a.sub(b)
	if d.c != 0 {
		return false
	}
	for k := range d.s {
		if !tails[k] {
			return false
		}
	}
	return true
}

// ---- VM opcode effects ----

type vmEffect struct {
	ok       bool
	delta    int    // net pushes-pops on normal completion
	loopPop  int    // per-iteration effect of a loop bounded by a popped count (symbolic part)
	detail   string // when !ok
	hasCase  bool
	variants []string
	pops     int // pop/push calls on the first normal path (for the symbolic stack of the emitter analysis)
	pushes   int
}

func emVMEffects(c *Ctx) map[string]vmEffect {
	p := c.Pkg("homescript/runtime")
	info := p.TypesInfo
	fd := emVMDispatch(c)
	cp := c.Pkg("homescript/compiler")
	opT := cp.Types.Scope().Lookup("Opcode").Type()
	// ---- roles: the operand stack's push / pop primitives (by shape, not by name) ----
	// push: a Core method with one value-cell parameter that appends it to a slice-of-cells field;
	// pop : a nullary Core method returning a cell that re-slices the same field.
	decl := map[*types.Func]*ast.FuncDecl{}
	for _, m := range AllFuncDecls(p) {
		if fn, ok := info.Defs[m.Name].(*types.Func); ok && m.Body != nil {
			decl[fn] = m
		}
	}
	isCellT := func(t types.Type) bool {
		pt, ok := t.(*types.Pointer)
		if !ok {
			return false
		}
		n, ok := pt.Elem().(*types.Named)
		return ok && n.Obj().Name() == "Value" && types.IsInterface(n)
	}
	fieldOfRecv := func(m *ast.FuncDecl, e ast.Expr) *types.Var {
		sel, ok := ast.Unparen(e).(*ast.SelectorExpr)
		if !ok {
			return nil
		}
		fv, _ := info.Uses[sel.Sel].(*types.Var)
		if fv == nil || !fv.IsField() {
			return nil
		}
		if sl, ok := fv.Type().Underlying().(*types.Slice); !ok || !isCellT(sl.Elem()) {
			return nil
		}
		return fv
	}
	push, pop := map[*types.Func]bool{}, map[*types.Func]bool{}
	var stackField *types.Var
	for fn, m := range decl {
		if m.Recv == nil || recvTypeName(m.Recv.List[0].Type) != "Core" {
			continue
		}
		sig := fn.Type().(*types.Signature)
		isPushSig := sig.Params().Len() == 1 && isCellT(sig.Params().At(0).Type()) && sig.Results().Len() == 0
		isPopSig := sig.Params().Len() == 0 && sig.Results().Len() == 1 && isCellT(sig.Results().At(0).Type())
		if !isPushSig && !isPopSig {
			continue
		}
		ast.Inspect(m.Body, func(n ast.Node) bool {
			as, ok := n.(*ast.AssignStmt)
			if !ok || len(as.Lhs) != 1 || len(as.Rhs) != 1 {
				return true
			}
			fv := fieldOfRecv(m, as.Lhs[0])
			if fv == nil {
				return true
			}
			switch r := ast.Unparen(as.Rhs[0]).(type) {
			case *ast.CallExpr:
				if id, ok := r.Fun.(*ast.Ident); ok && id.Name == "append" && isPushSig {
					push[fn] = true
					stackField = fv
				}
			case *ast.SliceExpr:
				if isPopSig {
					pop[fn] = true
					stackField = fv
				}
			}
			return true
		})
	}
	if len(push) == 0 || len(pop) == 0 || stackField == nil {
		fatalf("anchor unresolved: the VM's operand-stack push/pop primitives (Core methods appending to / re-slicing a slice of value cells)")
	}
	// ---- per-function summaries: the set of net effects over the normally completing paths ----
	type st struct {
		h, loop      int
		pops, pushes int
	}
	type summ struct {
		variants []st
		bad      string
	}
	memo := map[*types.Func]*summ{}
	inProgress := map[*types.Func]bool{}
	var summarise func(fn *types.Func, depth int) *summ
	var walkBody func(body *ast.BlockStmt, recv types.Object, depth int) *summ
	recvOf := func(m *ast.FuncDecl) types.Object {
		if m.Recv != nil && len(m.Recv.List[0].Names) > 0 {
			return info.Defs[m.Recv.List[0].Names[0]]
		}
		return nil
	}
	apply := func(s *st, call *ast.CallExpr, recv types.Object, depth int) {
		fn := CalleeOf(info, call)
		if fn == nil {
			return
		}
		// only operations on THIS core's stack count: the call's receiver is the walked function's receiver
		onSelf := false
		if sel, ok := ast.Unparen(call.Fun).(*ast.SelectorExpr); ok {
			if id, ok := ast.Unparen(sel.X).(*ast.Ident); ok && recv != nil && info.Uses[id] == recv {
				onSelf = true
			}
		}
		if !onSelf {
			return
		}
		switch {
		case push[fn]:
			s.h++
			s.pushes++
		case pop[fn]:
			s.h--
			s.pops++
		default:
			if d := decl[fn]; d != nil && depth < 5 {
				if sm := summarise(fn, depth+1); sm != nil && sm.bad == "" && len(sm.variants) >= 1 {
					// a helper with one effect on all its normal paths (the usual case); several: take the first and
					// let the caller's variant set record the others through emHelperVariants
					v := sm.variants[0]
					s.h += v.h
					s.pops += v.pops
					s.pushes += v.pushes
					if v.loop != 0 {
						s.loop = v.loop
					}
				}
			}
		}
	}
	// direct writes to the stack field outside the primitives: re-slicing to a shorter length etc. are not modelled
	walkBody = func(body *ast.BlockStmt, recv types.Object, depth int) *summ {
		out := &summ{}
		count := func(s *st, n ast.Node) {
			// post-order: arguments before the call
			var visit func(m ast.Node)
			visit = func(m ast.Node) {
				ast.Inspect(m, func(k ast.Node) bool {
					switch x := k.(type) {
					case *ast.FuncLit:
						return false
					case *ast.CallExpr:
						for _, a := range x.Args {
							visit(a)
						}
						if sel, ok := ast.Unparen(x.Fun).(*ast.SelectorExpr); ok {
							visit(sel.X)
						}
						apply(s, x, recv, depth)
						return false
					}
					return true
				})
			}
			visit(n)
		}
		w := &Walker[*st]{
			Clone:   func(s *st) *st { c := *s; return &c },
			IsPanic: func(s ast.Stmt) bool { return IsPanicCall(info, s) || emAlwaysPanics(info, decl, s) },
			OnStmt: func(s *st, stmt ast.Stmt) (*st, bool) {
				if r, ok := stmt.(*ast.ReturnStmt); ok {
					for _, e := range r.Results {
						count(s, e)
					}
					return s, true
				}
				count(s, stmt)
				return s, true
			},
			OnCond: func(s *st, cond ast.Expr, taken bool) (*st, bool) {
				count(s, cond)
				return s, true
			},
			OnCase:  func(s *st, sw *ast.SwitchStmt, vals, others []ast.Expr) (*st, bool) { return s, true },
			OnDefer: func(s *st, d *ast.DeferStmt) (*st, bool) { return s, true },
			LoopSummary: func(loop ast.Stmt, before *st, ends []*st) (*st, bool) {
				post := *before
				for _, e := range ends {
					if d := e.h - before.h; d != 0 {
						post.loop = d
					}
				}
				return &post, true
			},
		}
		w.Exit = func(s *st, o outcome) {
			switch o.kind {
			case cPanic:
				return
			case cReturn:
				// a return carrying a non-nil interrupt / error as its LAST result is not a normal completion
				if n := len(o.ret.Results); n >= 1 {
					last := ast.Unparen(o.ret.Results[n-1])
					t := info.TypeOf(last)
					if t != nil {
						if pt, ok := t.(*types.Pointer); ok {
							if nm, ok := pt.Elem().(*types.Named); ok && strings.Contains(nm.Obj().Name(), "Interrupt") {
								if id, ok := last.(*ast.Ident); !ok || id.Name != "nil" {
									return
								}
							}
						}
					}
				}
			}
			// deferred calls run at exit
			for _, d := range w.PendingDefers() {
				count(s, d.Call)
			}
			out.variants = append(out.variants, *s)
		}
		w.Run(body, &st{})
		if w.Overflow || len(w.Unsupported) > 0 {
			out.bad = "path enumeration overflow / unsupported control flow"
		}
		return out
	}
	summarise = func(fn *types.Func, depth int) *summ {
		if sm, ok := memo[fn]; ok {
			return sm
		}
		if inProgress[fn] {
			return nil // recursion: not summarised
		}
		inProgress[fn] = true
		sm := walkBody(decl[fn].Body, recvOf(decl[fn]), depth)
		inProgress[fn] = false
		// dedup
		seen := map[st]bool{}
		var uniq []st
		for _, v := range sm.variants {
			k := st{h: v.h, loop: v.loop}
			if !seen[k] {
				seen[k] = true
				uniq = append(uniq, v)
			}
		}
		sm.variants = uniq
		memo[fn] = sm
		return sm
	}
	// ---- the dispatch: the root switch over the opcode, continued through its default clause ----
	isOpcodeSwitch := func(s *ast.SwitchStmt) bool {
		if s.Tag == nil {
			return false
		}
		t := info.TypeOf(s.Tag)
		return t != nil && types.Identical(t, opT)
	}
	type clause struct {
		cc *ast.CaseClause
	}
	clauses := map[string]*ast.CaseClause{}
	clauseRecv := map[*ast.CaseClause]types.Object{}
	var collect func(fdecl *ast.FuncDecl, depth int)
	collect = func(fdecl *ast.FuncDecl, depth int) {
		var sw *ast.SwitchStmt
		best := 0
		ast.Inspect(fdecl.Body, func(n ast.Node) bool {
			if s, ok := n.(*ast.SwitchStmt); ok && isOpcodeSwitch(s) {
				cnt := 0
				for _, cl := range s.Body.List {
					cnt += len(cl.(*ast.CaseClause).List)
				}
				if cnt > best {
					sw, best = s, cnt
				}
			}
			return true
		})
		if sw == nil {
			return
		}
		for _, cl := range sw.Body.List {
			cc := cl.(*ast.CaseClause)
			if cc.List == nil {
				// split dispatch: default hands the instruction to another dispatcher
				if depth < 3 {
					for _, stmt := range cc.Body {
						ast.Inspect(stmt, func(n ast.Node) bool {
							if call, ok := n.(*ast.CallExpr); ok {
								if g := CalleeOf(info, call); g != nil && decl[g] != nil && g != info.Defs[fdecl.Name] {
									collect(decl[g], depth+1)
								}
							}
							return true
						})
					}
				}
				continue
			}
			for _, e := range cc.List {
				if k := ConstOf(info, e); k != nil {
					if _, dup := clauses[k.Name()]; !dup {
						clauses[k.Name()] = cc
						clauseRecv[cc] = recvOf(fdecl)
					}
				}
			}
		}
	}
	collect(fd, 0)
	if len(clauses) < 20 {
		fatalf("anchor unresolved: the VM's dispatch over compiler.Opcode (found %d opcode clauses)", len(clauses))
	}
	out := map[string]vmEffect{}
	bodyMemo := map[*ast.CaseClause]*summ{}
	for name, cc := range clauses {
		sm := bodyMemo[cc]
		if sm == nil {
			sm = walkBody(&ast.BlockStmt{List: cc.Body}, clauseRecv[cc], 0)
			bodyMemo[cc] = sm
		}
		eff := vmEffect{ok: true, hasCase: true}
		seen := map[string]bool{}
		for i, r := range sm.variants {
			v := fmt.Sprintf("%+d", r.h)
			if r.loop != 0 {
				v += fmt.Sprintf("%+d·argc", r.loop)
			}
			if !seen[v] {
				seen[v] = true
				eff.variants = append(eff.variants, v)
			}
			if i == 0 {
				eff.delta, eff.loopPop = r.h, r.loop
				eff.pops, eff.pushes = r.pops, r.pushes
			}
		}
		sort.Strings(eff.variants)
		if len(eff.variants) > 1 {
			eff.ok = false
			eff.detail = "normal paths have different stack effects: " + strings.Join(eff.variants, " vs ")
		}
		if len(sm.variants) == 0 {
			eff.ok = false
			eff.detail = "no normally completing path"
		}
		if sm.bad != "" {
			eff.ok = false
			eff.detail = sm.bad
		}
		out[name] = eff
	}
	return out
}

// emAlwaysPanics: an expression statement calling a function of the package every path of which panics.
func emAlwaysPanics(info *types.Info, decl map[*types.Func]*ast.FuncDecl, s ast.Stmt) bool {
	es, ok := s.(*ast.ExprStmt)
	if !ok {
		return false
	}
	call, ok := es.X.(*ast.CallExpr)
	if !ok {
		return false
	}
	fn := CalleeOf(info, call)
	d := decl[fn]
	if fn == nil || d == nil || len(d.Body.List) == 0 {
		return false
	}
	// conservative: the body's last statement is a panic and it has no return statement
	hasRet := false
	ast.Inspect(d.Body, func(n ast.Node) bool {
		if _, ok := n.(*ast.ReturnStmt); ok {
			hasRet = true
		}
		return true
	})
	return !hasRet && IsPanicCall(info, d.Body.List[len(d.Body.List)-1])
}

// ---- emitter state ----

type emSt struct {
	h        lin
	reach    bool
	recorded map[string][]lin // label key → heights of jumps seen before its emission
	recTop   map[string][]string // label key → stack-top provenance of those jumps (parallel to recorded)
	emitted  map[string]lin   // label key → height at emission
	emitCnt  map[string]int
	created  map[string]bool // labels created by mangleLabel in this function
	alias    map[string]string
	ints     map[types.Object]lin
	last     *lin // integer constant pushed by the last emitted instruction
	tails    map[string]bool
	nuFact   map[string]int
	caseKey  string
	problems []string
	stk      []string                // symbolic operand stack (entries pushed since function entry); "?" = unknown
	opVars   map[types.Object]string // opcode-typed locals → constant currently held
	world    int                     // 0 unforced, 1 = all results non-null, 2 = tail results null
}

func emClone(s *emSt) *emSt {
	n := &emSt{h: s.h.add(linC(0)), reach: s.reach, caseKey: s.caseKey}
	n.recorded = map[string][]lin{}
	for k, v := range s.recorded {
		n.recorded[k] = append([]lin(nil), v...)
	}
	n.recTop = map[string][]string{}
	for k, v := range s.recTop {
		n.recTop[k] = append([]string(nil), v...)
	}
	n.emitted = map[string]lin{}
	for k, v := range s.emitted {
		n.emitted[k] = v
	}
	n.emitCnt = map[string]int{}
	for k, v := range s.emitCnt {
		n.emitCnt[k] = v
	}
	n.created = map[string]bool{}
	for k, v := range s.created {
		n.created[k] = v
	}
	n.alias = map[string]string{}
	for k, v := range s.alias {
		n.alias[k] = v
	}
	n.ints = map[types.Object]lin{}
	for k, v := range s.ints {
		n.ints[k] = v
	}
	n.tails = map[string]bool{}
	for k, v := range s.tails {
		n.tails[k] = v
	}
	n.nuFact = map[string]int{}
	for k, v := range s.nuFact {
		n.nuFact[k] = v
	}
	if s.last != nil {
		l := *s.last
		n.last = &l
	}
	n.problems = append([]string(nil), s.problems...)
	n.opVars = map[types.Object]string{}
	for k, v := range s.opVars {
		n.opVars[k] = v
	}
	n.world = s.world
	n.stk = append([]string(nil), s.stk...)
	return n
}

type emitter struct {
	c       *Ctx
	info    *types.Info
	vm      map[string]vmEffect
	insert  *types.Func
	ctors   map[*types.Func]bool // instruction constructors (first arg = opcode)
	opcodeT types.Type
	fns     map[*types.Func]*ast.FuncDecl
	summ    map[*types.Func]*emSumm // computed summaries of leaf helpers (absent = convention by role)
	role    map[*types.Func]emRole
	exprDispatch, stmtDispatch *types.Func // the functions taking the AnalyzedExpression / AnalyzedStatement interface
	inLoop  int
	cur     *ast.FuncDecl
	// tail symbols of the function being analysed: ν-symbols that were in tail position
	// (last emission before an unconditional jump, a fall-through label or the exit).
	// pass 1 collects them, pass 2 uses them.
	tailSyms  map[string]bool
	collect   bool
	ctorOp    map[*types.Func]string // constructors with a fixed opcode in their body
}

// w1: every sub-expression yields one value. w0: tail results yield nothing (null-typed
// construct), operands still yield one value.
func (e *emitter) w1(h lin) lin { return h.substNu(1) }
func (e *emitter) w0(h lin) lin {
	r := lin{c: h.c, s: map[string]int{}}
	for k, n := range h.s {
		switch {
		case strings.HasPrefix(k, "ν(") && e.tailSyms[k]:
		case strings.HasPrefix(k, "ν("):
			r.c += n
		default:
			r.s[k] = n
		}
	}
	return r
}

// compatible decides a join and updates the forced world of the path.
func (e *emitter) compatible(s *emSt, a, b lin) bool {
	if e.collect {
		return true
	}
	ok1 := e.w1(a).eq(e.w1(b))
	ok0 := e.w0(a).eq(e.w0(b))
	switch {
	case ok1 && ok0:
		return true
	case ok1:
		if s.world == 2 {
			return false
		}
		s.world = 1
		return true
	case ok0:
		if s.world == 1 {
			return false
		}
		s.world = 2
		return true
	}
	return false
}

func (s *emSt) spush(sym string) { s.stk = append(s.stk, sym) }
func (s *emSt) spop(n int) {
	for i := 0; i < n; i++ {
		if len(s.stk) > 0 {
			s.stk = s.stk[:len(s.stk)-1]
		}
	}
}
func (s *emSt) stop() string {
	if len(s.stk) == 0 {
		return ""
	}
	return s.stk[len(s.stk)-1]
}

// resultLike: the entry is a branch result — a ν-symbol that is in tail position somewhere
// in this function, or a constant pushed as the value of a branch.
func (e *emitter) resultLike(sym string) bool {
	return strings.HasPrefix(sym, "const") || e.tailSyms[sym]
}

// sameTop: two edges reaching one label must agree on what the value on top of the stack
// IS, not only on how many values there are: either the same symbolic value or both the
// result of their branch.
func (e *emitter) sameTop(a, b string) bool {
	if a == "" || b == "" || a == "?" || b == "?" || a == b {
		return true
	}
	return e.resultLike(a) && e.resultLike(b)
}

func (e *emitter) markTails(s *emSt) {
	if e.collect {
		for k := range s.tails {
			e.tailSyms[k] = true
		}
	}
}

func (e *emitter) labelKey(s *emSt, x ast.Expr) string {
	k := exprStr(ast.Unparen(x))
	if a, ok := s.alias[k]; ok {
		return a
	}
	return k
}

// intOf evaluates an integer expression to a linear form over n(list) symbols.
func (e *emitter) intOf(s *emSt, x ast.Expr) (lin, bool) {
	x = ast.Unparen(x)
	if tv, ok := e.info.Types[x]; ok && tv.Value != nil && tv.Value.Kind() == constant.Int {
		n, _ := constant.Int64Val(tv.Value)
		return linC(int(n)), true
	}
	switch t := x.(type) {
	case *ast.Ident:
		if v, ok := s.ints[e.info.Uses[t]]; ok {
			return v, true
		}
	case *ast.CallExpr:
		if e.info.Types[t.Fun].IsType() && len(t.Args) == 1 {
			return e.intOf(s, t.Args[0])
		}
		if id, ok := t.Fun.(*ast.Ident); ok && id.Name == "len" && len(t.Args) == 1 {
			return linS("n(" + exprStr(t.Args[0]) + ")"), true
		}
		// value.NewValueInt(x)
		if fn := CalleeOf(e.info, t); fn != nil && fn.Name() == "NewValueInt" && len(t.Args) == 1 {
			return e.intOf(s, t.Args[0])
		}
	case *ast.BinaryExpr:
		a, ok1 := e.intOf(s, t.X)
		b, ok2 := e.intOf(s, t.Y)
		if ok1 && ok2 {
			switch t.Op {
			case token.ADD:
				return a.add(b), true
			case token.SUB:
				return a.sub(b), true
			}
		}
	case *ast.StarExpr:
		return e.intOf(s, t.X)
	}
	return lin{}, false
}

func (e *emitter) nu(s *emSt, arg ast.Expr) lin {
	txt := exprStr(ast.Unparen(arg))
	txt = strings.TrimPrefix(txt, "*")
	sym := "ν(" + txt + ")"
	if v, ok := s.nuFact[sym]; ok {
		return linC(v)
	}
	return linS(sym)
}

func (e *emitter) problem(s *emSt, pos token.Pos, format string, a ...any) {
	s.problems = append(s.problems, fmt.Sprintf("%s: ", e.c.Pos(pos))+fmt.Sprintf(format, a...))
}

// emit applies one inserted instruction.
func (e *emitter) emit(s *emSt, call *ast.CallExpr, ctor *ast.CallExpr) {
	// the opcode: a constant argument, a local opcode variable (tracked per path), or fixed by the constructor
	var ops []string
	if fixed, ok := e.ctorOp[CalleeOf(e.info, ctor)]; ok {
		ops = []string{fixed}
	} else if len(ctor.Args) > 0 {
		if k := ConstOf(e.info, ctor.Args[0]); k != nil {
			ops = []string{k.Name()}
		} else if id, ok := ast.Unparen(ctor.Args[0]).(*ast.Ident); ok {
			if v, ok := s.opVars[e.info.Uses[id]]; ok {
				ops = []string{v}
			}
		}
	}
	if len(ops) == 0 {
		e.problem(s, call.Pos(), "cannot determine the opcode of the inserted instruction `%s`", exprStr(ctor))
		return
	}
	effs := []lin{e.opEffect(s, ops[0], call, ctor, false)}
	if !s.reach {
		return
	}
	s.h = s.h.add(effs[0])
}

// opEffect returns the height effect of op and applies control effects
// (labels, jumps, reachability) to s. dry=true for variable opcodes (no
// control opcodes are stored in variables in this code base).
func (e *emitter) opEffect(s *emSt, op string, call *ast.CallExpr, ctor *ast.CallExpr, dry bool) lin {
	arg := func(i int) ast.Expr {
		if i < len(ctor.Args) {
			return ctor.Args[i]
		}
		return nil
	}
	prevLast := s.last
	s.last = nil
	clearTails := true
	defer func() {
		if clearTails {
			// an instruction consumed/followed the last sub-expression: it is no longer in tail position
		}
	}()
	switch op {
	case "Opcode_Label":
		key := e.labelKey(s, arg(1))
		s.emitCnt[key]++
		rec := s.recorded[key]
		tops := s.recTop[key]
		topOf := func(i int) string {
			if i < len(tops) {
				return tops[i]
			}
			return "?"
		}
		if s.reach {
			e.markTails(s)
			for i, r := range rec {
				if !e.compatible(s, r, s.h) {
					e.problem(s, call.Pos(), "label %s is reached with operand-stack height %s by fall-through but %s by a jump (they differ whether or not the branch results are null)", key, s.h, r)
				} else if !e.collect && e.w1(r).eq(e.w1(s.h)) && !e.sameTop(s.stop(), topOf(i)) {
					e.problem(s, call.Pos(), "label %s is reached with %s on top of the operand stack by fall-through but with %s by a jump: the code after the label treats two different values as the same one", key, s.stop(), topOf(i))
				}
			}
		} else if len(rec) > 0 {
			s.h = rec[0]
			s.reach = true
			s.stk = nil
			if t := topOf(0); t != "" {
				s.stk = []string{t}
			}
			for i, r := range rec[1:] {
				if !e.compatible(s, r, rec[0]) {
					e.problem(s, call.Pos(), "label %s is reached with different operand-stack heights by its jumps: %s vs %s (they differ whether or not the branch results are null)", key, rec[0], r)
				} else if !e.collect && e.w1(r).eq(e.w1(rec[0])) && !e.sameTop(topOf(0), topOf(i+1)) {
					e.problem(s, call.Pos(), "label %s is reached with %s on top of the operand stack by one jump but with %s by another", key, topOf(0), topOf(i+1))
				}
			}
		}
		delete(s.recTop, key)
		if s.reach {
			s.emitted[key] = s.h
		}
		delete(s.recorded, key)
		return linC(0)
	case "Opcode_Jump", "Opcode_JumpIfFalse":
		key := e.labelKey(s, arg(1))
		if !s.reach {
			return linC(0)
		}
		h := s.h
		if op == "Opcode_JumpIfFalse" {
			h = h.add(linC(-1))
			s.spop(1)
		}
		if op == "Opcode_Jump" {
			e.markTails(s)
		}
		if at, ok := s.emitted[key]; ok {
			if !e.compatible(s, at, h) {
				e.problem(s, call.Pos(), "backward jump to %s with operand-stack height %s, the label was emitted at height %s: every trip leaves %s on the stack", key, h, at, h.sub(at))
			}
		} else {
			s.recorded[key] = append(s.recorded[key], h)
			s.recTop[key] = append(s.recTop[key], s.stop())
		}
		if op == "Opcode_Jump" {
			s.h = h
			s.reach = false
			return linC(0)
		}
		return linC(-1)
	case "Opcode_Return":
		if s.reach && !e.collect {
			// frame protocol: the function has consumed its parameters and holds at most its
			// result; anything that scales with another list is residue per element
			for k, n := range s.h.s {
				if strings.HasPrefix(k, "n(") {
					e.problem(s, call.Pos(), "the function epilogue is reached with %+d value(s) per element of %s left on the operand stack", n, strings.TrimSuffix(strings.TrimPrefix(k, "n("), ")"))
				}
			}
		}
		s.reach = false
		return linC(0)
	case "Opcode_Throw":
		if s.reach {
			s.h = s.h.add(linC(-1))
			s.spop(1)
		}
		s.reach = false
		return linC(0)
	case "Opcode_SetTryLabel":
		// the handler is entered with the error object above the height at this point
		if a := arg(2); a != nil && s.reach {
			key := e.labelKey(s, a)
			s.recorded[key] = append(s.recorded[key], s.h.add(linC(1)))
			s.recTop[key] = append(s.recTop[key], "exception object")
		}
		return linC(0)
	case "Opcode_Call_Imm":
		// consumes the arguments pushed for it, leaves the callee's result
		r := linS("ν(node)")
		take := lin{s: map[string]int{}}
		for k, v := range s.h.s {
			if strings.HasPrefix(k, "n(") && v > 0 {
				take.s[k] = v
			}
		}
		s.stk = []string{"op:call"}
		return r.sub(take)
	case "Opcode_Spawn", "Opcode_Call_Val", "Opcode_HostCall":
		s.stk = []string{"op:call"}
		if prevLast == nil {
			e.problem(s, call.Pos(), "%s is not immediately preceded by a push of its argument count", op)
			return linC(0)
		}
		argc := *prevLast
		switch op {
		case "Opcode_Spawn":
			return linC(-1).sub(argc).add(linC(1))
		case "Opcode_Call_Val":
			return linC(-2).sub(argc).add(linS("ν(node)"))
		default:
			return linC(-1).sub(argc).add(linC(1))
		}
	}
	eff, ok := e.vm[op]
	if !ok || !eff.hasCase {
		e.problem(s, call.Pos(), "opcode %s has no case in the VM's run loop", op)
		return linC(0)
	}
	if op == "Opcode_Copy_Push" || op == "Opcode_Cloning_Push" {
		if v, ok := e.intOf(s, arg(1)); ok {
			vv := v
			s.last = &vv
		}
	}
	if s.reach {
		if op == "Opcode_Duplicate" {
			s.spush(s.stop())
		} else {
			s.spop(eff.pops)
			for i := 0; i < eff.pushes; i++ {
				switch op {
				case "Opcode_Copy_Push", "Opcode_Cloning_Push":
					s.spush("const:" + strings.TrimPrefix(op, "Opcode_"))
				default:
					s.spush("op:" + strings.TrimPrefix(op, "Opcode_"))
				}
			}
		}
	}
	return linC(eff.delta)
}

// walkFn analyses one emitter function and returns the exit states.
func (e *emitter) walkFn(fd *ast.FuncDecl) (exits []*emSt, overflow bool) {
	e.tailSyms = map[string]bool{}
	e.collect = true
	e.walkFnOnce(fd)
	e.collect = false
	return e.walkFnOnce(fd)
}

func (e *emitter) walkFnOnce(fd *ast.FuncDecl) (exits []*emSt, overflow bool) {
	info := e.info
	e.cur = fd
	init := &emSt{reach: true, recTop: map[string][]string{}, recorded: map[string][]lin{}, emitted: map[string]lin{}, emitCnt: map[string]int{}, created: map[string]bool{},
		alias: map[string]string{}, ints: map[types.Object]lin{}, tails: map[string]bool{}, nuFact: map[string]int{}, opVars: map[types.Object]string{}}
	var handleCall func(s *emSt, call *ast.CallExpr)
	handleCall = func(s *emSt, call *ast.CallExpr) {
		fn := CalleeOf(info, call)
		if fn == nil {
			return
		}
		if fn == e.insert && len(call.Args) >= 1 {
			if ctor, ok := ast.Unparen(call.Args[0]).(*ast.CallExpr); ok {
				if cf := CalleeOf(info, ctor); cf != nil && e.ctors[cf] {
					h0, n0, t0 := s.h, len(s.stk), s.stop()
					e.emit(s, call, ctor)
					if !(s.h.eq(h0) && len(s.stk) == n0 && s.stop() == t0) {
						s.tails = map[string]bool{} // the instruction touched the stack: previous results are consumed or buried
					}
					return
				}
			}
			// insert(additionalInst, ...) with an instruction variable: find its constructor
			if id, ok := ast.Unparen(call.Args[0]).(*ast.Ident); ok {
				obj := info.Uses[id]
				var found *ast.CallExpr
				ast.Inspect(fd.Body, func(n ast.Node) bool {
					if as, ok := n.(*ast.AssignStmt); ok {
						for i, l := range as.Lhs {
							if lid, ok := l.(*ast.Ident); ok && (info.Uses[lid] == obj || info.Defs[lid] == obj) && i < len(as.Rhs) {
								if cc, ok := ast.Unparen(as.Rhs[i]).(*ast.CallExpr); ok {
									if cf := CalleeOf(info, cc); cf != nil && e.ctors[cf] {
										found = cc
									}
								}
							}
						}
					}
					return true
				})
				if found != nil {
					e.emit(s, call, found)
					s.tails = map[string]bool{}
					return
				}
			}
			e.problem(s, call.Pos(), "insert() of an instruction the analysis cannot identify: %s", exprStr(call.Args[0]))
			return
		}
		sig, _ := fn.Type().(*types.Signature)
		if sig == nil || sig.Recv() == nil {
			return
		}
		if _, isEmitter := e.fns[fn]; !isEmitter {
			return
		}
		if !s.reach {
			return
		}
		s.last = nil
		switch e.role[fn] {
		case emRFrame, emRDriver:
			// emits into another function's instruction list
			return
		}
		if sm, ok := e.summ[fn]; ok && sm != nil {
			// substitute the actual arguments for the helper's parameters in its symbolic effect
			sub := map[string]string{}
			for i, pn := range sm.params {
				if i < len(call.Args) && pn != "" && pn != "_" {
					sub[pn] = exprStr(ast.Unparen(call.Args[i]))
				}
			}
			eff := emSubst(sm.eff, sub)
			s.h = s.h.add(eff)
			s.tails = map[string]bool{}
			switch {
			case eff.c < 0:
				s.spop(-eff.c + 1)
				s.spush("op:" + fn.Name())
			case eff.c == 0:
				s.spop(1)
				s.spush("op:" + fn.Name())
			default:
				s.spush("op:" + fn.Name())
			}
			if sm.last != nil {
				l := emSubst(*sm.last, sub)
				s.last = &l
			}
			return
		}
		// statements may leave their construct by a jump to a label that was emitted at the
		// statement-level base height (break/continue → loop labels, return → cleanup label):
		// a loop that keeps a value on the operand stack across its body leaks it on every
		// such exit. So inside compileStmt, a body block / nested statement is compiled at
		// the height the statement started with.
		if curFn, _ := info.Defs[e.cur.Name].(*types.Func); curFn != nil && curFn == e.stmtDispatch && !e.collect && (e.role[fn] == emRBlockLike || fn == e.stmtDispatch) {
			if h1 := e.w1(s.h); len(h1.s) != 0 || h1.c != 0 {
				e.problem(s, call.Pos(), "%s is compiled while the statement holds %s extra value(s) on the operand stack: a break/continue/return inside it jumps to a label emitted at the base height and leaves them behind", exprStr(call), s.h)
			}
		}
		// conventions (induction hypotheses, each checked on its own function)
		switch e.role[fn] {
		case emRStmtLike:
			s.tails = map[string]bool{}
			return
		default:
			// compileExpr(x), compileBlock(x, _), compileIfExpr(node), compileCallExpr(node), compileInfixExpr(node)
			if len(call.Args) >= 1 {
				v := e.nu(s, call.Args[0])
				s.h = s.h.add(v)
				s.tails = map[string]bool{}
				for k := range v.s {
					s.tails[k] = true
					s.spush(k)
				}
				if len(v.s) == 0 && v.c > 0 {
					s.spush("op:value")
				}
			}
		}
	}
	var visit func(s *emSt, n ast.Node)
	visit = func(s *emSt, n ast.Node) {
		ast.Inspect(n, func(m ast.Node) bool {
			switch x := m.(type) {
			case *ast.FuncLit:
				return false
			case *ast.CallExpr:
				for _, a := range x.Args {
					visit(s, a)
				}
				handleCall(s, x)
				return false
			}
			return true
		})
	}
	w := &Walker[*emSt]{
		Clone:    emClone,
		MaxPaths: 60000,
		IsPanic:  func(s ast.Stmt) bool { return IsPanicCall(info, s) },
		OnStmt: func(s *emSt, stmt ast.Stmt) (*emSt, bool) {
			switch x := stmt.(type) {
			case *ast.AssignStmt:
				// label creation / aliases / integer locals
				for i, l := range x.Lhs {
					if i >= len(x.Rhs) {
						break
					}
					r := ast.Unparen(x.Rhs[i])
					if rc, ok := r.(*ast.CallExpr); ok {
						if fn := CalleeOf(info, rc); fn != nil && e.isNameMaker(fn) {
							s.created[exprStr(l)] = true
							continue
						}
					}
					if _, ok := l.(*ast.IndexExpr); ok {
						if rid, ok := r.(*ast.Ident); ok && s.created[rid.Name] {
							s.alias[exprStr(l)] = rid.Name
							continue
						}
					}
					if lid, ok := l.(*ast.Ident); ok {
						if k := ConstOf(info, r); k != nil && types.Identical(k.Type(), e.opcodeT) {
							obj := info.Defs[lid]
							if obj == nil {
								obj = info.Uses[lid]
							}
							s.opVars[obj] = k.Name()
							continue
						}
						if v, ok := e.intOf(s, r); ok {
							obj := info.Defs[lid]
							if obj == nil {
								obj = info.Uses[lid]
							}
							if obj != nil {
								s.ints[obj] = v
							}
						}
					}
				}
				visit(s, stmt)
			case *ast.DeclStmt:
				if gd, ok := x.Decl.(*ast.GenDecl); ok {
					for _, sp := range gd.Specs {
						if vs, ok := sp.(*ast.ValueSpec); ok {
							for i, n := range vs.Names {
								if i < len(vs.Values) {
									if k := ConstOf(info, vs.Values[i]); k != nil && types.Identical(k.Type(), e.opcodeT) {
										s.opVars[info.Defs[n]] = k.Name()
									} else if v, ok := e.intOf(s, vs.Values[i]); ok {
										s.ints[info.Defs[n]] = v
									}
								}
							}
						}
					}
				}
				visit(s, stmt)
			default:
				visit(s, stmt)
			}
			return s, true
		},
		OnDefer: func(s *emSt, d *ast.DeferStmt) (*emSt, bool) { return s, true },
		OnCond: func(s *emSt, cond ast.Expr, taken bool) (*emSt, bool) {
			// the same side-effect-free condition over the (immutable) node decides the same way
			// every time it is evaluated on one path
			ck := "cond:" + exprStr(cond)
			if prev, ok := s.nuFact[ck]; ok {
				if (prev == 1) != taken {
					return s, false
				}
			} else if !strings.Contains(ck, "(") || strings.Contains(ck, ".Kind()") || strings.Contains(ck, "len(") {
				v := 0
				if taken {
					v = 1
				}
				s.nuFact[ck] = v
			}
			// X.Type().Kind() != ast.NullTypeKind  →  ν(X) = 1 / 0
			if b, ok := ast.Unparen(cond).(*ast.BinaryExpr); ok && (b.Op == token.NEQ || b.Op == token.EQL) {
				if k := ConstOf(info, b.Y); k != nil && k.Name() == "NullTypeKind" {
					if c1, ok := ast.Unparen(b.X).(*ast.CallExpr); ok {
						if s1, ok := c1.Fun.(*ast.SelectorExpr); ok && s1.Sel.Name == "Kind" {
							if c2, ok := ast.Unparen(s1.X).(*ast.CallExpr); ok {
								if s2, ok := c2.Fun.(*ast.SelectorExpr); ok && s2.Sel.Name == "Type" {
									sym := "ν(" + exprStr(s2.X) + ")"
									nonNull := (b.Op == token.NEQ) == taken
									v := 0
									if nonNull {
										v = 1
									}
									s.nuFact[sym] = v
									// substitute in the current height
									if n, ok := s.h.s[sym]; ok {
										s.h = s.h.add(lin{c: n * v, s: map[string]int{sym: -n}})
									}
								}
							}
						}
					}
				}
			}
			return s, true
		},
		OnCase: func(s *emSt, sw *ast.SwitchStmt, vals, others []ast.Expr) (*emSt, bool) {
			// remember the outermost Kind()/operator case for grouping
			if s.caseKey == "" {
				var names []string
				for _, v := range vals {
					if k := ConstOf(info, v); k != nil {
						names = append(names, k.Name())
					}
				}
				if vals == nil {
					names = []string{"default"}
				}
				if len(names) > 0 {
					s.caseKey = "case " + strings.Join(names, ",")
				}
			}
			return s, true
		},
		LoopSummary: nil,
	}
	w.LoopSummary = func(loop ast.Stmt, before *emSt, ends []*emSt) (*emSt, bool) {
		e.inLoop--
		post := emClone(before)
		if len(ends) == 0 {
			return post, true
		}
		// list symbol
		listSym := "n(?)"
		switch x := loop.(type) {
		case *ast.RangeStmt:
			listSym = "n(" + exprStr(x.X) + ")"
		case *ast.ForStmt:
			ast.Inspect(x, func(n ast.Node) bool {
				if c, ok := n.(*ast.CallExpr); ok {
					if id, ok := c.Fun.(*ast.Ident); ok && id.Name == "len" && len(c.Args) == 1 {
						listSym = "n(" + exprStr(c.Args[0]) + ")"
					}
				}
				return true
			})
		}
		var d0 lin
		mixed := false
		for i, en := range ends {
			d := linC(0)
			if en.reach && before.reach {
				d = e.w1(en.h.sub(before.h))
			}
			if en.world != 0 {
				post.world = en.world
			}
			if i == 0 {
				d0 = d
			} else if !d.eq(d0) {
				mixed = true
			}
			// merge label bookkeeping and problems
			if i == 0 {
				post.recorded = map[string][]lin{}
			}
			for k, v := range en.recorded {
				post.recorded[k] = v
			}
			for k, v := range en.nuFact {
				if _, ok := post.nuFact[k]; !ok && !strings.HasPrefix(k, "cond:") {
					post.nuFact[k] = v
				}
			}
			for k, v := range en.emitted {
				post.emitted[k] = v
			}
			for k, v := range en.emitCnt {
				if v > post.emitCnt[k] {
					post.emitCnt[k] = v
				}
			}
			for k, v := range en.created {
				post.created[k] = v
			}
			for k, v := range en.alias {
				post.alias[k] = v
			}
			for _, p := range en.problems {
				dup := false
				for _, q := range post.problems {
					if p == q {
						dup = true
					}
				}
				if !dup {
					post.problems = append(post.problems, p)
				}
			}
			post.reach = en.reach
		}
		if mixed {
			// element-dependent effect (e.g. a parameter loop that skips some elements): opaque total
			post.h = before.h.add(linS("Σ(" + strings.TrimSuffix(strings.TrimPrefix(listSym, "n("), ")") + ")"))
		} else if len(d0.s) != 0 {
			post.problems = append(post.problems, fmt.Sprintf("%s: per-iteration stack effect of the emitter loop over %s is symbolic (%s): not supported", e.c.Pos(loop.Pos()), listSym, d0))
		} else if d0.c != 0 {
			post.h = before.h.add(lin{s: map[string]int{listSym: d0.c}})
		} else if post.reach {
			post.h = before.h
		}
		post.tails = map[string]bool{}
		post.stk = append([]string(nil), before.stk...)
		if mixed || d0.c != 0 || len(d0.s) != 0 {
			post.stk = append(post.stk, "?")
		}
		// iterations that start unreachable (each begins at a label) but may END reachable —
		// some path through the body does not leave by a jump — make the code after the loop
		// reachable by fall-through from the last iteration, with that iteration's stack
		if !before.reach {
			for _, en := range ends {
				if en.reach {
					post.reach = true
					post.h = en.h
					post.stk = append([]string(nil), en.stk...)
					post.tails = map[string]bool{}
					for k, v := range en.tails {
						post.tails[k] = v
					}
					break
				}
			}
		}
		for k, v := range post.recorded {
			_ = v
			if _, ok := post.recTop[k]; !ok {
				for _, en := range ends {
					if t, ok := en.recTop[k]; ok {
						post.recTop[k] = t
					}
				}
			}
		}
		return post, true
	}
	// loops: sub-expressions inside count as value-producing
	origRange := w.OnRange
	_ = origRange
	w.OnRange = func(s *emSt, r *ast.RangeStmt) (*emSt, bool) { return s, true }
	w.Exit = func(s *emSt, o outcome) {
		if o.kind == cPanic {
			return
		}
		if s.reach {
			e.markTails(s)
		}
		exits = append(exits, s)
	}
	// track loop nesting for e.nu: wrap stmts via a pre/post on ForStmt/RangeStmt is not available in the
	// walker, so approximate: mark inLoop while the LoopSummary body walk runs.
	e.inLoop = 0
	origStmt := w.OnStmt
	w.OnStmt = func(s *emSt, stmt ast.Stmt) (*emSt, bool) { return origStmt(s, stmt) }
	e.runWithLoopDepth(w, fd, init)
	return exits, w.Overflow
}

// runWithLoopDepth runs the walker; e.inLoop is raised while a loop body is
// being walked (the walker calls OnRange / evaluates the loop condition right
// before the body and LoopSummary right after).
func (e *emitter) runWithLoopDepth(w *Walker[*emSt], fd *ast.FuncDecl, init *emSt) {
	prevRange := w.OnRange
	w.OnRange = func(s *emSt, r *ast.RangeStmt) (*emSt, bool) {
		e.inLoop++
		return prevRange(s, r)
	}
	prevCond := w.OnCond
	loopConds := map[ast.Expr]bool{}
	ast.Inspect(fd.Body, func(n ast.Node) bool {
		if f, ok := n.(*ast.ForStmt); ok && f.Cond != nil {
			loopConds[ast.Unparen(f.Cond)] = true
		}
		return true
	})
	w.OnCond = func(s *emSt, cond ast.Expr, taken bool) (*emSt, bool) {
		if loopConds[cond] && taken {
			e.inLoop++
		}
		return prevCond(s, cond, taken)
	}
	w.Run(fd.Body, init)
}

func ruleEmitBalance(c *Ctx) []Obligation {
	p := c.Pkg("homescript/compiler")
	info := p.TypesInfo
	e := &emitter{c: c, info: info, vm: emVMEffects(c), ctors: map[*types.Func]bool{}, fns: map[*types.Func]*ast.FuncDecl{}, summ: map[*types.Func]*emSumm{}}
	var obs []Obligation
	// roles
	opT := p.Types.Scope().Lookup("Opcode")
	instrT := p.Types.Scope().Lookup("Instruction")
	if opT == nil || instrT == nil {
		fatalf("anchor unresolved: compiler.Opcode / compiler.Instruction")
	}
	e.opcodeT = opT.Type()
	e.ctorOp = map[*types.Func]string{}
	iface, _ := instrT.Type().Underlying().(*types.Interface)
	for _, fd := range AllFuncDecls(p) {
		fn, _ := info.Defs[fd.Name].(*types.Func)
		if fn == nil {
			continue
		}
		sig := fn.Type().(*types.Signature)
		if sig.Recv() != nil || sig.Results().Len() != 1 || iface == nil {
			continue
		}
		rt := sig.Results().At(0).Type()
		if !types.Implements(rt, iface) && !types.Identical(rt, instrT.Type()) {
			continue
		}
		if _, isStruct := rt.Underlying().(*types.Struct); !isStruct && !types.Identical(rt, instrT.Type()) {
			continue
		}
		e.ctors[fn] = true
		if sig.Params().Len() == 0 || !types.Identical(sig.Params().At(0).Type(), opT.Type()) {
			// the opcode is fixed inside the constructor
			ast.Inspect(fd.Body, func(n ast.Node) bool {
				if kv, ok := n.(*ast.KeyValueExpr); ok {
					if k := ConstOf(info, kv.Value); k != nil && types.Identical(k.Type(), opT.Type()) {
						e.ctorOp[fn] = k.Name()
					}
				}
				return true
			})
		}
	}
	// insert: *Compiler method (Instruction, Span) that appends to Instructions
	for _, fd := range AllFuncDecls(p) {
		if fd.Recv == nil || recvTypeName(fd.Recv.List[0].Type) != "Compiler" {
			continue
		}
		fn := info.Defs[fd.Name].(*types.Func)
		sig := fn.Type().(*types.Signature)
		if sig.Params().Len() == 2 && types.Identical(sig.Params().At(0).Type(), instrT.Type()) {
			e.insert = fn
		}
	}
	if e.insert == nil || len(e.ctors) == 0 {
		fatalf("anchor unresolved: the compiler's insert method / instruction constructors")
	}
	// emitter functions: *Compiler methods that (transitively) call insert
	calls := map[*types.Func][]*types.Func{}
	decl := map[*types.Func]*ast.FuncDecl{}
	for _, fd := range AllFuncDecls(p) {
		if fd.Recv == nil || recvTypeName(fd.Recv.List[0].Type) != "Compiler" {
			continue
		}
		fn := info.Defs[fd.Name].(*types.Func)
		decl[fn] = fd
		ast.Inspect(fd.Body, func(n ast.Node) bool {
			if call, ok := n.(*ast.CallExpr); ok {
				if g := CalleeOf(info, call); g != nil {
					calls[fn] = append(calls[fn], g)
				}
			}
			return true
		})
	}
	emits := map[*types.Func]bool{e.insert: true}
	for changed := true; changed; {
		changed = false
		for fn, cs := range calls {
			if emits[fn] {
				continue
			}
			for _, g := range cs {
				if emits[g] {
					emits[fn] = true
					changed = true
					break
				}
			}
		}
	}
	for fn := range emits {
		if fn != e.insert && decl[fn] != nil {
			e.fns[fn] = decl[fn]
		}
	}
	e.classify(c, calls)
	// VM effect table as evidence + inconsistent opcodes
	var names []string
	for k := range e.vm {
		names = append(names, k)
	}
	sort.Strings(names)
	var tbl []string
	for _, k := range names {
		v := e.vm[k]
		tbl = append(tbl, strings.TrimPrefix(k, "Opcode_")+":"+strings.Join(v.variants, "|"))
	}
	obs = append(obs, Obligation{Key: "VM opcode stack-effect table", Status: Info, Detail: strings.Join(tbl, " ")})
	// node kinds typed null by construction: analyzer builds them with ResultType: NewNullType(...)
	nullKinds := emNullTypedNodes(c)
	// 1. helpers with a single constant effect: iterate to a fixpoint over non-recursive helpers
	// leaf helpers (role emRHelper: emitter functions from which no recursive emitter function is
	// reachable), summarised callees first
	var helpers []*types.Func
	for fn, r := range e.role {
		if r == emRHelper {
			helpers = append(helpers, fn)
		}
	}
	sort.Slice(helpers, func(i, j int) bool { return helpers[i].Name() < helpers[j].Name() })
	doneHelper := map[*types.Func]bool{}
	for progress := true; progress; {
		progress = false
		for _, fn := range helpers {
			if doneHelper[fn] {
				continue
			}
			ready := true
			for _, g := range calls[fn] {
				if e.role[g] == emRHelper && g != fn && !doneHelper[g] {
					ready = false
				}
			}
			if !ready {
				continue
			}
			doneHelper[fn] = true
			progress = true
			fd := e.fns[fn]
			name := fn.Name()
			exits, overflow := e.walkFn(fd)
			o := Obligation{Key: "compiler." + name + "|one stack effect on all paths", Pos: c.Pos(fd.Pos()), Nontrivial: true}
			var effs []string
			var problems []string
			var first *lin
			var lasts []string
			var last *lin
			for _, x := range exits {
				problems = append(problems, x.problems...)
				if !x.reach {
					continue
				}
				h := x.h
				if first == nil {
					first = &h
				}
				effs = append(effs, h.String())
				if x.last != nil {
					l := *x.last
					last = &l
					lasts = append(lasts, l.String())
				} else {
					lasts = append(lasts, "-")
				}
			}
			effs = uniqStrings(effs)
			if len(uniqStrings(lasts)) != 1 {
				last = nil
			}
			switch {
			case overflow:
				o.Status, o.Detail = Undecided, "path overflow"
			case len(problems) > 0:
				o.Status, o.Detail = Violated, strings.Join(uniqStrings(problems), "; ")
			case len(effs) != 1:
				o.Status, o.Detail = Violated, "paths have different stack effects: "+strings.Join(effs, " vs ")
			default:
				o.Status, o.Detail = Discharged, "effect "+effs[0]
				sm := &emSumm{eff: *first, last: last}
				for _, f := range fd.Type.Params.List {
					for _, n := range f.Names {
						sm.params = append(sm.params, n.Name)
					}
					if len(f.Names) == 0 {
						sm.params = append(sm.params, "")
					}
				}
				e.summ[fn] = sm
			}
			obs = append(obs, o)
		}
	}
	// 2. every other emitter function, grouped by outermost case
	var fnames []string
	byName := map[string]*types.Func{}
	for fn := range e.fns {
		fnames = append(fnames, fn.Name())
		byName[fn.Name()] = fn
	}
	sort.Strings(fnames)
	for _, name := range fnames {
		fn := byName[name]
		switch e.role[fn] {
		case emRHelper, emRDriver:
			continue
		}
		role := e.role[fn]
		fd := e.fns[fn]
		exits, overflow := e.walkFn(fd)
		if overflow {
			obs = append(obs, Obligation{Key: "compiler." + name, Pos: c.Pos(fd.Pos()), Status: Undecided, Detail: "path enumeration overflow"})
			continue
		}
		groups := map[string][]*emSt{}
		for _, x := range exits {
			k := x.caseKey
			if fn != e.exprDispatch && fn != e.stmtDispatch {
				k = ""
			}
			groups[k] = append(groups[k], x)
		}
		var gkeys []string
		for k := range groups {
			gkeys = append(gkeys, k)
		}
		sort.Strings(gkeys)
		for _, gk := range gkeys {
			xs := groups[gk]
			key := "compiler." + name
			if gk != "" {
				key += "|" + gk
			}
			o := Obligation{Key: key + "|balanced", Pos: c.Pos(fd.Pos()), Nontrivial: true}
			var problems, effs []string
			for _, x := range xs {
				problems = append(problems, x.problems...)
				// labels jumped to but never emitted (created here)
				for lk, rec := range x.recorded {
					if x.created[lk] && len(rec) > 0 {
						problems = append(problems, fmt.Sprintf("label %s is jumped to but not emitted on this path", lk))
					}
				}
				for lk, n := range x.emitCnt {
					if n > 1 {
						problems = append(problems, fmt.Sprintf("label %s is emitted %d times on one path", lk, n))
					}
				}
				if !x.reach {
					continue
				}
				effs = append(effs, x.h.String())
				h1, h0 := e.w1(x.h), e.w0(x.h)
				hasTail := false
				for k := range x.h.s {
					if e.tailSyms[k] {
						hasTail = true
					}
				}
				valueLike, want := false, 0
				switch {
				case fn == e.exprDispatch:
					valueLike = true
					for _, nk := range nullKinds {
						if strings.Contains(gk, nk) {
							valueLike = false
						}
					}
					if strings.Contains(gk, "default") || strings.Contains(gk, "UnknownExpressionKind") {
						continue
					}
				case role == emRExprLike || role == emRBlockLike:
					valueLike = true
				case role == emRStmtLike:
				case role == emRFrame:
					// frame protocol: consumes its parameters, leaves the body's result; anything that
					// scales with another list is residue per element
					for k, n := range x.h.s {
						if strings.HasPrefix(k, "n(") {
							problems = append(problems, fmt.Sprintf("the prologue/epilogue leaves %+d value(s) per element of %s on the operand stack", n, strings.TrimSuffix(strings.TrimPrefix(k, "n("), ")")))
						}
					}
					continue
				default:
					continue
				}
				bad := func(msg string) {
					problems = append(problems, fmt.Sprintf("nets %s on the operand stack: %s", x.h, msg))
				}
				if len(h1.s) != 0 || len(h0.s) != 0 {
					bad("a per-element residue remains (" + h1.String() + ")")
					continue
				}
				if valueLike {
					// non-null result ⇒ exactly one value; null result (tail results null) ⇒ none
					ok1 := h1.c == 1
					ok0 := h0.c == 0
					switch {
					case x.world == 1 && !ok1:
						bad(fmt.Sprintf("= %d when the result is non-null, expected 1", h1.c))
					case x.world == 2 && !ok0:
						bad(fmt.Sprintf("= %d when the result is null, expected 0", h0.c))
					case x.world == 0 && hasTail && !(ok1 && ok0):
						bad(fmt.Sprintf("= %d when the result is non-null (expected 1) and %d when it is null (expected 0)", h1.c, h0.c))
					case x.world == 0 && !hasTail && !ok1 && role != emRBlockLike:
						bad(fmt.Sprintf("= %d when every sub-expression yields a value, expected 1", h1.c))
					case x.world == 0 && !hasTail && role == emRBlockLike && h1.c != 0:
						bad(fmt.Sprintf("a block without result expression nets %d, expected 0", h1.c))
					}
				} else {
					_ = want
					switch {
					case x.world == 2 && h0.c != 0:
						bad(fmt.Sprintf("= %d, expected 0", h0.c))
					case x.world != 2 && h1.c != 0 && !(hasTail && h0.c == 0):
						bad(fmt.Sprintf("= %d when every sub-expression yields a value, expected 0", h1.c))
					}
				}
			}
			problems = uniqStrings(problems)
			if len(problems) > 0 {
				o.Status, o.Detail = Violated, strings.Join(problems, "; ")
			} else {
				o.Status, o.Detail = Discharged, "effects "+strings.Join(uniqStrings(effs), " | ")
			}
			obs = append(obs, o)
		}
	}
	return obs
}

// emNullTypedNodes: expression kinds the analyzer always types as null
// (composite literals AnalyzedXExpression{... ResultType: ast.NewNullType(..)}).
func emNullTypedNodes(c *Ctx) []string {
	p := c.Pkg("homescript/analyzer")
	info := p.TypesInfo
	var out []string
	for _, f := range p.Syntax {
		ast.Inspect(f, func(n ast.Node) bool {
			cl, ok := n.(*ast.CompositeLit)
			if !ok {
				return true
			}
			t := info.TypeOf(cl)
			nt, ok := t.(*types.Named)
			if !ok || !strings.HasPrefix(nt.Obj().Name(), "Analyzed") || !strings.HasSuffix(nt.Obj().Name(), "Expression") {
				return true
			}
			for _, el := range cl.Elts {
				kv, ok := el.(*ast.KeyValueExpr)
				if !ok {
					continue
				}
				if k, ok := kv.Key.(*ast.Ident); ok && k.Name == "ResultType" {
					kind := strings.TrimSuffix(strings.TrimPrefix(nt.Obj().Name(), "Analyzed"), "Expression") + "ExpressionKind"
					isNullCtor := func(x ast.Expr) bool {
						call, ok := ast.Unparen(x).(*ast.CallExpr)
						if !ok {
							return false
						}
						fn := CalleeOf(info, call)
						return fn != nil && (fn.Name() == "NewNullType" || fn.Name() == "NewNeverType")
					}
					if isNullCtor(kv.Value) {
						out = append(out, kind)
					} else if id, ok := ast.Unparen(kv.Value).(*ast.Ident); ok {
						// a local whose every assignment is a null/never constructor
						obj := info.Uses[id]
						all, n := true, 0
						ast.Inspect(f, func(m ast.Node) bool {
							if as, ok := m.(*ast.AssignStmt); ok {
								for i, l := range as.Lhs {
									if lid, ok := l.(*ast.Ident); ok && (info.Uses[lid] == obj || info.Defs[lid] == obj) && i < len(as.Rhs) {
										n++
										if !isNullCtor(as.Rhs[i]) {
											all = false
										}
									}
								}
							}
							return true
						})
						if all && n > 0 {
							out = append(out, kind)
						}
					}
				}
			}
			return true
		})
	}
	// literal kinds whose Type() method returns NewNullType
	ap := c.Pkg("homescript/analyzer/ast")
	for _, fd := range AllFuncDecls(ap) {
		if fd.Name.Name != "Type" || fd.Recv == nil || len(fd.Body.List) != 1 {
			continue
		}
		if ret, ok := fd.Body.List[0].(*ast.ReturnStmt); ok && len(ret.Results) == 1 {
			if call, ok := ast.Unparen(ret.Results[0]).(*ast.CallExpr); ok {
				if id, ok := call.Fun.(*ast.Ident); ok && id.Name == "NewNullType" {
					rn := recvTypeName(fd.Recv.List[0].Type)
					out = append(out, strings.TrimSuffix(strings.TrimPrefix(rn, "Analyzed"), "Expression")+"ExpressionKind")
				}
			}
		}
	}
	return uniqStrings(out)
}


// ---- roles of the emitter functions (resolved through parameter types and the call graph, never by name)

type emRole int

const (
	emRNone      emRole = iota
	emRHelper           // leaf helper: no recursive emitter function is reachable from it; summarised
	emRExprLike         // first parameter is an analyzed expression: nets the value of that expression
	emRBlockLike        // first parameter is the analyzed block: nets the value of its result expression
	emRStmtLike         // anything else inside the recursion: nets nothing
	emRFrame            // first parameter is a function definition: emits into that function's own list
	emRDriver           // entry points above the recursion that call frame functions: emit into other lists
)

type emSumm struct {
	eff    lin
	last   *lin     // the integer pushed last (argument count), when the same on every path
	params []string // parameter names, to substitute the actual arguments
}

// emSubst replaces parameter names by argument texts inside the symbols of a linear form.
func emSubst(l lin, sub map[string]string) lin {
	out := lin{c: l.c, s: map[string]int{}}
	for k, v := range l.s {
		out.s[emSubstSym(k, sub)] += v
	}
	return out
}

func emSubstSym(sym string, sub map[string]string) string {
	if len(sub) == 0 {
		return sym
	}
	var b strings.Builder
	i := 0
	isIdent := func(c byte) bool {
		return c == '_' || c >= 'a' && c <= 'z' || c >= 'A' && c <= 'Z' || c >= '0' && c <= '9'
	}
	for i < len(sym) {
		c := sym[i]
		if isIdent(c) && !(c >= '0' && c <= '9') {
			j := i
			for j < len(sym) && isIdent(sym[j]) {
				j++
			}
			word := sym[i:j]
			// a selector's field name (preceded by '.') and a function name (followed by '(') are not variables
			if rep, ok := sub[word]; ok && (i == 0 || sym[i-1] != '.') && !(j < len(sym) && sym[j] == '(') {
				b.WriteString(rep)
			} else {
				b.WriteString(word)
			}
			i = j
			continue
		}
		b.WriteByte(c)
		i++
	}
	return b.String()
}

// isNameMaker: a non-emitting method of the compiler that maps a string to a (mangled) string —
// label / variable / function names are created by such calls.
func (e *emitter) isNameMaker(fn *types.Func) bool {
	sig, _ := fn.Type().(*types.Signature)
	if sig == nil || sig.Recv() == nil || sig.Results().Len() != 1 {
		return false
	}
	if _, emits := e.fns[fn]; emits || fn == e.insert {
		return false
	}
	if recvNamed(sig.Recv().Type()) == nil || recvNamed(sig.Recv().Type()).Obj().Name() != "Compiler" {
		return false
	}
	b, ok := sig.Results().At(0).Type().Underlying().(*types.Basic)
	return ok && b.Kind() == types.String
}

func (e *emitter) classify(c *Ctx, calls map[*types.Func][]*types.Func) {
	e.role = map[*types.Func]emRole{}
	ap := c.Pkg("homescript/analyzer/ast")
	look := func(n string) types.Type {
		o := ap.Types.Scope().Lookup(n)
		if o == nil {
			fatalf("anchor unresolved: analyzer/ast.%s", n)
		}
		return o.Type()
	}
	exprT, stmtT, blockT, fnDefT := look("AnalyzedExpression"), look("AnalyzedStatement"), look("AnalyzedBlock"), look("AnalyzedFunctionDefinition")
	exprI, _ := exprT.Underlying().(*types.Interface)
	if exprI == nil {
		fatalf("anchor unresolved: analyzer/ast.AnalyzedExpression is not an interface")
	}
	// reachability inside the emitter set
	reach := map[*types.Func]map[*types.Func]bool{}
	var dfs func(root, fn *types.Func)
	dfs = func(root, fn *types.Func) {
		for _, g := range calls[fn] {
			if _, ok := e.fns[g]; !ok {
				continue
			}
			if !reach[root][g] {
				reach[root][g] = true
				dfs(root, g)
			}
		}
	}
	for fn := range e.fns {
		reach[fn] = map[*types.Func]bool{}
		dfs(fn, fn)
	}
	inCycle := func(fn *types.Func) bool { return reach[fn][fn] }
	fromCycle := map[*types.Func]bool{}
	for fn := range e.fns {
		if inCycle(fn) {
			for g := range reach[fn] {
				fromCycle[g] = true
			}
		}
	}
	p0 := func(fn *types.Func) types.Type {
		sig := fn.Type().(*types.Signature)
		if sig.Params().Len() == 0 {
			return nil
		}
		return sig.Params().At(0).Type()
	}
	for fn := range e.fns {
		if t := p0(fn); t != nil && types.Identical(t, fnDefT) {
			e.role[fn] = emRFrame
		}
	}
	// drivers: not reachable from the recursion, calling a frame function or another driver
	for changed := true; changed; {
		changed = false
		for fn := range e.fns {
			if e.role[fn] != emRNone || fromCycle[fn] || inCycle(fn) {
				continue
			}
			for _, g := range calls[fn] {
				if e.role[g] == emRFrame || e.role[g] == emRDriver {
					e.role[fn] = emRDriver
					changed = true
					break
				}
			}
		}
	}
	for fn := range e.fns {
		if e.role[fn] != emRNone {
			continue
		}
		reachesCycle := false
		for g := range reach[fn] {
			if inCycle(g) {
				reachesCycle = true
			}
		}
		t := p0(fn)
		// drivers are not analysed, so what they call directly must be closed by its own
		// obligation (balanced by role), not merely summarised
		calledByDriver := false
		for d, r := range e.role {
			if r == emRDriver {
				for _, g := range calls[d] {
					if g == fn {
						calledByDriver = true
					}
				}
			}
		}
		switch {
		case !reachesCycle && !inCycle(fn) && !calledByDriver:
			e.role[fn] = emRHelper
		case t != nil && types.Identical(t, blockT):
			e.role[fn] = emRBlockLike
		case t != nil && (types.Identical(t, exprT) || (!types.IsInterface(t) && types.Implements(t, exprI))):
			e.role[fn] = emRExprLike
			if types.Identical(t, exprT) {
				e.exprDispatch = fn
			}
		default:
			e.role[fn] = emRStmtLike
			if t != nil && types.Identical(t, stmtT) {
				e.stmtDispatch = fn
			}
		}
	}
	if e.exprDispatch == nil || e.stmtDispatch == nil {
		fatalf("anchor unresolved: the compiler's expression / statement dispatch functions (methods taking ast.AnalyzedExpression / ast.AnalyzedStatement)")
	}
}


// emVMDispatch resolves the VM's instruction dispatcher by role: the method of runtime.Core
// whose body holds the switch with the most clauses over compiler.Opcode constants.
func emVMDispatch(c *Ctx) *ast.FuncDecl {
	p := c.Pkg("homescript/runtime")
	cp := c.Pkg("homescript/compiler")
	opObj := cp.Types.Scope().Lookup("Opcode")
	if opObj == nil {
		fatalf("anchor unresolved: compiler.Opcode")
	}
	var best *ast.FuncDecl
	bestN := 0
	for _, fd := range AllFuncDecls(p) {
		if fd.Recv == nil || fd.Body == nil || recvTypeName(fd.Recv.List[0].Type) != "Core" {
			continue
		}
		ast.Inspect(fd.Body, func(n ast.Node) bool {
			sw, ok := n.(*ast.SwitchStmt)
			if !ok {
				return true
			}
			cnt := 0
			for _, st := range sw.Body.List {
				cc, _ := st.(*ast.CaseClause)
				if cc == nil {
					continue
				}
				for _, v := range cc.List {
					if k := ConstOf(p.TypesInfo, v); k != nil && types.Identical(k.Type(), opObj.Type()) {
						cnt++
					}
				}
			}
			if cnt > bestN {
				best, bestN = fd, cnt
			}
			return true
		})
	}
	if best == nil || bestN < 20 {
		fatalf("anchor unresolved: the runtime.Core method dispatching on compiler.Opcode (instruction switch)")
	}
	return best
}
