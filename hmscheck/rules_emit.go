package main

import (
	"fmt"
	"go/ast"
	"go/constant"
	"go/token"
	"go/types"
	"sort"
	"strings"
)

// R-emit-balance — abstract interpretation of the bytecode emitter over the
// symbolic operand-stack height. See DESIGN.md §4 (R-emit-balance) and
// Appendix B. The per-opcode stack effects are *extracted from the VM's
// instruction dispatcher* on every run (emVMEffects), so the emitter is checked
// against what the VM actually does.
//
// Structure of the emitter analysis:
//   - roles of the emitter functions by parameter type and recursion structure (classify): the two
//     dispatchers, functions compiling ONE node (used by convention, checked against it), frames,
//     drivers, and helpers / pieces, which are analysed INLINE at their call sites (inlineCall):
//     parameters are bound to the canonical text, the tracked value and the integer form of the
//     arguments, so labels, lists, opcodes and node kinds known at the call site are known inside;
//   - canonical texts (canon): aliases of node paths, loop indices, accessor methods;
//   - a value domain for opcodes and the data they flow through (evalAlts, row groups);
//   - forks (walkFn/fork): a helper that ends in several observable ways, an opcode chosen by data
//     among instructions with different effects.

func init() {
	register(&Rule{ID: "R-emit-balance", Floor: 32, Run: ruleEmitBalance,
		Doc: "operand-stack balance of the code the compiler emits, decided by abstract interpretation of the emitter functions over a symbolic stack height (per-opcode effects extracted from the VM's instruction dispatcher, specialised per opcode, through however many functions the dispatch is spread): (a) at every emitted label all incoming heights — fall-through and every jump recorded for it — agree up to the value of a branch's own result (tail) expression; (b) every case of the expression dispatcher nets exactly one value when all its sub-expressions do (zero for the node kinds the analyzer types as null), every case of the statement dispatcher nets zero, every function that compiles one node nets what its node type says; helpers and pieces of a construct (emit helpers, extracted loops, closures, deferred emissions) are analysed inline at their call sites with the actual arguments, a helper that can end in several ways splits the caller's path; the opcode of an instruction may flow through locals, helper results, tables written as data and parameters — where it is one of several, they must agree on the effect or the path is split per opcode; (c) loops in the emitter have one per-iteration effect; (d) the argument count pushed before HostCall/Call_Val/Spawn equals the number of values pushed for it; (e) every label created in a case is emitted exactly once on every path that jumps to it"})
}

// ---- linear heights ----

type lin struct {
	c int
	s map[string]int
}

func linC(c int) lin { return lin{c: c} }
func linS(sym string) lin {
	return lin{s: map[string]int{sym: 1}}
}
func (a lin) add(b lin) lin {
	r := lin{c: a.c + b.c, s: map[string]int{}}
	for k, v := range a.s {
		r.s[k] += v
	}
	for k, v := range b.s {
		r.s[k] += v
	}
	for k, v := range r.s {
		if v == 0 {
			delete(r.s, k)
		}
	}
	return r
}
func (a lin) neg() lin {
	r := lin{c: -a.c, s: map[string]int{}}
	for k, v := range a.s {
		r.s[k] = -v
	}
	return r
}
func (a lin) sub(b lin) lin { return a.add(b.neg()) }
func (a lin) scale(n int) lin {
	r := lin{c: a.c * n, s: map[string]int{}}
	for k, v := range a.s {
		r.s[k] = v * n
	}
	return r
}
func (a lin) isZero() bool  { return a.c == 0 && len(a.s) == 0 }
func (a lin) eq(b lin) bool { return a.sub(b).isZero() }
func (a lin) String() string {
	var keys []string
	for k := range a.s {
		keys = append(keys, k)
	}
	sort.Strings(keys)
	var b []string
	if a.c != 0 || len(keys) == 0 {
		b = append(b, fmt.Sprint(a.c))
	}
	for _, k := range keys {
		switch a.s[k] {
		case 1:
			b = append(b, "+"+k)
		case -1:
			b = append(b, "-"+k)
		default:
			b = append(b, fmt.Sprintf("%+d·%s", a.s[k], k))
		}
	}
	return strings.TrimPrefix(strings.Join(b, ""), "+")
}

// subst replaces every ν(...) symbol by v.
func (a lin) substNu(v int) lin {
	r := lin{c: a.c, s: map[string]int{}}
	for k, n := range a.s {
		if strings.HasPrefix(k, "ν(") {
			r.c += n * v
		} else {
			r.s[k] = n
		}
	}
	return r
}

// onlyTailDiff: a and b differ only in ν-symbols listed in tails.
func onlyTailDiff(a, b lin, tails map[string]bool) bool {
	d := a.sub(b)
	if d.c != 0 {
		return false
	}
	for k := range d.s {
		if !tails[k] {
			return false
		}
	}
	return true
}

// ---- VM opcode effects ----

type vmEffect struct {
	ok       bool
	delta    int    // net pushes-pops on normal completion
	loopPop  int    // per-iteration effect of a loop bounded by a popped count (symbolic part)
	detail   string // when !ok
	hasCase  bool
	variants []string
	pops     int // pop/push calls on the first normal path (for the symbolic stack of the emitter analysis)
	pushes   int
	unknown  string // the effect could not be extracted (why)
}

func emVMEffects(c *Ctx) map[string]vmEffect {
	p := c.Pkg("homescript/runtime")
	info := p.TypesInfo
	fd := emVMDispatch(c)
	cp := c.Pkg("homescript/compiler")
	opT := cp.Types.Scope().Lookup("Opcode").Type()
	// ---- roles: the operand stack's push / pop primitives (by shape, not by name) ----
	// push: a Core method with one value-cell parameter that appends it to a slice-of-cells field;
	// pop : a nullary Core method returning a cell that re-slices the same field.
	decl := map[*types.Func]*ast.FuncDecl{}
	for _, m := range AllFuncDecls(p) {
		if fn, ok := info.Defs[m.Name].(*types.Func); ok && m.Body != nil {
			decl[fn] = m
		}
	}
	isCellT := func(t types.Type) bool {
		pt, ok := t.(*types.Pointer)
		if !ok {
			return false
		}
		n, ok := pt.Elem().(*types.Named)
		return ok && n.Obj().Name() == "Value" && types.IsInterface(n)
	}
	fieldOfRecv := func(m *ast.FuncDecl, e ast.Expr) *types.Var {
		sel, ok := ast.Unparen(e).(*ast.SelectorExpr)
		if !ok {
			return nil
		}
		fv, _ := info.Uses[sel.Sel].(*types.Var)
		if fv == nil || !fv.IsField() {
			return nil
		}
		if sl, ok := fv.Type().Underlying().(*types.Slice); !ok || !isCellT(sl.Elem()) {
			return nil
		}
		return fv
	}
	// the operand stack: the slice-of-cells field of the core that its methods both append to and
	// re-slice. Its operations are recognised where they are written (`F = append(F, v)` pushes,
	// `F = F[:len(F)-k]` pops k), so push / pop / peek-and-drop helpers of any shape are just helpers.
	type fieldOps struct{ app, cut int }
	cands := map[*types.Var]*fieldOps{}
	for _, m := range decl {
		if m.Recv == nil || recvTypeName(m.Recv.List[0].Type) != "Core" {
			continue
		}
		ast.Inspect(m.Body, func(n ast.Node) bool {
			as, ok := n.(*ast.AssignStmt)
			if !ok || len(as.Lhs) != len(as.Rhs) {
				return true
			}
			for i, l := range as.Lhs {
				fv := fieldOfRecv(m, l)
				if fv == nil {
					continue
				}
				if cands[fv] == nil {
					cands[fv] = &fieldOps{}
				}
				switch r := ast.Unparen(as.Rhs[i]).(type) {
				case *ast.CallExpr:
					if id, ok := r.Fun.(*ast.Ident); ok && id.Name == "append" {
						cands[fv].app++
					}
				case *ast.SliceExpr:
					cands[fv].cut++
				}
			}
			return true
		})
	}
	var stackField *types.Var
	for fv, ops := range cands {
		if ops.app == 0 || ops.cut == 0 {
			continue
		}
		if stackField == nil || ops.app+ops.cut > cands[stackField].app+cands[stackField].cut || (ops.app+ops.cut == cands[stackField].app+cands[stackField].cut && fv.Name() < stackField.Name()) {
			stackField = fv
		}
	}
	if stackField == nil {
		fatalf("anchor unresolved: the VM's operand stack (a field of the core, a slice of value cells, that its methods append to and re-slice)")
	}
	// stackOp: the effect of `recv.F = ...` on the operand stack (ok=false: not an operation on it)
	stackOp := func(as *ast.AssignStmt, recv types.Object, walked ast.Node) (pushes, pops int, ok bool) {
		if len(as.Lhs) != len(as.Rhs) || recv == nil {
			return 0, 0, false
		}
		onField := func(x ast.Expr) bool {
			sel, ok := ast.Unparen(x).(*ast.SelectorExpr)
			if !ok || info.Uses[sel.Sel] != stackField {
				return false
			}
			id, ok := ast.Unparen(sel.X).(*ast.Ident)
			return ok && info.Uses[id] == recv
		}
		// the pair of a (possibly parallel) assignment that writes the stack field
		at := -1
		for i, l := range as.Lhs {
			if onField(l) {
				at = i
			}
		}
		if at < 0 {
			return 0, 0, false
		}
		switch r := ast.Unparen(as.Rhs[at]).(type) {
		case *ast.CallExpr:
			if id, isId := r.Fun.(*ast.Ident); isId && id.Name == "append" && len(r.Args) >= 1 && onField(r.Args[0]) && !r.Ellipsis.IsValid() {
				return len(r.Args) - 1, 0, true
			}
		case *ast.SliceExpr:
			// F[:len(F)-k], the bound possibly held in a local (`top := len(F) - 1; F = F[:top]`)
			lowZero := r.Low == nil
			if r.Low != nil {
				if tv, has := info.Types[r.Low]; has && tv.Value != nil && constant.Sign(constant.ToInt(tv.Value)) == 0 {
					lowZero = true
				}
			}
			if onField(r.X) && lowZero && r.High != nil {
				// lenForm: x = len(F)·c + k
				var lenForm func(x ast.Expr, depth int) (c, k int, ok bool)
				lenForm = func(x ast.Expr, depth int) (int, int, bool) {
					x = ast.Unparen(x)
					if tv, has := info.Types[x]; has && tv.Value != nil {
						if v, exact := constant.Int64Val(constant.ToInt(tv.Value)); exact {
							return 0, int(v), true
						}
						return 0, 0, false
					}
					switch t := x.(type) {
					case *ast.CallExpr:
						if info.Types[t.Fun].IsType() && len(t.Args) == 1 {
							return lenForm(t.Args[0], depth)
						}
						if id, isId := t.Fun.(*ast.Ident); isId && id.Name == "len" && len(t.Args) == 1 && onField(t.Args[0]) {
							return 1, 0, true
						}
					case *ast.BinaryExpr:
						c1, k1, ok1 := lenForm(t.X, depth)
						c2, k2, ok2 := lenForm(t.Y, depth)
						if ok1 && ok2 {
							switch t.Op {
							case token.ADD:
								return c1 + c2, k1 + k2, true
							case token.SUB:
								return c1 - c2, k1 - k2, true
							}
						}
					case *ast.Ident:
						// a local assigned exactly once
						obj := info.Uses[t]
						if obj == nil || depth > 3 || walked == nil {
							return 0, 0, false
						}
						var def ast.Expr
						n := 0
						ast.Inspect(walked, func(m ast.Node) bool {
							switch y := m.(type) {
							case *ast.AssignStmt:
								for i, l := range y.Lhs {
									if lid, isId := l.(*ast.Ident); isId && (info.Defs[lid] == obj || info.Uses[lid] == obj) {
										n++
										if len(y.Lhs) == len(y.Rhs) {
											def = y.Rhs[i]
										}
									}
								}
							case *ast.IncDecStmt:
								if lid, isId := y.X.(*ast.Ident); isId && info.Uses[lid] == obj {
									n += 2
								}
							}
							return true
						})
						if n == 1 && def != nil {
							return lenForm(def, depth+1)
						}
					}
					return 0, 0, false
				}
				if c, k, ok := lenForm(r.High, 0); ok && c == 1 && k <= 0 {
					return 0, -k, true
				}
				// a cut of unknown length
				return 0, -1, true
			}
		}
		return 0, 0, false
	}
	// ---- per-function summaries: the set of net effects over the normally completing paths ----
	// A state carries a SET of alternatives (a callee with several effects multiplies them), so that the
	// variants of an opcode survive when its implementation sits behind a helper or a second dispatcher.
	type alt struct {
		h, loop      int
		pops, pushes int
	}
	type st struct {
		alts []alt
		bad  string // a callee on this path has an effect that could not be extracted
	}
	type summ struct {
		variants []alt
		bad      string
	}
	type memoKey struct {
		fn *types.Func
		op string
	}
	memo := map[memoKey]*summ{}
	inProgress := map[memoKey]bool{}
	var summarise func(fn *types.Func, depth int, op string) *summ
	var walkBody func(body *ast.BlockStmt, recv types.Object, depth int, op string) *summ
	recvOf := func(m *ast.FuncDecl) types.Object {
		if m.Recv != nil && len(m.Recv.List[0].Names) > 0 {
			return info.Defs[m.Recv.List[0].Names[0]]
		}
		return nil
	}
	isOpcodeSwitch := func(s *ast.SwitchStmt) bool {
		if s.Tag == nil {
			return false
		}
		t := info.TypeOf(s.Tag)
		return t != nil && types.Identical(t, opT)
	}
	// does the function (transitively, on this core) dispatch on the opcode? Only those are specialised per opcode.
	opAware := map[*types.Func]int{} // 0 unknown, 1 no, 2 yes
	var isOpAware func(fn *types.Func, depth int) bool
	isOpAware = func(fn *types.Func, depth int) bool {
		if v := opAware[fn]; v != 0 {
			return v == 2
		}
		d := decl[fn]
		if d == nil || depth > 4 {
			return false
		}
		opAware[fn] = 1
		found := false
		ast.Inspect(d.Body, func(n ast.Node) bool {
			switch x := n.(type) {
			case *ast.SwitchStmt:
				if isOpcodeSwitch(x) {
					found = true
				}
			case *ast.BinaryExpr:
				if x.Op == token.EQL || x.Op == token.NEQ {
					if tx, ty := info.TypeOf(x.X), info.TypeOf(x.Y); tx != nil && ty != nil && types.Identical(tx, opT) && types.Identical(ty, opT) {
						found = true
					}
				}
			case *ast.CallExpr:
				if g := CalleeOf(info, x); g != nil && g != fn && decl[g] != nil && isOpAware(g, depth+1) {
					found = true
				}
			}
			return !found
		})
		if found {
			opAware[fn] = 2
		}
		return found
	}
	apply := func(s *st, call *ast.CallExpr, recv types.Object, depth int, op string) {
		fn := CalleeOf(info, call)
		if fn == nil {
			return
		}
		// only operations on THIS core's stack count: the call's receiver is the walked function's receiver
		onSelf := false
		if sel, ok := ast.Unparen(call.Fun).(*ast.SelectorExpr); ok {
			if id, ok := ast.Unparen(sel.X).(*ast.Ident); ok && recv != nil && info.Uses[id] == recv {
				onSelf = true
			}
		}
		if !onSelf {
			return
		}
		{
			if d := decl[fn]; d != nil && depth < 6 {
				cop := ""
				if isOpAware(fn, 0) {
					cop = op
				}
				sm := summarise(fn, depth+1, cop)
				if sm != nil && sm.bad != "" && s.bad == "" {
					s.bad = sm.bad
				}
				if sm != nil && sm.bad == "" && len(sm.variants) >= 1 {
					var out []alt
					seen := map[alt]bool{}
					for _, a := range s.alts {
						for _, v := range sm.variants {
							n := alt{h: a.h + v.h, loop: a.loop, pops: a.pops + v.pops, pushes: a.pushes + v.pushes}
							if v.loop != 0 {
								n.loop = v.loop
							}
							k := alt{h: n.h, loop: n.loop}
							if !seen[k] {
								seen[k] = true
								out = append(out, n)
							}
						}
					}
					s.alts = out
				}
			}
		}
	}
	// direct writes to the stack field outside the primitives: re-slicing to a shorter length etc. are not modelled
	walkBody = func(body *ast.BlockStmt, recv types.Object, depth int, op string) *summ {
		out := &summ{}
		popLike := func() bool {
			for fn, d := range decl {
				if d.Body == body {
					sig := fn.Type().(*types.Signature)
					return sig.Params().Len() == 0 && sig.Results().Len() == 1
				}
			}
			return false
		}
		count := func(s *st, n ast.Node) {
			// post-order: arguments before the call
			var visit func(m ast.Node)
			visit = func(m ast.Node) {
				ast.Inspect(m, func(k ast.Node) bool {
					switch x := k.(type) {
					case *ast.FuncLit:
						return false
					case *ast.CallExpr:
						for _, a := range x.Args {
							visit(a)
						}
						if sel, ok := ast.Unparen(x.Fun).(*ast.SelectorExpr); ok {
							visit(sel.X)
						}
						apply(s, x, recv, depth, op)
						return false
					}
					return true
				})
			}
			visit(n)
		}
		w := &Walker[*st]{
			Clone:   func(s *st) *st { return &st{alts: append([]alt(nil), s.alts...), bad: s.bad} },
			IsPanic: func(s ast.Stmt) bool { return IsPanicCall(info, s) || emAlwaysPanics(info, decl, s) },
			OnStmt: func(s *st, stmt ast.Stmt) (*st, bool) {
				if r, ok := stmt.(*ast.ReturnStmt); ok {
					for _, e := range r.Results {
						count(s, e)
					}
					return s, true
				}
				count(s, stmt)
				if as, ok := stmt.(*ast.AssignStmt); ok {
					if pu, po, ok := stackOp(as, recv, body); ok {
						if po < 0 {
							// cannot be decoded: a method shaped like pop (no parameter, one result) pops one
							// value, anything else makes the effect of the opcodes that use it unknown
							po = 1
							if popLike == nil || !popLike() {
								out.bad = "the operand stack is cut to a length the analysis cannot decode at " + c.Pos(as.Pos())
							}
						}
						for i := range s.alts {
							s.alts[i].h += pu - po
							s.alts[i].pushes += pu
							s.alts[i].pops += po
						}
					}
				}
				return s, true
			},
			OnCond: func(s *st, cond ast.Expr, taken bool) (*st, bool) {
				// a comparison of the opcode with a constant is decided by the opcode the walk is specialised to
				if b, ok := ast.Unparen(cond).(*ast.BinaryExpr); ok && op != "" && (b.Op == token.EQL || b.Op == token.NEQ) {
					x, y := b.X, b.Y
					if ConstOf(info, x) != nil {
						x, y = y, x
					}
					if k := ConstOf(info, y); k != nil && types.Identical(k.Type(), opT) {
						if t := info.TypeOf(x); t != nil && types.Identical(t, opT) {
							if ((k.Name() == op) == (b.Op == token.EQL)) != taken {
								return s, false
							}
						}
					}
				}
				count(s, cond)
				return s, true
			},
			OnCase: func(s *st, sw *ast.SwitchStmt, vals, others []ast.Expr) (*st, bool) {
				// the walk is specialised to one opcode: of a switch over the opcode only the clause
				// of that opcode (the default clause when no clause names it) is feasible
				if op == "" || !isOpcodeSwitch(sw) {
					return s, true
				}
				names := func(l []ast.Expr) bool {
					for _, e := range l {
						if k := ConstOf(info, e); k != nil && k.Name() == op {
							return true
						}
					}
					return false
				}
				if vals != nil {
					return s, names(vals)
				}
				return s, !names(others)
			},
			OnDefer: func(s *st, d *ast.DeferStmt) (*st, bool) { return s, true },
			LoopSummary: func(loop ast.Stmt, before *st, ends []*st) (*st, bool) {
				post := &st{alts: append([]alt(nil), before.alts...), bad: before.bad}
				for _, e := range ends {
					if e.bad != "" {
						post.bad = e.bad
					}
				}
				for _, e := range ends {
					if len(e.alts) == 0 || len(before.alts) == 0 {
						continue
					}
					if d := e.alts[0].h - before.alts[0].h; d != 0 {
						for i := range post.alts {
							post.alts[i].loop = d
						}
					}
				}
				return post, true
			},
		}
		w.Exit = func(s *st, o outcome) {
			switch o.kind {
			case cPanic:
				return
			case cReturn:
				// a return carrying a non-nil interrupt / error as its LAST result is not a normal completion
				if n := len(o.ret.Results); n >= 1 {
					last := ast.Unparen(o.ret.Results[n-1])
					t := info.TypeOf(last)
					if t != nil {
						if pt, ok := t.(*types.Pointer); ok {
							if nm, ok := pt.Elem().(*types.Named); ok && strings.Contains(nm.Obj().Name(), "Interrupt") {
								if id, ok := last.(*ast.Ident); !ok || id.Name != "nil" {
									// `return self.dispatchRest(instruction)`: the result of a function of this core
									// that has normally completing paths (their effect has been applied): those
									// paths are this function's normal completion too
									forwards := false
									if call, ok := last.(*ast.CallExpr); ok {
										if g := CalleeOf(info, call); g != nil && decl[g] != nil && depth < 5 {
											cop := ""
											if isOpAware(g, 0) {
												cop = op
											}
											if sm := summarise(g, depth+1, cop); sm != nil && sm.bad == "" && len(sm.variants) > 0 {
												forwards = true
											}
										}
									}
									if !forwards {
										return
									}
								}
							}
						}
					}
				}
			}
			// deferred calls run at exit
			for _, d := range w.PendingDefers() {
				count(s, d.Call)
			}
			out.variants = append(out.variants, s.alts...)
			if s.bad != "" && out.bad == "" {
				out.bad = s.bad
			}
		}
		w.Run(body, &st{alts: []alt{{}}})
		if w.Overflow || len(w.Unsupported) > 0 {
			out.bad = "path enumeration overflow / unsupported control flow"
		}
		// dedup
		seen := map[alt]bool{}
		var uniq []alt
		for _, v := range out.variants {
			k := alt{h: v.h, loop: v.loop}
			if !seen[k] {
				seen[k] = true
				uniq = append(uniq, v)
			}
		}
		out.variants = uniq
		return out
	}
	summarise = func(fn *types.Func, depth int, op string) *summ {
		key := memoKey{fn, op}
		if sm, ok := memo[key]; ok {
			return sm
		}
		if inProgress[key] {
			return nil // recursion: not summarised
		}
		inProgress[key] = true
		sm := walkBody(decl[fn].Body, recvOf(decl[fn]), depth, op)
		inProgress[key] = false
		memo[key] = sm
		return sm
	}
	// ---- the dispatch: every opcode named by a clause of a switch over the opcode that the dispatcher
	// reaches (its own switch, a second dispatcher behind the default clause or behind a clause listing
	// several opcodes, ...). The effect of an opcode is the effect of the DISPATCHER specialised to it.
	hasClause := map[string]bool{}
	seenFn := map[*types.Func]bool{}
	var collect func(fdecl *ast.FuncDecl, depth int)
	collect = func(fdecl *ast.FuncDecl, depth int) {
		self, _ := info.Defs[fdecl.Name].(*types.Func)
		if self != nil {
			if seenFn[self] {
				return
			}
			seenFn[self] = true
		}
		ast.Inspect(fdecl.Body, func(n ast.Node) bool {
			switch x := n.(type) {
			case *ast.SwitchStmt:
				if isOpcodeSwitch(x) {
					for _, cl := range x.Body.List {
						for _, e := range cl.(*ast.CaseClause).List {
							if k := ConstOf(info, e); k != nil {
								hasClause[k.Name()] = true
							}
						}
					}
				}
			case *ast.BinaryExpr:
				// an opcode handled by a comparison (`if opcode == X { ... }`) instead of a clause
				if x.Op == token.EQL {
					for _, pair := range [][2]ast.Expr{{x.X, x.Y}, {x.Y, x.X}} {
						if k := ConstOf(info, pair[1]); k != nil && types.Identical(k.Type(), opT) {
							if t := info.TypeOf(pair[0]); t != nil && types.Identical(t, opT) && ConstOf(info, pair[0]) == nil {
								hasClause[k.Name()] = true
							}
						}
					}
				}
			case *ast.CallExpr:
				if g := CalleeOf(info, x); g != nil && decl[g] != nil && depth < 3 && isOpAware(g, 0) {
					collect(decl[g], depth+1)
				}
			}
			return true
		})
	}
	collect(fd, 0)
	if len(hasClause) < 20 {
		fatalf("anchor unresolved: the VM's dispatch over compiler.Opcode (found %d opcode clauses)", len(hasClause))
	}
	out := map[string]vmEffect{}
	for name := range hasClause {
		sm := walkBody(fd.Body, recvOf(fd), 0, name)
		eff := vmEffect{ok: true, hasCase: true}
		seen := map[string]bool{}
		for i, r := range sm.variants {
			v := fmt.Sprintf("%+d", r.h)
			if r.loop != 0 {
				v += fmt.Sprintf("%+d·argc", r.loop)
			}
			if !seen[v] {
				seen[v] = true
				eff.variants = append(eff.variants, v)
			}
			if i == 0 {
				eff.delta, eff.loopPop = r.h, r.loop
				eff.pops, eff.pushes = r.pops, r.pushes
			}
		}
		sort.Strings(eff.variants)
		if len(eff.variants) > 1 {
			eff.ok = false
			eff.detail = "normal paths have different stack effects: " + strings.Join(eff.variants, " vs ")
		}
		if len(sm.variants) == 0 {
			eff.ok = false
			eff.detail = "no normally completing path"
		}
		if sm.bad != "" {
			eff.ok = false
			eff.detail = sm.bad
			eff.unknown = sm.bad
		}
		out[name] = eff
	}
	return out
}

// emAlwaysPanics: an expression statement calling a function of the package every path of which panics
// (directly or through another such function).
func emAlwaysPanics(info *types.Info, decl map[*types.Func]*ast.FuncDecl, s ast.Stmt) bool {
	return emStmtDiverges(info, decl, s, 0)
}

func emStmtDiverges(info *types.Info, decl map[*types.Func]*ast.FuncDecl, s ast.Stmt, depth int) bool {
	if IsPanicCall(info, s) {
		return true
	}
	es, ok := s.(*ast.ExprStmt)
	if !ok || depth > 3 {
		return false
	}
	call, ok := es.X.(*ast.CallExpr)
	if !ok {
		return false
	}
	fn := CalleeOf(info, call)
	d := decl[fn]
	if fn == nil || d == nil || len(d.Body.List) == 0 {
		return false
	}
	// conservative: the body has no return statement and its last statement diverges
	hasRet := false
	ast.Inspect(d.Body, func(n ast.Node) bool {
		switch n.(type) {
		case *ast.ReturnStmt:
			hasRet = true
		case *ast.FuncLit:
			return false
		}
		return true
	})
	return !hasRet && emStmtDiverges(info, decl, d.Body.List[len(d.Body.List)-1], depth+1)
}

// ---- values: opcodes (and the data they flow through) as a small abstract domain ----
//
// The opcode of an emitted instruction need not be a constant argument: it may flow through a
// local, a tuple returned by a helper (`opcode, negate := infixOpcode(op)`), a table written as
// data (`map[Operator]Opcode{...}`, possibly completed by statements of a builder function), a
// struct row of such a table or a parameter of an emit helper. Values are evaluated to a small
// set of alternatives; alternatives that belong together (the results of one call, the value and
// the ok flag of one lookup) are kept as ROWS of a group, so that a later test of one of them
// (`if negate`, `if !found`) selects the matching rows of the others.

type emVK int

const (
	evUnknown emVK = iota
	evConst        // a named constant (c)
	evLit          // another compile-time constant (lit)
	evNil          // nil
	evTuple        // the results of a multi-result call (tup)
	evTable        // map / slice / array written as data (tbl)
	evStruct       // struct written as a composite literal (flds)
)

type emVal struct {
	k    emVK
	c    *types.Const
	lit  constant.Value
	tup  []emVal
	tbl  *emTable
	flds map[string]emVal
}

type emTable struct {
	isMap      bool
	keys, vals []emVal
	zero       emVal
}

func emBool(b bool) emVal { return emVal{k: evLit, lit: constant.MakeBool(b)} }

func (v emVal) boolVal() (b, ok bool) {
	switch v.k {
	case evLit:
		if v.lit.Kind() == constant.Bool {
			return constant.BoolVal(v.lit), true
		}
	case evConst:
		if v.c.Val().Kind() == constant.Bool {
			return constant.BoolVal(v.c.Val()), true
		}
	}
	return false, false
}

func (v emVal) known() bool { return v.k != evUnknown }

func (v emVal) key() string {
	switch v.k {
	case evConst:
		p := ""
		if v.c.Pkg() != nil {
			p = v.c.Pkg().Path()
		}
		return "c:" + p + "." + v.c.Name()
	case evLit:
		return "l:" + v.lit.ExactString()
	case evNil:
		return "nil"
	case evTuple:
		var b []string
		for _, t := range v.tup {
			b = append(b, t.key())
		}
		return "(" + strings.Join(b, ",") + ")"
	case evTable:
		var b []string
		for i := range v.tbl.vals {
			k := ""
			if i < len(v.tbl.keys) {
				k = v.tbl.keys[i].key()
			}
			b = append(b, k+"=>"+v.tbl.vals[i].key())
		}
		return "T{" + strings.Join(b, ";") + "}"
	case evStruct:
		var names []string
		for n := range v.flds {
			names = append(names, n)
		}
		sort.Strings(names)
		var b []string
		for _, n := range names {
			b = append(b, n+":"+v.flds[n].key())
		}
		return "S{" + strings.Join(b, ";") + "}"
	}
	return "?"
}

// constant value of a const / literal value
func (v emVal) cval() constant.Value {
	switch v.k {
	case evConst:
		return v.c.Val()
	case evLit:
		return v.lit
	}
	return nil
}

// emSameVal: are a and b the same value (known=false when that cannot be decided).
func emSameVal(a, b emVal) (same, known bool) {
	if a.k == evUnknown || b.k == evUnknown {
		return false, false
	}
	if a.k == evNil || b.k == evNil {
		if a.k == evNil && b.k == evNil {
			return true, true
		}
		// a table / struct / constant is not nil; anything else is not decided
		o := a
		if a.k == evNil {
			o = b
		}
		if o.k == evTable || o.k == evStruct || o.k == evConst || o.k == evLit {
			return false, true
		}
		return false, false
	}
	av, bv := a.cval(), b.cval()
	if av != nil && bv != nil {
		if av.Kind() != bv.Kind() && !(av.Kind() == constant.Int && bv.Kind() == constant.Float || av.Kind() == constant.Float && bv.Kind() == constant.Int) {
			return false, true
		}
		return constant.Compare(av, token.EQL, bv), true
	}
	return false, false
}

func emDedupVals(in []emVal) []emVal {
	seen := map[string]bool{}
	var out []emVal
	for _, v := range in {
		k := v.key()
		if !seen[k] {
			seen[k] = true
			out = append(out, v)
		}
	}
	return out
}

// ---- row groups ----

type emGroup struct {
	cols map[types.Object]int
	rows [][]emVal
}

func (s *emSt) groupOf(obj types.Object) (gi, col int) {
	for i, g := range s.groups {
		if c, ok := g.cols[obj]; ok {
			return i, c
		}
	}
	return -1, -1
}

// valsOf: the alternatives an object may hold (nil: not tracked).
func (s *emSt) valsOf(obj types.Object) []emVal {
	gi, col := s.groupOf(obj)
	if gi < 0 {
		return nil
	}
	var out []emVal
	for _, r := range s.groups[gi].rows {
		out = append(out, r[col])
	}
	return emDedupVals(out)
}

func (s *emSt) unbind(obj types.Object) {
	if obj == nil {
		return
	}
	gi, _ := s.groupOf(obj)
	if gi < 0 {
		return
	}
	g := s.groups[gi]
	ng := &emGroup{cols: map[types.Object]int{}, rows: g.rows}
	for o, c := range g.cols {
		if o != obj {
			ng.cols[o] = c
		}
	}
	if len(ng.cols) == 0 {
		s.groups = append(append([]*emGroup(nil), s.groups[:gi]...), s.groups[gi+1:]...)
		return
	}
	s.groups[gi] = ng
}

// bindRows binds the objects (nil entries: blank) to the columns of rows.
func (s *emSt) bindRows(objs []types.Object, rows [][]emVal) {
	for _, o := range objs {
		s.unbind(o)
	}
	anyKnown := false
	seen := map[string]bool{}
	var uniq [][]emVal
	for _, r := range rows {
		var ks []string
		for _, v := range r {
			ks = append(ks, v.key())
			if v.known() {
				anyKnown = true
			}
		}
		k := strings.Join(ks, "|")
		if !seen[k] {
			seen[k] = true
			uniq = append(uniq, r)
		}
	}
	if !anyKnown || len(uniq) == 0 || len(uniq) > 256 {
		return
	}
	g := &emGroup{cols: map[types.Object]int{}, rows: uniq}
	for i, o := range objs {
		if o != nil {
			g.cols[o] = i
		}
	}
	if len(g.cols) == 0 {
		return
	}
	s.groups = append(s.groups, g)
}

// aliasCol makes obj another name of the column of old (a parameter bound to a tracked local).
func (s *emSt) aliasCol(obj, old types.Object) bool {
	gi, col := s.groupOf(old)
	if gi < 0 || obj == nil || obj == old {
		return false
	}
	s.unbind(obj)
	gi, col = s.groupOf(old)
	if gi < 0 {
		return false
	}
	g := s.groups[gi]
	ng := &emGroup{cols: map[types.Object]int{}, rows: g.rows}
	for o, c := range g.cols {
		ng.cols[o] = c
	}
	ng.cols[obj] = col
	s.groups[gi] = ng
	return true
}

// ---- evaluation ----

type emDeclInfo struct {
	fd   *ast.FuncDecl
	info *types.Info
}

type emPkgVar struct {
	init    ast.Expr
	info    *types.Info
	mutated bool
	// element assignments `v[k] = x` made at the top level of an init function of the package: part
	// of the variable's initial value
	initWrites []*ast.AssignStmt
	val        *emVal
	busy       bool
}

func (e *emitter) buildIndex() {
	e.decls = map[*types.Func]emDeclInfo{}
	e.pkgVars = map[*types.Var]*emPkgVar{}
	e.pureMemo = map[string][]emVal{}
	for _, p := range e.c.All {
		info := p.TypesInfo
		for _, f := range p.Syntax {
			for _, d := range f.Decls {
				switch x := d.(type) {
				case *ast.FuncDecl:
					if x.Body != nil {
						if fn, ok := info.Defs[x.Name].(*types.Func); ok {
							e.decls[fn] = emDeclInfo{x, info}
						}
					}
				case *ast.GenDecl:
					if x.Tok != token.VAR {
						continue
					}
					for _, sp := range x.Specs {
						vs := sp.(*ast.ValueSpec)
						if len(vs.Values) != len(vs.Names) {
							continue
						}
						for i, n := range vs.Names {
							if v, ok := info.Defs[n].(*types.Var); ok {
								e.pkgVars[v] = &emPkgVar{init: vs.Values[i], info: info}
							}
						}
					}
				}
			}
		}
	}
	// a package-level table is data only when nothing assigns to it (or to an element of it) and nothing
	// takes its address
	rootVar := func(info *types.Info, x ast.Expr) *types.Var {
		for {
			switch t := ast.Unparen(x).(type) {
			case *ast.IndexExpr:
				x = t.X
				continue
			case *ast.StarExpr:
				x = t.X
				continue
			case *ast.SelectorExpr:
				if v, ok := info.Uses[t.Sel].(*types.Var); ok && !v.IsField() {
					return v
				}
				x = t.X
				continue
			case *ast.Ident:
				v, _ := info.Uses[t].(*types.Var)
				return v
			}
			return nil
		}
	}
	for _, p := range e.c.All {
		info := p.TypesInfo
		for _, f := range p.Syntax {
			// statements at the top level of an init function
			inInit := map[ast.Stmt]bool{}
			for _, d := range f.Decls {
				if fd, ok := d.(*ast.FuncDecl); ok && fd.Recv == nil && fd.Name.Name == "init" && fd.Body != nil {
					for _, st := range fd.Body.List {
						inInit[st] = true
					}
				}
			}
			ast.Inspect(f, func(n ast.Node) bool {
				mark := func(x ast.Expr) {
					if v := rootVar(info, x); v != nil {
						if pv := e.pkgVars[v]; pv != nil {
							pv.mutated = true
						}
					}
				}
				switch x := n.(type) {
				case *ast.AssignStmt:
					if inInit[x] && x.Tok == token.ASSIGN && len(x.Lhs) == 1 && len(x.Rhs) == 1 {
						if ix, ok := ast.Unparen(x.Lhs[0]).(*ast.IndexExpr); ok {
							if v := rootVar(info, ix.X); v != nil && v.Pkg() == p.Types {
								if _, direct := ast.Unparen(ix.X).(*ast.Ident); direct {
									if pv := e.pkgVars[v]; pv != nil {
										pv.initWrites = append(pv.initWrites, x)
										return true
									}
								}
							}
						}
					}
					for _, l := range x.Lhs {
						mark(l)
					}
				case *ast.IncDecStmt:
					mark(x.X)
				case *ast.UnaryExpr:
					if x.Op == token.AND {
						mark(x.X)
					}
				}
				return true
			})
		}
	}
}

// mentionsOpcode: values of this type may carry an opcode (the opcode type itself, an instruction,
// tuples / tables / structs of them).
func (e *emitter) mentionsOpcode(t types.Type, depth int) bool {
	if t == nil || depth > 4 {
		return false
	}
	if types.Identical(t, e.opcodeT) {
		return true
	}
	switch u := t.(type) {
	case *types.Tuple:
		for i := 0; i < u.Len(); i++ {
			if e.mentionsOpcode(u.At(i).Type(), depth+1) {
				return true
			}
		}
		return false
	case *types.Pointer:
		return e.mentionsOpcode(u.Elem(), depth+1)
	}
	switch u := t.Underlying().(type) {
	case *types.Map:
		return e.mentionsOpcode(u.Elem(), depth+1) || e.mentionsOpcode(u.Key(), depth+1)
	case *types.Slice:
		return e.mentionsOpcode(u.Elem(), depth+1)
	case *types.Array:
		return e.mentionsOpcode(u.Elem(), depth+1)
	case *types.Struct:
		for i := 0; i < u.NumFields(); i++ {
			if e.mentionsOpcode(u.Field(i).Type(), depth+1) {
				return true
			}
		}
	case *types.Pointer:
		return e.mentionsOpcode(u.Elem(), depth+1)
	}
	return false
}

func (e *emitter) zeroOf(t types.Type, depth int) emVal {
	if t == nil || depth > 3 {
		return emVal{}
	}
	if n, ok := types.Unalias(t).(*types.Named); ok {
		if b, ok := n.Underlying().(*types.Basic); ok && b.Info()&(types.IsInteger|types.IsString|types.IsBoolean) != 0 && n.Obj().Pkg() != nil {
			// the named constant of this type holding the zero value, first declared
			var best *types.Const
			scope := n.Obj().Pkg().Scope()
			for _, name := range scope.Names() {
				k, ok := scope.Lookup(name).(*types.Const)
				if !ok || !types.Identical(k.Type(), n) {
					continue
				}
				z := false
				switch k.Val().Kind() {
				case constant.Int:
					z = constant.Sign(k.Val()) == 0
				case constant.String:
					z = constant.StringVal(k.Val()) == ""
				case constant.Bool:
					z = !constant.BoolVal(k.Val())
				}
				if z && (best == nil || k.Pos() < best.Pos()) {
					best = k
				}
			}
			if best != nil {
				return emVal{k: evConst, c: best}
			}
		}
	}
	switch u := t.Underlying().(type) {
	case *types.Basic:
		switch {
		case u.Info()&types.IsBoolean != 0:
			return emBool(false)
		case u.Info()&types.IsInteger != 0:
			return emVal{k: evLit, lit: constant.MakeInt64(0)}
		case u.Info()&types.IsString != 0:
			return emVal{k: evLit, lit: constant.MakeString("")}
		}
	case *types.Struct:
		f := map[string]emVal{}
		for i := 0; i < u.NumFields(); i++ {
			f[u.Field(i).Name()] = e.zeroOf(u.Field(i).Type(), depth+1)
		}
		return emVal{k: evStruct, flds: f}
	case *types.Pointer, *types.Interface, *types.Map, *types.Slice, *types.Signature, *types.Chan:
		return emVal{k: evNil}
	}
	return emVal{}
}

func emProduct(lists [][]emVal, cap int) [][]emVal {
	out := [][]emVal{{}}
	for _, l := range lists {
		if len(l) == 0 {
			l = []emVal{{}}
		}
		var next [][]emVal
		for _, p := range out {
			for _, v := range l {
				next = append(next, append(append([]emVal(nil), p...), v))
				if len(next) > cap {
					return nil
				}
			}
		}
		out = next
	}
	return out
}

// evalAlts: the alternatives expression x may evaluate to. bind: objects fixed to one value (the
// row under consideration); other tracked objects contribute all their alternatives.
func (e *emitter) evalAlts(s *emSt, info *types.Info, x ast.Expr, bind map[types.Object]emVal, depth int) []emVal {
	unknown := []emVal{{}}
	if x == nil || depth > 6 {
		return unknown
	}
	x = ast.Unparen(x)
	if k := ConstOf(info, x); k != nil {
		return []emVal{{k: evConst, c: k}}
	}
	if tv, ok := info.Types[x]; ok && tv.Value != nil {
		return []emVal{{k: evLit, lit: tv.Value}}
	}
	switch t := x.(type) {
	case *ast.Ident:
		if t.Name == "nil" {
			if _, ok := info.Uses[t].(*types.Nil); ok {
				return []emVal{{k: evNil}}
			}
		}
		obj := info.Uses[t]
		if obj == nil {
			obj = info.Defs[t]
		}
		if obj == nil {
			return unknown
		}
		if v, ok := bind[obj]; ok {
			return []emVal{v}
		}
		if s != nil {
			if vs := s.valsOf(obj); vs != nil {
				return vs
			}
		}
		if v, ok := obj.(*types.Var); ok {
			if pv := e.pkgVal(v, depth); pv != nil {
				return []emVal{*pv}
			}
		}
		return unknown
	case *ast.SelectorExpr:
		if v, ok := info.Uses[t.Sel].(*types.Var); ok && !v.IsField() {
			if pv := e.pkgVal(v, depth); pv != nil {
				return []emVal{*pv}
			}
			return unknown
		}
		var out []emVal
		for _, b := range e.evalAlts(s, info, t.X, bind, depth+1) {
			if b.k == evStruct {
				if f, ok := b.flds[t.Sel.Name]; ok {
					out = append(out, f)
					continue
				}
			}
			out = append(out, emVal{})
		}
		return emDedupVals(out)
	case *ast.StarExpr:
		return e.evalAlts(s, info, t.X, bind, depth+1)
	case *ast.UnaryExpr:
		switch t.Op {
		case token.NOT:
			var out []emVal
			for _, v := range e.evalAlts(s, info, t.X, bind, depth+1) {
				if b, ok := v.boolVal(); ok {
					out = append(out, emBool(!b))
				} else {
					out = append(out, emVal{})
				}
			}
			return emDedupVals(out)
		case token.AND:
			return e.evalAlts(s, info, t.X, bind, depth+1)
		}
		return unknown
	case *ast.BinaryExpr:
		switch t.Op {
		case token.EQL, token.NEQ, token.LAND, token.LOR:
			var out []emVal
			combos := emProduct([][]emVal{e.evalAlts(s, info, t.X, bind, depth+1), e.evalAlts(s, info, t.Y, bind, depth+1)}, 256)
			if combos == nil {
				return unknown
			}
			for _, c := range combos {
				a, b := c[0], c[1]
				switch t.Op {
				case token.EQL, token.NEQ:
					same, known := emSameVal(a, b)
					if !known {
						out = append(out, emVal{})
					} else {
						out = append(out, emBool(same == (t.Op == token.EQL)))
					}
				default:
					ab, aok := a.boolVal()
					bb, bok := b.boolVal()
					switch {
					case t.Op == token.LAND && (aok && !ab || bok && !bb):
						out = append(out, emBool(false))
					case t.Op == token.LOR && (aok && ab || bok && bb):
						out = append(out, emBool(true))
					case aok && bok && t.Op == token.LAND:
						out = append(out, emBool(ab && bb))
					case aok && bok:
						out = append(out, emBool(ab || bb))
					default:
						out = append(out, emVal{})
					}
				}
			}
			return emDedupVals(out)
		}
		return unknown
	case *ast.CompositeLit:
		return []emVal{e.literalVal(s, info, t, bind, depth)}
	case *ast.IndexExpr:
		combos := emProduct([][]emVal{e.evalAlts(s, info, t.X, bind, depth+1), e.evalAlts(s, info, t.Index, bind, depth+1)}, 256)
		if combos == nil {
			return unknown
		}
		var out []emVal
		for _, c := range combos {
			for _, r := range e.lookup(c[0], c[1]) {
				out = append(out, r[0])
			}
		}
		return emDedupVals(out)
	case *ast.CallExpr:
		if info.Types[t.Fun].IsType() && len(t.Args) == 1 {
			return e.evalAlts(s, info, t.Args[0], bind, depth+1)
		}
		if id, ok := ast.Unparen(t.Fun).(*ast.Ident); ok && id.Name == "make" && len(t.Args) >= 1 {
			if _, isB := info.Uses[id].(*types.Builtin); isB {
				// an empty table (a slice made with a length holds zero values: not modelled)
				if mt := info.TypeOf(t.Args[0]); mt != nil && e.mentionsOpcode(mt, 0) {
					switch u := mt.Underlying().(type) {
					case *types.Map:
						return []emVal{{k: evTable, tbl: &emTable{isMap: true, zero: e.zeroOf(u.Elem(), 0)}}}
					case *types.Slice:
						if len(t.Args) == 1 || (len(t.Args) >= 2 && info.Types[t.Args[1]].Value != nil && constant.Sign(info.Types[t.Args[1]].Value) == 0) {
							return []emVal{{k: evTable, tbl: &emTable{zero: e.zeroOf(u.Elem(), 0)}}}
						}
					}
				}
				return unknown
			}
		}
		if lit, ok := ast.Unparen(t.Fun).(*ast.FuncLit); ok {
			// a function literal called where it is written (`var table = func() map[K]V { ... }()`)
			if ft := info.TypeOf(lit); ft != nil && e.mentionsOpcode(ft.(*types.Signature).Results(), 0) {
				var lists [][]emVal
				for _, a := range t.Args {
					lists = append(lists, e.evalAlts(s, info, a, bind, depth+1))
				}
				combos := emProduct(lists, 16)
				if combos == nil {
					return unknown
				}
				var out []emVal
				for _, args := range combos {
					out = append(out, e.evalPureBody(fmt.Sprintf("lit@%d", lit.Pos()), info, lit.Type, lit.Body, args, depth+1)...)
				}
				return emDedupVals(out)
			}
			return unknown
		}
		if s != nil {
			if rows, ok := s.callRes[t]; ok {
				// the call has been analysed inline on this path: what that walk returned
				var out []emVal
				for _, r := range rows {
					if len(r) == 1 {
						out = append(out, r[0])
					} else {
						out = append(out, emVal{k: evTuple, tup: r})
					}
				}
				if len(out) > 0 {
					return emDedupVals(out)
				}
				return unknown
			}
		}
		fn := CalleeOf(info, t)
		if fn == nil {
			return unknown
		}
		sig, _ := fn.Type().(*types.Signature)
		if sig == nil || !e.mentionsOpcode(sig.Results(), 0) {
			return unknown
		}
		if _, ok := e.decls[fn]; !ok {
			return unknown
		}
		var lists [][]emVal
		for _, a := range t.Args {
			lists = append(lists, e.evalAlts(s, info, a, bind, depth+1))
		}
		combos := emProduct(lists, 64)
		if combos == nil {
			return unknown
		}
		var out []emVal
		for _, args := range combos {
			out = append(out, e.evalPureCall(fn, args, depth+1)...)
		}
		return emDedupVals(out)
	}
	return unknown
}

// lookup: rows (value, found) of tbl[key].
func (e *emitter) lookup(tbl, key emVal) [][]emVal {
	if tbl.k != evTable {
		return [][]emVal{{{}, {}}}
	}
	t := tbl.tbl
	var out [][]emVal
	if !t.isMap {
		// slice / array: positional
		if key.k == evLit || key.k == evConst {
			if kv := key.cval(); kv != nil && kv.Kind() == constant.Int {
				if i, ok := constant.Int64Val(kv); ok && i >= 0 && int(i) < len(t.vals) {
					return [][]emVal{{t.vals[i], emBool(true)}}
				}
			}
			return [][]emVal{{{}, {}}}
		}
		for _, v := range t.vals {
			out = append(out, []emVal{v, emBool(true)})
		}
		if len(out) == 0 {
			out = [][]emVal{{{}, {}}}
		}
		return out
	}
	if key.known() {
		undecided := false
		for i, k := range t.keys {
			same, known := emSameVal(k, key)
			if !known {
				undecided = true
				continue
			}
			if same {
				return [][]emVal{{t.vals[i], emBool(true)}}
			}
		}
		if !undecided {
			return [][]emVal{{t.zero, emBool(false)}}
		}
	}
	for _, v := range t.vals {
		out = append(out, []emVal{v, emBool(true)})
	}
	out = append(out, []emVal{t.zero, emBool(false)})
	return out
}

// literalVal: a composite literal as a value.
func (e *emitter) literalVal(s *emSt, info *types.Info, cl *ast.CompositeLit, bind map[types.Object]emVal, depth int) emVal {
	t := info.TypeOf(cl)
	if t == nil {
		return emVal{}
	}
	one := func(x ast.Expr, et types.Type) emVal {
		if inner, ok := x.(*ast.CompositeLit); ok && inner.Type == nil {
			// elided element type
			return e.elidedLit(s, info, inner, et, bind, depth+1)
		}
		a := e.evalAlts(s, info, x, bind, depth+1)
		if len(a) == 1 {
			return a[0]
		}
		return emVal{}
	}
	switch u := t.Underlying().(type) {
	case *types.Map:
		tb := &emTable{isMap: true, zero: e.zeroOf(u.Elem(), 0)}
		for _, el := range cl.Elts {
			kv, ok := el.(*ast.KeyValueExpr)
			if !ok {
				return emVal{}
			}
			tb.keys = append(tb.keys, one(kv.Key, u.Key()))
			tb.vals = append(tb.vals, one(kv.Value, u.Elem()))
		}
		return emVal{k: evTable, tbl: tb}
	case *types.Slice, *types.Array:
		var et types.Type
		if sl, ok := u.(*types.Slice); ok {
			et = sl.Elem()
		} else {
			et = u.(*types.Array).Elem()
		}
		tb := &emTable{zero: e.zeroOf(et, 0)}
		idx := int64(0)
		for _, el := range cl.Elts {
			v := el
			if kv, ok := el.(*ast.KeyValueExpr); ok {
				// indexed element: [K: v]
				ka := e.evalAlts(s, info, kv.Key, bind, depth+1)
				if len(ka) != 1 || ka[0].cval() == nil {
					return emVal{}
				}
				i, ok := constant.Int64Val(constant.ToInt(ka[0].cval()))
				if !ok || i < 0 || i > 4096 {
					return emVal{}
				}
				idx = i
				v = kv.Value
			}
			for int64(len(tb.vals)) <= idx {
				tb.vals = append(tb.vals, tb.zero)
			}
			tb.vals[idx] = one(v, et)
			idx++
		}
		return emVal{k: evTable, tbl: tb}
	case *types.Struct:
		f := map[string]emVal{}
		for i := 0; i < u.NumFields(); i++ {
			f[u.Field(i).Name()] = e.zeroOf(u.Field(i).Type(), 1)
		}
		for i, el := range cl.Elts {
			if kv, ok := el.(*ast.KeyValueExpr); ok {
				if id, ok := kv.Key.(*ast.Ident); ok {
					var ft types.Type
					for j := 0; j < u.NumFields(); j++ {
						if u.Field(j).Name() == id.Name {
							ft = u.Field(j).Type()
						}
					}
					f[id.Name] = one(kv.Value, ft)
				}
				continue
			}
			if i < u.NumFields() {
				f[u.Field(i).Name()] = one(el, u.Field(i).Type())
			}
		}
		return emVal{k: evStruct, flds: f}
	}
	return emVal{}
}

// elidedLit: `{a, b}` inside a table literal whose element type is et.
func (e *emitter) elidedLit(s *emSt, info *types.Info, cl *ast.CompositeLit, et types.Type, bind map[types.Object]emVal, depth int) emVal {
	if et == nil {
		return emVal{}
	}
	if t := info.TypeOf(cl); t != nil {
		return e.literalVal(s, info, cl, bind, depth)
	}
	return emVal{}
}

// pkgVal: the value a package-level variable is initialised with, when it is data (never assigned).
func (e *emitter) pkgVal(v *types.Var, depth int) *emVal {
	pv := e.pkgVars[v]
	if pv == nil || pv.mutated || pv.busy {
		return nil
	}
	if pv.val != nil {
		if pv.val.k == evUnknown {
			return nil
		}
		return pv.val
	}
	if !e.mentionsOpcode(v.Type(), 0) {
		return nil
	}
	pv.busy = true
	a := e.evalAlts(nil, pv.info, pv.init, nil, depth+1)
	val := emVal{}
	if len(a) == 1 {
		val = a[0]
	}
	// the element assignments of the package's init functions, in source order
	sort.Slice(pv.initWrites, func(i, j int) bool { return pv.initWrites[i].Pos() < pv.initWrites[j].Pos() })
	for _, w := range pv.initWrites {
		if val.k != evTable || !val.tbl.isMap {
			val = emVal{}
			break
		}
		ix := ast.Unparen(w.Lhs[0]).(*ast.IndexExpr)
		ka := e.evalAlts(nil, pv.info, ix.Index, nil, depth+1)
		va := e.evalAlts(nil, pv.info, w.Rhs[0], nil, depth+1)
		if len(ka) != 1 || !ka[0].known() || len(va) != 1 {
			val = emVal{}
			break
		}
		nt := &emTable{isMap: true, zero: val.tbl.zero}
		replaced := false
		for j, k := range val.tbl.keys {
			nt.keys = append(nt.keys, k)
			if same, known := emSameVal(k, ka[0]); known && same {
				nt.vals = append(nt.vals, va[0])
				replaced = true
			} else {
				nt.vals = append(nt.vals, val.tbl.vals[j])
			}
		}
		if !replaced {
			nt.keys = append(nt.keys, ka[0])
			nt.vals = append(nt.vals, va[0])
		}
		val = emVal{k: evTable, tbl: nt}
	}
	pv.busy = false
	pv.val = &val
	if val.k == evUnknown {
		return nil
	}
	return pv.val
}

// evalPureCall: the alternatives a call of fn with these arguments returns (a tuple for several
// results). The body is walked with the value domain only; whatever is not data is unknown.
func (e *emitter) evalPureCall(fn *types.Func, args []emVal, depth int) []emVal {
	di, ok := e.decls[fn]
	if !ok {
		return []emVal{{}}
	}
	return e.evalPureBody(fn.FullName(), di.info, di.fd.Type, di.fd.Body, args, depth)
}

// evalPureBody: the same for any function body (a declared function, a function literal that is
// called where it is written).
func (e *emitter) evalPureBody(name string, info *types.Info, ftype *ast.FuncType, body *ast.BlockStmt, args []emVal, depth int) []emVal {
	unknown := []emVal{{}}
	if depth > 5 || body == nil {
		return unknown
	}
	var ks []string
	for _, a := range args {
		ks = append(ks, a.key())
	}
	mk := name + "(" + strings.Join(ks, ",") + ")"
	if r, ok := e.pureMemo[mk]; ok {
		if r == nil {
			return unknown // recursion
		}
		return r
	}
	e.pureMemo[mk] = nil
	st := newEmSt()
	i := 0
	for _, f := range ftype.Params.List {
		for _, n := range f.Names {
			if i < len(args) && args[i].known() {
				st.bindRows([]types.Object{info.Defs[n]}, [][]emVal{{args[i]}})
			}
			i++
		}
		if len(f.Names) == 0 {
			i++
		}
	}
	nres := 0
	var named []types.Object
	if ftype.Results != nil {
		for _, f := range ftype.Results.List {
			if len(f.Names) == 0 {
				nres++
			}
			for _, n := range f.Names {
				nres++
				named = append(named, info.Defs[n])
			}
		}
	}
	var out []emVal
	w := &Walker[*emSt]{
		Clone:    emClone,
		MaxPaths: 4000,
		IsPanic:  func(s ast.Stmt) bool { return e.diverges(info, s) },
		OnStmt: func(s *emSt, stmt ast.Stmt) (*emSt, bool) {
			e.bindValues(s, info, stmt)
			return s, true
		},
		OnCond: func(s *emSt, cond ast.Expr, taken bool) (*emSt, bool) {
			return s, e.filterCond(s, info, cond, taken)
		},
		OnCase: func(s *emSt, sw *ast.SwitchStmt, vals, others []ast.Expr) (*emSt, bool) {
			return s, e.caseFeasible(s, info, sw.Tag, vals, others)
		},
		OnDefer: func(s *emSt, d *ast.DeferStmt) (*emSt, bool) { return s, true },
		OnRange: func(s *emSt, r *ast.RangeStmt) (*emSt, bool) {
			// a loop over a table written as data: the key / element of a generic iteration is any of
			// its rows (a search loop `for _, row := range table { if row.key == x { return row.val } }`)
			k, v := emObjOf(info, r.Key), emObjOf(info, r.Value)
			s.unbind(k)
			s.unbind(v)
			a := e.evalAlts(s, info, r.X, nil, depth+1)
			if len(a) == 1 && a[0].k == evTable && len(a[0].tbl.vals) > 0 {
				var rows [][]emVal
				for i, val := range a[0].tbl.vals {
					key := emVal{k: evLit, lit: constant.MakeInt64(int64(i))}
					if a[0].tbl.isMap && i < len(a[0].tbl.keys) {
						key = a[0].tbl.keys[i]
					}
					rows = append(rows, []emVal{key, val})
				}
				s.bindRows([]types.Object{k, v}, rows)
			}
			return s, true
		},
		LoopSummary: func(loop ast.Stmt, before *emSt, ends []*emSt) (*emSt, bool) {
			post := emClone(before)
			e.forgetAssigned(post, info, loop)
			return post, true
		},
	}
	w.Exit = func(s *emSt, o outcome) {
		if o.kind == cPanic {
			return
		}
		var rows [][]emVal
		switch {
		case o.kind == cReturn && len(o.ret.Results) == nres && nres > 0:
			rows = e.evalRows(s, info, o.ret.Results)
		case o.kind == cReturn && len(o.ret.Results) == 1 && nres > 1:
			// return f(x) forwarding a tuple
			for _, a := range e.evalAlts(s, info, o.ret.Results[0], nil, depth+1) {
				if a.k == evTuple && len(a.tup) == nres {
					rows = append(rows, a.tup)
				} else {
					rows = append(rows, make([]emVal, nres))
				}
			}
		case len(named) == nres && nres > 0:
			// named results, bare return / falling off the end
			var lists [][]emVal
			for _, o := range named {
				vs := s.valsOf(o)
				if vs == nil {
					vs = []emVal{{}}
				}
				lists = append(lists, vs)
			}
			rows = emProduct(lists, 64)
		default:
			return
		}
		if rows == nil {
			rows = [][]emVal{make([]emVal, nres)}
		}
		for _, r := range rows {
			if nres == 1 {
				out = append(out, r[0])
			} else {
				out = append(out, emVal{k: evTuple, tup: r})
			}
		}
	}
	w.Run(body, st)
	if w.Overflow || len(out) == 0 {
		out = unknown
	}
	out = emDedupVals(out)
	if len(out) > 128 {
		out = unknown
	}
	e.pureMemo[mk] = out
	return out
}

// evalRows: joint alternatives of several expressions. Plain identifiers of one group keep their rows.
func (e *emitter) evalRows(s *emSt, info *types.Info, exprs []ast.Expr) [][]emVal {
	gi := -1
	cols := make([]int, len(exprs))
	same := true
	for i, x := range exprs {
		id, ok := ast.Unparen(x).(*ast.Ident)
		if !ok {
			same = false
			break
		}
		obj := info.Uses[id]
		g, c := s.groupOf(obj)
		if g < 0 || (gi >= 0 && g != gi) {
			same = false
			break
		}
		gi, cols[i] = g, c
	}
	if same && gi >= 0 {
		var rows [][]emVal
		for _, r := range s.groups[gi].rows {
			row := make([]emVal, len(exprs))
			for i := range exprs {
				row[i] = r[cols[i]]
			}
			rows = append(rows, row)
		}
		return rows
	}
	// expressions over the columns of ONE group are evaluated row by row, anything else independently
	if g := e.soleGroup(s, info, exprs...); g != nil {
		var rows [][]emVal
		for _, r := range g.rows {
			bind := map[types.Object]emVal{}
			for o, c := range g.cols {
				bind[o] = r[c]
			}
			var lists [][]emVal
			for _, x := range exprs {
				lists = append(lists, e.evalAlts(s, info, x, bind, 0))
			}
			p := emProduct(lists, 64)
			if p == nil {
				return nil
			}
			rows = append(rows, p...)
		}
		return rows
	}
	var lists [][]emVal
	for _, x := range exprs {
		lists = append(lists, e.evalAlts(s, info, x, nil, 0))
	}
	return emProduct(lists, 128)
}

// soleGroup: the group whose columns the expressions mention, when there is exactly one.
func (e *emitter) soleGroup(s *emSt, info *types.Info, exprs ...ast.Expr) *emGroup {
	var g *emGroup
	many := false
	for _, x := range exprs {
		if x == nil {
			continue
		}
		ast.Inspect(x, func(n ast.Node) bool {
			if _, ok := n.(*ast.FuncLit); ok {
				return false
			}
			if id, ok := n.(*ast.Ident); ok {
				if obj := info.Uses[id]; obj != nil {
					if gi, _ := s.groupOf(obj); gi >= 0 {
						if g != nil && g != s.groups[gi] {
							many = true
						}
						g = s.groups[gi]
					}
				}
			}
			return true
		})
	}
	if many {
		return nil
	}
	return g
}

// filterCond: is the decision `cond == taken` feasible under the tracked values; the rows of the
// group the condition talks about are narrowed to those that agree.
func (e *emitter) filterCond(s *emSt, info *types.Info, cond ast.Expr, taken bool) bool {
	agrees := func(alts []emVal) bool {
		for _, a := range alts {
			b, ok := a.boolVal()
			if !ok || b == taken {
				return true
			}
		}
		return false
	}
	g := e.soleGroup(s, info, cond)
	if g == nil {
		return agrees(e.evalAlts(s, info, cond, nil, 0))
	}
	var keep [][]emVal
	for _, r := range g.rows {
		bind := map[types.Object]emVal{}
		for o, c := range g.cols {
			bind[o] = r[c]
		}
		if agrees(e.evalAlts(s, info, cond, bind, 0)) {
			keep = append(keep, r)
		}
	}
	if len(keep) == 0 {
		return false
	}
	if len(keep) != len(g.rows) {
		for i := range s.groups {
			if s.groups[i] == g {
				s.groups[i] = &emGroup{cols: g.cols, rows: keep}
			}
		}
	}
	return true
}

// caseFeasible: can the switch over tag enter the clause with these values (vals == nil: default).
func (e *emitter) caseFeasible(s *emSt, info *types.Info, tag ast.Expr, vals, others []ast.Expr) bool {
	if tag == nil {
		return true
	}
	consts := func(l []ast.Expr) ([]emVal, bool) {
		var out []emVal
		for _, x := range l {
			a := e.evalAlts(s, info, x, nil, 0)
			if len(a) != 1 || a[0].cval() == nil {
				return nil, false
			}
			out = append(out, a[0])
		}
		return out, true
	}
	list := vals
	if vals == nil {
		list = others
	}
	cs, ok := consts(list)
	if !ok {
		return true
	}
	// enters(v): 1 yes, 0 no, -1 unknown
	enters := func(v emVal) int {
		if v.cval() == nil {
			return -1
		}
		hit := false
		for _, c := range cs {
			if same, known := emSameVal(v, c); known && same {
				hit = true
			} else if !known {
				return -1
			}
		}
		if (vals != nil) == hit {
			return 1
		}
		return 0
	}
	g := e.soleGroup(s, info, tag)
	if g == nil {
		for _, a := range e.evalAlts(s, info, tag, nil, 0) {
			if enters(a) != 0 {
				return true
			}
		}
		return false
	}
	var keep [][]emVal
	for _, r := range g.rows {
		bind := map[types.Object]emVal{}
		for o, c := range g.cols {
			bind[o] = r[c]
		}
		ok := false
		for _, a := range e.evalAlts(s, info, tag, bind, 0) {
			if enters(a) != 0 {
				ok = true
			}
		}
		if ok {
			keep = append(keep, r)
		}
	}
	if len(keep) == 0 {
		return false
	}
	if len(keep) != len(g.rows) {
		for i := range s.groups {
			if s.groups[i] == g {
				s.groups[i] = &emGroup{cols: g.cols, rows: keep}
			}
		}
	}
	return true
}

// forgetAssigned: after a loop the values of everything its body assigns are unknown.
func (e *emitter) forgetAssigned(s *emSt, info *types.Info, n ast.Node) {
	forget := func(obj types.Object) {
		if obj == nil {
			return
		}
		s.unbind(obj)
		delete(s.env, obj)
		delete(s.ints, obj)
		delete(s.conds, obj)
		delete(s.insts, obj)
		delete(s.funcs, obj)
	}
	ast.Inspect(n, func(m ast.Node) bool {
		switch x := m.(type) {
		case *ast.FuncLit:
			return false
		case *ast.AssignStmt:
			for _, l := range x.Lhs {
				for {
					if ix, ok := ast.Unparen(l).(*ast.IndexExpr); ok {
						l = ix.X
						continue
					}
					break
				}
				if id, ok := ast.Unparen(l).(*ast.Ident); ok {
					obj := info.Uses[id]
					if obj == nil {
						obj = info.Defs[id]
					}
					forget(obj)
				}
			}
		case *ast.IncDecStmt:
			if id, ok := ast.Unparen(x.X).(*ast.Ident); ok {
				forget(info.Uses[id])
			}
		}
		return true
	})
}

func emObjOf(info *types.Info, x ast.Expr) types.Object {
	id, ok := ast.Unparen(x).(*ast.Ident)
	if !ok || id.Name == "_" {
		return nil
	}
	if o := info.Defs[id]; o != nil {
		return o
	}
	return info.Uses[id]
}

// bindValues applies the value-domain effect of a simple statement.
func (e *emitter) bindValues(s *emSt, info *types.Info, stmt ast.Stmt) {
	assign := func(lhs []ast.Expr, rhs []ast.Expr) {
		switch {
		case len(lhs) == len(rhs):
			type pend struct {
				obj   types.Object
				alts  []emVal
				alias types.Object
				track bool
			}
			var ps []pend
			for i, l := range lhs {
				if ix, ok := ast.Unparen(l).(*ast.IndexExpr); ok {
					// tbl[k] = v on a tracked table
					tobj := emObjOf(info, ix.X)
					if tobj == nil {
						continue
					}
					tv := s.valsOf(tobj)
					ka := e.evalAlts(s, info, ix.Index, nil, 0)
					va := e.evalAlts(s, info, rhs[i], nil, 0)
					if len(tv) == 1 && tv[0].k == evTable && tv[0].tbl.isMap && len(ka) == 1 && ka[0].known() && len(va) == 1 {
						old := tv[0].tbl
						nt := &emTable{isMap: true, zero: old.zero}
						replaced := false
						for j, k := range old.keys {
							if same, known := emSameVal(k, ka[0]); known && same {
								nt.keys = append(nt.keys, k)
								nt.vals = append(nt.vals, va[0])
								replaced = true
							} else {
								nt.keys = append(nt.keys, k)
								nt.vals = append(nt.vals, old.vals[j])
							}
						}
						if !replaced {
							nt.keys = append(nt.keys, ka[0])
							nt.vals = append(nt.vals, va[0])
						}
						ps = append(ps, pend{obj: tobj, alts: []emVal{{k: evTable, tbl: nt}}, track: true})
					} else if tv != nil {
						ps = append(ps, pend{obj: tobj})
					}
					continue
				}
				obj := emObjOf(info, l)
				if obj == nil {
					continue
				}
				p := pend{obj: obj}
				if ro := emObjOf(info, rhs[i]); ro != nil {
					if gi, _ := s.groupOf(ro); gi >= 0 {
						p.alias = ro
					}
				}
				p.alts = e.evalAlts(s, info, rhs[i], nil, 0)
				allKnown := true
				for _, a := range p.alts {
					if !a.known() {
						allKnown = false
					}
				}
				p.track = allKnown || e.mentionsOpcode(obj.Type(), 0)
				ps = append(ps, p)
			}
			for _, p := range ps {
				switch {
				case p.alias != nil && p.alias != p.obj:
					s.aliasCol(p.obj, p.alias)
				case p.alias != nil:
				case p.track && len(p.alts) > 0:
					var rows [][]emVal
					for _, a := range p.alts {
						rows = append(rows, []emVal{a})
					}
					s.bindRows([]types.Object{p.obj}, rows)
				default:
					s.unbind(p.obj)
				}
			}
		case len(rhs) == 1 && len(lhs) > 1:
			objs := make([]types.Object, len(lhs))
			for i, l := range lhs {
				objs[i] = emObjOf(info, l)
			}
			var rows [][]emVal
			switch r := ast.Unparen(rhs[0]).(type) {
			case *ast.IndexExpr:
				if len(lhs) == 2 {
					combos := emProduct([][]emVal{e.evalAlts(s, info, r.X, nil, 0), e.evalAlts(s, info, r.Index, nil, 0)}, 64)
					for _, c := range combos {
						rows = append(rows, e.lookup(c[0], c[1])...)
					}
				}
			case *ast.CallExpr:
				for _, a := range e.evalAlts(s, info, r, nil, 0) {
					if a.k == evTuple && len(a.tup) == len(lhs) {
						rows = append(rows, a.tup)
					} else {
						rows = append(rows, make([]emVal, len(lhs)))
					}
				}
			}
			if rows == nil {
				for _, o := range objs {
					s.unbind(o)
				}
				return
			}
			s.bindRows(objs, rows)
		}
	}
	switch x := stmt.(type) {
	case *ast.AssignStmt:
		if x.Tok != token.ASSIGN && x.Tok != token.DEFINE {
			for _, l := range x.Lhs {
				s.unbind(emObjOf(info, l))
			}
			return
		}
		assign(x.Lhs, x.Rhs)
	case *ast.DeclStmt:
		gd, ok := x.Decl.(*ast.GenDecl)
		if !ok || gd.Tok != token.VAR {
			return
		}
		for _, sp := range gd.Specs {
			vs, ok := sp.(*ast.ValueSpec)
			if !ok {
				continue
			}
			var lhs []ast.Expr
			for _, n := range vs.Names {
				lhs = append(lhs, n)
			}
			if len(vs.Values) == 0 {
				// zero values
				for _, n := range vs.Names {
					obj := info.Defs[n]
					if obj == nil {
						continue
					}
					z := e.zeroOf(obj.Type(), 0)
					if z.known() && (e.mentionsOpcode(obj.Type(), 0) || z.k == evLit) {
						s.bindRows([]types.Object{obj}, [][]emVal{{z}})
					} else {
						s.unbind(obj)
					}
				}
				continue
			}
			assign(lhs, vs.Values)
		}
	case *ast.IncDecStmt:
		s.unbind(emObjOf(info, x.X))
	}
}

// diverges: the statement never completes (panic, or a call of a function every path of which panics).
func (e *emitter) diverges(info *types.Info, s ast.Stmt) bool {
	return e.divergesDepth(info, s, 0)
}

func (e *emitter) divergesDepth(info *types.Info, s ast.Stmt, depth int) bool {
	if IsPanicCall(info, s) {
		return true
	}
	es, ok := s.(*ast.ExprStmt)
	if !ok || depth > 3 {
		return false
	}
	call, ok := es.X.(*ast.CallExpr)
	if !ok {
		return false
	}
	fn := CalleeOf(info, call)
	if fn == nil {
		return false
	}
	di, ok := e.decls[fn]
	if !ok || len(di.fd.Body.List) == 0 {
		return false
	}
	if v, ok := e.divMemo[fn]; ok {
		return v
	}
	e.divMemo[fn] = false
	hasRet := false
	ast.Inspect(di.fd.Body, func(n ast.Node) bool {
		switch n.(type) {
		case *ast.ReturnStmt:
			hasRet = true
		case *ast.FuncLit:
			return false
		}
		return true
	})
	r := !hasRet && e.divergesDepth(di.info, di.fd.Body.List[len(di.fd.Body.List)-1], depth+1)
	e.divMemo[fn] = r
	return r
}

// ---- emitter state ----

type emSt struct {
	h        lin
	reach    bool
	dead     bool                // the path cannot continue (a callee that never returns)
	recorded map[string][]lin    // label key → heights of jumps seen before its emission
	recTop   map[string][]string // label key → stack-top provenance of those jumps (parallel to recorded)
	emitted  map[string]lin      // label key → height at emission
	emitCnt  map[string]int
	created  map[string]bool // labels created by the name maker in this function
	alias    map[string]string
	ints     map[types.Object]lin
	last     *lin // integer constant pushed by the last emitted instruction
	tails    map[string]bool
	nuFact   map[string]int
	tags     map[string][]string // "in:"+tag → the constants the tag expression may hold, "out:"+tag → those it does not
	caseKey  string
	problems []string
	stk      []string                      // symbolic operand stack (entries pushed since function entry); "?" = unknown
	world    int                           // 0 unforced, 1 = all results non-null, 2 = tail results null
	env      map[types.Object]string       // canonical text of parameters of inlined helpers, aliases of node paths, loop indices
	groups   []*emGroup                    // tracked values (opcodes, flags, tables)
	funcs    map[types.Object]*ast.FuncLit // locals holding a function literal
	insts    map[types.Object]ast.Expr     // locals holding an instruction: the constructor call / literal
	inst     map[*types.Func]int           // how many times a helper has been inlined on this path
	depth    int                           // inlining depth
	picks    map[string]int                // forks passed on this path (a helper ending in several ways): which way was taken
	forkCnt  map[token.Pos]int
	ret      [][]emVal                   // at the exit of an inlined helper: the alternatives of its results
	callRes  map[*ast.CallExpr][][]emVal // results of the inlined calls made on this path
	conds    map[types.Object]ast.Expr   // boolean locals / parameters: the condition they hold
}

func newEmSt() *emSt {
	return &emSt{reach: true, recTop: map[string][]string{}, recorded: map[string][]lin{}, emitted: map[string]lin{}, emitCnt: map[string]int{}, created: map[string]bool{},
		alias: map[string]string{}, ints: map[types.Object]lin{}, tails: map[string]bool{}, nuFact: map[string]int{}, tags: map[string][]string{},
		env: map[types.Object]string{}, funcs: map[types.Object]*ast.FuncLit{}, insts: map[types.Object]ast.Expr{}, inst: map[*types.Func]int{},
		picks: map[string]int{}, forkCnt: map[token.Pos]int{}, callRes: map[*ast.CallExpr][][]emVal{}, conds: map[types.Object]ast.Expr{}}
}

func emClone(s *emSt) *emSt {
	n := &emSt{h: s.h.add(linC(0)), reach: s.reach, dead: s.dead, caseKey: s.caseKey, depth: s.depth}
	n.recorded = map[string][]lin{}
	for k, v := range s.recorded {
		n.recorded[k] = append([]lin(nil), v...)
	}
	n.recTop = map[string][]string{}
	for k, v := range s.recTop {
		n.recTop[k] = append([]string(nil), v...)
	}
	n.emitted = map[string]lin{}
	for k, v := range s.emitted {
		n.emitted[k] = v
	}
	n.emitCnt = map[string]int{}
	for k, v := range s.emitCnt {
		n.emitCnt[k] = v
	}
	n.created = map[string]bool{}
	for k, v := range s.created {
		n.created[k] = v
	}
	n.alias = map[string]string{}
	for k, v := range s.alias {
		n.alias[k] = v
	}
	n.ints = map[types.Object]lin{}
	for k, v := range s.ints {
		n.ints[k] = v
	}
	n.tails = map[string]bool{}
	for k, v := range s.tails {
		n.tails[k] = v
	}
	n.nuFact = map[string]int{}
	for k, v := range s.nuFact {
		n.nuFact[k] = v
	}
	n.tags = map[string][]string{}
	for k, v := range s.tags {
		n.tags[k] = v
	}
	if s.last != nil {
		l := *s.last
		n.last = &l
	}
	n.problems = append([]string(nil), s.problems...)
	n.env = map[types.Object]string{}
	for k, v := range s.env {
		n.env[k] = v
	}
	n.groups = append([]*emGroup(nil), s.groups...)
	n.funcs = map[types.Object]*ast.FuncLit{}
	for k, v := range s.funcs {
		n.funcs[k] = v
	}
	n.insts = map[types.Object]ast.Expr{}
	for k, v := range s.insts {
		n.insts[k] = v
	}
	n.inst = map[*types.Func]int{}
	for k, v := range s.inst {
		n.inst[k] = v
	}
	n.world = s.world
	n.stk = append([]string(nil), s.stk...)
	n.picks = map[string]int{}
	for k, v := range s.picks {
		n.picks[k] = v
	}
	n.forkCnt = map[token.Pos]int{}
	for k, v := range s.forkCnt {
		n.forkCnt[k] = v
	}
	n.callRes = map[*ast.CallExpr][][]emVal{}
	for k, v := range s.callRes {
		n.callRes[k] = v
	}
	n.ret = s.ret
	n.conds = map[types.Object]ast.Expr{}
	for k, v := range s.conds {
		n.conds[k] = v
	}
	return n
}

type emitter struct {
	c                          *Ctx
	info                       *types.Info
	vm                         map[string]vmEffect
	inserts                    map[*types.Func]int  // the insert functions → index of their instruction parameter
	ctors                      map[*types.Func]bool // instruction constructors (first arg = opcode)
	opcodeT                    types.Type
	instrT                     types.Type
	fns                        map[*types.Func]*ast.FuncDecl
	role                       map[*types.Func]emRole
	exprDispatch, stmtDispatch *types.Func // the functions taking the AnalyzedExpression / AnalyzedStatement interface
	cur                        *ast.FuncDecl
	curFn                      *types.Func
	// tail symbols of the function being analysed: ν-symbols that were in tail position
	// (last emission before an unconditional jump, a fall-through label or the exit).
	// pass 1 collects them, pass 2 uses them.
	tailSyms map[string]bool
	collect  bool
	ctorOp   map[*types.Func]string // constructors with a fixed opcode in their body
	// program-wide lookups
	decls    map[*types.Func]emDeclInfo
	pkgVars  map[*types.Var]*emPkgVar
	pureMemo map[string][]emVal
	divMemo  map[*types.Func]bool
	lnames   map[types.Object]string // display names of locals (disambiguated inside their function)
	owner    map[types.Object]*ast.FuncDecl
	inlStack []*types.Func
	nodeTs   []types.Type       // the node types: expression / statement interface, block, function definition
	nodeIs   []*types.Interface // the node interfaces
	demoted  map[*types.Func]bool
	byDriver map[*types.Func]bool
	overflow bool
	// forks: a helper that ends in several observable ways at a call site splits the caller's path. The
	// walk of a function is repeated, each run taking one combination of ways (want: fork → way, 0 when
	// absent); a run reports the paths that took exactly its combination.
	want     map[string]int
	pending  []map[string]int
	seenWant map[string]bool
}

// w1: every sub-expression yields one value. w0: tail results yield nothing (null-typed
// construct), operands still yield one value.
func (e *emitter) w1(h lin) lin { return h.substNu(1) }
func (e *emitter) w0(h lin) lin {
	r := lin{c: h.c, s: map[string]int{}}
	for k, n := range h.s {
		switch {
		case strings.HasPrefix(k, "ν(") && e.tailSyms[k]:
		case strings.HasPrefix(k, "ν("):
			r.c += n
		default:
			r.s[k] = n
		}
	}
	return r
}

// compatible decides a join and updates the forced world of the path.
func (e *emitter) compatible(s *emSt, a, b lin) bool {
	if e.collect {
		return true
	}
	ok1 := e.w1(a).eq(e.w1(b))
	ok0 := e.w0(a).eq(e.w0(b))
	switch {
	case ok1 && ok0:
		return true
	case ok1:
		if s.world == 2 {
			return false
		}
		s.world = 1
		return true
	case ok0:
		if s.world == 1 {
			return false
		}
		s.world = 2
		return true
	}
	return false
}

func (s *emSt) spush(sym string) { s.stk = append(s.stk, sym) }
func (s *emSt) spop(n int) {
	for i := 0; i < n; i++ {
		if len(s.stk) > 0 {
			s.stk = s.stk[:len(s.stk)-1]
		}
	}
}
func (s *emSt) stop() string {
	if len(s.stk) == 0 {
		return ""
	}
	return s.stk[len(s.stk)-1]
}

// resultLike: the entry is a branch result — a ν-symbol that is in tail position somewhere
// in this function, or a constant pushed as the value of a branch.
func (e *emitter) resultLike(sym string) bool {
	return strings.HasPrefix(sym, "const") || e.tailSyms[sym]
}

// sameTop: two edges reaching one label must agree on what the value on top of the stack
// IS, not only on how many values there are: either the same symbolic value or both the
// result of their branch.
func (e *emitter) sameTop(a, b string) bool {
	if a == "" || b == "" || a == "?" || b == "?" || a == b {
		return true
	}
	return e.resultLike(a) && e.resultLike(b)
}

func (e *emitter) markTails(s *emSt) {
	if e.collect {
		for k := range s.tails {
			e.tailSyms[k] = true
		}
	}
}

// ---- canonical texts ----
//
// Symbols (ν(x), n(list)), label keys and remembered decisions are keyed by the CANONICAL text of an
// expression over the node being compiled: a local that merely names a path of the node
// (`arguments := node.Arguments.List`, `node := expr.(T)`), a parameter of an inlined helper, the
// element / index variable of a loop over a list and a side-effect free accessor method
// (`node.HasElse()`) are replaced by what they stand for, so that the same thing has the same key
// however the code spells it.

func (e *emitter) localName(s *emSt, v *types.Var) string {
	if n, ok := e.lnames[v]; ok {
		fd := e.owner[v]
		if fd != nil && fd != e.cur {
			fn, _ := e.info.Defs[fd.Name].(*types.Func)
			k := 0
			if s != nil && fn != nil {
				k = s.inst[fn]
			}
			if k > 1 {
				return fmt.Sprintf("%s@%s#%d", n, fd.Name.Name, k)
			}
			return n + "@" + fd.Name.Name
		}
		return n
	}
	return v.Name()
}

// indexLocals names the locals of a function: the name, made unique by an ordinal when the function
// declares several objects of that name.
func (e *emitter) indexLocals(fd *ast.FuncDecl) {
	byName := map[string][]*types.Var{}
	ast.Inspect(fd, func(n ast.Node) bool {
		if id, ok := n.(*ast.Ident); ok {
			if v, ok := e.info.Defs[id].(*types.Var); ok && !v.IsField() {
				byName[id.Name] = append(byName[id.Name], v)
				e.owner[v] = fd
			}
		}
		return true
	})
	for name, vs := range byName {
		sort.Slice(vs, func(i, j int) bool { return vs[i].Pos() < vs[j].Pos() })
		for i, v := range vs {
			if i == 0 {
				e.lnames[v] = name
			} else {
				e.lnames[v] = fmt.Sprintf("%s·%d", name, i+1)
			}
		}
	}
}

func (e *emitter) canon(s *emSt, info *types.Info, x ast.Expr) string {
	if x == nil {
		return ""
	}
	switch t := ast.Unparen(x).(type) {
	case *ast.Ident:
		obj := info.Uses[t]
		if obj == nil {
			obj = info.Defs[t]
		}
		if obj != nil && s != nil {
			if txt, ok := s.env[obj]; ok {
				return txt
			}
		}
		if v, ok := obj.(*types.Var); ok && !v.IsField() {
			return e.localName(s, v)
		}
		return t.Name
	case *ast.SelectorExpr:
		if id, ok := t.X.(*ast.Ident); ok {
			if _, isPkg := info.Uses[id].(*types.PkgName); isPkg {
				return id.Name + "." + t.Sel.Name
			}
		}
		return e.canon(s, info, t.X) + "." + t.Sel.Name
	case *ast.TypeAssertExpr:
		return e.canon(s, info, t.X)
	case *ast.StarExpr:
		return e.canon(s, info, t.X)
	case *ast.IndexExpr:
		return e.canon(s, info, t.X) + "[" + e.canon(s, info, t.Index) + "]"
	case *ast.CallExpr:
		if s != nil {
			if inner, inf, neg, restore := e.accessor(s, info, t); inner != nil {
				txt := e.canon(s, inf, inner)
				restore()
				if _, simple := ast.Unparen(inner).(*ast.BinaryExpr); simple || neg {
					txt = "(" + txt + ")"
				}
				if neg {
					txt = "!" + txt
				}
				return txt
			}
		}
		var args []string
		for _, a := range t.Args {
			args = append(args, e.canon(s, info, a))
		}
		if info.Types[t.Fun].IsType() {
			return exprStr(t.Fun) + "(" + strings.Join(args, ", ") + ")"
		}
		return e.canon(s, info, t.Fun) + "(" + strings.Join(args, ", ") + ")"
	case *ast.BinaryExpr:
		return e.canon(s, info, t.X) + " " + t.Op.String() + " " + e.canon(s, info, t.Y)
	case *ast.UnaryExpr:
		return t.Op.String() + e.canon(s, info, t.X)
	}
	return exprStr(x)
}

// accessor: call is a call of a side-effect free accessor — a function whose body is `return E`
// (or `if C { return <bool> }; return <!bool>`) with E free of calls. Returns E (in the callee's
// file context, with the callee's receiver and parameters bound to the canonical texts of the
// actual ones until restore is called); neg: the call means !E.
func (e *emitter) accessor(s *emSt, info *types.Info, call *ast.CallExpr) (inner ast.Expr, inf *types.Info, neg bool, restore func()) {
	fn := CalleeOf(info, call)
	if fn == nil {
		return nil, nil, false, nil
	}
	di, ok := e.decls[fn]
	if !ok {
		return nil, nil, false, nil
	}
	body := di.fd.Body.List
	callFree := func(x ast.Expr) bool {
		ok := true
		ast.Inspect(x, func(n ast.Node) bool {
			switch c := n.(type) {
			case *ast.CallExpr:
				if id, isId := ast.Unparen(c.Fun).(*ast.Ident); isId {
					if b, isB := di.info.Uses[id].(*types.Builtin); isB && (b.Name() == "len" || b.Name() == "cap") {
						return true
					}
				}
				if !di.info.Types[c.Fun].IsType() {
					ok = false
				}
			case *ast.FuncLit:
				ok = false
			}
			return ok
		})
		return ok
	}
	boolLit := func(x ast.Expr) (bool, bool) {
		if tv, ok := di.info.Types[x]; ok && tv.Value != nil && tv.Value.Kind() == constant.Bool {
			return constant.BoolVal(tv.Value), true
		}
		return false, false
	}
	switch {
	case len(body) == 1:
		r, ok := body[0].(*ast.ReturnStmt)
		if !ok || len(r.Results) != 1 || !callFree(r.Results[0]) {
			return nil, nil, false, nil
		}
		if tv, ok := di.info.Types[r.Results[0]]; ok && tv.Value != nil {
			return nil, nil, false, nil // constant accessors (Kind()) keep their spelling
		}
		inner = r.Results[0]
	case len(body) == 2:
		i, ok1 := body[0].(*ast.IfStmt)
		r2, ok2 := body[1].(*ast.ReturnStmt)
		if !ok1 || !ok2 || i.Init != nil || i.Else != nil || len(i.Body.List) != 1 || len(r2.Results) != 1 || !callFree(i.Cond) {
			return nil, nil, false, nil
		}
		r1, ok := i.Body.List[0].(*ast.ReturnStmt)
		if !ok || len(r1.Results) != 1 {
			return nil, nil, false, nil
		}
		b1, okb1 := boolLit(r1.Results[0])
		b2, okb2 := boolLit(r2.Results[0])
		if !okb1 || !okb2 || b1 == b2 {
			return nil, nil, false, nil
		}
		inner, neg = i.Cond, !b1
	default:
		return nil, nil, false, nil
	}
	// bind the receiver and the parameters
	type saved struct {
		obj types.Object
		txt string
		had bool
	}
	var old []saved
	set := func(obj types.Object, txt string) {
		if obj == nil {
			return
		}
		prev, had := s.env[obj]
		old = append(old, saved{obj, prev, had})
		s.env[obj] = txt
	}
	var texts []string
	for _, a := range call.Args {
		texts = append(texts, e.canon(s, info, a))
	}
	recvTxt := ""
	if sel, ok := ast.Unparen(call.Fun).(*ast.SelectorExpr); ok {
		recvTxt = e.canon(s, info, sel.X)
	}
	if di.fd.Recv != nil && len(di.fd.Recv.List) > 0 && len(di.fd.Recv.List[0].Names) > 0 {
		set(di.info.Defs[di.fd.Recv.List[0].Names[0]], recvTxt)
	}
	i := 0
	for _, f := range di.fd.Type.Params.List {
		for _, n := range f.Names {
			if i < len(texts) {
				set(di.info.Defs[n], texts[i])
			}
			i++
		}
		if len(f.Names) == 0 {
			i++
		}
	}
	restore = func() {
		for j := len(old) - 1; j >= 0; j-- {
			if old[j].had {
				s.env[old[j].obj] = old[j].txt
			} else {
				delete(s.env, old[j].obj)
			}
		}
	}
	return inner, di.info, neg, restore
}

func (e *emitter) labelKey(s *emSt, info *types.Info, x ast.Expr) string {
	k := e.canon(s, info, x)
	if a, ok := s.alias[k]; ok {
		return a
	}
	return k
}

// intOf evaluates an integer expression to a linear form over n(list) symbols.
func (e *emitter) intOf(s *emSt, info *types.Info, x ast.Expr) (lin, bool) {
	x = ast.Unparen(x)
	if tv, ok := info.Types[x]; ok && tv.Value != nil && tv.Value.Kind() == constant.Int {
		n, _ := constant.Int64Val(tv.Value)
		return linC(int(n)), true
	}
	switch t := x.(type) {
	case *ast.Ident:
		if v, ok := s.ints[info.Uses[t]]; ok {
			return v, true
		}
	case *ast.CallExpr:
		if info.Types[t.Fun].IsType() && len(t.Args) == 1 {
			return e.intOf(s, info, t.Args[0])
		}
		if id, ok := t.Fun.(*ast.Ident); ok && id.Name == "len" && len(t.Args) == 1 {
			return linS("n(" + e.canon(s, info, t.Args[0]) + ")"), true
		}
		// value.NewValueInt(x)
		if fn := CalleeOf(info, t); fn != nil && fn.Name() == "NewValueInt" && len(t.Args) == 1 {
			return e.intOf(s, info, t.Args[0])
		}
		// an accessor: node.ArgCount()
		if inner, inf, neg, restore := e.accessor(s, info, t); inner != nil {
			v, ok := e.intOf(s, inf, inner)
			restore()
			if ok && !neg {
				return v, true
			}
		}
	case *ast.BinaryExpr:
		a, ok1 := e.intOf(s, info, t.X)
		b, ok2 := e.intOf(s, info, t.Y)
		if ok1 && ok2 {
			switch t.Op {
			case token.ADD:
				return a.add(b), true
			case token.SUB:
				return a.sub(b), true
			}
		}
	case *ast.StarExpr:
		return e.intOf(s, info, t.X)
	}
	return lin{}, false
}

func (e *emitter) nu(s *emSt, info *types.Info, arg ast.Expr) lin {
	sym := "ν(" + e.canon(s, info, arg) + ")"
	if v, ok := s.nuFact[sym]; ok {
		return linC(v)
	}
	return linS(sym)
}

func (e *emitter) problem(s *emSt, pos token.Pos, format string, a ...any) {
	p := fmt.Sprintf("%s: ", e.c.Pos(pos)) + fmt.Sprintf(format, a...)
	for _, q := range s.problems {
		if q == p {
			return
		}
	}
	s.problems = append(s.problems, p)
}

// resultSym: what a call instruction leaves — the value of the expression the analysed function
// compiles (ν of its node), nothing in a function that does not compile an expression (a call made
// for its effect: the callee's own frame obligation says it returns bare).
func (e *emitter) resultSym() lin {
	r := e.role[e.curFn]
	if r != emRExprLike && e.curFn != e.exprDispatch {
		return linC(0)
	}
	i, k := e.nodeParamIndex(e.curFn), 0
	for _, f := range e.cur.Type.Params.List {
		for _, n := range f.Names {
			if k == i {
				return linS("ν(" + n.Name + ")")
			}
			k++
		}
		if len(f.Names) == 0 {
			k++
		}
	}
	return linC(0)
}

// problems that only say "decided at the call sites" (they make a function a piece that is analysed inline)
const emCallbackMark = "[at call sites] "

var emSpecialOps = map[string]bool{"Opcode_Label": true, "Opcode_Jump": true, "Opcode_JumpIfFalse": true, "Opcode_Return": true, "Opcode_Throw": true,
	"Opcode_SetTryLabel": true, "Opcode_Call_Imm": true, "Opcode_Spawn": true, "Opcode_Call_Val": true, "Opcode_HostCall": true}

// emInstr: an instruction as the emitter writes it: a constructor call (opcode first unless the
// constructor fixes it, operands after it) or a composite literal of an instruction type (the field of
// opcode type, the other fields in declaration order, arrays spread).
type emInstr struct {
	src    ast.Expr
	fixed  string     // the opcode when the constructor fixes it
	opExpr ast.Expr   // else the expression giving the opcode
	args   []ast.Expr // the operands
}

func (ins *emInstr) arg(i int) ast.Expr {
	if i >= 1 && i-1 < len(ins.args) {
		return ins.args[i-1]
	}
	return nil
}

// isInstrLit: a composite literal of a struct type that is an instruction.
func (e *emitter) isInstrLit(info *types.Info, x ast.Expr) *ast.CompositeLit {
	cl, ok := ast.Unparen(x).(*ast.CompositeLit)
	if !ok {
		return nil
	}
	t := info.TypeOf(cl)
	if t == nil {
		return nil
	}
	iface, _ := e.instrT.Underlying().(*types.Interface)
	if _, isStruct := t.Underlying().(*types.Struct); !isStruct || iface == nil || !types.Implements(t, iface) {
		return nil
	}
	return cl
}

func (e *emitter) instrOfLit(info *types.Info, cl *ast.CompositeLit) *emInstr {
	st := info.TypeOf(cl).Underlying().(*types.Struct)
	vals := make([]ast.Expr, st.NumFields())
	for i, el := range cl.Elts {
		if kv, ok := el.(*ast.KeyValueExpr); ok {
			if id, ok := kv.Key.(*ast.Ident); ok {
				for j := 0; j < st.NumFields(); j++ {
					if st.Field(j).Name() == id.Name {
						vals[j] = kv.Value
					}
				}
			}
			continue
		}
		if i < len(vals) {
			vals[i] = el
		}
	}
	ins := &emInstr{src: cl}
	for j := 0; j < st.NumFields(); j++ {
		v := vals[j]
		if types.Identical(st.Field(j).Type(), e.opcodeT) {
			ins.opExpr = v
			continue
		}
		if v == nil {
			continue
		}
		if inner, ok := ast.Unparen(v).(*ast.CompositeLit); ok {
			if _, isArr := info.TypeOf(inner).Underlying().(*types.Array); isArr {
				for _, el := range inner.Elts {
					if kv, ok := el.(*ast.KeyValueExpr); ok {
						el = kv.Value
					}
					ins.args = append(ins.args, el)
				}
				continue
			}
		}
		ins.args = append(ins.args, v)
	}
	return ins
}

func (e *emitter) instrOfCall(info *types.Info, cc *ast.CallExpr) *emInstr {
	ins := &emInstr{src: cc}
	if fixed, ok := e.ctorOp[CalleeOf(info, cc)]; ok {
		ins.fixed = fixed
		ins.args = cc.Args
		return ins
	}
	if len(cc.Args) > 0 {
		ins.opExpr = cc.Args[0]
		ins.args = cc.Args[1:]
	}
	return ins
}

// opcodesOf: the opcode(s) of the instruction a constructor call builds: fixed by the constructor, or
// the value of its opcode argument. sym != "": the opcode is a parameter of the function under analysis.
func (e *emitter) opcodesOf(s *emSt, info *types.Info, ins *emInstr) (ops []string, sym string, ok bool) {
	if ins.fixed != "" {
		return []string{ins.fixed}, "", true
	}
	if ins.opExpr == nil {
		return nil, "", false
	}
	alts := e.evalAlts(s, info, ins.opExpr, nil, 0)
	seen := map[string]bool{}
	for _, a := range alts {
		if a.k != evConst || !types.Identical(a.c.Type(), e.opcodeT) {
			// a parameter of the analysed function itself: symbolic
			if obj := emObjOf(info, ins.opExpr); obj != nil && s.depth == 0 {
				if v, isVar := obj.(*types.Var); isVar && e.isParamOf(v, e.cur) {
					return nil, v.Name(), true
				}
			}
			return nil, "", false
		}
		if !seen[a.c.Name()] {
			seen[a.c.Name()] = true
			ops = append(ops, a.c.Name())
		}
	}
	sort.Strings(ops)
	return ops, "", len(ops) > 0
}

func (e *emitter) isParamOf(v *types.Var, fd *ast.FuncDecl) bool {
	for _, f := range fd.Type.Params.List {
		for _, n := range f.Names {
			if e.info.Defs[n] == v {
				return true
			}
		}
	}
	return false
}

// emit applies one inserted instruction.
func (e *emitter) emit(s *emSt, info *types.Info, call *ast.CallExpr, ctor *emInstr) {
	ops, sym, ok := e.opcodesOf(s, info, ctor)
	if !ok {
		e.problem(s, call.Pos(), "cannot determine the opcode of the inserted instruction `%s`", exprStr(ctor.src))
		return
	}
	if sym != "" {
		// the effect of the helper is that of the opcode it is handed
		s.last = nil
		if s.reach {
			s.h = s.h.add(linS("δ(" + sym + ")"))
			s.stk = append(s.stk, "?")
		}
		return
	}
	if len(ops) > 1 {
		// the opcode is one of several: plain instructions with one and the same effect are one case,
		// otherwise the path splits per opcode
		same := true
		for i, op := range ops {
			eff, ok := e.vm[op]
			if emSpecialOps[op] || !ok || !eff.hasCase || (i > 0 && eff.delta != e.vm[ops[0]].delta) {
				same = false
			}
		}
		if !same {
			key, pick, ok := e.fork(s, emNonZero(s.picks), call.Pos(), len(ops))
			if !ok {
				s.dead = true
				return
			}
			s.picks[key] = pick
			s.forkCnt[call.Pos()]++
			ops = []string{ops[pick]}
			// the variable holding the opcode holds this one on the rest of the path
			if obj := emObjOf(info, ctor.opExpr); obj != nil && ctor.opExpr != nil {
				if gi, col := s.groupOf(obj); gi >= 0 {
					g := s.groups[gi]
					var keep [][]emVal
					for _, r := range g.rows {
						if r[col].k != evConst || r[col].c.Name() == ops[0] {
							keep = append(keep, r)
						}
					}
					s.groups[gi] = &emGroup{cols: g.cols, rows: keep}
				}
			}
		}
	}
	eff := e.opEffect(s, info, ops[0], call, ctor)
	if !s.reach {
		return
	}
	s.h = s.h.add(eff)
}

// opEffect returns the height effect of op and applies control effects
// (labels, jumps, reachability) to s.
func (e *emitter) opEffect(s *emSt, info *types.Info, op string, call *ast.CallExpr, ctor *emInstr) lin {
	arg := ctor.arg
	prevLast := s.last
	s.last = nil
	switch op {
	case "Opcode_Label":
		key := e.labelKey(s, info, arg(1))
		s.emitCnt[key]++
		rec := s.recorded[key]
		tops := s.recTop[key]
		topOf := func(i int) string {
			if i < len(tops) {
				return tops[i]
			}
			return "?"
		}
		if s.reach {
			e.markTails(s)
			for i, r := range rec {
				if !e.compatible(s, r, s.h) {
					e.problem(s, call.Pos(), "label %s is reached with operand-stack height %s by fall-through but %s by a jump (they differ whether or not the branch results are null)", key, s.h, r)
				} else if !e.collect && e.w1(r).eq(e.w1(s.h)) && !e.sameTop(s.stop(), topOf(i)) {
					e.problem(s, call.Pos(), "label %s is reached with %s on top of the operand stack by fall-through but with %s by a jump: the code after the label treats two different values as the same one", key, s.stop(), topOf(i))
				}
			}
		} else if len(rec) > 0 {
			s.h = rec[0]
			s.reach = true
			s.stk = nil
			if t := topOf(0); t != "" {
				s.stk = []string{t}
			}
			for i, r := range rec[1:] {
				if !e.compatible(s, r, rec[0]) {
					e.problem(s, call.Pos(), "label %s is reached with different operand-stack heights by its jumps: %s vs %s (they differ whether or not the branch results are null)", key, rec[0], r)
				} else if !e.collect && e.w1(r).eq(e.w1(rec[0])) && !e.sameTop(topOf(0), topOf(i+1)) {
					e.problem(s, call.Pos(), "label %s is reached with %s on top of the operand stack by one jump but with %s by another", key, topOf(0), topOf(i+1))
				}
			}
		}
		delete(s.recTop, key)
		if s.reach {
			s.emitted[key] = s.h
		}
		delete(s.recorded, key)
		return linC(0)
	case "Opcode_Jump", "Opcode_JumpIfFalse":
		key := e.labelKey(s, info, arg(1))
		if !s.reach {
			return linC(0)
		}
		h := s.h
		if op == "Opcode_JumpIfFalse" {
			h = h.add(linC(-1))
			s.spop(1)
		}
		if op == "Opcode_Jump" {
			e.markTails(s)
		}
		if at, ok := s.emitted[key]; ok {
			if !e.compatible(s, at, h) {
				e.problem(s, call.Pos(), "backward jump to %s with operand-stack height %s, the label was emitted at height %s: every trip leaves %s on the stack", key, h, at, h.sub(at))
			}
		} else {
			s.recorded[key] = append(s.recorded[key], h)
			s.recTop[key] = append(s.recTop[key], s.stop())
		}
		if op == "Opcode_Jump" {
			s.h = h
			s.reach = false
			return linC(0)
		}
		return linC(-1)
	case "Opcode_Return":
		if s.reach && !e.collect {
			// frame protocol: the function has consumed its parameters and holds at most its
			// result; anything that scales with another list is residue per element
			for k, n := range s.h.s {
				if strings.HasPrefix(k, "n(") {
					e.problem(s, call.Pos(), "the function epilogue is reached with %+d value(s) per element of %s left on the operand stack", n, strings.TrimSuffix(strings.TrimPrefix(k, "n("), ")"))
				}
			}
		}
		s.reach = false
		return linC(0)
	case "Opcode_Throw":
		if s.reach {
			s.h = s.h.add(linC(-1))
			s.spop(1)
		}
		s.reach = false
		return linC(0)
	case "Opcode_SetTryLabel":
		// the handler is entered with the error object above the height at this point
		if a := arg(2); a != nil && s.reach {
			key := e.labelKey(s, info, a)
			s.recorded[key] = append(s.recorded[key], s.h.add(linC(1)))
			s.recTop[key] = append(s.recTop[key], "exception object")
		}
		return linC(0)
	case "Opcode_Call_Imm":
		// consumes the arguments pushed for it, leaves the callee's result
		r := e.resultSym()
		take := lin{s: map[string]int{}}
		for k, v := range s.h.s {
			if strings.HasPrefix(k, "n(") && v > 0 {
				take.s[k] = v
			}
		}
		s.stk = []string{"op:call"}
		return r.sub(take)
	case "Opcode_Spawn", "Opcode_Call_Val", "Opcode_HostCall":
		s.stk = []string{"op:call"}
		if prevLast == nil {
			e.problem(s, call.Pos(), "%s is not immediately preceded by a push of its argument count", op)
			return linC(0)
		}
		argc := *prevLast
		switch op {
		case "Opcode_Spawn":
			return linC(-1).sub(argc).add(linC(1))
		case "Opcode_Call_Val":
			return linC(-2).sub(argc).add(e.resultSym())
		default:
			return linC(-1).sub(argc).add(linC(1))
		}
	}
	eff, ok := e.vm[op]
	if !ok || !eff.hasCase {
		e.problem(s, call.Pos(), "opcode %s has no case in the VM's run loop", op)
		return linC(0)
	}
	if eff.unknown != "" {
		e.problem(s, call.Pos(), "the stack effect of opcode %s could not be extracted from the VM: %s", op, eff.unknown)
	}
	if op == "Opcode_Copy_Push" || op == "Opcode_Cloning_Push" {
		if v, ok := e.intOf(s, info, arg(1)); ok {
			vv := v
			s.last = &vv
		}
	}
	if s.reach {
		if op == "Opcode_Duplicate" {
			s.spush(s.stop())
		} else {
			s.spop(eff.pops)
			for i := 0; i < eff.pushes; i++ {
				switch op {
				case "Opcode_Copy_Push", "Opcode_Cloning_Push":
					s.spush("const:" + strings.TrimPrefix(op, "Opcode_"))
				default:
					s.spush("op:" + strings.TrimPrefix(op, "Opcode_"))
				}
			}
		}
	}
	return linC(eff.delta)
}

// walkFn analyses one emitter function and returns the exit states.
func (e *emitter) walkFn(fd *ast.FuncDecl) (exits []*emSt, overflow bool) {
	e.tailSyms = map[string]bool{}
	e.cur = fd
	e.curFn, _ = e.info.Defs[fd.Name].(*types.Func)
	run := func() []*emSt {
		e.overflow = false
		e.inlStack = nil
		e.pending = []map[string]int{{}}
		e.seenWant = map[string]bool{emWantKey(map[string]int{}): true}
		var all []*emSt
		for runs := 0; len(e.pending) > 0; runs++ {
			if runs > 64 {
				e.overflow = true
				break
			}
			e.want = e.pending[0]
			e.pending = e.pending[1:]
			for _, x := range e.walkBody(fd, fd.Body, newEmSt()) {
				if emWantKey(emNonZero(x.picks)) == emWantKey(e.want) {
					all = append(all, x)
				}
			}
		}
		return all
	}
	e.collect = true
	run()
	e.collect = false
	exits = run()
	return exits, e.overflow
}

func emNonZero(m map[string]int) map[string]int {
	out := map[string]int{}
	for k, v := range m {
		if v != 0 {
			out[k] = v
		}
	}
	return out
}

func emWantKey(m map[string]int) string {
	var ks []string
	for k, v := range m {
		ks = append(ks, fmt.Sprintf("%s=%d", k, v))
	}
	sort.Strings(ks)
	return strings.Join(ks, ",")
}

// condFact normalises a decision: a comparison is keyed by its == form, accessors are replaced by
// what they return.
func (e *emitter) condFact(s *emSt, info *types.Info, cond ast.Expr, taken bool) (key string, val bool, expr ast.Expr, exprVal bool, inf *types.Info, restore func()) {
	expr, inf = ast.Unparen(cond), info
	var restores []func()
	restore = func() {
		for i := len(restores) - 1; i >= 0; i-- {
			restores[i]()
		}
	}
	val = taken
	for depth := 0; depth < 4; depth++ {
		if u, ok := expr.(*ast.UnaryExpr); ok && u.Op == token.NOT {
			expr, val = ast.Unparen(u.X), !val
			continue
		}
		if id, ok := expr.(*ast.Ident); ok {
			// a boolean local / parameter that holds a condition over the node
			if bound, ok := s.conds[inf.Uses[id]]; ok && inf == e.info {
				expr = ast.Unparen(bound)
				continue
			}
		}
		if c, ok := expr.(*ast.CallExpr); ok {
			if inner, i2, neg, r := e.accessor(s, inf, c); inner != nil {
				restores = append(restores, r)
				expr, inf = ast.Unparen(inner), i2
				if neg {
					val = !val
				}
				continue
			}
		}
		break
	}
	if b, ok := expr.(*ast.BinaryExpr); ok && (b.Op == token.EQL || b.Op == token.NEQ) {
		x, y := b.X, b.Y
		isConst := func(z ast.Expr) bool {
			if ConstOf(inf, z) != nil {
				return true
			}
			tv, ok := inf.Types[z]
			return ok && (tv.Value != nil || tv.IsNil())
		}
		if isConst(x) && !isConst(y) {
			x, y = y, x
		}
		key = e.canon(s, inf, x) + " == " + e.canon(s, inf, y)
		exprVal = val
		if b.Op == token.NEQ {
			val = !val
		}
		return key, val, expr, exprVal, inf, restore
	}
	return e.canon(s, inf, expr), val, expr, val, inf, restore
}

func emStable(key string) bool {
	return !strings.Contains(key, "(") || strings.Contains(key, ".Kind()") || strings.Contains(key, "len(")
}

func emHas(l []string, x string) bool {
	for _, y := range l {
		if y == x {
			return true
		}
	}
	return false
}

// tagCase: the facts about the value of a switch tag / compared expression. names: the constants of the
// clause (nil with isDefault: the default clause, others = constants of the other clauses).
func (e *emitter) tagEnter(s *emSt, tag string, names []string, isDefault bool, others []string) bool {
	if !emStable(tag) {
		return true
	}
	in, hasIn := s.tags["in:"+tag]
	out := s.tags["out:"+tag]
	if !isDefault {
		var keep []string
		for _, n := range names {
			if (!hasIn || emHas(in, n)) && !emHas(out, n) {
				keep = append(keep, n)
			}
		}
		if len(keep) == 0 {
			return false
		}
		s.tags["in:"+tag] = keep
		return true
	}
	if hasIn {
		var keep []string
		for _, n := range in {
			if !emHas(others, n) {
				keep = append(keep, n)
			}
		}
		if len(keep) == 0 {
			return false
		}
		s.tags["in:"+tag] = keep
		return true
	}
	no := append([]string(nil), out...)
	for _, n := range others {
		if !emHas(no, n) {
			no = append(no, n)
		}
	}
	sort.Strings(no)
	s.tags["out:"+tag] = no
	return true
}

// pureChain: a path of the node that may pass through accessor methods: nullary methods of the node
// types (types of other packages than the compiler's: the analyzed tree is immutable while it is
// compiled) and side-effect free accessors.
func (e *emitter) pureChain(s *emSt, info *types.Info, x ast.Expr) bool {
	switch t := ast.Unparen(x).(type) {
	case *ast.Ident:
		return t.Name != "nil" && t.Name != "true" && t.Name != "false"
	case *ast.SelectorExpr:
		return e.pureChain(s, info, t.X)
	case *ast.IndexExpr:
		return e.pureChain(s, info, t.X)
	case *ast.TypeAssertExpr:
		return e.pureChain(s, info, t.X)
	case *ast.StarExpr:
		return e.pureChain(s, info, t.X)
	case *ast.CallExpr:
		sel, ok := ast.Unparen(t.Fun).(*ast.SelectorExpr)
		if !ok || len(t.Args) != 0 || !e.pureChain(s, info, sel.X) {
			return false
		}
		if inner, _, _, restore := e.accessor(s, info, t); inner != nil {
			restore()
			return true
		}
		fn := CalleeOf(info, t)
		if fn == nil {
			return false
		}
		sig, _ := fn.Type().(*types.Signature)
		if sig == nil || sig.Recv() == nil || sig.Results().Len() != 1 {
			return false
		}
		return fn.Pkg() != nil && e.curFn != nil && fn.Pkg() != e.curFn.Pkg()
	}
	return false
}

// isCondition: obj is a boolean that is given a condition (a comparison, a negation, a conjunction
// ...) whose operands are stable, so that a later test of obj is a test of that condition.
func (e *emitter) isCondition(info *types.Info, obj types.Object, r ast.Expr) bool {
	b, ok := obj.Type().Underlying().(*types.Basic)
	if !ok || b.Info()&types.IsBoolean == 0 {
		return false
	}
	switch t := ast.Unparen(r).(type) {
	case *ast.BinaryExpr, *ast.UnaryExpr:
		_ = t
		return emStable(exprStr(r))
	}
	return false
}

// pathLike: the expression only names a part of something (selectors, indices, type assertions, dereferences).
func emPathLike(x ast.Expr) bool {
	switch t := ast.Unparen(x).(type) {
	case *ast.Ident:
		return t.Name != "nil" && t.Name != "true" && t.Name != "false"
	case *ast.SelectorExpr:
		return emPathLike(t.X)
	case *ast.IndexExpr:
		return emPathLike(t.X)
	case *ast.TypeAssertExpr:
		return emPathLike(t.X)
	case *ast.StarExpr:
		return emPathLike(t.X)
	}
	return false
}

// loopList: the list a loop runs over, as the n(...) symbol of its length, and the index variable.
func (e *emitter) loopList(s *emSt, info *types.Info, loop ast.Stmt) (sym string, idx types.Object) {
	sole := func(l lin) string {
		found := ""
		for k := range l.s {
			if strings.HasPrefix(k, "n(") {
				if found != "" && found != k {
					return ""
				}
				found = k
			}
		}
		return found
	}
	switch x := loop.(type) {
	case *ast.RangeStmt:
		if t := info.TypeOf(x.X); t != nil {
			if b, ok := t.Underlying().(*types.Basic); ok && b.Info()&types.IsInteger != 0 {
				if v, ok := e.intOf(s, info, x.X); ok {
					if k := sole(v); k != "" {
						return k, emObjOf(info, x.Key)
					}
				}
				return "n(?)", emObjOf(info, x.Key)
			}
		}
		return "n(" + e.canon(s, info, x.X) + ")", emObjOf(info, x.Key)
	case *ast.ForStmt:
		var cands []ast.Expr
		if as, ok := x.Init.(*ast.AssignStmt); ok && len(as.Lhs) == 1 && len(as.Rhs) == 1 {
			idx = emObjOf(info, as.Lhs[0])
			cands = append(cands, as.Rhs[0])
		}
		if b, ok := ast.Unparen(x.Cond).(*ast.BinaryExpr); ok && x.Cond != nil {
			cands = append(cands, b.Y, b.X)
		}
		for _, c := range cands {
			if v, ok := e.intOf(s, info, c); ok {
				if k := sole(v); k != "" {
					return k, idx
				}
			}
		}
		// a loop that consumes a slice: for len(rest) > 0 { ...; rest = rest[1:] }
		if x.Cond != nil {
			found := ""
			ast.Inspect(x.Cond, func(n ast.Node) bool {
				if c, ok := n.(*ast.CallExpr); ok {
					if id, ok := c.Fun.(*ast.Ident); ok && id.Name == "len" && len(c.Args) == 1 {
						found = "n(" + e.canon(s, info, c.Args[0]) + ")"
					}
				}
				return true
			})
			if found != "" {
				return found, idx
			}
		}
	}
	return "n(?)", idx
}

func emListOf(sym string) string { return strings.TrimSuffix(strings.TrimPrefix(sym, "n("), ")") }

// walkBody walks a function body (the analysed function, an inlined helper or an inlined function
// literal) from state init and returns the states at its normal exits.
func (e *emitter) walkBody(fd *ast.FuncDecl, body *ast.BlockStmt, init *emSt) (exits []*emSt) {
	info := e.info
	depth := init.depth
	var handleCall func(s *emSt, call *ast.CallExpr)
	var visit func(s *emSt, n ast.Node)
	// the instruction a constructor call (or a wrapper returning one) builds
	resolveCtor := func(s *emSt, x ast.Expr) *emInstr {
		x = ast.Unparen(x)
		if id, ok := x.(*ast.Ident); ok {
			// an instruction variable: what it was assigned on this path, else the (only) constructor
			// call assigned to it anywhere in the function
			obj := info.Uses[id]
			if c, ok := s.insts[obj]; ok {
				x = ast.Unparen(c)
			} else {
				var found ast.Expr
				ast.Inspect(fd.Body, func(n ast.Node) bool {
					if as, ok := n.(*ast.AssignStmt); ok {
						for i, l := range as.Lhs {
							if lid, ok := l.(*ast.Ident); ok && (info.Uses[lid] == obj || info.Defs[lid] == obj) && i < len(as.Rhs) {
								if cc, ok := ast.Unparen(as.Rhs[i]).(*ast.CallExpr); ok {
									if cf := CalleeOf(info, cc); cf != nil && e.ctors[cf] {
										found = cc
									}
								}
							}
						}
					}
					return true
				})
				if found == nil {
					return nil
				}
				x = found
			}
		}
		for i := 0; i < 4; i++ {
			if cl := e.isInstrLit(info, x); cl != nil {
				return e.instrOfLit(info, cl)
			}
			cc, ok := x.(*ast.CallExpr)
			if !ok {
				return nil
			}
			// a conversion to the instruction interface
			if info.Types[cc.Fun].IsType() && len(cc.Args) == 1 {
				x = ast.Unparen(cc.Args[0])
				continue
			}
			cf := CalleeOf(info, cc)
			if cf == nil || !e.ctors[cf] {
				return nil
			}
			// a wrapper: `return <constructor call / instruction literal>` — continue inside with the parameters
			// bound (the constructors of the package themselves are such wrappers around a literal: they are
			// used by position, opcode first, unless they fix the opcode)
			if di, ok := e.decls[cf]; ok && len(di.fd.Body.List) == 1 {
				if r, ok := di.fd.Body.List[0].(*ast.ReturnStmt); ok && len(r.Results) == 1 {
					if inner, ok := ast.Unparen(r.Results[0]).(*ast.CallExpr); ok {
						if icf := CalleeOf(info, inner); icf != nil && e.ctors[icf] {
							e.bindParams(s, di.fd, cc)
							x = inner
							continue
						}
					}
				}
			}
			return e.instrOfCall(info, cc)
		}
		return nil
	}
	handleCall = func(s *emSt, call *ast.CallExpr) {
		if s.dead {
			return
		}
		fn := CalleeOf(info, call)
		if fn == nil {
			// a local holding a function literal
			if obj := emObjOf(info, call.Fun); obj != nil {
				if lit, ok := s.funcs[obj]; ok {
					e.inlineLit(s, fd, lit, call)
				} else if v, isVar := obj.(*types.Var); isVar && s.depth == 0 && e.isParamOf(v, e.cur) {
					if _, isFunc := v.Type().Underlying().(*types.Signature); isFunc {
						// a callback: what it emits is known only where the function is called
						e.problem(s, call.Pos(), emCallbackMark+"calls its parameter %s: what that emits is known at the call sites only", v.Name())
					}
				}
			}
			return
		}
		if ai, isInsert := e.inserts[fn]; isInsert && ai < len(call.Args) {
			if ctor := resolveCtor(s, call.Args[ai]); ctor != nil {
				h0, n0, t0 := s.h, len(s.stk), s.stop()
				e.emit(s, info, call, ctor)
				if !(s.h.eq(h0) && len(s.stk) == n0 && s.stop() == t0) {
					s.tails = map[string]bool{} // the instruction touched the stack: previous results are consumed or buried
				}
				return
			}
			if obj := emObjOf(info, call.Args[ai]); obj != nil && s.depth == 0 {
				if v, isVar := obj.(*types.Var); isVar && e.isParamOf(v, e.cur) {
					// the function is handed the instruction: its effect is that of the instruction
					s.last = nil
					if s.reach {
						s.h = s.h.add(linS("δ(" + v.Name() + ")"))
						s.stk = append(s.stk, "?")
						s.tails = map[string]bool{}
					}
					return
				}
			}
			e.problem(s, call.Pos(), "insert() of an instruction the analysis cannot identify: %s", exprStr(call.Args[ai]))
			return
		}
		cfd, isEmitter := e.fns[fn]
		if !isEmitter {
			return
		}
		switch e.role[fn] {
		case emRHelper, emRFragment:
			e.inlineCall(s, call, fn, cfd)
			return
		}
		if !s.reach {
			return
		}
		s.last = nil
		switch e.role[fn] {
		case emRFrame, emRDriver:
			// emits into another function's instruction list
			return
		}
		// statements may leave their construct by a jump to a label that was emitted at the
		// statement-level base height (break/continue → loop labels, return → cleanup label):
		// a loop that keeps a value on the operand stack across its body leaks it on every
		// such exit. So inside compileStmt, a body block / nested statement is compiled at
		// the height the statement started with.
		if e.curFn != nil && e.role[e.curFn] == emRStmtLike && !e.collect && (e.role[fn] == emRBlockLike || fn == e.stmtDispatch) {
			if h1 := e.w1(s.h); len(h1.s) != 0 || h1.c != 0 {
				e.problem(s, call.Pos(), "%s is compiled while the statement holds %s extra value(s) on the operand stack: a break/continue/return inside it jumps to a label emitted at the base height and leaves them behind", exprStr(call), s.h)
			}
		}
		// conventions (induction hypotheses, each checked on its own function)
		switch e.role[fn] {
		case emRStmtLike:
			s.tails = map[string]bool{}
			return
		default:
			// compileExpr(x), compileBlock(x, _), compileIfExpr(node), compileCallExpr(node), compileInfixExpr(node)
			if a := e.nodeArg(fn, call); a != nil {
				v := e.nu(s, info, a)
				s.h = s.h.add(v)
				s.tails = map[string]bool{}
				for k := range v.s {
					s.tails[k] = true
					s.spush(k)
				}
				if len(v.s) == 0 && v.c > 0 {
					s.spush("op:value")
				}
			}
		}
	}
	visit = func(s *emSt, n ast.Node) {
		ast.Inspect(n, func(m ast.Node) bool {
			switch x := m.(type) {
			case *ast.FuncLit:
				return false
			case *ast.CallExpr:
				for _, a := range x.Args {
					visit(s, a)
				}
				if sel, ok := ast.Unparen(x.Fun).(*ast.SelectorExpr); ok {
					visit(s, sel.X)
				}
				handleCall(s, x)
				return false
			}
			return true
		})
	}
	// loop heads: the statement that initialises a for loop
	initOf := map[ast.Stmt]*ast.ForStmt{}
	ast.Inspect(body, func(n ast.Node) bool {
		if f, ok := n.(*ast.ForStmt); ok && f.Init != nil {
			initOf[f.Init] = f
		}
		return true
	})
	assign := func(s *emSt, lhs, rhs []ast.Expr, define bool) {
		for i, l := range lhs {
			if i >= len(rhs) {
				break
			}
			r := ast.Unparen(rhs[i])
			if rc, ok := r.(*ast.CallExpr); ok {
				if fn := CalleeOf(info, rc); fn != nil && e.isNameMaker(fn) {
					s.created[e.canon(s, info, l)] = true
					continue
				}
				if cf := CalleeOf(info, rc); cf != nil && e.ctors[cf] {
					if obj := emObjOf(info, l); obj != nil {
						s.insts[obj] = rc
					}
					continue
				}
			}
			if cl := e.isInstrLit(info, r); cl != nil {
				if obj := emObjOf(info, l); obj != nil {
					s.insts[obj] = cl
				}
				continue
			}
			if lit, ok := r.(*ast.FuncLit); ok {
				if obj := emObjOf(info, l); obj != nil {
					s.funcs[obj] = lit
				}
				continue
			}
			if _, ok := ast.Unparen(l).(*ast.IndexExpr); ok {
				if emPathLike(r) {
					if rk := e.canon(s, info, r); s.created[rk] {
						s.alias[e.canon(s, info, l)] = rk
						continue
					}
				}
			}
			obj := emObjOf(info, l)
			if obj == nil {
				continue
			}
			delete(s.insts, obj)
			delete(s.funcs, obj)
			delete(s.conds, obj)
			if e.isCondition(info, obj, r) {
				s.conds[obj] = r
			}
			if v, ok := e.intOf(s, info, r); ok {
				s.ints[obj] = v
			} else {
				delete(s.ints, obj)
			}
			// a local naming a path of the node (or a created label)
			if emPathLike(r) || e.pureChain(s, info, r) {
				txt := e.canon(s, info, r)
				if s.created[txt] || !types.Identical(obj.Type(), e.opcodeT) {
					s.env[obj] = txt
					continue
				}
			}
			if _, had := s.env[obj]; had {
				delete(s.env, obj)
			}
			if !define {
				// remembered decisions about the old value are void
				name := e.canon(s, info, l)
				for k := range s.nuFact {
					if strings.HasPrefix(k, "cond:") && emMentions(k, name) {
						delete(s.nuFact, k)
					}
				}
				for k := range s.tags {
					if emMentions(k, name) {
						delete(s.tags, k)
					}
				}
			}
		}
	}
	var w *Walker[*emSt]
	w = &Walker[*emSt]{
		Clone:    emClone,
		MaxPaths: 60000,
		IsPanic:  func(s ast.Stmt) bool { return e.diverges(info, s) },
		OnStmt: func(s *emSt, stmt ast.Stmt) (*emSt, bool) {
			if s.dead {
				return s, false
			}
			switch x := stmt.(type) {
			case *ast.AssignStmt:
				// calls on the right-hand side run first
				visit(s, stmt)
				if x.Tok == token.ASSIGN || x.Tok == token.DEFINE {
					// label creation / aliases / integer locals
					assign(s, x.Lhs, x.Rhs, x.Tok == token.DEFINE)
				}
				e.bindValues(s, info, stmt)
				if f := initOf[stmt]; f != nil {
					if sym, idx := e.loopList(s, info, f); idx != nil && sym != "n(?)" {
						s.env[idx] = "i‹" + emListOf(sym) + "›"
					}
				}
			case *ast.DeclStmt:
				visit(s, stmt)
				if gd, ok := x.Decl.(*ast.GenDecl); ok && gd.Tok == token.VAR {
					for _, sp := range gd.Specs {
						if vs, ok := sp.(*ast.ValueSpec); ok && len(vs.Values) == len(vs.Names) {
							var lhs []ast.Expr
							for _, n := range vs.Names {
								lhs = append(lhs, n)
							}
							assign(s, lhs, vs.Values, true)
						}
					}
				}
				e.bindValues(s, info, stmt)
			case *ast.IncDecStmt:
				if obj := emObjOf(info, x.X); obj != nil {
					delete(s.env, obj)
					if v, ok := s.ints[obj]; ok {
						if x.Tok == token.INC {
							s.ints[obj] = v.add(linC(1))
						} else {
							s.ints[obj] = v.add(linC(-1))
						}
					}
				}
				e.bindValues(s, info, stmt)
			default:
				visit(s, stmt)
			}
			return s, !s.dead
		},
		OnDefer: func(s *emSt, d *ast.DeferStmt) (*emSt, bool) { return s, true },
		OnCond: func(s *emSt, cond ast.Expr, taken bool) (*emSt, bool) {
			if s.dead {
				return s, false
			}
			// calls inside the condition run first
			visit(s, cond)
			if s.dead {
				return s, false
			}
			key, val, expr, exprVal, inf, restore := e.condFact(s, info, cond, taken)
			defer restore()
			// the same side-effect-free condition over the (immutable) node decides the same way
			// every time it is evaluated on one path
			ck := "cond:" + key
			if prev, ok := s.nuFact[ck]; ok {
				if (prev == 1) != val {
					return s, false
				}
			} else if emStable(ck) {
				v := 0
				if val {
					v = 1
				}
				s.nuFact[ck] = v
			}
			if b, ok := expr.(*ast.BinaryExpr); ok && (b.Op == token.NEQ || b.Op == token.EQL) {
				x, y := b.X, b.Y
				if ConstOf(inf, x) != nil && ConstOf(inf, y) == nil {
					x, y = y, x
				}
				if k := ConstOf(inf, y); k != nil {
					eq := val
					// the value of a switch tag / compared expression
					tag := e.canon(s, inf, x)
					if eq {
						if !e.tagEnter(s, tag, []string{k.Name()}, false, nil) {
							return s, false
						}
					} else {
						if !e.tagEnter(s, tag, nil, true, []string{k.Name()}) {
							return s, false
						}
					}
					// X.Type().Kind() != ast.NullTypeKind  →  ν(X) = 1 / 0
					if k.Name() == "NullTypeKind" && strings.HasSuffix(tag, ".Type().Kind()") {
						sym := "ν(" + strings.TrimSuffix(tag, ".Type().Kind()") + ")"
						v := 0
						if !eq {
							v = 1
						}
						s.nuFact[sym] = v
						// substitute in the current height
						if n, ok := s.h.s[sym]; ok {
							s.h = s.h.add(lin{c: n * v, s: map[string]int{sym: -n}})
						}
					}
				}
			}
			if !e.filterCond(s, inf, expr, exprVal) {
				return s, false
			}
			return s, true
		},
		OnCase: func(s *emSt, sw *ast.SwitchStmt, vals, others []ast.Expr) (*emSt, bool) {
			if s.dead {
				return s, false
			}
			names := func(l []ast.Expr) ([]string, bool) {
				var out []string
				for _, v := range l {
					k := ConstOf(info, v)
					if k == nil {
						return nil, false
					}
					out = append(out, k.Name())
				}
				return out, true
			}
			// remember the outermost Kind()/operator case for grouping
			if s.caseKey == "" && depth == 0 {
				ns, _ := names(vals)
				if vals == nil {
					ns = []string{"default"}
				}
				if len(ns) > 0 {
					s.caseKey = "case " + strings.Join(ns, ",")
				}
			}
			if sw.Tag != nil {
				tag := e.canon(s, info, sw.Tag)
				vn, ok1 := names(vals)
				on, ok2 := names(others)
				if vals != nil && ok1 {
					if !e.tagEnter(s, tag, vn, false, nil) {
						return s, false
					}
				} else if vals == nil && ok2 {
					if !e.tagEnter(s, tag, nil, true, on) {
						return s, false
					}
				}
				if !e.caseFeasible(s, info, sw.Tag, vals, others) {
					return s, false
				}
			}
			return s, true
		},
	}
	// a type switch over a node is a switch over its kind: `case ast.AnalyzedIntLiteralExpression` is
	// `case ast.IntLiteralExpressionKind` (the constant the type's Kind() method returns)
	w.OnTypeCase = func(s *emSt, sw *ast.TypeSwitchStmt, cc *ast.CaseClause) (*emSt, bool) {
		if s.dead {
			return s, false
		}
		x := emTypeSwitchOperand(sw)
		if x == nil {
			return s, true
		}
		if obj := info.Implicits[cc]; obj != nil {
			s.env[obj] = e.canon(s, info, x)
		}
		kinds := func(l []ast.Expr) ([]string, bool) {
			var out []string
			for _, t := range l {
				k := e.kindOfType(info.TypeOf(t))
				if k == "" {
					return nil, false
				}
				out = append(out, k)
			}
			return out, true
		}
		tag := e.canon(s, info, x) + ".Kind()"
		if cc.List != nil {
			if ks, ok := kinds(cc.List); ok {
				if s.caseKey == "" && depth == 0 {
					s.caseKey = "case " + strings.Join(ks, ",")
				}
				return s, e.tagEnter(s, tag, ks, false, nil)
			}
			return s, true
		}
		var others []ast.Expr
		for _, c := range sw.Body.List {
			others = append(others, c.(*ast.CaseClause).List...)
		}
		if s.caseKey == "" && depth == 0 {
			s.caseKey = "case default"
		}
		if ks, ok := kinds(others); ok {
			return s, e.tagEnter(s, tag, nil, true, ks)
		}
		return s, true
	}
	w.LoopSummary = func(loop ast.Stmt, before *emSt, ends []*emSt) (*emSt, bool) {
		post := emClone(before)
		e.forgetAssigned(post, info, loop)
		if len(ends) == 0 {
			return post, true
		}
		listSym, _ := e.loopList(before, info, loop)
		var d0 lin
		mixed := false
		for i, en := range ends {
			d := linC(0)
			if en.reach && before.reach {
				d = e.w1(en.h.sub(before.h))
			}
			if en.world != 0 {
				post.world = en.world
			}
			if i == 0 {
				d0 = d
			} else if !d.eq(d0) {
				mixed = true
			}
			// merge label bookkeeping and problems
			if i == 0 {
				post.recorded = map[string][]lin{}
			}
			for k, v := range en.recorded {
				post.recorded[k] = v
			}
			for k, v := range en.nuFact {
				if _, ok := post.nuFact[k]; !ok && !strings.HasPrefix(k, "cond:") {
					post.nuFact[k] = v
				}
			}
			for k, v := range en.emitted {
				post.emitted[k] = v
			}
			for k, v := range en.emitCnt {
				if v > post.emitCnt[k] {
					post.emitCnt[k] = v
				}
			}
			for k, v := range en.created {
				post.created[k] = v
			}
			for k, v := range en.alias {
				post.alias[k] = v
			}
			for k, v := range en.inst {
				if v > post.inst[k] {
					post.inst[k] = v
				}
			}
			for k, v := range en.picks {
				if _, ok := before.picks[k]; !ok {
					post.picks[k] = v
					post.problems = append(post.problems, fmt.Sprintf("%s: a helper that ends in several different ways is used inside an emitter loop: not supported", e.c.Pos(loop.Pos())))
				}
			}
			for _, p := range en.problems {
				dup := false
				for _, q := range post.problems {
					if p == q {
						dup = true
					}
				}
				if !dup {
					post.problems = append(post.problems, p)
				}
			}
			post.reach = en.reach
		}
		if mixed {
			// element-dependent effect (e.g. a parameter loop that skips some elements): opaque total
			post.h = before.h.add(linS("Σ(" + emListOf(listSym) + ")"))
		} else if len(d0.s) != 0 {
			post.problems = append(post.problems, fmt.Sprintf("%s: per-iteration stack effect of the emitter loop over %s is symbolic (%s): not supported", e.c.Pos(loop.Pos()), listSym, d0))
		} else if d0.c != 0 {
			post.h = before.h.add(lin{s: map[string]int{listSym: d0.c}})
		} else if post.reach {
			post.h = before.h
		}
		post.tails = map[string]bool{}
		post.stk = append([]string(nil), before.stk...)
		if mixed || d0.c != 0 || len(d0.s) != 0 {
			post.stk = append(post.stk, "?")
		}
		// iterations that start unreachable (each begins at a label) but may END reachable —
		// some path through the body does not leave by a jump — make the code after the loop
		// reachable by fall-through from the last iteration, with that iteration's stack
		if !before.reach {
			for _, en := range ends {
				if en.reach {
					post.reach = true
					post.h = en.h
					post.stk = append([]string(nil), en.stk...)
					post.tails = map[string]bool{}
					for k, v := range en.tails {
						post.tails[k] = v
					}
					break
				}
			}
		}
		for k := range post.recorded {
			if _, ok := post.recTop[k]; !ok {
				for _, en := range ends {
					if t, ok := en.recTop[k]; ok {
						post.recTop[k] = t
					}
				}
			}
		}
		return post, true
	}
	w.OnRange = func(s *emSt, r *ast.RangeStmt) (*emSt, bool) {
		// the index / element of a generic iteration
		sym, _ := e.loopList(s, info, r)
		list := emListOf(sym)
		idx := "i‹" + list + "›"
		if k := emObjOf(info, r.Key); k != nil {
			if t := info.TypeOf(r.X); t != nil {
				if _, isMap := t.Underlying().(*types.Map); !isMap {
					s.env[k] = idx
				}
			}
			delete(s.ints, k)
			s.unbind(k)
		}
		if v := emObjOf(info, r.Value); v != nil {
			s.env[v] = list + "[" + idx + "]"
			delete(s.ints, v)
			s.unbind(v)
		}
		return s, true
	}
	w.Exit = func(s *emSt, o outcome) {
		if o.kind == cPanic || s.dead {
			return
		}
		// deferred calls run at the exit, last registered first
		for _, d := range w.PendingDefers() {
			if lit, ok := ast.Unparen(d.Call.Fun).(*ast.FuncLit); ok {
				e.inlineLit(s, fd, lit, d.Call)
			} else {
				handleCall(s, d.Call)
			}
			if s.dead {
				return
			}
		}
		if depth == 0 && s.reach {
			e.markTails(s)
		}
		if depth == 0 && (e.curFn == e.exprDispatch || e.curFn == e.stmtDispatch) {
			// the case of a dispatcher a path belongs to: the kind(s) its node has on this path, whether
			// that was decided by a switch clause or by a comparison
			if i := e.nodeParamIndex(e.curFn); i >= 0 {
				k := 0
				for _, f := range fd.Type.Params.List {
					for _, n := range f.Names {
						if k == i {
							if in := s.tags["in:"+n.Name+".Kind()"]; len(in) > 0 {
								s.caseKey = "case " + strings.Join(in, ",")
							}
						}
						k++
					}
					if len(f.Names) == 0 {
						k++
					}
				}
			}
		}
		s.ret = nil
		if depth > 0 && o.kind == cReturn && len(o.ret.Results) > 0 {
			s.ret = e.evalRows(s, info, o.ret.Results)
			if s.ret == nil {
				s.ret = [][]emVal{make([]emVal, len(o.ret.Results))}
			}
		}
		exits = append(exits, s)
	}
	w.Run(body, init)
	if w.Overflow {
		e.overflow = true
	}
	return exits
}

// emTypeSwitchOperand: the X of `switch x := X.(type)` / `switch X.(type)`.
func emTypeSwitchOperand(sw *ast.TypeSwitchStmt) ast.Expr {
	var x ast.Expr
	switch a := sw.Assign.(type) {
	case *ast.ExprStmt:
		x = a.X
	case *ast.AssignStmt:
		if len(a.Rhs) == 1 {
			x = a.Rhs[0]
		}
	}
	if ta, ok := ast.Unparen(x).(*ast.TypeAssertExpr); ok && ta.Type == nil {
		return ta.X
	}
	return nil
}

// kindOfType: the name of the constant the Kind() method of a node type returns ("" when it has none).
func (e *emitter) kindOfType(t types.Type) string {
	if t == nil {
		return ""
	}
	ms := types.NewMethodSet(t)
	for i := 0; i < ms.Len(); i++ {
		fn, ok := ms.At(i).Obj().(*types.Func)
		if !ok || fn.Name() != "Kind" {
			continue
		}
		di, ok := e.decls[fn]
		if !ok || len(di.fd.Body.List) != 1 {
			return ""
		}
		r, ok := di.fd.Body.List[0].(*ast.ReturnStmt)
		if !ok || len(r.Results) != 1 {
			return ""
		}
		if k := ConstOf(di.info, r.Results[0]); k != nil {
			return k.Name()
		}
	}
	return ""
}

func emMentions(text, name string) bool {
	isIdent := func(c byte) bool {
		return c == '_' || c >= 'a' && c <= 'z' || c >= 'A' && c <= 'Z' || c >= '0' && c <= '9' || c >= 0x80
	}
	for i := 0; i+len(name) <= len(text); i++ {
		if text[i:i+len(name)] == name && (i == 0 || !isIdent(text[i-1])) && (i+len(name) == len(text) || !isIdent(text[i+len(name)])) {
			return true
		}
	}
	return false
}

// nodeArg: the argument of a call that carries the node the callee compiles (the first parameter
// that is not the compiler itself).
func (e *emitter) nodeArg(fn *types.Func, call *ast.CallExpr) ast.Expr {
	i := e.nodeParamIndex(fn)
	if i < 0 || i >= len(call.Args) {
		return nil
	}
	return call.Args[i]
}

func (e *emitter) nodeParamIndex(fn *types.Func) int {
	sig, _ := fn.Type().(*types.Signature)
	if sig == nil {
		return -1
	}
	first := -1
	for i := 0; i < sig.Params().Len(); i++ {
		t := sig.Params().At(i).Type()
		if n := recvNamed(t); n != nil && n.Obj().Name() == "Compiler" && n.Obj().Pkg() == fn.Pkg() {
			continue
		}
		if first < 0 {
			first = i
		}
		// the node: the first parameter of a node type, wherever it stands
		if e.isNodeType(t) {
			return i
		}
	}
	return first
}

func (e *emitter) isNodeType(t types.Type) bool {
	for _, nt := range e.nodeTs {
		if types.Identical(t, nt) {
			return true
		}
	}
	if types.IsInterface(t) {
		return false
	}
	for _, ni := range e.nodeIs {
		if types.Implements(t, ni) {
			return true
		}
	}
	return false
}

// bindParams binds the receiver and the parameters of fd to the arguments of call: canonical
// texts, tracked values, integer forms, function literals.
func (e *emitter) bindParams(s *emSt, fd *ast.FuncDecl, call *ast.CallExpr) {
	info := e.info
	type b struct {
		obj  types.Object
		arg  ast.Expr
		txt  string
		alts []emVal
		old  types.Object
		iv   *lin
		lit  *ast.FuncLit
		inst ast.Expr
	}
	var bs []b
	if fd.Recv != nil && len(fd.Recv.List) > 0 && len(fd.Recv.List[0].Names) > 0 {
		if sel, ok := ast.Unparen(call.Fun).(*ast.SelectorExpr); ok {
			bs = append(bs, b{obj: info.Defs[fd.Recv.List[0].Names[0]], txt: e.canon(s, info, sel.X)})
		}
	}
	i := 0
	for _, f := range fd.Type.Params.List {
		_, variadic := f.Type.(*ast.Ellipsis)
		for _, n := range f.Names {
			if i < len(call.Args) && !variadic {
				a := call.Args[i]
				x := b{obj: info.Defs[n], arg: a, txt: e.canon(s, info, a)}
				if ro := emObjOf(info, a); ro != nil {
					if gi, _ := s.groupOf(ro); gi >= 0 {
						x.old = ro
					}
					if lit, ok := s.funcs[ro]; ok {
						x.lit = lit
					}
				}
				if lit, ok := ast.Unparen(a).(*ast.FuncLit); ok {
					x.lit = lit
				}
				if cc, ok := ast.Unparen(a).(*ast.CallExpr); ok {
					if cf := CalleeOf(info, cc); cf != nil && e.ctors[cf] {
						x.inst = cc
					}
				} else if cl := e.isInstrLit(info, a); cl != nil {
					x.inst = cl
				} else if ro := emObjOf(info, a); ro != nil {
					if cc, ok := s.insts[ro]; ok {
						x.inst = cc
					}
				}
				x.alts = e.evalAlts(s, info, a, nil, 0)
				if v, ok := e.intOf(s, info, a); ok {
					x.iv = &v
				}
				bs = append(bs, x)
			}
			i++
		}
		if len(f.Names) == 0 {
			i++
		}
	}
	for _, x := range bs {
		if x.obj == nil {
			continue
		}
		s.env[x.obj] = x.txt
		delete(s.ints, x.obj)
		delete(s.funcs, x.obj)
		delete(s.insts, x.obj)
		if x.arg == nil {
			continue
		}
		if x.iv != nil {
			s.ints[x.obj] = *x.iv
		}
		if x.lit != nil {
			s.funcs[x.obj] = x.lit
		}
		if x.inst != nil {
			s.insts[x.obj] = x.inst
		}
		delete(s.conds, x.obj)
		if e.isCondition(info, x.obj, x.arg) {
			s.conds[x.obj] = x.arg
		} else if ro := emObjOf(info, x.arg); ro != nil {
			if c, ok := s.conds[ro]; ok {
				s.conds[x.obj] = c
			}
		}
		if x.old != nil {
			s.aliasCol(x.obj, x.old)
			continue
		}
		allKnown := len(x.alts) > 0
		for _, a := range x.alts {
			if !a.known() {
				allKnown = false
			}
		}
		if allKnown {
			var rows [][]emVal
			for _, a := range x.alts {
				rows = append(rows, []emVal{a})
			}
			s.bindRows([]types.Object{x.obj}, rows)
		} else {
			s.unbind(x.obj)
		}
	}
}

// inlineCall analyses a call of a helper by walking the helper's body in the caller's state.
func (e *emitter) inlineCall(s *emSt, call *ast.CallExpr, fn *types.Func, fd *ast.FuncDecl) {
	// a helper may call itself (with other arguments: `f(NotEqual)` = `f(Equal)` + Not), a few levels deep
	depthOfFn := 0
	for _, g := range e.inlStack {
		if g == fn {
			depthOfFn++
		}
	}
	if depthOfFn >= 3 {
		e.problem(s, call.Pos(), "%s is recursive through helpers more than 3 levels deep: not supported", fn.Name())
		return
	}
	if len(e.inlStack) > 8 {
		e.problem(s, call.Pos(), "helpers nested deeper than 8 calls: not supported")
		return
	}
	before := emClone(s)
	e.bindParams(s, fd, call)
	s.inst[fn]++
	s.depth++
	e.inlStack = append(e.inlStack, fn)
	exits := e.walkBody(fd, fd.Body, s)
	e.inlStack = e.inlStack[:len(e.inlStack)-1]
	e.mergeExits(s, before, exits, call, fn.Name())
}

// inlineLit: the same for a function literal (a deferred closure, a local closure that is called).
func (e *emitter) inlineLit(s *emSt, fd *ast.FuncDecl, lit *ast.FuncLit, call *ast.CallExpr) {
	if len(e.inlStack) > 6 {
		e.problem(s, call.Pos(), "helpers nested deeper than 6 calls: not supported")
		return
	}
	before := emClone(s)
	e.bindParams(s, &ast.FuncDecl{Type: lit.Type}, call)
	s.depth++
	e.inlStack = append(e.inlStack, nil)
	exits := e.walkBody(fd, lit.Body, s)
	e.inlStack = e.inlStack[:len(e.inlStack)-1]
	e.mergeExits(s, before, exits, call, "the function literal")
}

// fork: the path in state s splits k ways at pos. Returns the way this run takes (the others are
// scheduled as further runs); ok=false when this run asks for a way that does not exist here.
func (e *emitter) fork(s *emSt, made map[string]int, pos token.Pos, k int) (key string, pick int, ok bool) {
	key = fmt.Sprintf("%d#%d", pos, s.forkCnt[pos])
	if w, has := e.want[key]; has {
		return key, w, w < k
	}
	for j := 1; j < k; j++ {
		w2 := map[string]int{}
		for k2, v := range made {
			w2[k2] = v
		}
		w2[key] = j
		if wk := emWantKey(w2); !e.seenWant[wk] {
			e.seenWant[wk] = true
			e.pending = append(e.pending, w2)
		}
	}
	return key, 0, true
}

// mergeExits continues the caller's path after an inlined body: *s becomes the join of the body's
// exits. Exits that agree on everything the caller can observe (height, reachability, labels) are
// one continuation; a body that ends in several observable ways at this call site is reported.
func (e *emitter) mergeExits(s, before *emSt, exits []*emSt, call *ast.CallExpr, name string) {
	pos := call.Pos()
	if len(exits) == 0 {
		// the helper never returns here
		problems := s.problems
		*s = *before
		s.problems = problems
		s.dead = true
		return
	}
	sig := func(x *emSt) string {
		var b []string
		b = append(b, fmt.Sprint(x.reach), fmt.Sprint(x.world))
		if x.reach {
			b = append(b, x.h.String())
		}
		var ks []string
		for k, v := range x.recorded {
			var hs []string
			for _, h := range v {
				hs = append(hs, h.String())
			}
			ks = append(ks, "r:"+k+"="+strings.Join(hs, ","))
		}
		for k, v := range x.emitted {
			ks = append(ks, "e:"+k+"="+v.String())
		}
		for k, v := range x.emitCnt {
			ks = append(ks, fmt.Sprintf("c:%s=%d", k, v))
		}
		for k := range x.created {
			ks = append(ks, "m:"+k)
		}
		for k, v := range x.alias {
			ks = append(ks, "a:"+k+"="+v)
		}
		sort.Strings(ks)
		// what the helper returns (an opcode for the caller to emit, ...)
		var rs []string
		for _, r := range x.ret {
			var vs []string
			for _, v := range r {
				vs = append(vs, v.key())
			}
			rs = append(rs, strings.Join(vs, ","))
		}
		sort.Strings(rs)
		ks = append(ks, "ret:"+strings.Join(uniqStrings(rs), ";"))
		return strings.Join(append(b, ks...), "|")
	}
	groups := map[string][]*emSt{}
	var order []string
	for _, x := range exits {
		k := sig(x)
		if _, ok := groups[k]; !ok {
			order = append(order, k)
		}
		groups[k] = append(groups[k], x)
	}
	// several observable ends: the caller's path forks; this run follows the way it is asked to
	pick := 0
	if len(order) > 1 {
		made := emNonZero(before.picks)
		for _, x := range exits {
			for k, v := range x.picks {
				if v != 0 {
					made[k] = v
				}
			}
		}
		key, p, ok := e.fork(before, made, pos, len(order))
		if !ok {
			problems := s.problems
			*s = *before
			s.problems = problems
			s.dead = true
			return
		}
		pick = p
		n := before.forkCnt[pos]
		defer func() {
			s.picks[key] = pick
			s.forkCnt[pos] = n + 1
		}()
	}
	first := groups[order[pick]]
	m := emClone(first[0])
	for _, x := range first[1:] {
		for k, v := range x.picks {
			m.picks[k] = v
		}
		m.ret = append(append([][]emVal(nil), m.ret...), x.ret...)
		if x.stop() != m.stop() && len(m.stk) > 0 {
			m.stk[len(m.stk)-1] = "?"
		}
		if (x.last == nil) != (m.last == nil) || (x.last != nil && !x.last.eq(*m.last)) {
			m.last = nil
		}
		for k := range m.tails {
			if !x.tails[k] {
				delete(m.tails, k)
			}
		}
		// what the ways disagree on is known only as far as it was known before the call
		for k, v := range m.nuFact {
			if w, ok := x.nuFact[k]; !ok || w != v {
				delete(m.nuFact, k)
				if b, ok := before.nuFact[k]; ok {
					m.nuFact[k] = b
				}
			}
		}
		for k, v := range m.tags {
			if w, ok := x.tags[k]; !ok || strings.Join(w, ",") != strings.Join(v, ",") {
				delete(m.tags, k)
				if b, ok := before.tags[k]; ok {
					m.tags[k] = b
				}
			}
		}
		for k, v := range x.inst {
			if v > m.inst[k] {
				m.inst[k] = v
			}
		}
	}
	var probs []string
	for _, x := range first {
		for _, p := range x.problems {
			dup := false
			for _, q := range probs {
				if p == q {
					dup = true
				}
			}
			if !dup {
				probs = append(probs, p)
			}
		}
	}
	m.problems = probs
	if m.ret != nil {
		m.callRes[call] = m.ret
	} else {
		delete(m.callRes, call)
	}
	m.ret = nil
	// what belongs to the callee's frame ends with it
	m.env, m.groups, m.ints, m.funcs, m.insts, m.conds = before.env, before.groups, before.ints, before.funcs, before.insts, before.conds
	m.depth, m.caseKey = before.depth, before.caseKey
	*s = *m
}

func ruleEmitBalance(c *Ctx) []Obligation {
	p := c.Pkg("homescript/compiler")
	info := p.TypesInfo
	e := &emitter{c: c, info: info, vm: emVMEffects(c), ctors: map[*types.Func]bool{}, fns: map[*types.Func]*ast.FuncDecl{},
		divMemo: map[*types.Func]bool{}, lnames: map[types.Object]string{}, owner: map[types.Object]*ast.FuncDecl{}}
	var obs []Obligation
	// roles
	opT := p.Types.Scope().Lookup("Opcode")
	instrT := p.Types.Scope().Lookup("Instruction")
	if opT == nil || instrT == nil {
		fatalf("anchor unresolved: compiler.Opcode / compiler.Instruction")
	}
	e.opcodeT = opT.Type()
	e.instrT = instrT.Type()
	e.ctorOp = map[*types.Func]string{}
	e.buildIndex()
	iface, _ := instrT.Type().Underlying().(*types.Interface)
	for _, fd := range AllFuncDecls(p) {
		fn, _ := info.Defs[fd.Name].(*types.Func)
		if fn == nil {
			continue
		}
		sig := fn.Type().(*types.Signature)
		if sig.Recv() != nil || sig.Results().Len() != 1 || iface == nil {
			continue
		}
		rt := sig.Results().At(0).Type()
		if !types.Implements(rt, iface) && !types.Identical(rt, instrT.Type()) {
			continue
		}
		if _, isStruct := rt.Underlying().(*types.Struct); !isStruct && !types.Identical(rt, instrT.Type()) {
			continue
		}
		e.ctors[fn] = true
		if sig.Params().Len() == 0 || !types.Identical(sig.Params().At(0).Type(), opT.Type()) {
			// the opcode is fixed inside the constructor
			ast.Inspect(fd.Body, func(n ast.Node) bool {
				if kv, ok := n.(*ast.KeyValueExpr); ok {
					if k := ConstOf(info, kv.Value); k != nil && types.Identical(k.Type(), opT.Type()) {
						e.ctorOp[fn] = k.Name()
					}
				}
				return true
			})
		}
	}
	// insert: the functions that take an instruction and append it to a list of instructions, directly
	// (`append(list, instruction)`) or by handing it to another such function; e.inserts maps each to
	// the position of its instruction parameter
	e.inserts = map[*types.Func]int{}
	instrParam := func(fd *ast.FuncDecl) (types.Object, int) {
		k := 0
		for _, f := range fd.Type.Params.List {
			t := info.TypeOf(f.Type)
			for _, n := range f.Names {
				if t != nil && types.Identical(t, instrT.Type()) {
					return info.Defs[n], k
				}
				k++
			}
			if len(f.Names) == 0 {
				k++
			}
		}
		return nil, -1
	}
	for changed := true; changed; {
		changed = false
		for _, fd := range AllFuncDecls(p) {
			fn, _ := info.Defs[fd.Name].(*types.Func)
			if fn == nil {
				continue
			}
			if _, done := e.inserts[fn]; done {
				continue
			}
			param, idx := instrParam(fd)
			if param == nil {
				continue
			}
			// only a plain forwarder counts as "the insert": the instruction is handed on exactly once, by a
			// statement at the top level of the body (anything else is an ordinary emitter function,
			// analysed inline with its instruction parameter bound to the caller's constructor call)
			uses := 0
			ast.Inspect(fd.Body, func(n ast.Node) bool {
				if id, ok := n.(*ast.Ident); ok && info.Uses[id] == param {
					uses++
				}
				return true
			})
			if uses != 1 {
				continue
			}
			found := false
			for _, top := range fd.Body.List {
				switch top.(type) {
				case *ast.ExprStmt, *ast.AssignStmt, *ast.ReturnStmt, *ast.DeclStmt:
				default:
					continue
				}
				ast.Inspect(top, func(n ast.Node) bool {
					if _, isLit := n.(*ast.FuncLit); isLit {
						return false
					}
					call, ok := n.(*ast.CallExpr)
					if !ok || found {
						return !found
					}
					isParam := func(x ast.Expr) bool {
						id, ok := ast.Unparen(x).(*ast.Ident)
						return ok && info.Uses[id] == param
					}
					if id, ok := ast.Unparen(call.Fun).(*ast.Ident); ok && id.Name == "append" && len(call.Args) >= 2 {
						if _, isB := info.Uses[id].(*types.Builtin); isB {
							if ct := info.TypeOf(call); ct != nil {
								if sl, ok := ct.Underlying().(*types.Slice); ok && types.Identical(sl.Elem(), instrT.Type()) {
									for _, a := range call.Args[1:] {
										if isParam(a) {
											found = true
										}
									}
								}
							}
						}
					}
					if g := CalleeOf(info, call); g != nil {
						if gi, ok := e.inserts[g]; ok && gi < len(call.Args) && isParam(call.Args[gi]) {
							found = true
						}
					}
					return !found
				})
			}
			if found {
				e.inserts[fn] = idx
				changed = true
			}
		}
	}
	if len(e.inserts) == 0 || len(e.ctors) == 0 {
		fatalf("anchor unresolved: the compiler's insert method / instruction constructors")
	}
	// emitter functions: functions of the package (methods of the compiler or not) that (transitively) call insert
	calls := map[*types.Func][]*types.Func{}
	decl := map[*types.Func]*ast.FuncDecl{}
	for _, fd := range AllFuncDecls(p) {
		fn, _ := info.Defs[fd.Name].(*types.Func)
		if fn == nil {
			continue
		}
		decl[fn] = fd
		ast.Inspect(fd.Body, func(n ast.Node) bool {
			if call, ok := n.(*ast.CallExpr); ok {
				if g := CalleeOf(info, call); g != nil {
					calls[fn] = append(calls[fn], g)
				}
			}
			return true
		})
	}
	emits := map[*types.Func]bool{}
	for fn := range e.inserts {
		emits[fn] = true
	}
	for changed := true; changed; {
		changed = false
		for fn, cs := range calls {
			if emits[fn] {
				continue
			}
			for _, g := range cs {
				if emits[g] {
					emits[fn] = true
					changed = true
					break
				}
			}
		}
	}
	for fn := range emits {
		if _, isInsert := e.inserts[fn]; !isInsert && decl[fn] != nil {
			e.fns[fn] = decl[fn]
			e.indexLocals(decl[fn])
		}
	}
	e.classify(c, calls)
	// VM effect table as evidence + inconsistent opcodes
	var names []string
	for k := range e.vm {
		names = append(names, k)
	}
	sort.Strings(names)
	var tbl []string
	for _, k := range names {
		v := e.vm[k]
		tbl = append(tbl, strings.TrimPrefix(k, "Opcode_")+":"+strings.Join(v.variants, "|"))
	}
	obs = append(obs, Obligation{Key: "VM opcode stack-effect table", Status: Info, Detail: strings.Join(tbl, " ")})
	// node kinds typed null by construction: analyzer builds them with ResultType: NewNullType(...)
	nullKinds := emNullTypedNodes(c)
	// 1. leaf helpers (role emRHelper: emitter functions from which no recursive emitter function is
	// reachable): one stack effect on all paths. Their callers analyse them inline, with the actual
	// arguments, so this obligation is about the helper taken alone (parameters symbolic).
	var helpers []*types.Func
	for fn, r := range e.role {
		if r == emRHelper {
			helpers = append(helpers, fn)
		}
	}
	sort.Slice(helpers, func(i, j int) bool { return helpers[i].Name() < helpers[j].Name() })
	for _, fn := range helpers {
		fd := e.fns[fn]
		name := fn.Name()
		exits, overflow := e.walkFn(fd)
		o := Obligation{Key: "compiler." + name + "|one stack effect on all paths", Pos: c.Pos(fd.Pos()), Nontrivial: true}
		var effs []string
		var problems []string
		for _, x := range exits {
			for _, p := range x.problems {
				if !strings.Contains(p, emCallbackMark) {
					problems = append(problems, p)
				}
			}
			if !x.reach {
				continue
			}
			effs = append(effs, x.h.String())
		}
		effs = uniqStrings(effs)
		switch {
		case overflow:
			o.Status, o.Detail = Undecided, "path overflow"
		case len(problems) > 0:
			o.Status, o.Detail = Violated, strings.Join(uniqStrings(problems), "; ")
		case len(effs) > 1:
			// not one effect: the callers, which analyse the helper inline with their arguments, decide
			// whether each way it can end balances there
			o.Status, o.Detail = Discharged, "effects "+strings.Join(effs, " | ")+" (decided at the call sites)"
		case len(effs) == 0:
			// every path ends in a jump / return instruction: the effect shows where the helper is used
			o.Status, o.Detail = Discharged, "no path falls through (each ends in a jump)"
		default:
			o.Status, o.Detail = Discharged, "effect "+effs[0]
		}
		obs = append(obs, o)
	}
	// 2. every other emitter function, grouped by outermost case
	var fnames []string
	byName := map[string]*types.Func{}
	for fn := range e.fns {
		fnames = append(fnames, fn.Name())
		byName[fn.Name()] = fn
	}
	sort.Strings(fnames)
	// A function typed like "compiles ONE node" (expression-like, block-like, statement-like) is used by
	// its callers through that convention and checked against it here. When it is internally consistent
	// but does not net what the convention says, it is not such a function but a piece of a construct
	// that happens to take the node (the arguments of a call, the call instruction without them): it is
	// then analysed inline at its call sites like any other piece, and the callers decide.
	e.demoted = map[*types.Func]bool{}
	analyse := func(name string) (out []Obligation, netOnly bool) {
		fn := byName[name]
		netBad, internalBad := false, false
		role := e.role[fn]
		fd := e.fns[fn]
		exits, overflow := e.walkFn(fd)
		if overflow {
			out = append(out, Obligation{Key: "compiler." + name, Pos: c.Pos(fd.Pos()), Status: Undecided, Detail: "path enumeration overflow"})
			return out, false
		}
		groups := map[string][]*emSt{}
		for _, x := range exits {
			k := x.caseKey
			if fn != e.exprDispatch && fn != e.stmtDispatch {
				k = ""
			}
			groups[k] = append(groups[k], x)
		}
		var gkeys []string
		for k := range groups {
			gkeys = append(gkeys, k)
		}
		sort.Strings(gkeys)
		// an expression-like function over a node kind the analyzer types as null nets nothing
		nullTyped := false
		if role == emRExprLike {
			if i := e.nodeParamIndex(fn); i >= 0 {
				if n := recvNamed(fn.Type().(*types.Signature).Params().At(i).Type()); n != nil {
					kind := strings.TrimSuffix(strings.TrimPrefix(n.Obj().Name(), "Analyzed"), "Expression") + "ExpressionKind"
					for _, nk := range nullKinds {
						if nk == kind {
							nullTyped = true
						}
					}
				}
			}
		}
		for _, gk := range gkeys {
			xs := groups[gk]
			key := "compiler." + name
			if gk != "" {
				key += "|" + gk
			}
			o := Obligation{Key: key + "|balanced", Pos: c.Pos(fd.Pos()), Nontrivial: true}
			var problems, effs []string
			for _, x := range xs {
				problems = append(problems, x.problems...)
				for _, p := range x.problems {
					if strings.Contains(p, emCallbackMark) {
						netBad = true
					} else {
						internalBad = true
					}
				}
				// labels jumped to but never emitted (created here)
				for lk, rec := range x.recorded {
					if x.created[lk] && len(rec) > 0 {
						internalBad = true
						problems = append(problems, fmt.Sprintf("label %s is jumped to but not emitted on this path", lk))
					}
				}
				for lk, n := range x.emitCnt {
					if n > 1 {
						internalBad = true
						problems = append(problems, fmt.Sprintf("label %s is emitted %d times on one path", lk, n))
					}
				}
				if !x.reach {
					continue
				}
				effs = append(effs, x.h.String())
				h1, h0 := e.w1(x.h), e.w0(x.h)
				hasTail := false
				for k := range x.h.s {
					if e.tailSyms[k] {
						hasTail = true
					}
				}
				valueLike, want := false, 0
				switch {
				case fn == e.exprDispatch:
					valueLike = true
					for _, nk := range nullKinds {
						if strings.Contains(gk, nk) {
							valueLike = false
						}
					}
					if strings.Contains(gk, "default") || strings.Contains(gk, "UnknownExpressionKind") {
						continue
					}
				case role == emRExprLike || role == emRBlockLike:
					valueLike = !nullTyped
				case role == emRStmtLike:
				case role == emRFragment:
					// a piece of a construct: what it nets is decided where it is used (it is analysed inline
					// at its call sites); here only its internal consistency (labels, loops)
					continue
				case role == emRFrame:
					// frame protocol: consumes its parameters, leaves the body's result; anything that
					// scales with another list is residue per element
					for k, n := range x.h.s {
						if strings.HasPrefix(k, "n(") {
							internalBad = true
							problems = append(problems, fmt.Sprintf("the prologue/epilogue leaves %+d value(s) per element of %s on the operand stack", n, strings.TrimSuffix(strings.TrimPrefix(k, "n("), ")")))
						}
					}
					continue
				default:
					continue
				}
				bad := func(msg string) {
					netBad = true
					problems = append(problems, fmt.Sprintf("nets %s on the operand stack: %s", x.h, msg))
				}
				if len(h1.s) != 0 || len(h0.s) != 0 {
					bad("a per-element residue remains (" + h1.String() + ")")
					continue
				}
				if valueLike {
					// non-null result ⇒ exactly one value; null result (tail results null) ⇒ none
					ok1 := h1.c == 1
					ok0 := h0.c == 0
					switch {
					case x.world == 1 && !ok1:
						bad(fmt.Sprintf("= %d when the result is non-null, expected 1", h1.c))
					case x.world == 2 && !ok0:
						bad(fmt.Sprintf("= %d when the result is null, expected 0", h0.c))
					case x.world == 0 && hasTail && !(ok1 && ok0):
						bad(fmt.Sprintf("= %d when the result is non-null (expected 1) and %d when it is null (expected 0)", h1.c, h0.c))
					case x.world == 0 && !hasTail && !ok1 && role != emRBlockLike:
						bad(fmt.Sprintf("= %d when every sub-expression yields a value, expected 1", h1.c))
					case x.world == 0 && !hasTail && role == emRBlockLike && h1.c != 0:
						bad(fmt.Sprintf("a block without result expression nets %d, expected 0", h1.c))
					}
				} else {
					_ = want
					switch {
					case x.world == 2 && h0.c != 0:
						bad(fmt.Sprintf("= %d, expected 0", h0.c))
					case x.world != 2 && h1.c != 0 && !(hasTail && h0.c == 0):
						bad(fmt.Sprintf("= %d when every sub-expression yields a value, expected 0", h1.c))
					}
				}
			}
			problems = uniqStrings(problems)
			if role == emRFragment {
				var keep []string
				for _, p := range problems {
					if !strings.Contains(p, emCallbackMark) {
						keep = append(keep, p)
					}
				}
				problems = keep
			}
			if len(problems) > 0 {
				o.Status, o.Detail = Violated, strings.Join(problems, "; ")
			} else {
				o.Status, o.Detail = Discharged, "effects "+strings.Join(uniqStrings(effs), " | ")
				if e.demoted[fn] {
					o.Detail += " (not the value of its node as a whole: a piece of a construct, analysed inline at its call sites)"
				}
			}
			out = append(out, o)
		}
		return out, netBad && !internalBad
	}
	demotable := func(fn *types.Func) bool {
		if fn == e.exprDispatch || fn == e.stmtDispatch || e.byDriver[fn] {
			return false
		}
		switch e.role[fn] {
		case emRExprLike, emRBlockLike, emRStmtLike:
			return true
		}
		return false
	}
	runAll := func() (results map[string][]Obligation, netOnly map[*types.Func]bool, violated map[string]bool) {
		results, netOnly, violated = map[string][]Obligation{}, map[*types.Func]bool{}, map[string]bool{}
		for _, name := range fnames {
			fn := byName[name]
			switch e.role[fn] {
			case emRHelper, emRDriver:
				continue
			}
			out, no := analyse(name)
			results[name] = out
			netOnly[fn] = no
			for _, o := range out {
				if o.Status == Violated || o.Status == Undecided {
					violated[o.Key] = true
				}
			}
		}
		return
	}
	results, netOnly, violated := runAll()
	tried := map[*types.Func]bool{}
	for iter := 0; iter < 12; iter++ {
		var cand *types.Func
		for _, name := range fnames {
			if fn := byName[name]; netOnly[fn] && demotable(fn) && !tried[fn] {
				cand = fn
				break
			}
		}
		if cand == nil {
			break
		}
		tried[cand] = true
		oldRole := e.role[cand]
		e.role[cand] = emRFragment
		e.demoted[cand] = true
		r2, n2, v2 := runAll()
		worse := false
		for k := range v2 {
			if !violated[k] {
				worse = true
			}
		}
		if worse {
			// its callers do not balance with it either: it is what its type says, and broken
			e.role[cand] = oldRole
			delete(e.demoted, cand)
			continue
		}
		results, netOnly, violated = r2, n2, v2
	}
	for _, name := range fnames {
		obs = append(obs, results[name]...)
	}
	return obs
}

// emNullTypedNodes: expression kinds the analyzer always types as null
// (composite literals AnalyzedXExpression{... ResultType: ast.NewNullType(..)}).
func emNullTypedNodes(c *Ctx) []string {
	p := c.Pkg("homescript/analyzer")
	info := p.TypesInfo
	var out []string
	for _, f := range p.Syntax {
		ast.Inspect(f, func(n ast.Node) bool {
			cl, ok := n.(*ast.CompositeLit)
			if !ok {
				return true
			}
			t := info.TypeOf(cl)
			nt, ok := t.(*types.Named)
			if !ok || !strings.HasPrefix(nt.Obj().Name(), "Analyzed") || !strings.HasSuffix(nt.Obj().Name(), "Expression") {
				return true
			}
			for _, el := range cl.Elts {
				kv, ok := el.(*ast.KeyValueExpr)
				if !ok {
					continue
				}
				if k, ok := kv.Key.(*ast.Ident); ok && k.Name == "ResultType" {
					kind := strings.TrimSuffix(strings.TrimPrefix(nt.Obj().Name(), "Analyzed"), "Expression") + "ExpressionKind"
					isNullCtor := func(x ast.Expr) bool {
						call, ok := ast.Unparen(x).(*ast.CallExpr)
						if !ok {
							return false
						}
						fn := CalleeOf(info, call)
						return fn != nil && (fn.Name() == "NewNullType" || fn.Name() == "NewNeverType")
					}
					if isNullCtor(kv.Value) {
						out = append(out, kind)
					} else if id, ok := ast.Unparen(kv.Value).(*ast.Ident); ok {
						// a local whose every assignment is a null/never constructor
						obj := info.Uses[id]
						all, n := true, 0
						ast.Inspect(f, func(m ast.Node) bool {
							if as, ok := m.(*ast.AssignStmt); ok {
								for i, l := range as.Lhs {
									if lid, ok := l.(*ast.Ident); ok && (info.Uses[lid] == obj || info.Defs[lid] == obj) && i < len(as.Rhs) {
										n++
										if !isNullCtor(as.Rhs[i]) {
											all = false
										}
									}
								}
							}
							return true
						})
						if all && n > 0 {
							out = append(out, kind)
						}
					}
				}
			}
			return true
		})
	}
	// literal kinds whose Type() method returns NewNullType
	ap := c.Pkg("homescript/analyzer/ast")
	for _, fd := range AllFuncDecls(ap) {
		if fd.Name.Name != "Type" || fd.Recv == nil || len(fd.Body.List) != 1 {
			continue
		}
		if ret, ok := fd.Body.List[0].(*ast.ReturnStmt); ok && len(ret.Results) == 1 {
			if call, ok := ast.Unparen(ret.Results[0]).(*ast.CallExpr); ok {
				if id, ok := call.Fun.(*ast.Ident); ok && id.Name == "NewNullType" {
					rn := recvTypeName(fd.Recv.List[0].Type)
					out = append(out, strings.TrimSuffix(strings.TrimPrefix(rn, "Analyzed"), "Expression")+"ExpressionKind")
				}
			}
		}
	}
	return uniqStrings(out)
}

// ---- roles of the emitter functions (resolved through parameter types and the call graph, never by name)

type emRole int

const (
	emRNone      emRole = iota
	emRHelper           // leaf helper: no recursive emitter function is reachable from it; analysed inline at its call sites
	emRExprLike         // its node parameter is an analyzed expression: nets the value of that expression
	emRBlockLike        // its node parameter is the analyzed block: nets the value of its result expression
	emRStmtLike         // compiles a statement (or is called by a driver): nets nothing
	emRFrame            // its node parameter is a function definition: emits into that function's own list
	emRDriver           // entry points above the recursion that call frame functions: emit into other lists
	emRFragment         // inside the recursion, but its first parameter is not ONE node (a list of nodes, two operands, the expression interface handed on by the dispatcher): a piece of a construct, analysed inline at its call sites
)

// isNameMaker: a non-emitting method of the compiler that maps a string to a (mangled) string —
// label / variable / function names are created by such calls.
func (e *emitter) isNameMaker(fn *types.Func) bool {
	sig, _ := fn.Type().(*types.Signature)
	if sig == nil || sig.Recv() == nil || sig.Results().Len() != 1 {
		return false
	}
	if _, emits := e.fns[fn]; emits {
		return false
	}
	if _, isInsert := e.inserts[fn]; isInsert {
		return false
	}
	if recvNamed(sig.Recv().Type()) == nil || recvNamed(sig.Recv().Type()).Obj().Name() != "Compiler" {
		return false
	}
	b, ok := sig.Results().At(0).Type().Underlying().(*types.Basic)
	return ok && b.Kind() == types.String
}

// kindSwitchSize: the number of constants named by the clauses of the largest switch over
// <first node parameter>.Kind() in the body: the dispatcher over an interface is the function that
// has such a switch.
func (e *emitter) kindSwitchSize(fn *types.Func) int {
	fd := e.fns[fn]
	i := e.nodeParamIndex(fn)
	if fd == nil || i < 0 {
		return 0
	}
	var param types.Object
	k := 0
	for _, f := range fd.Type.Params.List {
		for _, n := range f.Names {
			if k == i {
				param = e.info.Defs[n]
			}
			k++
		}
		if len(f.Names) == 0 {
			k++
		}
	}
	if param == nil {
		return 0
	}
	best := 0
	ast.Inspect(fd.Body, func(n ast.Node) bool {
		if ts, ok := n.(*ast.TypeSwitchStmt); ok {
			if id, ok := ast.Unparen(emTypeSwitchOperand(ts)).(*ast.Ident); ok && e.info.Uses[id] == param {
				cnt := 0
				for _, cl := range ts.Body.List {
					cnt += len(cl.(*ast.CaseClause).List)
				}
				if cnt > best {
					best = cnt
				}
			}
			return true
		}
		sw, ok := n.(*ast.SwitchStmt)
		if !ok || sw.Tag == nil {
			return true
		}
		tag := ast.Unparen(sw.Tag)
		if id, ok := tag.(*ast.Ident); ok {
			// a local holding the kind: its defining expression
			obj := e.info.Uses[id]
			ast.Inspect(fd.Body, func(m ast.Node) bool {
				if as, ok := m.(*ast.AssignStmt); ok && len(as.Lhs) == len(as.Rhs) {
					for i, l := range as.Lhs {
						if lid, ok := l.(*ast.Ident); ok && e.info.Defs[lid] == obj && obj != nil {
							tag = ast.Unparen(as.Rhs[i])
						}
					}
				}
				return true
			})
		}
		call, ok := tag.(*ast.CallExpr)
		if !ok {
			return true
		}
		sel, ok := ast.Unparen(call.Fun).(*ast.SelectorExpr)
		if !ok {
			return true
		}
		if id, ok := ast.Unparen(sel.X).(*ast.Ident); !ok || e.info.Uses[id] != param {
			return true
		}
		cnt := 0
		for _, cl := range sw.Body.List {
			cnt += len(cl.(*ast.CaseClause).List)
		}
		if cnt > best {
			best = cnt
		}
		return true
	})
	return best
}

func (e *emitter) classify(c *Ctx, calls map[*types.Func][]*types.Func) {
	e.role = map[*types.Func]emRole{}
	ap := c.Pkg("homescript/analyzer/ast")
	look := func(n string) types.Type {
		o := ap.Types.Scope().Lookup(n)
		if o == nil {
			fatalf("anchor unresolved: analyzer/ast.%s", n)
		}
		return o.Type()
	}
	exprT, stmtT, blockT, fnDefT := look("AnalyzedExpression"), look("AnalyzedStatement"), look("AnalyzedBlock"), look("AnalyzedFunctionDefinition")
	exprI, _ := exprT.Underlying().(*types.Interface)
	stmtI, _ := stmtT.Underlying().(*types.Interface)
	if exprI == nil || stmtI == nil {
		fatalf("anchor unresolved: analyzer/ast.AnalyzedExpression / AnalyzedStatement is not an interface")
	}
	e.nodeTs = []types.Type{exprT, stmtT, blockT, fnDefT}
	e.nodeIs = []*types.Interface{exprI, stmtI}
	// reachability inside the emitter set
	reach := map[*types.Func]map[*types.Func]bool{}
	var dfs func(root, fn *types.Func)
	dfs = func(root, fn *types.Func) {
		for _, g := range calls[fn] {
			if _, ok := e.fns[g]; !ok {
				continue
			}
			if !reach[root][g] {
				reach[root][g] = true
				dfs(root, g)
			}
		}
	}
	for fn := range e.fns {
		reach[fn] = map[*types.Func]bool{}
		dfs(fn, fn)
	}
	inCycle := func(fn *types.Func) bool { return reach[fn][fn] }
	fromCycle := map[*types.Func]bool{}
	for fn := range e.fns {
		if inCycle(fn) {
			for g := range reach[fn] {
				fromCycle[g] = true
			}
		}
	}
	p0 := func(fn *types.Func) types.Type {
		i := e.nodeParamIndex(fn)
		if i < 0 {
			return nil
		}
		return fn.Type().(*types.Signature).Params().At(i).Type()
	}
	var order []*types.Func
	for fn := range e.fns {
		order = append(order, fn)
	}
	sort.Slice(order, func(i, j int) bool { return order[i].Pos() < order[j].Pos() })
	// frames: functions over a function definition that start a new instruction list. A function over
	// a function definition that is only called by such functions is a piece of the frame (its prologue,
	// its epilogue): it emits into the same list and is analysed inline like any other piece.
	cand := map[*types.Func]bool{}
	for _, fn := range order {
		if t := p0(fn); t != nil && types.Identical(t, fnDefT) {
			cand[fn] = true
		}
	}
	for changed := true; changed; {
		changed = false
		for _, fn := range order {
			if !cand[fn] {
				continue
			}
			callers, fromFrame := 0, 0
			for g, cs := range calls {
				if g == fn {
					continue
				}
				for _, c := range cs {
					if c == fn {
						callers++
						if cand[g] {
							fromFrame++
						}
						break
					}
				}
			}
			if callers > 0 && callers == fromFrame {
				delete(cand, fn)
				changed = true
			}
		}
	}
	for _, fn := range order {
		if cand[fn] {
			e.role[fn] = emRFrame
		}
	}
	// drivers: not reachable from the recursion, calling a frame function or another driver
	for changed := true; changed; {
		changed = false
		for _, fn := range order {
			if e.role[fn] != emRNone || fromCycle[fn] || inCycle(fn) {
				continue
			}
			for _, g := range calls[fn] {
				if e.role[g] == emRFrame || e.role[g] == emRDriver {
					e.role[fn] = emRDriver
					changed = true
					break
				}
			}
		}
	}
	// the dispatchers: the functions over the expression / statement interface with the largest switch
	// over the kind of their node (other functions that take the interface — an arm of the dispatcher
	// extracted with the node still untyped — are pieces, see emRFragment)
	bestE, bestS := 0, 0
	for _, fn := range order {
		if e.role[fn] != emRNone {
			continue
		}
		t := p0(fn)
		if t == nil {
			continue
		}
		if n := e.kindSwitchSize(fn); n > 0 {
			if types.Identical(t, exprT) && n > bestE {
				e.exprDispatch, bestE = fn, n
			}
			if types.Identical(t, stmtT) && n > bestS {
				e.stmtDispatch, bestS = fn, n
			}
		}
	}
	if e.exprDispatch == nil || e.stmtDispatch == nil {
		fatalf("anchor unresolved: the compiler's expression / statement dispatch functions (methods taking ast.AnalyzedExpression / ast.AnalyzedStatement and switching over its kind)")
	}
	for _, fn := range order {
		if e.role[fn] != emRNone {
			continue
		}
		reachesCycle := false
		for g := range reach[fn] {
			if inCycle(g) {
				reachesCycle = true
			}
		}
		t := p0(fn)
		// drivers are not analysed, so what they call directly must be closed by its own
		// obligation (balanced by role), not merely analysed inline
		calledByDriver := false
		for d, r := range e.role {
			if r == emRDriver {
				for _, g := range calls[d] {
					if g == fn {
						calledByDriver = true
					}
				}
			}
		}
		if e.byDriver == nil {
			e.byDriver = map[*types.Func]bool{}
		}
		e.byDriver[fn] = calledByDriver
		concrete := t != nil && !types.IsInterface(t)
		switch {
		case fn == e.exprDispatch:
			e.role[fn] = emRExprLike
		case fn == e.stmtDispatch:
			e.role[fn] = emRStmtLike
		case !reachesCycle && !inCycle(fn) && !calledByDriver:
			e.role[fn] = emRHelper
		case t != nil && types.Identical(t, blockT):
			e.role[fn] = emRBlockLike
		case concrete && types.Implements(t, exprI):
			e.role[fn] = emRExprLike
		case concrete && types.Implements(t, stmtI), calledByDriver:
			e.role[fn] = emRStmtLike
		default:
			e.role[fn] = emRFragment
		}
	}
}

// emVMDispatch resolves the VM's instruction dispatcher by role: the method of runtime.Core
// whose body holds the switch with the most clauses over compiler.Opcode constants.
func emVMDispatch(c *Ctx) *ast.FuncDecl {
	p := c.Pkg("homescript/runtime")
	cp := c.Pkg("homescript/compiler")
	opObj := cp.Types.Scope().Lookup("Opcode")
	if opObj == nil {
		fatalf("anchor unresolved: compiler.Opcode")
	}
	var best *ast.FuncDecl
	bestN := 0
	for _, fd := range AllFuncDecls(p) {
		if fd.Recv == nil || fd.Body == nil || recvTypeName(fd.Recv.List[0].Type) != "Core" {
			continue
		}
		ast.Inspect(fd.Body, func(n ast.Node) bool {
			sw, ok := n.(*ast.SwitchStmt)
			if !ok {
				return true
			}
			cnt := 0
			for _, st := range sw.Body.List {
				cc, _ := st.(*ast.CaseClause)
				if cc == nil {
					continue
				}
				for _, v := range cc.List {
					if k := ConstOf(p.TypesInfo, v); k != nil && types.Identical(k.Type(), opObj.Type()) {
						cnt++
					}
				}
			}
			if cnt > bestN {
				best, bestN = fd, cnt
			}
			return true
		})
	}
	if best == nil || bestN < 20 {
		fatalf("anchor unresolved: the runtime.Core method dispatching on compiler.Opcode (instruction switch)")
	}
	return best
}
