package main

import (
	"fmt"
	"go/ast"
	"go/constant"
	"go/token"
	"go/types"
	"sort"
)

// Resolution helpers of R-prec that follow data flow instead of statement
// shape. Sub-checks (c) and (d) (operand powers) are, per path, a subset of what
// R-prec-operand-source decides; they are kept as the statement of DESIGN
// Appendix C, facts 3 and 4, but no longer look for `expression(<ident>)`
// written inside the builder: the calls of the climbing entry are taken from
// the provenance engine of the r2parse rules, which follows transparent
// wrappers of the entry (wrapperOf), locals, and tokens held in locals.

// ---- single definitions of locals (alias resolution) ----

type pxLocalDefs struct {
	def   map[types.Object]ast.Expr
	multi map[types.Object]bool
}

var pxLocalDefsCache = map[*ast.FuncDecl]*pxLocalDefs{}

func pxLocalDefsOf(info *types.Info, fd *ast.FuncDecl) *pxLocalDefs {
	if d := pxLocalDefsCache[fd]; d != nil {
		return d
	}
	d := &pxLocalDefs{def: map[types.Object]ast.Expr{}, multi: map[types.Object]bool{}}
	pxLocalDefsCache[fd] = d
	if fd == nil || fd.Body == nil {
		return d
	}
	set := func(o types.Object, e ast.Expr) {
		if o == nil {
			return
		}
		if _, dup := d.def[o]; dup || e == nil {
			d.multi[o] = true
		}
		if e != nil {
			d.def[o] = e
		}
	}
	ast.Inspect(fd.Body, func(n ast.Node) bool {
		switch x := n.(type) {
		case *ast.AssignStmt:
			for i, l := range x.Lhs {
				id, ok := ast.Unparen(l).(*ast.Ident)
				if !ok || id.Name == "_" {
					continue
				}
				o := info.ObjectOf(id)
				if len(x.Lhs) == len(x.Rhs) && (x.Tok == token.DEFINE || x.Tok == token.ASSIGN) {
					set(o, x.Rhs[i])
				} else {
					set(o, nil)
				}
			}
		case *ast.ValueSpec:
			for i, nm := range x.Names {
				if len(x.Values) == len(x.Names) {
					set(info.Defs[nm], x.Values[i])
				} else if len(x.Values) > 0 {
					set(info.Defs[nm], nil)
				}
			}
		case *ast.IncDecStmt:
			if id, ok := ast.Unparen(x.X).(*ast.Ident); ok {
				set(info.ObjectOf(id), nil)
			}
		case *ast.RangeStmt:
			for _, e := range []ast.Expr{x.Key, x.Value} {
				if id, ok := e.(*ast.Ident); ok {
					set(info.ObjectOf(id), nil)
				}
			}
		case *ast.UnaryExpr:
			if x.Op == token.AND {
				if id, ok := ast.Unparen(x.X).(*ast.Ident); ok {
					set(info.ObjectOf(id), nil)
				}
			}
		}
		return true
	})
	return d
}

// single returns the only definition of a local (nil: none / several).
func (d *pxLocalDefs) single(o types.Object) ast.Expr {
	if o == nil || d.multi[o] {
		return nil
	}
	return d.def[o]
}

// isCursorTok: e is <recv>.<cursor> (the current token itself).
func (r *pxRoles) isCursorTok(info *types.Info, e ast.Expr) bool {
	sel, ok := ast.Unparen(e).(*ast.SelectorExpr)
	return ok && info.Uses[sel.Sel] == r.curF
}

// curKindRead: e denotes the kind of the current token — written directly, or
// through a local that holds the cursor token / its kind (single definition).
// pos is where the cursor is read.
func (r *pxRoles) curKindRead(info *types.Info, fd *ast.FuncDecl, e ast.Expr) (token.Pos, bool) {
	e = ast.Unparen(e)
	if r.isCurKind(info, e) {
		return e.Pos(), true
	}
	if fd == nil {
		return token.NoPos, false
	}
	defs := pxLocalDefsOf(info, fd)
	switch x := e.(type) {
	case *ast.Ident:
		if def := defs.single(info.Uses[x]); def != nil {
			if def == e {
				return token.NoPos, false
			}
			return r.curKindRead(info, fd, def)
		}
	case *ast.SelectorExpr:
		if info.Uses[x.Sel] != r.kindF {
			return token.NoPos, false
		}
		if id, ok := ast.Unparen(x.X).(*ast.Ident); ok {
			if def := defs.single(info.Uses[id]); def != nil && r.isCursorTok(info, def) {
				return def.Pos(), true
			}
		}
	}
	return token.NoPos, false
}

// isPowerCall: call is <kind>.M() for a method M of the token kind type that
// returns the two binding powers (identified by signature; today: Prec).
func (r *pxRoles) isPowerCall(info *types.Info, call *ast.CallExpr) (recv ast.Expr, ok bool) {
	fn := CalleeOf(info, call)
	if fn == nil || len(call.Args) != 0 {
		return nil, false
	}
	sig := fn.Type().(*types.Signature)
	if sig.Recv() == nil || !types.Identical(sig.Recv().Type(), r.kindT) || sig.Results().Len() != 2 {
		return nil, false
	}
	if pf := r.powerFn(); pf != nil && fn != pf {
		return nil, false
	}
	sel, isSel := ast.Unparen(call.Fun).(*ast.SelectorExpr)
	if !isSel {
		return nil, false
	}
	return sel.X, true
}

// powerFn: the binding-power method of the token kind type, by role: the
// parameterless method of the token kind type that returns two integers (if
// several do, the one called Prec).
func (r *pxRoles) powerFn() *types.Func {
	if r.powFn != nil {
		return r.powFn
	}
	var cands []*types.Func
	for i := 0; i < r.kindT.NumMethods(); i++ {
		m := r.kindT.Method(i)
		sig := m.Type().(*types.Signature)
		if sig.Params().Len() != 0 || sig.Results().Len() != 2 {
			continue
		}
		ints := true
		for j := 0; j < 2; j++ {
			if b, ok := sig.Results().At(j).Type().Underlying().(*types.Basic); !ok || b.Info()&types.IsInteger == 0 {
				ints = false
			}
		}
		if ints {
			cands = append(cands, m)
		}
	}
	switch {
	case len(cands) == 1:
		r.powFn = cands[0]
	default:
		for _, m := range cands {
			if m.Name() == "Prec" {
				r.powFn = m
			}
		}
	}
	if r.powFn == nil {
		fatalf("anchor unresolved: the binding-power method of lexer.TokenKind (no parameters, two integer results)")
	}
	return r.powFn
}

// ---- dispatch switch of the climbing loop ----

// dispatchSwitch finds the switch over the current token kind that the loop
// body runs: in the body itself (any nesting), otherwise in the parser methods
// the body calls (two levels), in source order.
func (r *pxRoles) dispatchSwitch(host *ast.FuncDecl, body *ast.BlockStmt) (*ast.SwitchStmt, *ast.FuncDecl) {
	var find func(fd *ast.FuncDecl, root ast.Node, depth int, seen map[*ast.FuncDecl]bool) (*ast.SwitchStmt, *ast.FuncDecl)
	find = func(fd *ast.FuncDecl, root ast.Node, depth int, seen map[*ast.FuncDecl]bool) (*ast.SwitchStmt, *ast.FuncDecl) {
		var sw *ast.SwitchStmt
		ast.Inspect(root, func(n ast.Node) bool {
			if sw != nil {
				return false
			}
			if _, ok := n.(*ast.FuncLit); ok {
				return false
			}
			if x, ok := n.(*ast.SwitchStmt); ok && x.Tag != nil {
				if _, ok := r.curKindRead(r.info, fd, x.Tag); ok {
					sw = x
					return false
				}
			}
			return true
		})
		if sw != nil {
			return sw, fd
		}
		if depth >= 2 {
			return nil, nil
		}
		var calls []*ast.CallExpr
		ast.Inspect(root, func(n ast.Node) bool {
			if c, ok := n.(*ast.CallExpr); ok {
				calls = append(calls, c)
			}
			return true
		})
		sort.SliceStable(calls, func(i, j int) bool { return calls[i].Pos() < calls[j].Pos() })
		for _, call := range calls {
			g := CalleeOf(r.info, call)
			if g == nil || r.declPkg[g] != r.pkg {
				continue
			}
			gd := r.decls[g]
			if gd == nil || gd.Body == nil || seen[gd] {
				continue
			}
			seen[gd] = true
			if s, h := find(gd, gd.Body, depth+1, seen); s != nil {
				return s, h
			}
		}
		return nil, nil
	}
	return find(host, body, 0, map[*ast.FuncDecl]bool{host: true})
}

// ---- calls of the climbing entry, through wrappers ----

type pxEntryCall struct {
	call     *ast.CallExpr
	via      string // name of the transparent wrapper ("" = direct)
	pv       *r2parseVal
	consumed int // upper bound of tokens consumed in the builder before the call
}

type pxPrecEngine struct {
	r       *pxRoles
	e       *r2parseEngine // nil: the provenance engine could not resolve its own anchors
	R       *r2parseOperandRule
	why     string
	exprFn  *types.Func
	precIdx int
}

// pxPrecEngineOf builds the provenance engine of the r2parse rules. Its role
// discovery (span roles, consumption summaries) has anchors of its own; when one
// of them is missing the operand checks fall back to a direct reading of the
// builder (calls of the entry or of one-line wrappers of it, the power resolved
// through single definitions of locals), which decides fewer shapes but does
// not make R-prec depend on the anchors of another group.
func pxPrecEngineOf(c *Ctx, r *pxRoles, exprFn *types.Func, precParam types.Object) *pxPrecEngine {
	p := &pxPrecEngine{r: r, exprFn: exprFn, precIdx: -1}
	sig := exprFn.Type().(*types.Signature)
	for i := 0; i < sig.Params().Len(); i++ {
		if types.Object(sig.Params().At(i)) == precParam {
			p.precIdx = i
		}
	}
	func() {
		defer func() {
			if x := recover(); x != nil {
				p.e, p.R = nil, nil
				if fe, ok := x.(fatalErr); ok {
					p.why = fe.msg
				} else {
					p.why = fmt.Sprint(x)
				}
			}
		}()
		e := r2parseEngineOf(c)
		p.e = e
		p.R = &r2parseOperandRule{e: e, wrap: map[*types.Func]*r2parseWrapper{}}
	}()
	return p
}

func (p *pxPrecEngine) stable(f func()) {
	if p.e != nil {
		p.e.stable(f)
		return
	}
	f()
}

// isEntry: fn is the climbing method or a transparent wrapper of it.
func (p *pxPrecEngine) isEntry(fn *types.Func) bool {
	if fn == nil {
		return false
	}
	if fn == p.exprFn {
		return true
	}
	if p.e == nil {
		_, ok := p.simpleWrapper(fn)
		return ok
	}
	w := p.R.wrapperOf(fn)
	return w.ok && !w.busy
}

// simpleWrapper (fallback): fn is a parser method that calls nothing of the parser but the
// entry, once, with one of fn's parameters or a constant as the minimum power.
type pxSimpleWrap struct {
	pidx int // index of the parameter handed on (-1: constant)
	cst  constant.Value
}

func (p *pxPrecEngine) simpleWrapper(fn *types.Func) (pxSimpleWrap, bool) {
	r := p.r
	fd := r.decls[fn]
	if fd == nil || fd.Body == nil || r.declPkg[fn] != r.pkg || fn == p.exprFn {
		return pxSimpleWrap{}, false
	}
	var calls []*ast.CallExpr
	other := false
	ast.Inspect(fd.Body, func(n ast.Node) bool {
		if call, ok := n.(*ast.CallExpr); ok {
			g := CalleeOf(r.info, call)
			if g == p.exprFn {
				calls = append(calls, call)
			} else if g != nil && r.declPkg[g] == r.pkg {
				other = true // consumes / parses something else: not a transparent wrapper
			}
		}
		return true
	})
	if len(calls) != 1 || other || p.precIdx < 0 || p.precIdx >= len(calls[0].Args) {
		return pxSimpleWrap{}, false
	}
	arg := ast.Unparen(calls[0].Args[p.precIdx])
	if tv := r.info.Types[arg]; tv.Value != nil {
		return pxSimpleWrap{pidx: -1, cst: tv.Value}, true
	}
	if id, ok := arg.(*ast.Ident); ok {
		sig := fn.Type().(*types.Signature)
		for i := 0; i < sig.Params().Len(); i++ {
			if types.Object(sig.Params().At(i)) == r.info.Uses[id] {
				return pxSimpleWrap{pidx: i}, true
			}
		}
	}
	return pxSimpleWrap{}, false
}

// entryCallsDirect (fallback): the calls of the entry / of simple wrappers written in fd,
// the power resolved through the single definition of a local.
func (p *pxPrecEngine) entryCallsDirect(fd *ast.FuncDecl) (out []pxEntryCall) {
	r := p.r
	info := r.info
	// the first call of a *Parser method (anything may move the cursor)
	firstMethod := token.NoPos
	ast.Inspect(fd.Body, func(n ast.Node) bool {
		if call, ok := n.(*ast.CallExpr); ok {
			if g := CalleeOf(info, call); g != nil && r.decls[g] != nil && r.declPkg[g] == r.pkg && g.Type().(*types.Signature).Recv() != nil {
				if firstMethod == token.NoPos || call.Pos() < firstMethod {
					firstMethod = call.Pos()
				}
			}
		}
		return true
	})
	classify := func(arg ast.Expr) *r2parseVal {
		arg = ast.Unparen(arg)
		if tv := info.Types[arg]; tv.Value != nil {
			return &r2parseVal{k: r2parseConst, cst: tv.Value, desc: exprStr(arg)}
		}
		id, ok := arg.(*ast.Ident)
		if !ok {
			return &r2parseVal{k: r2parseUnknown, desc: exprStr(arg)}
		}
		obj := info.Uses[id]
		// the tuple assignment that defines it
		var def *ast.AssignStmt
		idx := -1
		n := 0
		ast.Inspect(fd.Body, func(m ast.Node) bool {
			as, ok := m.(*ast.AssignStmt)
			if !ok {
				return true
			}
			for i, l := range as.Lhs {
				if lid, ok := l.(*ast.Ident); ok && info.ObjectOf(lid) == obj && obj != nil {
					def, idx = as, i
					n++
				}
			}
			return true
		})
		if def == nil || n != 1 || len(def.Rhs) != 1 || len(def.Lhs) != 2 {
			return &r2parseVal{k: r2parseUnknown, desc: id.Name}
		}
		call, ok := ast.Unparen(def.Rhs[0]).(*ast.CallExpr)
		if !ok {
			return &r2parseVal{k: r2parseUnknown, desc: id.Name}
		}
		recv, isPow := r.isPowerCall(info, call)
		if !isPow {
			return &r2parseVal{k: r2parseUnknown, desc: id.Name}
		}
		readPos, isCur := r.curKindRead(info, fd, recv)
		if !isCur {
			return &r2parseVal{k: r2parseUnknown, desc: id.Name}
		}
		at := &r2parseCap{off: 0}
		if firstMethod != token.NoPos && readPos > firstMethod {
			at.D, at.U = 1, 1
		}
		return &r2parseVal{k: r2parsePrecV, idx: idx, at: at, desc: id.Name}
	}
	ast.Inspect(fd.Body, func(n ast.Node) bool {
		call, ok := n.(*ast.CallExpr)
		if !ok {
			return true
		}
		g := CalleeOf(info, call)
		switch {
		case g == nil:
		case g == p.exprFn:
			if p.precIdx >= 0 && p.precIdx < len(call.Args) {
				out = append(out, pxEntryCall{call: call, pv: classify(call.Args[p.precIdx])})
			} else {
				out = append(out, pxEntryCall{call: call})
			}
		default:
			if w, ok := p.simpleWrapper(g); ok {
				ec := pxEntryCall{call: call, via: g.Name()}
				if w.pidx < 0 {
					ec.pv = &r2parseVal{k: r2parseConst, cst: w.cst, desc: w.cst.ExactString()}
				} else if w.pidx < len(call.Args) {
					ec.pv = classify(call.Args[w.pidx])
				}
				out = append(out, ec)
			}
		}
		return true
	})
	sort.SliceStable(out, func(i, j int) bool { return out[i].call.Pos() < out[j].call.Pos() })
	return out
}

// entryConversionsDirect (fallback): conversions applied to the cursor's kind
// (directly or through a local) before the first *Parser method call of fd.
func (p *pxPrecEngine) entryConversionsDirect(fd *ast.FuncDecl, maps []*pxOpMap) []*pxOpMap {
	r := p.r
	firstMethod := token.NoPos
	found := map[*pxOpMap]bool{}
	ast.Inspect(fd.Body, func(m ast.Node) bool {
		c2, ok := m.(*ast.CallExpr)
		if !ok {
			return true
		}
		h := CalleeOf(r.info, c2)
		if h != nil && r.decls[h] != nil && r.declPkg[h] == r.pkg && h.Type().(*types.Signature).Recv() != nil && firstMethod == token.NoPos {
			firstMethod = c2.Pos()
		}
		if len(c2.Args) == 1 {
			if pos, isCur := r.curKindRead(r.info, fd, c2.Args[0]); isCur && (firstMethod == token.NoPos || pos < firstMethod) {
				for _, mp := range maps {
					if mp.fn == h {
						found[mp] = true
					}
				}
			}
		}
		return true
	})
	var out []*pxOpMap
	for m := range found {
		out = append(out, m)
	}
	sort.Slice(out, func(i, j int) bool { return out[i].fn.Name() < out[j].fn.Name() })
	return out
}

// entryCalls walks fd with the provenance engine and returns every call of the
// climbing entry (direct or through a transparent wrapper) with the provenance
// of the minimum power it passes.
func (p *pxPrecEngine) entryCalls(fd *ast.FuncDecl) (out []pxEntryCall, undec []string) {
	e := p.e
	if e == nil {
		return p.entryCallsDirect(fd), nil
	}
	if e.fnOf[fd] == nil {
		return nil, nil
	}
	seen := map[string]bool{}
	run := e.newRun(fd, nil)
	run.obs.call = func(st *r2parseState, call *ast.CallExpr, fn *types.Func, builtin string, args []*r2parseVal) {
		if fn == nil || run.inlineDepth > 0 {
			return
		}
		var pv *r2parseVal
		via := ""
		switch {
		case fn == e.exprFn:
			if len(args) > e.precIdx {
				pv = args[e.precIdx]
			}
		default:
			w := p.R.wrapperOf(fn)
			if !w.ok || w.busy {
				return
			}
			via = fn.Name()
			pv = w.power
			if pv.k == r2parseParam {
				if w.pidx < len(args) {
					pv = args[w.pidx]
				} else {
					pv = nil
				}
			} else if pv.k == r2parsePrecV && pv.at != nil {
				// read inside the wrapper: as many tokens may have been consumed as the caller consumed before the call
				c := *pv
				at := *pv.at
				at.D = spSat(at.D, st.D)
				at.U = spSat(at.U, st.U)
				c.at = &at
				pv = &c
			}
		}
		k := fmt.Sprintf("%d|%s", call.Pos(), pv)
		if pv != nil && pv.at != nil {
			k += fmt.Sprintf("|%d,%d,%d,%d", pv.idx, pv.at.off, pv.at.D, pv.at.U)
		}
		if seen[k] {
			return
		}
		seen[k] = true
		out = append(out, pxEntryCall{call: call, via: via, pv: pv, consumed: st.U})
	}
	run.walk()
	sort.SliceStable(out, func(i, j int) bool { return out[i].call.Pos() < out[j].call.Pos() })
	return out, run.undec
}

// entryConversions: the token→operator conversions fd applies to the token
// that is current when fd is entered (read directly, through a local, or from
// the look-behind field after exactly that token was consumed).
func (p *pxPrecEngine) entryConversions(fd *ast.FuncDecl, maps []*pxOpMap) []*pxOpMap {
	e := p.e
	if e == nil {
		return p.entryConversionsDirect(fd, maps)
	}
	if e.fnOf[fd] == nil {
		return nil
	}
	found := map[*pxOpMap]bool{}
	run := e.newRun(fd, nil)
	run.obs.call = func(st *r2parseState, call *ast.CallExpr, fn *types.Func, builtin string, args []*r2parseVal) {
		m := e.convs[fn]
		if m == nil || len(args) != 1 || len(call.Args) != 1 {
			return
		}
		var at *r2parseCap
		switch {
		case e.px.isCurKind(e.info, call.Args[0]):
			at = &r2parseCap{off: 0, D: st.D, U: st.U}
		case args[0] != nil && args[0].k == r2parseTok && args[0].sel == e.px.kindF.Name():
			at = args[0].at
		}
		if at != nil && at.D+at.off == 0 && at.U+at.off == 0 {
			found[m] = true
		}
	}
	run.walk()
	var out []*pxOpMap
	for m := range found {
		out = append(out, m)
	}
	sort.Slice(out, func(i, j int) bool { return out[i].fn.Name() < out[j].fn.Name() })
	return out
}

// buildersOf: the parser methods that build the node of an operator converted
// by conv — the function that applies the conversion, or, when it only hands
// the operator on (conversion written in the dispatching clause), the parser
// method that receives a value of the operator type from it.
func (p *pxPrecEngine) buildersOf(r *pxRoles, conv *pxOpMap) []*ast.FuncDecl {
	var out []*ast.FuncDecl
	seen := map[*ast.FuncDecl]bool{}
	add := func(fd *ast.FuncDecl) {
		if fd != nil && !seen[fd] {
			seen[fd] = true
			out = append(out, fd)
		}
	}
	receivers := func(fd *ast.FuncDecl) []*ast.FuncDecl {
		var rs []*ast.FuncDecl
		ast.Inspect(fd.Body, func(n ast.Node) bool {
			call, ok := n.(*ast.CallExpr)
			if !ok {
				return true
			}
			g := CalleeOf(r.info, call)
			if g == nil || r.declPkg[g] != r.pkg || r.decls[g] == nil {
				return true
			}
			sig := g.Type().(*types.Signature)
			for i := 0; i < sig.Params().Len(); i++ {
				if types.Identical(sig.Params().At(i).Type(), conv.enum) {
					rs = append(rs, r.decls[g])
				}
			}
			return true
		})
		return rs
	}
	var fds []*ast.FuncDecl
	for fn, fd := range r.decls {
		if r.declPkg[fn] == r.pkg && fd.Body != nil {
			fds = append(fds, fd)
		}
	}
	sort.Slice(fds, func(i, j int) bool { return fds[i].Pos() < fds[j].Pos() })
	for _, fd := range fds {
		applies := false
		ast.Inspect(fd.Body, func(n ast.Node) bool {
			if call, ok := n.(*ast.CallExpr); ok && CalleeOf(r.info, call) == conv.fn {
				applies = true
			}
			return !applies
		})
		if !applies {
			continue
		}
		if rs := receivers(fd); len(rs) > 0 {
			for _, g := range rs {
				add(g)
			}
			continue
		}
		add(fd)
	}
	sort.Slice(out, func(i, j int) bool { return out[i].Pos() < out[j].Pos() })
	return out
}

func pxConstInt(pv *r2parseVal) (int64, bool) {
	if pv == nil || pv.k != r2parseConst || pv.cst == nil || pv.cst.Kind() != constant.Int {
		return 0, false
	}
	return constant.Int64Val(pv.cst)
}
