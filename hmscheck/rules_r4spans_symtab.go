package main

import (
	"fmt"
	"go/ast"
	"go/token"
	"go/types"
	"sort"
	"strings"
)

// R-symtab-span-origin (R-diag-span family, C08): the analyzer keeps, per
// module, tables of the module's symbols (types, variables, functions,
// templates, trigger functions). The spans stored with a symbol are read back
// later as the position of diagnostics ABOUT THE MODULE BEING ANALYSED ("Type
// 'X' is unused", "Import `x` is unused", "… previously imported here"). A
// symbol entered into the table of the module being analysed must therefore
// carry spans of that module's own nodes (the import item, the declaration):
// a value read out of ANOTHER module's table, or handed over by the host, and
// stored as it is keeps the exporter's positions — the diagnostic then points
// into another file (or nowhere).
//
// Enumerated: every call (outside the module type's own methods) of a method of
// the module struct that stores one of its parameters in a table, for every
// span field of the stored struct that some diagnostic of package analyzer
// reads; the field's value is traced through constructors, composite
// literals, copies (`x := *p`), later field assignments and locals.

func init() {
	register(&Rule{ID: "R-symtab-span-origin", Floor: 15, Run: ruleSymtabSpanOrigin,
		Doc: "every symbol the analyzer enters into a table of the module being analysed (calls of the module struct's storing methods: types, variables, functions, templates, triggers) sets each span field that a diagnostic later reads (NameSpan, Span, ImportedAt, …) from a node of that module — the import item or the declaration — through a constructor operand, a literal field or a field assignment before the store. A value obtained from another module's table (a *Module other than the current one, or looked up in the module map) or from the host interface and stored wholesale (also as `copy := *other` with only some fields overwritten) keeps the exporter's spans: the unused / duplicate diagnostics of the importing module then name a position in the exporting module's file."})
}

type r4stRoles struct {
	c          *Ctx
	sh         *dgShared
	info       *types.Info
	modT       *types.Named
	curF       *types.Var // Analyzer field holding the module being analysed
	hostIs     map[*types.Named]bool
	decls      map[*types.Func]rdDecl
	stored     map[*types.Func]int // storing method -> parameter index
	relev      map[*types.Var]bool // span fields read by a diagnostic
	fds        []*ast.FuncDecl     // functions of the package outside the module struct\'s methods
	ownerOfCur types.Type          // the analyzer struct
}

func ruleSymtabSpanOrigin(c *Ctx) []Obligation {
	sh := dgSharedOf(c)
	ap := c.Pkg("homescript/analyzer")
	info := ap.TypesInfo
	r := &r4stRoles{c: c, sh: sh, info: info, decls: rdDecls(c), stored: map[*types.Func]int{}, relev: map[*types.Var]bool{}, hostIs: map[*types.Named]bool{}}
	// the module struct: a struct M of the package such that some struct has both a *M field and a map[string]*M field
	scope := ap.Types.Scope()
	for _, name := range scope.Names() {
		tn, ok := scope.Lookup(name).(*types.TypeName)
		if !ok {
			continue
		}
		st, ok := tn.Type().Underlying().(*types.Struct)
		if !ok {
			continue
		}
		var ptrF *types.Var
		var mapM *types.Named
		for i := 0; i < st.NumFields(); i++ {
			f := st.Field(i)
			if m, ok := f.Type().(*types.Map); ok {
				if p, ok := m.Elem().(*types.Pointer); ok {
					if n, ok := p.Elem().(*types.Named); ok && n.Obj().Pkg() == ap.Types {
						mapM = n
					}
				}
			}
		}
		if mapM == nil {
			continue
		}
		for i := 0; i < st.NumFields(); i++ {
			f := st.Field(i)
			if p, ok := f.Type().(*types.Pointer); ok && types.Identical(p.Elem(), mapM) {
				ptrF = f
			}
		}
		if ptrF != nil {
			if r.modT != nil && r.modT != mapM {
				fatalf("anchor ambiguous: two module structs (%s, %s)", r.modT.Obj().Name(), mapM.Obj().Name())
			}
			r.modT, r.curF = mapM, ptrF
			r.ownerOfCur = tn.Type()
		}
		// interfaces of the package held by that struct: the host
		for i := 0; i < st.NumFields(); i++ {
			if n, ok := st.Field(i).Type().(*types.Named); ok && n.Obj().Pkg() == ap.Types {
				if _, isI := n.Underlying().(*types.Interface); isI && ptrF != nil {
					r.hostIs[n] = true
				}
			}
		}
	}
	if r.modT == nil {
		fatalf("anchor unresolved: the analyzer's per-module struct (a *M field for the current module next to a map[string]*M)")
	}
	spanT := sh.r.spanT
	// storing methods of the module struct
	for fn, d := range r.decls {
		sig := fn.Type().(*types.Signature)
		if sig.Recv() == nil || recvNamed(sig.Recv().Type()) != r.modT || d.fd.Recv == nil || len(d.fd.Recv.List[0].Names) == 0 {
			continue
		}
		ro := d.info.Defs[d.fd.Recv.List[0].Names[0]]
		pidx := map[types.Object]int{}
		i := 0
		for _, f := range d.fd.Type.Params.List {
			for _, n := range f.Names {
				pidx[d.info.Defs[n]] = i
				i++
			}
			if len(f.Names) == 0 {
				i++
			}
		}
		ast.Inspect(d.fd.Body, func(n ast.Node) bool {
			as, ok := n.(*ast.AssignStmt)
			if !ok || len(as.Lhs) != len(as.Rhs) {
				return true
			}
			for k, l := range as.Lhs {
				if !r4stRooted(d.info, d.fd, l, ro) {
					continue
				}
				ast.Inspect(as.Rhs[k], func(m ast.Node) bool {
					if id, ok := m.(*ast.Ident); ok {
						if pi, ok := pidx[d.info.Uses[id]]; ok && r4stStruct(sig.Params().At(pi).Type(), spanT) != nil {
							r.stored[fn] = pi
						}
					}
					return true
				})
			}
			return true
		})
	}
	if len(r.stored) == 0 {
		fatalf("anchor unresolved: no method of %s stores a span-carrying parameter in a table", r.modT.Obj().Name())
	}
	// span fields a diagnostic reads
	for _, u := range sh.uses {
		_, e := sh.r.deref(u, u.expr)
		if f := spFieldOf(u.info, e); f != nil && types.Identical(f.Type(), spanT) {
			r.relev[f] = true
		}
	}
	var fds []*ast.FuncDecl
	for _, fd := range AllFuncDecls(ap) {
		if fn, ok := info.Defs[fd.Name].(*types.Func); ok {
			if sig := fn.Type().(*types.Signature); sig.Recv() != nil && recvNamed(sig.Recv().Type()) == r.modT {
				continue
			}
		}
		fds = append(fds, fd)
	}
	sort.Slice(fds, func(i, j int) bool { return fds[i].Pos() < fds[j].Pos() })
	r.fds = fds
	var obs []Obligation
	cnt := map[string]int{}
	classes := map[string]int{}
	nStores := 0
	for _, fd := range fds {
		var calls []*ast.CallExpr
		ast.Inspect(fd.Body, func(n ast.Node) bool {
			if call, ok := n.(*ast.CallExpr); ok {
				if cf := CalleeOf(info, call); cf != nil {
					if _, ok := r.stored[cf]; ok {
						calls = append(calls, call)
					}
				}
			}
			return true
		})
		for _, call := range calls {
			cf := CalleeOf(info, call)
			pi := r.stored[cf]
			if pi >= len(call.Args) {
				continue
			}
			nStores++
			st := r4stStruct(cf.Type().(*types.Signature).Params().At(pi).Type(), spanT)
			sn := spTypeName(cf.Type().(*types.Signature).Params().At(pi).Type())
			for i := 0; i < st.NumFields(); i++ {
				f := st.Field(i)
				if !types.Identical(f.Type(), spanT) || !r.relev[f] {
					continue
				}
				u := dgUse{fd: fd, info: info, what: cf.Name() + "()"}
				status, class, det := r.field(u, call.Args[pi], f, call.Pos(), 0)
				classes[class]++
				base := fmt.Sprintf("analyzer|%s|%s.%s from %s", cf.Name()+"()", sn, f.Name(), class)
				cnt[base]++
				key := base
				if cnt[base] > 1 {
					key = fmt.Sprintf("%s#%d", base, cnt[base])
				}
				obs = append(obs, Obligation{Key: key, Pos: c.Pos(call.Args[pi].Pos()), Status: status, Detail: det, Nontrivial: true})
			}
		}
	}
	var cl []string
	for k, v := range classes {
		cl = append(cl, fmt.Sprintf("%s=%d", k, v))
	}
	sort.Strings(cl)
	var rel []string
	for f := range r.relev {
		rel = append(rel, f.Name())
	}
	sort.Strings(rel)
	obs = append(obs, Obligation{Key: "analyzer|symbol table span sources", Status: Info,
		Detail: fmt.Sprintf("%d stores into the tables of %s through %d storing method(s); span fields read by diagnostics: %s; provenance: %s", nStores, r.modT.Obj().Name(), len(r.stored), strings.Join(rel, ", "), strings.Join(cl, ", "))})
	return obs
}

func r4stStruct(t types.Type, spanT *types.Named) *types.Struct {
	if p, ok := t.(*types.Pointer); ok {
		t = p.Elem()
	}
	st, ok := t.Underlying().(*types.Struct)
	if !ok {
		return nil
	}
	for i := 0; i < st.NumFields(); i++ {
		if types.Identical(st.Field(i).Type(), spanT) {
			return st
		}
	}
	return nil
}

// r4stRooted: e is a selector / index chain that starts at obj, possibly through
// locals defined from such a chain (`innermost := self.Scopes[n]` — the copy
// shares the maps — or a pointer to it).
func r4stRooted(info *types.Info, fd *ast.FuncDecl, e ast.Expr, obj types.Object) bool {
	for depth := 0; depth < 24; depth++ {
		switch x := ast.Unparen(e).(type) {
		case *ast.SelectorExpr:
			e = x.X
		case *ast.IndexExpr:
			e = x.X
		case *ast.StarExpr:
			e = x.X
		case *ast.UnaryExpr:
			e = x.X
		case *ast.Ident:
			o := info.Uses[x]
			if o == nil {
				o = info.Defs[x]
			}
			if obj != nil && o == obj {
				return true
			}
			if o == nil {
				return false
			}
			def := dgSingleDef(info, fd, o)
			if def == nil {
				return false
			}
			e = def
		default:
			return false
		}
	}
	return false
}

// origin of a value: "current" (the tables of the module being analysed),
// "foreign" (another module's tables), "host" (handed over by the host), "".
func (r *r4stRoles) origin(u dgUse, e ast.Expr, depth int) (string, string) {
	e = ast.Unparen(e)
	if depth > 8 {
		return "", ""
	}
	info := u.info
	switch x := e.(type) {
	case *ast.StarExpr:
		return r.origin(u, x.X, depth+1)
	case *ast.UnaryExpr:
		return r.origin(u, x.X, depth+1)
	case *ast.TypeAssertExpr:
		return r.origin(u, x.X, depth+1)
	case *ast.IndexExpr:
		if m, ok := info.Types[x.X].Type.Underlying().(*types.Map); ok {
			if p, ok := m.Elem().(*types.Pointer); ok && types.Identical(p.Elem(), r.modT) {
				return "foreign", "the module looked up as " + exprStr(x)
			}
		}
		return r.origin(u, x.X, depth+1)
	case *ast.SelectorExpr:
		if spFieldOf(info, x) == r.curF {
			return "current", exprStr(x)
		}
		if o, d := r.origin(u, x.X, depth+1); o != "" {
			return o, d
		}
		if f := spFieldOf(info, x); f != nil && r.ownerOfCur != nil && r4stHasField(r.ownerOfCur, f) {
			return "configured", exprStr(x)
		}
		return "", ""
	case *ast.CallExpr:
		sel, ok := ast.Unparen(x.Fun).(*ast.SelectorExpr)
		if !ok {
			return "", ""
		}
		rt := info.Types[sel.X].Type
		if rt == nil {
			return "", ""
		}
		if n := recvNamed(rt); n != nil {
			if r.hostIs[n] {
				return "host", "the host (" + exprStr(x.Fun) + ")"
			}
			if n == r.modT {
				o, d := r.origin(u, sel.X, depth+1)
				if o == "foreign" {
					return o, "the table of another module (" + exprStr(x.Fun) + " on " + d + ")"
				}
				return o, d
			}
		}
		return r.origin(u, sel.X, depth+1)
	case *ast.Ident:
		obj := info.Uses[x]
		if obj == nil {
			return "", ""
		}
		if b, ok := u.env[obj]; ok {
			return r.origin(b.u, b.e, depth+1)
		}
		// a parameter: what the callers of this function pass
		if pi := r.paramIndex(u, obj); pi >= 0 {
			return r.originAtCallers(u, pi, depth)
		}
		// definitions (also as one of several results) and range clauses
		var def ast.Expr
		ast.Inspect(u.fd.Body, func(n ast.Node) bool {
			switch s := n.(type) {
			case *ast.AssignStmt:
				for i, l := range s.Lhs {
					if id, ok := l.(*ast.Ident); ok && (info.Defs[id] == obj || info.Uses[id] == obj) {
						if len(s.Lhs) == len(s.Rhs) {
							def = s.Rhs[i]
						} else if len(s.Rhs) == 1 {
							def = s.Rhs[0]
						}
					}
				}
			case *ast.ValueSpec:
				for i, nm := range s.Names {
					if info.Defs[nm] == obj && i < len(s.Values) {
						def = s.Values[i]
					}
				}
			case *ast.RangeStmt:
				for _, l := range []ast.Expr{s.Key, s.Value} {
					if id, ok := l.(*ast.Ident); ok && info.Defs[id] == obj {
						def = s.X
					}
				}
			}
			return true
		})
		if def == nil {
			return "", ""
		}
		// the LAST definition wins for `module = self.modules[…]` style re-assignments: any foreign one counts
		worst, wd := "", ""
		ast.Inspect(u.fd.Body, func(n ast.Node) bool {
			if s, ok := n.(*ast.AssignStmt); ok {
				for i, l := range s.Lhs {
					if id, ok := l.(*ast.Ident); ok && (info.Defs[id] == obj || info.Uses[id] == obj) {
						var d ast.Expr
						if len(s.Lhs) == len(s.Rhs) {
							d = s.Rhs[i]
						} else if len(s.Rhs) == 1 {
							d = s.Rhs[0]
						}
						if d != nil {
							if o, dd := r.origin(u, d, depth+1); o == "foreign" || o == "host" || worst == "" {
								worst, wd = o, dd
							}
						}
					}
				}
			}
			return true
		})
		if worst != "" {
			return worst, wd
		}
		return r.origin(u, def, depth+1)
	}
	return "", ""
}

func (r *r4stRoles) paramIndex(u dgUse, obj types.Object) int {
	i := 0
	for _, f := range u.fd.Type.Params.List {
		for _, n := range f.Names {
			if u.info.Defs[n] == obj {
				return i
			}
			i++
		}
		if len(f.Names) == 0 {
			i++
		}
	}
	return -1
}

// originAtCallers: the origin of parameter pi of u.fd, joined over the calls of
// that function in the package (foreign / host as soon as one caller passes such a value).
func (r *r4stRoles) originAtCallers(u dgUse, pi int, depth int) (string, string) {
	fn, _ := u.info.Defs[u.fd.Name].(*types.Func)
	if fn == nil || depth > 6 {
		return "", ""
	}
	res, det := "", ""
	for _, fd := range r.fds {
		if fd == u.fd {
			continue
		}
		ast.Inspect(fd.Body, func(n ast.Node) bool {
			call, ok := n.(*ast.CallExpr)
			if !ok || CalleeOf(u.info, call) != fn || pi >= len(call.Args) {
				return true
			}
			o, d := r.origin(dgUse{fd: fd, info: u.info, what: u.what}, call.Args[pi], depth+2)
			switch {
			case o == "foreign" || o == "host":
				res, det = o, d+" (passed by "+FuncName(fd)+")"
			case res == "" || (res == "current" && o == ""):
				if res != "foreign" && res != "host" {
					res, det = o, d
				}
			}
			return true
		})
	}
	return res, det
}

// hostValue: a record the host built. The host interface is handed the span of
// the import item, so whether the record carries it is the host's contract —
// not decidable here.
func (r *r4stRoles) hostValue(od string, f *types.Var) (Status, string, string) {
	return Info, "host value", fmt.Sprintf("the stored value is built by %s and stored with the %s the host gave it (the host is handed the import item's span; an embedder that leaves it empty makes the later diagnostic positionless)", od, f.Name())
}

// spanExpr decides an explicit span operand for a field.
func (r *r4stRoles) spanExpr(u dgUse, e ast.Expr, depth int) (Status, string, string) {
	uu, ee := r.sh.r.deref(u, e)
	// a span read out of a foreign value
	base := ee
	for {
		switch x := ast.Unparen(base).(type) {
		case *ast.SelectorExpr:
			base = x.X
			continue
		case *ast.CallExpr:
			if s, ok := ast.Unparen(x.Fun).(*ast.SelectorExpr); ok && len(x.Args) == 0 {
				base = s.X
				continue
			}
		}
		break
	}
	if base != ee {
		if o, d := r.origin(uu, base, depth+1); o == "foreign" {
			return Violated, o + " span", fmt.Sprintf("%s is a span of a value that comes from %s: a position in another module's file (or none), stored as the position of a symbol of the module being analysed", exprStr(ee), d)
		}
	}
	if cl, ok := ee.(*ast.CompositeLit); ok && len(cl.Elts) == 0 {
		return Info, "zero", "errors.Span{}: the symbol has no position (acceptable only for symbols no diagnostic is issued for, e.g. builtins)"
	}
	st, class, det := r.sh.r.classify(u, e, r.sh.order, depth)
	return st, class, det
}

// field decides where field f of the stored value v gets its span from.
func (r *r4stRoles) field(u dgUse, v ast.Expr, f *types.Var, before token.Pos, depth int) (Status, string, string) {
	v = ast.Unparen(v)
	if depth > 8 {
		return Undecided, "other", "provenance chain too deep"
	}
	info := u.info
	switch x := v.(type) {
	case *ast.UnaryExpr:
		if x.Op == token.AND {
			return r.field(u, x.X, f, before, depth+1)
		}
	case *ast.StarExpr:
		return r.field(u, x.X, f, before, depth+1)
	case *ast.CompositeLit:
		for _, el := range x.Elts {
			kv, ok := el.(*ast.KeyValueExpr)
			if !ok {
				return Undecided, "other", "positional literal " + exprStr(x.Type)
			}
			if k, ok := kv.Key.(*ast.Ident); ok && info.Uses[k] == f {
				s, cl, d := r.spanExpr(u, kv.Value, depth+1)
				return s, cl, f.Name() + ": " + d
			}
		}
		return Info, "zero", "literal without " + f.Name() + ": the symbol has no position"
	case *ast.CallExpr:
		fn := CalleeOf(info, x)
		if fn != nil {
			if d, ok := r.decls[fn]; ok && fn.Type().(*types.Signature).Results().Len() >= 1 && r4stHasField(fn.Type().(*types.Signature).Results().At(0).Type(), f) {
				if o, od := r.origin(u, x, depth+1); o == "foreign" {
					return Violated, o + " value", fmt.Sprintf("the stored value comes from %s and keeps its %s: the position of the symbol in the exporting module, not of the import or declaration in the module being analysed", od, f.Name())
				} else if o == "host" {
					return r.hostValue(od, f)
				} else if o == "current" {
					return Discharged, "own table", "value read from the tables of the module being analysed (" + od + ")"
				}
				// constructor: decide the returned values with the parameters bound
				u2 := dgUse{fd: d.fd, pkg: u.pkg, info: d.info, what: u.what, env: map[types.Object]dgBound{}}
				i := 0
				for _, p := range d.fd.Type.Params.List {
					if len(p.Names) == 0 {
						i++
					}
					for _, n := range p.Names {
						if o := d.info.Defs[n]; o != nil && i < len(x.Args) {
							u2.env[o] = dgBound{x.Args[i], u}
						}
						i++
					}
				}
				var rets []ast.Expr
				ast.Inspect(d.fd.Body, func(n ast.Node) bool {
					switch y := n.(type) {
					case *ast.FuncLit:
						return false
					case *ast.ReturnStmt:
						if len(y.Results) >= 1 {
							rets = append(rets, y.Results[0])
						}
					}
					return true
				})
				if len(rets) > 0 {
					worst, class, det := Discharged, "", ""
					for _, ret := range rets {
						s, cl, dd := r.field(u2, ret, f, token.NoPos, depth+1)
						if s == Violated || (s == Undecided && worst != Violated) || (s == Info && worst == Discharged) {
							worst, class, det = s, cl, dd
						}
						if det == "" {
							class, det = cl, dd
						}
					}
					return worst, class, fn.Name() + "(…) → " + det
				}
			}
		}
		if o, od := r.origin(u, x, depth+1); o == "foreign" {
			return Violated, o + " value", fmt.Sprintf("the stored value comes from %s and keeps its %s", od, f.Name())
		} else if o == "host" {
			return r.hostValue(od, f)
		}
		return Undecided, "other", "value computed by " + exprStr(x.Fun)
	case *ast.SelectorExpr:
		if o, od := r.origin(u, x, depth+1); o == "foreign" {
			return Violated, o + " value", fmt.Sprintf("the stored value %s comes from %s and keeps its %s: the position recorded by the exporting module, not the import or declaration in the module being analysed", exprStr(x), od, f.Name())
		} else if o == "host" {
			return r.hostValue(od, f)
		} else if o == "current" {
			return Discharged, "own table", "value read from the tables of the module being analysed"
		} else if o == "configured" {
			return Info, "configured", "value handed to the analyzer at construction (" + od + "): its " + f.Name() + " is whatever the embedder set"
		}
		return Undecided, "other", "stored value " + exprStr(x)
	case *ast.Ident:
		obj := info.Uses[x]
		if obj == nil {
			return Undecided, "other", x.Name
		}
		if b, ok := u.env[obj]; ok {
			return r.field(b.u, b.e, f, token.NoPos, depth+1)
		}
		for _, p := range u.fd.Type.Params.List {
			for _, n := range p.Names {
				if info.Defs[n] == obj {
					return Discharged, "param", "parameter " + x.Name + " (decided where it is built)"
				}
			}
		}
		// a later assignment to the field overrides whatever the value was copied from
		var override ast.Expr
		var defs []ast.Expr
		ast.Inspect(u.fd.Body, func(n ast.Node) bool {
			switch s := n.(type) {
			case *ast.AssignStmt:
				for i, l := range s.Lhs {
					if sel, ok := ast.Unparen(l).(*ast.SelectorExpr); ok && len(s.Lhs) == len(s.Rhs) {
						if id, ok := ast.Unparen(sel.X).(*ast.Ident); ok && info.Uses[id] == obj && spFieldOf(info, sel) == f && (before == token.NoPos || s.Pos() < before) {
							override = s.Rhs[i]
						}
					}
					if id, ok := l.(*ast.Ident); ok && (info.Defs[id] == obj || info.Uses[id] == obj) {
						if len(s.Lhs) == len(s.Rhs) {
							defs = append(defs, s.Rhs[i])
						} else if len(s.Rhs) == 1 {
							defs = append(defs, s.Rhs[0])
						}
					}
				}
			case *ast.ValueSpec:
				for i, nm := range s.Names {
					if info.Defs[nm] == obj && i < len(s.Values) {
						defs = append(defs, s.Values[i])
					}
				}
			case *ast.RangeStmt:
				for _, l := range []ast.Expr{s.Key, s.Value} {
					if id, ok := l.(*ast.Ident); ok && info.Defs[id] == obj {
						defs = append(defs, s.X)
					}
				}
			}
			return true
		})
		if override != nil {
			s, cl, d := r.spanExpr(u, override, depth+1)
			return s, cl, x.Name + "." + f.Name() + " = " + d
		}
		if len(defs) == 0 {
			return Undecided, "other", "no definition of " + x.Name
		}
		worst, class, det := Discharged, "", ""
		for _, d := range defs {
			s, cl, dd := r.field(u, d, f, before, depth+1)
			if s == Violated || (s == Undecided && worst != Violated) || (s == Info && worst == Discharged) {
				worst, class, det = s, cl, dd
			}
			if det == "" {
				class, det = cl, dd
			}
		}
		return worst, class, x.Name + " := " + det
	}
	return Undecided, "other", "stored value " + exprStr(v)
}

func r4stHasField(t types.Type, f *types.Var) bool {
	if p, ok := t.(*types.Pointer); ok {
		t = p.Elem()
	}
	st, ok := t.Underlying().(*types.Struct)
	if !ok {
		return false
	}
	for i := 0; i < st.NumFields(); i++ {
		if st.Field(i) == f {
			return true
		}
	}
	return false
}
