package main

import (
	"fmt"
	"go/ast"
	"go/types"
	"regexp"
	"sort"
	"strings"
)

// R-import-declare: every declaration an import makes is clash-checked.

func init() {
	register(&Rule{ID: "R-import-declare", Floor: 12, Run: ruleImportDeclare,
		Doc: "sibling agreement of the import sites: in the analyzer functions that build an import (result type AnalyzedImport) every call of a Module.add* declaration method (addVar/addType/addTemplate/addTrigger — the methods returning the previous holder of the name) has its 'previous' result tested, and an error diagnostic is produced on the paths where a previous holder exists (guard of the error contains `result != nil` / the found flag of exactly that call). All import sites do this today (types, templates, triggers, functions, variables, host and script modules, the dummy fall-back); a site that drops the test lets an import silently shadow or be shadowed by an existing name while its siblings reject the program (C03 internal consistency, C15 module visibility)."})
}

func ruleImportDeclare(c *Ctx) []Obligation {
	e := r2sibEngineOf(c)
	var members []r2sibMember
	for _, m := range e.methodsByResultFields("homescript/analyzer", "Analyzer", "ToImport", "FromModule") {
		members = append(members, m)
	}
	if len(members) == 0 {
		return []Obligation{{Key: "anchor|import functions", Status: Undecided, Detail: "no analyzer method returns a struct with fields ToImport and FromModule"}}
	}
	// the declaration methods, by role: methods of Module with a result that store into a map reached through the receiver
	var declNames []string
	{
		p := c.Pkg("homescript/analyzer")
		for _, fd := range AllFuncDecls(p) {
			if fd.Recv == nil || recvTypeName(fd.Recv.List[0].Type) != "Module" || fd.Type.Results == nil || len(fd.Type.Results.List) == 0 {
				continue
			}
			f := r2sibFuncOf(c, p, fd)
			stores := false
			ast.Inspect(fd.Body, func(n ast.Node) bool {
				if as, ok := n.(*ast.AssignStmt); ok {
					for _, l := range as.Lhs {
						if ix, ok := l.(*ast.IndexExpr); ok {
							if tv, ok := f.info.Types[ix.X]; ok && tv.Type != nil {
								if _, isMap := tv.Type.Underlying().(*types.Map); isMap && strings.HasPrefix(f.norm(ix.X), "self.") {
									stores = true
								}
							}
						}
					}
				}
				return true
			})
			if stores {
				if fn, ok := p.TypesInfo.Defs[fd.Name].(*types.Func); ok {
					declNames = append(declNames, regexp.QuoteMeta(r2sibQualName(fn)))
				}
			}
		}
	}
	if len(declNames) == 0 {
		return []Obligation{{Key: "anchor|declaration methods", Status: Undecided, Detail: "no Module method stores into a receiver map and returns the previous holder"}}
	}
	sort.Strings(declNames)
	declRe := regexp.MustCompile(`^(` + strings.Join(declNames, "|") + `)$`)
	var out []Obligation
	for _, m := range members {
		f := r2sibFuncOf(c, m.Pkg, m.Fd)
		if f.fn != nil {
			e.busy[f.fn] = true
		}
		// helpers the import function was split into: functions of the package that work on the same import node
		// (a parameter of the import function's node type) are re-rooted at their call sites; nothing else is
		var inl []string
		if f.fn != nil {
			if msig, ok := f.fn.Type().(*types.Signature); ok && msig.Params().Len() > 0 {
				nodeT := msig.Params().At(0).Type()
				isMember := map[*types.Func]bool{}
				for _, o := range members {
					if ofn, ok := o.Pkg.TypesInfo.Defs[o.Fd.Name].(*types.Func); ok {
						isMember[ofn] = true
					}
				}
				for _, fd2 := range AllFuncDecls(m.Pkg) {
					fn2, _ := m.Pkg.TypesInfo.Defs[fd2.Name].(*types.Func)
					if fn2 == nil || isMember[fn2] {
						continue
					}
					s2 := fn2.Type().(*types.Signature)
					for i := 0; i < s2.Params().Len(); i++ {
						if types.Identical(s2.Params().At(i).Type(), nodeT) {
							inl = append(inl, regexp.QuoteMeta(r2sibQualName(fn2)))
							break
						}
					}
				}
			}
		}
		sort.Strings(inl)
		opts := r2sibOpts{Calls: declRe, NoInline: len(inl) == 0}
		if len(inl) > 0 {
			opts.InlineOnly = regexp.MustCompile(`^(` + strings.Join(inl, "|") + `)$`)
		}
		sum := e.extract(f, m.Fd.Body.List, opts, 0)
		if f.fn != nil {
			delete(e.busy, f.fn)
		}
		if !sum.ok {
			out = append(out, Obligation{Key: m.Name + "|signature", Pos: c.Pos(m.Fd.Pos()), Status: Undecided, Detail: "check signature not extracted: " + sum.why})
			continue
		}
		seen := map[string]int{}
		for _, ev := range sum.events {
			if ev.Kind != "call" || ev.Call == nil {
				continue
			}
			calleeName := ev.Attrs["callee"]
			if i := strings.LastIndex(calleeName, "."); i >= 0 {
				calleeName = calleeName[i+1:]
			}
			term := ev.Attrs["callterm"]
			name := ev.Attrs["term"]
			what := ev.Attrs["arg1"]
			if len(what) > 70 {
				what = what[:70] + "…"
			}
			key := fmt.Sprintf("%s|%s(%s, %s)", m.Name, calleeName, name, what)
			seen[key]++
			if n := seen[key]; n > 1 {
				key = fmt.Sprintf("%s #%d", key, n)
			}
			ob := Obligation{Key: key, Pos: c.Pos(ev.Pos), Nontrivial: true}
			// an error event whose guard requires a previous holder reported by this very call
			want1 := "not(" + term + " == nil)"
			want2 := term + "#1"
			var hit *r2sibEvent
			for _, er := range sum.events {
				if er.Kind != "error" || er.Via == ev.Via && er.Pos < ev.Pos {
					continue
				}
				// the reaction belongs to the statement of the call: it follows it closely in the source
				// the error is produced only on paths through this very call
				if imp, _, _ := r2sibRelate(er.Guard, ev.Guard, nil); !imp {
					continue
				}
				for _, lit := range r2sibNecessary(er.Guard, nil) {
					if lit == want1 || lit == want2 {
						if hit == nil || er.Pos < hit.Pos {
							hit = er
						}
					}
				}
			}
			narrowed := ""
			if hit != nil {
				// whenever the call reports a previous holder the error must follow: (guard of the call ∧ result) ⇒ guard of the error
				lit := r2sibLit{term + " == nil", false}
				for _, l := range r2sibNecessary(hit.Guard, nil) {
					if l == want2 {
						lit = r2sibLit{term + "#1", true}
					}
				}
				and := &r2sibDNF{}
				for _, cl := range ev.Guard.clauses {
					and.add(r2sibMkClause(append(append([]r2sibLit(nil), cl...), lit)))
				}
				if imp, _, decided, wit, _ := r2sibRelateW(and, hit.Guard, nil); decided && !imp {
					narrowed = wit
				}
			}
			if hit != nil && narrowed != "" {
				ob.Status = Violated
				ob.Pos = c.Pos(hit.Pos)
				ob.Detail = fmt.Sprintf("the previous holder returned by %s is tested, but the error (%s at %s) is produced only under an additional condition: no error when %s — the other import sites report every clash", calleeName, hit.Key, c.Pos(hit.Pos), narrowed)
			} else if hit != nil {
				ob.Detail = fmt.Sprintf("the previous holder returned by %s is tested and reported: %s at %s", calleeName, hit.Key, c.Pos(hit.Pos))
			} else {
				ob.Status = Violated
				ob.Detail = fmt.Sprintf("this import site declares %s with %s but no error is produced on the paths where the name is already taken (no error diagnostic is guarded by the 'previous' result of this call), unlike the other import sites: the clash goes unreported", name, calleeName)
			}
			out = append(out, ob)
		}
	}
	return out
}
