package main

// R-mangle-unique and R-fn-preregister (r2emit group).

import (
	"fmt"
	"go/ast"
	"go/token"
	"go/types"
	"sort"
	"strings"
)

func init() {
	register(&Rule{ID: "R-mangle-unique", Floor: 8, Run: ruleR2MangleUnique,
		Doc: "name mangling in the bytecode compiler is injective program-wide: the counter maps of compiler.Compiler (labels, variables, functions) and its scalar name counters are created once (in the constructor) and never replaced, deleted from or cleared on a live Compiler; every update is an increment (`m[k]++`, `m[k] += c`, `m[k] = m[k] + c`, or the constant first-use store on the branch where the lookup missed), all updates of one map live in one helper, and the counter value read from the map is part of the name that helper formats. Necessary for C01/C11/C15: function literals and trigger argument functions are compiled in the middle of their enclosing function, relocateLabels keeps the LAST definition of a label name per function and renameVariables resolves variables through one slot table shared by all functions, so a repeated label silently retargets break/continue/if/try jumps and a repeated variable name makes two variables share a slot. Taking a fresh number is atomic: in every function that touches a counter, on every path, no call that can (transitively) read the same counter runs between the read of the counter and its advance (nested function literals / nested constructs are compiled re-entrantly and would take the same number), and a number that was read is followed by an advance before the function returns"})
	register(&Rule{ID: "R-fn-preregister", Floor: 4, Run: ruleR2FnPreregister,
		Doc: "linking: every function the compiler compiles from a function list of the analysed program (module.Functions, impl-block methods) is entered into the compiler's function table (the method that stores into Compiler.modules[..][..]) by a registration loop over the SAME list that (1) registers on every path of every iteration (no filtering condition, continue, break or return), (2) is reached unconditionally in every iteration of the loops that enclose it, and (3) has completed for ALL modules before the first function body is compiled (registration and compilation do not share a loop). Necessary for C15/C01: getMangledFn resolves a callee first in the current module's table and otherwise in ANY module's table, and compileFn registers a function only when it reaches it, so a function that is not pre-registered is linked to a same-named function of another module (wrong body, wrong globals) or lowered to a global read that aborts the VM, for every call that precedes the definition in compilation order"})
}

// ---------------------------------------------------------------- R-mangle-unique

func ruleR2MangleUnique(c *Ctx) []Obligation {
	r2LoopCtx = c
	p := c.Pkg("homescript/compiler")
	info := p.TypesInfo
	tn, _ := p.Types.Scope().Lookup("Compiler").(*types.TypeName)
	if tn == nil {
		fatalf("anchor unresolved: compiler.Compiler")
	}
	st, ok := tn.Type().Underlying().(*types.Struct)
	if !ok {
		fatalf("compiler.Compiler is not a struct")
	}
	var maps, scalars []*types.Var
	for i := 0; i < st.NumFields(); i++ {
		f := st.Field(i)
		switch t := f.Type().Underlying().(type) {
		case *types.Map:
			if b, ok := t.Elem().Underlying().(*types.Basic); ok && b.Info()&types.IsInteger != 0 {
				maps = append(maps, f)
			}
		case *types.Basic:
			if t.Info()&types.IsInteger != 0 {
				scalars = append(scalars, f)
			}
		}
	}
	if len(maps) == 0 {
		return []Obligation{{Key: "compiler.Compiler|mangle counters", Status: Undecided, Detail: "no integer-valued map field in compiler.Compiler: the mangling counters moved; re-anchor the rule"}}
	}
	isCompilerT := func(t types.Type) bool {
		n := vmNamed(t)
		return n != nil && n.Obj() == tn
	}
	returnsCompiler := func(fd *ast.FuncDecl) bool {
		if fd.Type.Results == nil {
			return false
		}
		for _, r := range fd.Type.Results.List {
			if isCompilerT(info.TypeOf(r.Type)) {
				return true
			}
		}
		return false
	}
	type fact struct {
		reassign, bad, escape []string
		updaters              map[string]bool
		nUpd                  int
		updFn                 map[string]*ast.FuncDecl
	}
	facts := map[*types.Var]*fact{}
	for _, f := range append(append([]*types.Var{}, maps...), scalars...) {
		facts[f] = &fact{updaters: map[string]bool{}, updFn: map[string]*ast.FuncDecl{}}
	}
	isMapF := map[*types.Var]bool{}
	for _, f := range maps {
		isMapF[f] = true
	}
	rootIsFreshLocal := func(fd *ast.FuncDecl, e ast.Expr) bool {
		// x.F where x is a local variable (not parameter / receiver) of a function that returns a Compiler
		sel, ok := ast.Unparen(e).(*ast.SelectorExpr)
		if !ok || !returnsCompiler(fd) {
			return false
		}
		id, ok := ast.Unparen(sel.X).(*ast.Ident)
		if !ok {
			return false
		}
		v, ok := info.Uses[id].(*types.Var)
		if !ok {
			return false
		}
		// parameters and receivers are declared in the signature
		if fd.Recv != nil {
			for _, fl := range fd.Recv.List {
				for _, n := range fl.Names {
					if info.Defs[n] == v {
						return false
					}
				}
			}
		}
		for _, fl := range fd.Type.Params.List {
			for _, n := range fl.Names {
				if info.Defs[n] == v {
					return false
				}
			}
		}
		return v.Pkg() == p.Types && v.Parent() != p.Types.Scope()
	}

	for _, fd := range AllFuncDecls(p) {
		fname := "compiler." + FuncName(fd)
		par := r2Parents(fd.Body)
		// lookups `v, ok := x.F[k]`: ok object → field
		missOf := map[types.Object]*types.Var{}
		readOf := map[types.Object]string{} // v := x.F[k] → "F[k]"
		scalarReadOf := map[types.Object]*types.Var{}
		ast.Inspect(fd.Body, func(n ast.Node) bool {
			if as, ok := n.(*ast.AssignStmt); ok && len(as.Lhs) == len(as.Rhs) {
				for i, r := range as.Rhs {
					if f := vmFieldOf(info, vmStripConv(info, r)); f != nil && facts[f] != nil && !isMapF[f] {
						if o := vmObjOf(info, as.Lhs[i]); o != nil {
							scalarReadOf[o] = f
						}
					}
				}
			}
			return true
		})
		ast.Inspect(fd.Body, func(n ast.Node) bool {
			as, ok := n.(*ast.AssignStmt)
			if ok && len(as.Rhs) == 1 && len(as.Lhs) >= 1 {
				if ix, ok := ast.Unparen(as.Rhs[0]).(*ast.IndexExpr); ok {
					if f := vmFieldOf(info, ix.X); f != nil && isMapF[f] {
						if o := vmObjOf(info, as.Lhs[0]); o != nil {
							readOf[o] = f.Name() + "[" + exprStr(ix.Index) + "]"
						}
					}
				}
			}
			if !ok || len(as.Lhs) != 2 || len(as.Rhs) != 1 {
				return true
			}
			if ix, ok := ast.Unparen(as.Rhs[0]).(*ast.IndexExpr); ok {
				if f := vmFieldOf(info, ix.X); f != nil && isMapF[f] {
					if o := vmObjOf(info, as.Lhs[1]); o != nil {
						missOf[o] = f
					}
				}
			}
			return true
		})
		// onMissBranch: node lies in the branch of an if where the lookup of f missed
		onMissBranch := func(n ast.Node, f *types.Var) bool {
			child := n
			for cur := par[n]; cur != nil; child, cur = cur, par[cur] {
				is, ok := cur.(*ast.IfStmt)
				if !ok {
					continue
				}
				cond := ast.Unparen(is.Cond)
				neg := false
				if u, ok := cond.(*ast.UnaryExpr); ok && u.Op == token.NOT {
					neg, cond = true, ast.Unparen(u.X)
				}
				o := vmObjOf(info, cond)
				if o == nil || missOf[o] != f {
					continue
				}
				if neg && child == ast.Node(is.Body) {
					return true
				}
				if !neg && is.Else != nil && child == ast.Node(is.Else) {
					return true
				}
			}
			return false
		}
		posConst := func(e ast.Expr) bool {
			n, ok := r2ConstInt(info, e)
			return ok && n >= 1
		}
		handled := map[ast.Node]bool{} // selector nodes of the field consumed by a recognised form
		noteUpd := func(f *types.Var) {
			facts[f].nUpd++
			facts[f].updaters[fname] = true
			facts[f].updFn[fname] = fd
		}
		ast.Inspect(fd.Body, func(n ast.Node) bool {
			switch x := n.(type) {
			case *ast.AssignStmt:
				for i, l := range x.Lhs {
					l = ast.Unparen(l)
					if f := vmFieldOf(info, l); f != nil && facts[f] != nil {
						handled[ast.Unparen(l)] = true
						if isMapF[f] {
							if !rootIsFreshLocal(fd, l) {
								facts[f].reassign = append(facts[f].reassign, fmt.Sprintf("%s @%s", fname, c.Pos(x.Pos())))
							}
						} else {
							// scalar counter
							okW := x.Tok == token.ADD_ASSIGN && i < len(x.Rhs) && posConst(x.Rhs[i])
							if !okW && x.Tok == token.ASSIGN && i < len(x.Rhs) {
								// x.F = x.F + c  /  x.F = v + c with v read from x.F
								if be, ok := ast.Unparen(x.Rhs[i]).(*ast.BinaryExpr); ok && be.Op == token.ADD && posConst(be.Y) {
									if vmFieldOf(info, be.X) == f {
										okW = true
									} else if o := vmObjOf(info, be.X); o != nil && scalarReadOf[o] == f {
										okW = true
									}
								}
							}
							if !okW && !rootIsFreshLocal(fd, l) {
								facts[f].bad = append(facts[f].bad, fmt.Sprintf("%s @%s: `%s`", fname, c.Pos(x.Pos()), vmTrunc(exprStr(l)+" "+x.Tok.String()+" …", 60)))
							} else if okW {
								noteUpd(f)
							}
						}
						continue
					}
					if s, ok := l.(*ast.StarExpr); ok && isCompilerT(info.TypeOf(s)) {
						for _, f := range maps {
							facts[f].reassign = append(facts[f].reassign, fmt.Sprintf("%s @%s (whole Compiler overwritten)", fname, c.Pos(x.Pos())))
						}
						continue
					}
					ix, ok := l.(*ast.IndexExpr)
					if !ok {
						continue
					}
					f := vmFieldOf(info, ix.X)
					if f == nil || !isMapF[f] {
						continue
					}
					handled[ast.Unparen(ix.X)] = true
					noteUpd(f)
					var rhs ast.Expr
					if i < len(x.Rhs) {
						rhs = x.Rhs[i]
					}
					okU := false
					switch x.Tok {
					case token.ADD_ASSIGN:
						okU = rhs != nil && posConst(rhs)
					case token.ASSIGN:
						if rhs != nil && posConst(rhs) {
							okU = onMissBranch(x, f)
							if !okU {
								facts[f].bad = append(facts[f].bad, fmt.Sprintf("%s @%s stores the constant %s although the entry may exist (not on the branch where the lookup missed): the counter restarts", fname, c.Pos(x.Pos()), exprStr(rhs)))
								continue
							}
						} else if be, ok := ast.Unparen(rhs).(*ast.BinaryExpr); ok && be.Op == token.ADD {
							if ix2, ok := ast.Unparen(be.X).(*ast.IndexExpr); ok && vmFieldOf(info, ix2.X) == f && exprStr(ix2.Index) == exprStr(ix.Index) && posConst(be.Y) {
								okU = true
							}
							// v + c where v was read from the same entry
							if o := vmObjOf(info, be.X); o != nil && posConst(be.Y) && readOf[o] == f.Name()+"["+exprStr(ix.Index)+"]" {
								okU = true
							}
						}
					}
					if !okU {
						facts[f].bad = append(facts[f].bad, fmt.Sprintf("%s @%s: `%s` is not an increment", fname, c.Pos(x.Pos()), vmTrunc(exprStr(l)+" "+x.Tok.String()+" "+exprStr(rhs), 80)))
					}
				}
			case *ast.IncDecStmt:
				e := ast.Unparen(x.X)
				if ix, ok := e.(*ast.IndexExpr); ok {
					if f := vmFieldOf(info, ix.X); f != nil && isMapF[f] {
						handled[ast.Unparen(ix.X)] = true
						noteUpd(f)
						if x.Tok != token.INC {
							facts[f].bad = append(facts[f].bad, fmt.Sprintf("%s @%s decrements an entry", fname, c.Pos(x.Pos())))
						}
					}
				} else if f := vmFieldOf(info, e); f != nil && facts[f] != nil && !isMapF[f] {
					handled[e] = true
					noteUpd(f)
					if x.Tok != token.INC {
						facts[f].bad = append(facts[f].bad, fmt.Sprintf("%s @%s decrements the counter", fname, c.Pos(x.Pos())))
					}
				}
			case *ast.CallExpr:
				if (r2IsBuiltin(info, x, "delete") || r2IsBuiltin(info, x, "clear")) && len(x.Args) > 0 {
					if f := vmFieldOf(info, x.Args[0]); f != nil && isMapF[f] {
						handled[ast.Unparen(x.Args[0])] = true
						facts[f].bad = append(facts[f].bad, fmt.Sprintf("%s @%s removes entries from the counter map", fname, c.Pos(x.Pos())))
					}
				}
				if r2IsBuiltin(info, x, "len") && len(x.Args) == 1 {
					handled[ast.Unparen(x.Args[0])] = true
				}
			case *ast.IndexExpr:
				// read m[k]
				if f := vmFieldOf(info, x.X); f != nil && isMapF[f] {
					handled[ast.Unparen(x.X)] = true
				}
			case *ast.CompositeLit:
				if isCompilerT(info.TypeOf(x)) && !returnsCompiler(fd) {
					for _, f := range maps {
						facts[f].reassign = append(facts[f].reassign, fmt.Sprintf("%s @%s builds a second Compiler value", fname, c.Pos(x.Pos())))
					}
				}
			}
			return true
		})
		// escapes: the map itself used as a value
		ast.Inspect(fd.Body, func(n ast.Node) bool {
			sel, ok := n.(*ast.SelectorExpr)
			if !ok {
				return true
			}
			if f := vmFieldOf(info, sel); f != nil && isMapF[f] && !handled[sel] {
				facts[f].escape = append(facts[f].escape, fmt.Sprintf("%s @%s", fname, c.Pos(sel.Pos())))
			}
			return true
		})
	}

	var obs []Obligation
	for _, f := range maps {
		ft := facts[f]
		key := "compiler.Compiler." + f.Name()
		ob1 := Obligation{Key: key + "|created once", Pos: c.Pos(f.Pos()), Nontrivial: true}
		switch {
		case len(ft.reassign) > 0:
			ob1.Status = Violated
			ob1.Detail = "the counter map is replaced on a live Compiler by " + strings.Join(ft.reassign, ", ") + ": numbering restarts, so names already handed out are handed out again. Function literals / trigger argument functions are compiled in the middle of their enclosing function: the enclosing function then repeats label names it has already used (relocateLabels keeps the last definition, every jump to that name is retargeted) or variable names (renameVariables maps both to one slot)"
		case len(ft.escape) > 0:
			ob1.Status, ob1.Detail = Undecided, "the counter map is used as a value (aliased / passed on) at "+strings.Join(ft.escape, ", ")+": updates through the alias are not visible to this rule"
		default:
			ob1.Status, ob1.Detail = Discharged, "only set in the constructor; never assigned, aliased or rebuilt on a live Compiler"
		}
		ob2 := Obligation{Key: key + "|entries only grow", Pos: c.Pos(f.Pos()), Nontrivial: true}
		var us []string
		for u := range ft.updaters {
			us = append(us, u)
		}
		sort.Strings(us)
		switch {
		case len(ft.bad) > 0:
			ob2.Status, ob2.Detail = Violated, "counter entries are not monotonic: "+strings.Join(ft.bad, "; ")
		case len(us) > 1:
			ob2.Status, ob2.Detail = Violated, "counter entries are written by more than one function: "+strings.Join(us, ", ")
		case ft.nUpd == 0:
			ob2.Status, ob2.Detail = Discharged, "never updated (unused counter)"
		default:
			ob2.Status, ob2.Detail = Discharged, fmt.Sprintf("%d update(s), all in %s, each an increment or the first-use constant on the lookup-missed branch", ft.nUpd, us[0])
		}
		obs = append(obs, ob1, ob2)
		// the counter value is part of the formatted name
		if len(us) == 1 && len(ft.bad) == 0 {
			fd := ft.updFn[us[0]]
			ob3 := Obligation{Key: key + "|counter is part of the mangled name", Pos: c.Pos(fd.Pos()), Nontrivial: true}
			var cnt []types.Object
			ast.Inspect(fd.Body, func(n ast.Node) bool {
				as, ok := n.(*ast.AssignStmt)
				if !ok || len(as.Rhs) != 1 {
					return true
				}
				if ix, ok := ast.Unparen(as.Rhs[0]).(*ast.IndexExpr); ok && vmFieldOf(info, ix.X) == f {
					if o := vmObjOf(info, as.Lhs[0]); o != nil {
						cnt = append(cnt, o)
					}
				}
				return true
			})
			used := false
			ast.Inspect(fd.Body, func(n ast.Node) bool {
				call, ok := n.(*ast.CallExpr)
				if !ok {
					return true
				}
				g := CalleeOf(info, call)
				if g == nil || g.Pkg() == nil || g.Pkg().Path() != "fmt" || !strings.HasPrefix(g.Name(), "Sprint") {
					return true
				}
				for _, a := range call.Args {
					for _, o := range cnt {
						if vmMentionsObj(info, a, o) {
							used = true
						}
					}
					if ix, ok := ast.Unparen(a).(*ast.IndexExpr); ok && vmFieldOf(info, ix.X) == f {
						used = true
					}
				}
				return true
			})
			if used {
				ob3.Status, ob3.Detail = Discharged, us[0]+" formats the value it read from the counter map into the name it returns"
				// path-exact: every name the helper hands out carries the number
				if bad, n, ok := r6emNameCarriesCounter(c, fd, info, f, cnt); ok && len(bad) > 0 {
					ob3.Status = Violated
					ob3.Detail = fmt.Sprintf("%s returns a name that does not contain the number taken from the counter on %d of %d returning path(s): %s. Two registrations of the same source name on such a path get the SAME mangled name: renameVariables gives them one frame slot (a nested construct overwrites the outer one's variable), relocateLabels keeps only the last definition of a repeated label", us[0], len(bad), n, strings.Join(bad, " | "))
				} else if ok {
					ob3.Detail += fmt.Sprintf(" (on all %d returning path(s))", n)
				}
			} else {
				ob3.Status, ob3.Detail = Violated, us[0]+" updates the counter but no fmt.Sprint* call in it receives the value read from the map: successive names for the same source identifier are identical"
			}
			obs = append(obs, ob3)
		}
	}
	for _, f := range scalars {
		ft := facts[f]
		ob := Obligation{Key: "compiler.Compiler." + f.Name() + "|only incremented", Pos: c.Pos(f.Pos()), Nontrivial: true}
		if len(ft.bad) > 0 {
			ob.Status, ob.Detail = Violated, "scalar name counter is written other than by an increment: "+strings.Join(ft.bad, "; ")
		} else {
			ob.Status, ob.Detail = Discharged, fmt.Sprintf("%d write(s), all increments", ft.nUpd)
		}
		obs = append(obs, ob)
	}
	// round 3: taking a fresh number is atomic w.r.t. re-entrant compilation
	obs = append(obs, r3emTakeAtomic(c, append(append([]*types.Var{}, maps...), scalars...), isMapF)...)
	return obs
}

// ---------------------------------------------------------------- R-fn-preregister

type r2Frame struct {
	fn    *vmFn
	nodes []ast.Node // ancestors of the site inside fn: innermost first, ending with fn.fd.Body
}

type r2Chain struct {
	frames []r2Frame
	conds  []string // reasons why the site is only conditionally reached
	loops  []*r2Loop
	linfo  []*types.Info
}

// r2ChainsUp climbs from a statement to the roots of the package-local call
// graph, through the call sites of the enclosing function.
func r2ChainsUp(c *Ctx, roles *vmCompilerRoles, fn *vmFn, site ast.Node, depth int, seen map[*vmFn]bool) []*r2Chain {
	par := r2Parents(fn.fd.Body)
	ch := &r2Chain{}
	fr := r2Frame{fn: fn}
	child := site
	for cur := par[site]; ; child, cur = cur, par[cur] {
		if cur == nil {
			break
		}
		fr.nodes = append(fr.nodes, cur)
		switch x := cur.(type) {
		case *ast.IfStmt:
			if child != ast.Node(x.Init) {
				ch.conds = append(ch.conds, fmt.Sprintf("under `if %s` @%s", vmTrunc(exprStr(x.Cond), 60), c.Pos(x.Pos())))
			}
		case *ast.CaseClause:
			ch.conds = append(ch.conds, fmt.Sprintf("inside a switch clause @%s", c.Pos(x.Pos())))
		case *ast.CommClause:
			ch.conds = append(ch.conds, fmt.Sprintf("inside a select clause @%s", c.Pos(x.Pos())))
		case *ast.FuncLit:
			ch.conds = append(ch.conds, fmt.Sprintf("inside a function literal @%s", c.Pos(x.Pos())))
		case *ast.ForStmt, *ast.RangeStmt:
			l := r2LoopOf(fn.info, x.(ast.Stmt))
			ch.loops = append(ch.loops, l)
			ch.linfo = append(ch.linfo, fn.info)
		case *ast.BlockStmt:
			// statements before `child` in this block that can skip it
			for _, s := range x.List {
				if ast.Node(s) == child {
					break
				}
				if why := r2SkipsRest(fn.info, s); why != "" {
					ch.conds = append(ch.conds, fmt.Sprintf("%s @%s precedes it", why, c.Pos(s.Pos())))
				}
			}
		}
	}
	ch.frames = append(ch.frames, fr)
	obj, _ := fn.info.Defs[fn.fd.Name].(*types.Func)
	if depth >= 4 || obj == nil || seen[fn] {
		return []*r2Chain{ch}
	}
	// call sites of fn inside the package
	type siteT struct {
		fn   *vmFn
		call *ast.CallExpr
	}
	var sites []siteT
	for _, g := range roles.fns {
		if g == fn {
			continue
		}
		ast.Inspect(g.fd.Body, func(n ast.Node) bool {
			if call, ok := n.(*ast.CallExpr); ok && CalleeOf(g.info, call) == obj {
				sites = append(sites, siteT{g, call})
			}
			return true
		})
	}
	if len(sites) == 0 {
		return []*r2Chain{ch}
	}
	seen2 := map[*vmFn]bool{fn: true}
	for k := range seen {
		seen2[k] = true
	}
	var out []*r2Chain
	for _, s := range sites {
		for _, up := range r2ChainsUp(c, roles, s.fn, s.call, depth+1, seen2) {
			m := &r2Chain{}
			m.frames = append(append([]r2Frame{}, ch.frames...), up.frames...)
			m.conds = append(append([]string{}, ch.conds...), up.conds...)
			m.loops = append(append([]*r2Loop{}, ch.loops...), up.loops...)
			m.linfo = append(append([]*types.Info{}, ch.linfo...), up.linfo...)
			out = append(out, m)
		}
	}
	return out
}

// r2SkipsRest: the statement can transfer control past the statements that
// follow it in its block (return, or break/continue that leaves the block).
func r2SkipsRest(info *types.Info, s ast.Stmt) string {
	why := ""
	var walk func(n ast.Node, inLoop, inBreakable bool)
	walk = func(n ast.Node, inLoop, inBreakable bool) {
		ast.Inspect(n, func(m ast.Node) bool {
			if why != "" || m == nil {
				return false
			}
			if m != n {
				switch x := m.(type) {
				case *ast.FuncLit:
					return false
				case *ast.ForStmt, *ast.RangeStmt:
					walk(x, true, true)
					return false
				case *ast.SwitchStmt, *ast.TypeSwitchStmt, *ast.SelectStmt:
					walk(x, inLoop, true)
					return false
				}
			}
			switch x := m.(type) {
			case *ast.ReturnStmt:
				why = "a `return`"
			case *ast.BranchStmt:
				switch {
				case x.Label != nil || x.Tok == token.GOTO:
					why = "a labelled branch"
				case x.Tok == token.CONTINUE && !inLoop:
					why = "a `continue`"
				case x.Tok == token.BREAK && !inBreakable:
					why = "a `break`"
				}
			}
			return why == ""
		})
	}
	switch s.(type) {
	case *ast.ForStmt, *ast.RangeStmt:
		walk(s, true, true)
	case *ast.SwitchStmt, *ast.TypeSwitchStmt, *ast.SelectStmt:
		walk(s, false, true)
	default:
		walk(s, false, false)
	}
	return why
}

func ruleR2FnPreregister(c *Ctx) []Obligation {
	r2LoopCtx = c
	roles := vmCompRoles(c)
	comp := c.Pkg("homescript/compiler")
	fnDefObj := roles.astPkg.Scope().Lookup("AnalyzedFunctionDefinition")
	if fnDefObj == nil {
		fatalf("anchor unresolved: analyzer/ast.AnalyzedFunctionDefinition")
	}
	fnDefT := fnDefObj.Type()
	isFnList := func(t types.Type) bool {
		if t == nil {
			return false
		}
		sl, ok := t.Underlying().(*types.Slice)
		return ok && types.Identical(sl.Elem(), fnDefT)
	}
	// compileFn: the emitter method with a parameter of the function-definition type (the root of
	// them when the function compiler is split into helpers that all receive the definition)
	compileFn, _ := r3emPickFnCompiler(roles, fnDefT)
	// the function table: Compiler field of type map[..]map[..]*Function; the registering method stores into it
	var table *types.Var
	if tn, _ := comp.Types.Scope().Lookup("Compiler").(*types.TypeName); tn != nil {
		if st, ok := tn.Type().Underlying().(*types.Struct); ok {
			for i := 0; i < st.NumFields(); i++ {
				if m1, ok := st.Field(i).Type().Underlying().(*types.Map); ok {
					if m2, ok := m1.Elem().Underlying().(*types.Map); ok {
						if n := vmNamed(m2.Elem()); n != nil && n.Obj().Name() == "Function" {
							table = st.Field(i)
						}
					}
				}
			}
		}
	}
	if table == nil {
		fatalf("anchor unresolved: Compiler field of type map[module]map[ident]*Function")
	}
	var addFn *types.Func
	for _, fn := range roles.fns {
		obj, _ := fn.info.Defs[fn.fd.Name].(*types.Func)
		if obj == nil {
			continue
		}
		ast.Inspect(fn.fd.Body, func(n ast.Node) bool {
			as, ok := n.(*ast.AssignStmt)
			if !ok {
				return true
			}
			for _, l := range as.Lhs {
				if ix, ok := ast.Unparen(l).(*ast.IndexExpr); ok {
					if ix2, ok := ast.Unparen(ix.X).(*ast.IndexExpr); ok && vmFieldOf(fn.info, ix2.X) == table {
						if addFn != nil && addFn != obj {
							fatalf("anchor ambiguous: %s and %s store into Compiler.%s[..][..]", addFn.Name(), obj.Name(), table.Name())
						}
						addFn = obj
					}
				}
			}
			return true
		})
	}
	if addFn == nil {
		fatalf("anchor unresolved: no function stores into Compiler.%s[..][..]", table.Name())
	}

	// wrappers: functions with a function-definition parameter that register it on every path
	registers := map[*types.Func]bool{addFn: true}
	for round := 0; round < 3; round++ {
		for _, fn := range roles.fns {
			obj, _ := fn.info.Defs[fn.fd.Name].(*types.Func)
			if obj == nil || registers[obj] || obj == compileFn {
				continue
			}
			var params []types.Object
			for _, fl := range fn.fd.Type.Params.List {
				if types.Identical(fn.info.TypeOf(fl.Type), fnDefT) {
					for _, n := range fl.Names {
						params = append(params, fn.info.Defs[n])
					}
				}
			}
			if len(params) == 0 {
				continue
			}
			res := vmWalk(vmWalkOpts{fn: fn, maxPaths: 2000})
			if res.overflow || len(res.paths) == 0 {
				continue
			}
			all := true
			for i := range res.paths {
				p := &res.paths[i]
				if p.o.kind == cPanic {
					continue
				}
				has := false
				for _, e := range p.ev {
					if e.K == evCall && e.Fn != nil && registers[e.Fn] && !e.Deferred {
						for _, a := range e.Call.Args {
							for _, po := range params {
								if vmMentionsObj(fn.info, a, po) {
									has = true
								}
							}
						}
					}
				}
				if !has {
					all = false
				}
			}
			if all {
				registers[obj] = true
			}
		}
	}

	type loopSite struct {
		fn   *vmFn
		l    *r2Loop
		call *ast.CallExpr
	}
	var compileLoops, regLoops []loopSite
	for _, fn := range roles.fns {
		ast.Inspect(fn.fd.Body, func(n ast.Node) bool {
			s, ok := n.(ast.Stmt)
			if !ok {
				return true
			}
			switch s.(type) {
			case *ast.ForStmt, *ast.RangeStmt:
			default:
				return true
			}
			l := r2LoopOf(fn.info, s)
			if l == nil || l.coll == nil || !isFnList(fn.info.TypeOf(l.coll)) {
				return true
			}
			// calls directly in this loop's body (not in a nested function-list loop)
			ast.Inspect(l.body, func(m ast.Node) bool {
				call, ok := m.(*ast.CallExpr)
				if !ok {
					return true
				}
				g := CalleeOf(fn.info, call)
				switch {
				case g == nil:
				case g == compileFn:
					compileLoops = append(compileLoops, loopSite{fn, l, call})
				case registers[g]:
					regLoops = append(regLoops, loopSite{fn, l, call})
				}
				return true
			})
			return true
		})
	}
	var obs []Obligation
	if len(compileLoops) == 0 {
		return []Obligation{{Key: "compiler|compile loops", Status: Undecided, Detail: fmt.Sprintf("no loop over a []AnalyzedFunctionDefinition calls %s: the compilation driver changed shape; re-anchor the rule", compileFn.Name())}}
	}
	// pathRegisters: the iteration path calls a registering function with an argument derived from the loop element
	pathRegisters := func(ls loopSite, p *vmPath) bool {
		info := ls.fn.info
		elem := map[types.Object]bool{}
		if ls.l.val != nil {
			elem[ls.l.val] = true
		}
		if ls.l.idx != nil {
			elem[ls.l.idx] = true
		}
		mentions := func(e ast.Node) bool {
			for o := range elem {
				if vmMentionsObj(info, e, o) {
					return true
				}
			}
			return false
		}
		for _, e := range p.ev {
			switch e.K {
			case evAssign:
				if e.Rhs != nil && mentions(e.Rhs) {
					if o := vmObjOf(info, e.Lhs); o != nil {
						elem[o] = true
					}
				}
			case evCall:
				if e.Fn != nil && registers[e.Fn] && !e.Deferred {
					for _, a := range e.Call.Args {
						if mentions(a) {
							return true
						}
					}
				}
			}
		}
		return false
	}
	seenKey := map[string]int{}
	for _, cl := range compileLoops {
		field := vmFieldOf(cl.fn.info, cl.l.coll)
		name := exprStr(cl.l.coll)
		if field != nil {
			name = vmFieldName(field)
		}
		base := fmt.Sprintf("%s|compile loop over %s", cl.fn.name, name)
		seenKey[base]++
		if seenKey[base] > 1 {
			base += fmt.Sprintf(" #%d", seenKey[base])
		}
		pos := c.Pos(cl.l.stmt.Pos())
		// registration loops over the same list
		var regs []loopSite
		for _, r := range regLoops {
			if field != nil && vmFieldOf(r.fn.info, r.l.coll) == field {
				regs = append(regs, r)
			}
		}
		ob1 := Obligation{Key: base + "|a registration loop ranges over the same list", Pos: pos, Nontrivial: true}
		if field == nil {
			ob1.Status, ob1.Detail = Undecided, "the compile loop ranges over `"+name+"`, which is not a field of the analysed program: cannot pair it with a registration loop"
			obs = append(obs, ob1)
			continue
		}
		if len(regs) == 0 {
			ob1.Status = Violated
			ob1.Detail = fmt.Sprintf("no loop over %s calls %s: the functions of this list are only registered when %s reaches them, so a call that precedes the callee's definition in compilation order is linked through getMangledFn's any-module fallback or to a global read", name, addFn.Name(), compileFn.Name())
			obs = append(obs, ob1)
			continue
		}
		ob1.Status, ob1.Detail = Discharged, fmt.Sprintf("%d registration loop(s) over %s", len(regs), name)
		obs = append(obs, ob1)

		var bodyBad, reachBad, orderBad []string
		good := false
		var goodDetail string
		for _, r := range regs {
			var bad []string
			if !r.l.full || r.l.start != nil {
				t := fmt.Sprintf("the registration loop @%s does not cover the whole list (it ranges over a part of it, from `%s`)", c.Pos(r.l.stmt.Pos()), exprStr(r.l.start))
				bad = append(bad, t)
				bodyBad = append(bodyBad, t)
			}
			// (1) every path of the body registers
			res := vmWalk(vmWalkOpts{fn: r.fn, body: r.l.body})
			if res.overflow {
				bad = append(bad, "path cap exceeded in the registration loop body")
			}
			for i := range res.paths {
				p := &res.paths[i]
				if p.o.kind == cPanic {
					continue
				}
				has := pathRegisters(r, p)
				switch {
				case p.o.kind == cBreak || p.o.kind == cReturn:
					bodyBad = append(bodyBad, fmt.Sprintf("loop @%s is left early (%s) on the path [%s]: later functions of the list are not registered", c.Pos(r.l.stmt.Pos()), p.exitStr(c), p.decisions()))
					bad = append(bad, "early exit")
				case !has:
					bodyBad = append(bodyBad, fmt.Sprintf("loop @%s: the iteration path [%s] (%s) does not call %s for the element", c.Pos(r.l.stmt.Pos()), p.decisions(), p.exitStr(c), addFn.Name()))
					bad = append(bad, "filtered")
				}
			}
			// (2) reached unconditionally, (3) completes before compilation starts
			rchains := r2ChainsUp(c, roles, r.fn, r.l.stmt, 0, nil)
			cchains := r2ChainsUp(c, roles, cl.fn, cl.l.stmt, 0, nil)
			for _, rc := range rchains {
				if len(rc.conds) > 0 {
					reachBad = append(reachBad, fmt.Sprintf("registration loop @%s is not reached in every iteration / on every path: %s", c.Pos(r.l.stmt.Pos()), strings.Join(rc.conds, "; ")))
					bad = append(bad, "conditional")
				}
				for i, l := range rc.loops {
					if l == nil || l.coll == nil || !l.full || l.start != nil {
						reachBad = append(reachBad, fmt.Sprintf("an enclosing loop of the registration loop @%s does not range over a whole collection", c.Pos(rc.loops[i].stmt.Pos())))
						bad = append(bad, "partial outer loop")
					}
				}
			}
			for _, cc := range cchains {
				okFor := false
				var why []string
				for _, rc := range rchains {
					w := r2OrderProblem(c, rc, cc)
					if w == "" {
						okFor = true
						break
					}
					why = append(why, w)
				}
				if !okFor {
					orderBad = append(orderBad, why...)
					bad = append(bad, "order")
				}
			}
			if len(bad) == 0 {
				good = true
				goodDetail = fmt.Sprintf("registration loop @%s (%s): every iteration path calls %s for the element; reached unconditionally; it and its enclosing loops end before the statement that contains the compile loop starts", c.Pos(r.l.stmt.Pos()), r.fn.name, addFn.Name())
			}
		}
		mk := func(suffix string, bad []string, okText string) {
			ob := Obligation{Key: base + "|" + suffix, Pos: pos, Nontrivial: true}
			if good || len(bad) == 0 {
				ob.Status, ob.Detail = Discharged, okText
				if good {
					ob.Detail = goodDetail
				}
			} else {
				ob.Status, ob.Detail = Violated, strings.Join(vmUniq(bad), " | ")
			}
			obs = append(obs, ob)
		}
		mk("registration is unfiltered: every element is registered on every path", bodyBad, "no filtering")
		mk("registration loop is reached unconditionally", reachBad, "unconditional")
		mk("registration of all modules completes before any function body is compiled", orderBad, "ordered")
	}
	// inventory: other callers of compileFn register immediately before compiling (function literals, trigger argument functions)
	return obs
}

// r2OrderProblem: "" when chain r (registration) completes before chain cc
// (compilation) starts; otherwise the reason.
func r2OrderProblem(c *Ctx, r, cc *r2Chain) string {
	// first common function, innermost first
	for _, fr := range r.frames {
		for _, fc := range cc.frames {
			if fr.fn != fc.fn {
				continue
			}
			inR := map[ast.Node]bool{}
			for _, n := range fr.nodes {
				inR[n] = true
			}
			// common ancestors
			for _, n := range fc.nodes {
				if !inR[n] {
					continue
				}
				switch n.(type) {
				case *ast.ForStmt, *ast.RangeStmt:
					return fmt.Sprintf("registration and compilation share the loop @%s (%s): when the first element's function bodies are compiled, the functions of elements visited later (other modules) are not registered yet, so calls to them cannot be linked", c.Pos(n.Pos()), fr.fn.name)
				}
			}
			// no common loop: source order inside the common function decides
			rTop, cTop := r2TopOf(fr), r2TopOf(fc)
			if rTop == nil || cTop == nil {
				return "cannot order the two sites"
			}
			if rTop.End() <= cTop.Pos() {
				// collection coverage: every collection type compiled over is registered over
				for i, lc := range cc.loops {
					if lc == nil || lc.coll == nil {
						continue
					}
					tc := cc.linfo[i].TypeOf(lc.coll)
					found := false
					for j, lr := range r.loops {
						if lr == nil || lr.coll == nil {
							continue
						}
						if types.Identical(r.linfo[j].TypeOf(lr.coll), tc) {
							found = true
						}
					}
					if !found {
						return fmt.Sprintf("the compile chain ranges over `%s` (%s) but no loop of the registration chain ranges over a collection of that type", exprStr(lc.coll), tc)
					}
				}
				return ""
			}
			return fmt.Sprintf("the registration site @%s does not precede the compilation site @%s in %s", c.Pos(rTop.Pos()), c.Pos(cTop.Pos()), fr.fn.name)
		}
	}
	return "registration and compilation have no common calling function: their order cannot be decided"
}

// r2TopOf: the outermost statement of the frame's site (direct child of the function body).
func r2TopOf(f r2Frame) ast.Node {
	if len(f.nodes) == 0 {
		return nil
	}
	// nodes: innermost … body; the one before the body
	if len(f.nodes) == 1 {
		return nil
	}
	// find last node that is a statement whose parent is the function body
	for i := len(f.nodes) - 2; i >= 0; i-- {
		if _, ok := f.nodes[i].(ast.Stmt); ok {
			return f.nodes[i]
		}
	}
	return nil
}
