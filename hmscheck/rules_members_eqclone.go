package main

// R-eq-symmetric, R-clone-fresh, R-value-fields: anti-pattern detectors and
// field coverage (E6) on the value structs of both value libraries.

import (
	"fmt"
	"go/ast"
	"go/token"
	"go/types"
	"sort"
	"strings"
)

func init() {
	register(&Rule{ID: "R-eq-symmetric", Floor: 4, Run: ruleEqSymmetric,
		Doc: "IsEqual of a value kind backed by a map (or slice) must treat receiver and argument alike: if it ranges over the receiver's container only, it must also compare the sizes (or range over the argument's container); otherwise a ⊂ b gives a == b but b != a (equality is not symmetric), or, for slices, indexes the argument out of range"})
	register(&Rule{ID: "R-clone-fresh", Floor: 8, Run: ruleCloneFresh,
		Doc: "Clone must not let any reference held by the receiver (map, slice, pointer, or a dereferenced payload that itself may contain one) flow unchanged into its result: every such field must pass through a per-element Clone() into freshly allocated containers; otherwise a mutation of the clone is visible in the original (C13: a clone shares no mutable state, C01: `for` iterates over a copy)"})
	register(&Rule{ID: "R-value-fields", Floor: 40, Run: ruleValueFields,
		Doc: "IsEqual, Display and Clone of every value struct read every content field of the struct (all fields except the iteration cursor, i.e. fields written only by the methods IntoIter hands out): two values that differ only in an unread field are indistinguishable to the method, so equality / printing / copying is wrong for one of them"})
}

func mbRecvObj(info *types.Info, fd *ast.FuncDecl) types.Object {
	if fd == nil || fd.Recv == nil || len(fd.Recv.List[0].Names) == 0 {
		return nil
	}
	return info.Defs[fd.Recv.List[0].Names[0]]
}

// mbStripDeref removes parens, derefs and type assertions.
func mbStripDeref(e ast.Expr) ast.Expr {
	for {
		switch x := e.(type) {
		case *ast.ParenExpr:
			e = x.X
		case *ast.StarExpr:
			e = x.X
		case *ast.TypeAssertExpr:
			e = x.X
		default:
			return e
		}
	}
}

// mbIsContainer: map, slice, or pointer to one.
func mbIsContainer(t types.Type) (kind string, ok bool) {
	switch u := t.Underlying().(type) {
	case *types.Map:
		return "map", true
	case *types.Slice:
		return "slice", true
	case *types.Pointer:
		switch u.Elem().Underlying().(type) {
		case *types.Map:
			return "map", true
		case *types.Slice:
			return "slice", true
		}
	}
	return "", false
}

// ---------------------------------------------------------------------------
// R-eq-symmetric
// ---------------------------------------------------------------------------

func ruleEqSymmetric(c *Ctx) []Obligation {
	var obs []Obligation
	for _, l := range []*mbLib{mbLoadLib(c, mbRelVM, "vm"), mbLoadLib(c, mbRelInterp, "interp")} {
		for _, im := range l.impls {
			for i := 0; i < im.st.NumFields(); i++ {
				f := im.st.Field(i)
				ck, ok := mbIsContainer(f.Type())
				if !ok {
					continue
				}
				// element type must hold values (not an unrelated slice)
				key := fmt.Sprintf("eq|%s|%s.IsEqual|%s", l.tag, im.Name(), f.Name())
				fd := im.methods["IsEqual"]
				if fd == nil {
					obs = append(obs, Obligation{Key: key, Pos: c.Pos(im.named.Obj().Pos()), Status: Undecided, Detail: "IsEqual not found"})
					continue
				}
				recv := mbRecvObj(l.info, fd)
				var other types.Object
				if len(fd.Type.Params.List) == 1 && len(fd.Type.Params.List[0].Names) == 1 {
					other = l.info.Defs[fd.Type.Params.List[0].Names[0]]
				}
				sc := &mbEqScan{l: l, field: f.Name()}
				env := mbEqEnv{whole: map[types.Object]string{}, cont: map[types.Object]string{}}
				if recv != nil {
					env.whole[recv] = "self"
				}
				if other != nil {
					env.whole[other] = "other"
				}
				sc.scan(fd.Body, env, 0)
				rangesSelf, rangesOther, lenCmp, idxLoopSelf, readsSelf := sc.rangesSelf, sc.rangesOther, sc.lenCmp, sc.idxLoopSelf, sc.readsSelf
				st, detail := Discharged, ""
				switch {
				case !readsSelf:
					st, detail = Info, fmt.Sprintf("IsEqual never reads the %s field %s (see R-value-fields)", ck, f.Name())
				case (rangesSelf || idxLoopSelf) && !rangesOther && !lenCmp:
					st = Violated
					if ck == "map" {
						detail = fmt.Sprintf("IsEqual ranges over the receiver's map %s only and never compares len(self.%s) with len(other.%s): for a ⊂ b it answers a == b but b != a", f.Name(), f.Name(), f.Name())
					} else {
						detail = fmt.Sprintf("IsEqual iterates the receiver's slice %s only and never compares the lengths", f.Name())
					}
				case !(rangesSelf || idxLoopSelf):
					st, detail = Undecided, fmt.Sprintf("IsEqual reads the %s field %s but not through a loop this rule understands", ck, f.Name())
				default:
					detail = fmt.Sprintf("iterates receiver's %s %s; sizes compared=%v; argument's container iterated=%v", ck, f.Name(), lenCmp, rangesOther)
				}
				obs = append(obs, Obligation{Key: key, Pos: c.Pos(fd.Pos()), Status: st, Detail: detail, Nontrivial: true})
			}
		}
	}
	return obs
}

// mbEqScan collects, over the body of IsEqual and of the library helpers it
// calls (two levels, operands bound to parameters), how the container field
// `field` of the receiver ("self") and of the argument ("other") is used:
// ranged over, used as the bound of an index loop, its length compared with
// the other side's. Sides are tracked through local aliases of the whole value
// (`o := other.(T)`) and of the container (`mine := self.F`, `vals := *self.F`).
type mbEqScan struct {
	l     *mbLib
	field string

	rangesSelf, rangesOther, lenCmp, idxLoopSelf, readsSelf bool
}

type mbEqEnv struct {
	whole map[types.Object]string // object is the whole value of a side
	cont  map[types.Object]string // object is the container field of a side
}

func (sc *mbEqScan) side(e ast.Expr, env mbEqEnv) string {
	info := sc.l.info
	switch x := mbStripDeref(e).(type) {
	case *ast.Ident:
		return env.cont[info.Uses[x]]
	case *ast.SelectorExpr:
		if x.Sel.Name != sc.field {
			return ""
		}
		if s, ok := info.Selections[x]; !ok || s.Kind() != types.FieldVal {
			return ""
		}
		if id, ok := mbStripDeref(x.X).(*ast.Ident); ok {
			return env.whole[info.Uses[id]]
		}
	}
	return ""
}

func (sc *mbEqScan) lenSide(e ast.Expr, env mbEqEnv) string {
	info := sc.l.info
	call, ok := ast.Unparen(e).(*ast.CallExpr)
	if !ok {
		return ""
	}
	// conversions: int64(len(x))
	if tv, ok := info.Types[call.Fun]; ok && tv.IsType() && len(call.Args) == 1 {
		return sc.lenSide(call.Args[0], env)
	}
	if len(call.Args) != 1 {
		return ""
	}
	if id, ok := call.Fun.(*ast.Ident); ok {
		if b, ok := info.Uses[id].(*types.Builtin); ok && b.Name() == "len" {
			return sc.side(call.Args[0], env)
		}
	}
	return ""
}

func (sc *mbEqScan) scan(body ast.Node, env mbEqEnv, depth int) {
	info := sc.l.info
	// aliases (to a fixpoint: an alias of an alias)
	lenOf := map[types.Object]string{} // local holding len(<side>)
	for round := 0; round < 3; round++ {
		mbInspectNoLit(body, func(n ast.Node) bool {
			as, ok := n.(*ast.AssignStmt)
			if !ok || len(as.Lhs) != len(as.Rhs) {
				return true
			}
			for i, r := range as.Rhs {
				lid, ok := as.Lhs[i].(*ast.Ident)
				if !ok {
					continue
				}
				o := info.Defs[lid]
				if o == nil {
					continue
				}
				if id, ok := mbStripDeref(r).(*ast.Ident); ok {
					if w := env.whole[info.Uses[id]]; w != "" {
						env.whole[o] = w
					}
				}
				if sd := sc.side(r, env); sd != "" {
					env.cont[o] = sd
				}
				if sd := sc.lenSide(r, env); sd != "" {
					lenOf[o] = sd
				}
			}
			return true
		})
	}
	lenSide := func(e ast.Expr) string {
		if sd := sc.lenSide(e, env); sd != "" {
			return sd
		}
		if id, ok := ast.Unparen(e).(*ast.Ident); ok {
			return lenOf[info.Uses[id]]
		}
		return ""
	}
	mbInspectNoLit(body, func(n ast.Node) bool {
		switch x := n.(type) {
		case *ast.RangeStmt:
			switch sc.side(x.X, env) {
			case "self":
				sc.rangesSelf = true
			case "other":
				sc.rangesOther = true
			}
		case *ast.ForStmt:
			if be, ok := x.Cond.(*ast.BinaryExpr); ok {
				if lenSide(be.Y) == "self" || lenSide(be.X) == "self" {
					sc.idxLoopSelf = true
				}
			}
		case *ast.BinaryExpr:
			if x.Op == token.EQL || x.Op == token.NEQ {
				a, b := lenSide(x.X), lenSide(x.Y)
				if (a == "self" && b == "other") || (a == "other" && b == "self") {
					sc.lenCmp = true
				}
			}
		case *ast.SelectorExpr:
			if sc.side(x, env) == "self" {
				sc.readsSelf = true
			}
		case *ast.CallExpr:
			// a helper of the library: its body with the operands bound
			if depth >= 2 {
				return true
			}
			fn := CalleeOf(info, x)
			hd := sc.l.decls[fn]
			if hd == nil || hd.Body == nil {
				return true
			}
			sub := mbEqEnv{whole: map[types.Object]string{}, cont: map[types.Object]string{}}
			bound := false
			bind := func(po types.Object, a ast.Expr) {
				if po == nil {
					return
				}
				if id, ok := mbStripDeref(a).(*ast.Ident); ok {
					if w := env.whole[info.Uses[id]]; w != "" {
						sub.whole[po] = w
						bound = true
					}
				}
				if sd := sc.side(a, env); sd != "" {
					sub.cont[po] = sd
					bound = true
				}
			}
			ps := mbParamObjs(info, hd)
			for i, a := range x.Args {
				if i < len(ps) {
					bind(ps[i], a)
				}
			}
			if sel, ok := x.Fun.(*ast.SelectorExpr); ok {
				if s, ok := info.Selections[sel]; ok && s.Kind() == types.MethodVal {
					bind(mbRecvObj(info, hd), sel.X)
				}
			}
			if bound {
				sc.scan(hd.Body, sub, depth+1)
			}
		}
		return true
	})
}

// ---------------------------------------------------------------------------
// content fields and field coverage
// ---------------------------------------------------------------------------

// iterStateFields: fields written (through their pointer) only inside the
// methods that IntoIter hands out / calls.
func (l *mbLib) iterStateFields(im *mbImpl) map[string]bool {
	out := map[string]bool{}
	root := im.methods["IntoIter"]
	if root == nil {
		return out
	}
	iterMethods := map[string]bool{}
	// A method of the value struct is part of the iterator when IntoIter (or a
	// method / in-package helper it uses, two levels) selects it — as a call or
	// as a method value — on ANY expression of the struct's type: the receiver
	// itself (`self.iterNext`), a freshly built value
	// (`(*NewValueList(x)).(ValueList).iterNext`), a local copy, or inside a
	// closure that IntoIter returns. The selection is resolved through the type
	// checker (types.Selection), not through the spelling of the operand.
	isOwnMethod := func(sel *ast.SelectorExpr) *ast.FuncDecl {
		s, ok := l.info.Selections[sel]
		if !ok || (s.Kind() != types.MethodVal && s.Kind() != types.MethodExpr) {
			return nil
		}
		fn, ok := s.Obj().(*types.Func)
		if !ok {
			return nil
		}
		sig, _ := fn.Type().(*types.Signature)
		if sig == nil || sig.Recv() == nil {
			return nil
		}
		rt := sig.Recv().Type()
		if p, ok := rt.(*types.Pointer); ok {
			rt = p.Elem()
		}
		if nt, ok := rt.(*types.Named); !ok || nt.Obj() != im.named.Obj() {
			return nil
		}
		return im.methods[sel.Sel.Name]
	}
	seenHelper := map[*types.Func]bool{}
	var visit func(fd *ast.FuncDecl, helperDepth int)
	visit = func(fd *ast.FuncDecl, helperDepth int) {
		if fd == nil || fd.Body == nil {
			return
		}
		ast.Inspect(fd.Body, func(n ast.Node) bool {
			switch x := n.(type) {
			case *ast.SelectorExpr:
				if m := isOwnMethod(x); m != nil && !iterMethods[x.Sel.Name] {
					iterMethods[x.Sel.Name] = true
					visit(m, helperDepth)
				}
			case *ast.CallExpr:
				// a plain in-package helper that builds / returns the iterator
				if helperDepth >= 2 {
					return true
				}
				if fn := CalleeOf(l.info, x); fn != nil && !seenHelper[fn] {
					if sig, _ := fn.Type().(*types.Signature); sig != nil && sig.Recv() == nil {
						if hd := l.decls[fn]; hd != nil && l.ctorOf(fn) == nil {
							seenHelper[fn] = true
							visit(hd, helperDepth+1)
						}
					}
				}
			}
			return true
		})
	}
	iterMethods[root.Name.Name] = true // a cursor advanced by a closure that IntoIter itself builds
	visit(root, 0)
	writes := func(fd *ast.FuncDecl) map[string]bool {
		w := map[string]bool{}
		recv := mbRecvObj(l.info, fd)
		fieldOf := func(e ast.Expr) string {
			if st, ok := ast.Unparen(e).(*ast.StarExpr); ok {
				if sel, ok := ast.Unparen(st.X).(*ast.SelectorExpr); ok {
					if id, ok := sel.X.(*ast.Ident); ok && recv != nil && l.info.Uses[id] == recv {
						return sel.Sel.Name
					}
				}
			}
			return ""
		}
		ast.Inspect(fd.Body, func(n ast.Node) bool {
			switch x := n.(type) {
			case *ast.AssignStmt:
				for _, lhs := range x.Lhs {
					if f := fieldOf(lhs); f != "" {
						w[f] = true
					}
				}
			case *ast.IncDecStmt:
				if f := fieldOf(x.X); f != "" {
					w[f] = true
				}
			}
			return true
		})
		return w
	}
	inIter, outside := map[string]bool{}, map[string]bool{}
	for name, fd := range im.methods {
		for f := range writes(fd) {
			if iterMethods[name] {
				inIter[f] = true
			} else {
				outside[f] = true
			}
		}
	}
	for f := range inIter {
		if !outside[f] {
			out[f] = true
		}
	}
	return out
}

// fieldsRead: receiver fields read by a method, following calls of other
// methods of the receiver and of library functions the receiver (or a local
// copy of it) is passed to (depth 3).
func (l *mbLib) fieldsRead(im *mbImpl, fd *ast.FuncDecl, depth int, seen map[string]bool) map[string]bool {
	out := map[string]bool{}
	if fd == nil || depth > 3 {
		return out
	}
	recv := mbRecvObj(l.info, fd)
	if recv == nil {
		return out
	}
	l.fieldsReadVia(im, fd.Body, map[types.Object]bool{recv: true}, depth, seen, map[*ast.FuncDecl]bool{fd: true}, out)
	return out
}

// fieldsReadVia: fields of the value read in body through any of the objects
// in `selves` (the receiver, local copies of it, parameters it was passed as).
func (l *mbLib) fieldsReadVia(im *mbImpl, body ast.Node, selves map[types.Object]bool, depth int, seen map[string]bool, seenFn map[*ast.FuncDecl]bool, out map[string]bool) {
	if body == nil || depth > 3 {
		return
	}
	isSelf := func(e ast.Expr) bool {
		id, ok := mbStripDeref(e).(*ast.Ident)
		return ok && selves[l.info.Uses[id]]
	}
	// local copies: v := self
	for round := 0; round < 2; round++ {
		ast.Inspect(body, func(n ast.Node) bool {
			as, ok := n.(*ast.AssignStmt)
			if !ok || len(as.Lhs) != len(as.Rhs) {
				return true
			}
			for i, r := range as.Rhs {
				if isSelf(r) {
					if lid, ok := as.Lhs[i].(*ast.Ident); ok {
						if o := l.info.Defs[lid]; o != nil {
							selves[o] = true
						}
					}
				}
			}
			return true
		})
	}
	// whole-value uses: the receiver (or a local copy of it) converted, returned,
	// stored or passed on as a value carries every field with it
	// (`cloned := self; …; val := Value(cloned)`). Not whole-value uses: the base
	// of a selector, the right-hand side of the copy itself, the left-hand side
	// of an assignment, an argument followed precisely below.
	{
		notWhole := map[*ast.Ident]bool{}
		ast.Inspect(body, func(n ast.Node) bool {
			switch x := n.(type) {
			case *ast.SelectorExpr:
				if id, ok := mbStripDeref(x.X).(*ast.Ident); ok {
					notWhole[id] = true
				}
			case *ast.AssignStmt:
				for _, lh := range x.Lhs {
					if id, ok := lh.(*ast.Ident); ok {
						notWhole[id] = true
					}
				}
				if len(x.Lhs) == len(x.Rhs) {
					for i, r := range x.Rhs {
						if id, ok := mbStripDeref(r).(*ast.Ident); ok {
							if _, isId := x.Lhs[i].(*ast.Ident); isId {
								notWhole[id] = true // the copy itself
							}
						}
					}
				}
			case *ast.CallExpr:
				fn := CalleeOf(l.info, x)
				if hd := l.decls[fn]; hd != nil && hd.Body != nil && hd.Recv == nil {
					ps := mbParamObjs(l.info, hd)
					for i, a := range x.Args {
						if id, ok := mbStripDeref(a).(*ast.Ident); ok && i < len(ps) && ps[i] != nil && l.implOfType(ps[i].Type()) == im {
							notWhole[id] = true
						}
					}
				}
			}
			return true
		})
		ast.Inspect(body, func(n ast.Node) bool {
			id, ok := n.(*ast.Ident)
			if !ok || notWhole[id] || !selves[l.info.Uses[id]] {
				return true
			}
			for i := 0; i < im.st.NumFields(); i++ {
				out[im.st.Field(i).Name()] = true
			}
			return true
		})
	}
	ast.Inspect(body, func(n ast.Node) bool {
		switch x := n.(type) {
		case *ast.SelectorExpr:
			if !isSelf(x.X) {
				return true
			}
			if s, ok := l.info.Selections[x]; ok && s.Kind() == types.FieldVal {
				out[x.Sel.Name] = true
			} else if m := im.methods[x.Sel.Name]; m != nil && !seen[x.Sel.Name] {
				seen[x.Sel.Name] = true
				for f := range l.fieldsRead(im, m, depth+1, seen) {
					out[f] = true
				}
			}
		case *ast.CallExpr:
			// the value handed to a function of the library
			fn := CalleeOf(l.info, x)
			hd := l.decls[fn]
			if hd == nil || hd.Body == nil || hd.Recv != nil || seenFn[hd] {
				return true
			}
			ps := mbParamObjs(l.info, hd)
			sub := map[types.Object]bool{}
			for i, a := range x.Args {
				if i < len(ps) && ps[i] != nil && isSelf(a) {
					// only when the parameter keeps the struct type (not the interface:
					// a function taking a Value treats it as any value)
					if l.implOfType(ps[i].Type()) == im {
						sub[ps[i]] = true
					}
				}
			}
			if len(sub) > 0 {
				seenFn[hd] = true
				l.fieldsReadVia(im, hd.Body, sub, depth+1, seen, seenFn, out)
			}
		}
		return true
	})
}

func ruleValueFields(c *Ctx) []Obligation {
	var obs []Obligation
	kmap := mbKindMap(c)
	for _, l := range []*mbLib{mbLoadLib(c, mbRelVM, "vm"), mbLoadLib(c, mbRelInterp, "interp")} {
		// the function type kind: type kind of the struct that stores a Go func
		fnKinds := map[string]bool{}
		for _, im := range l.impls {
			for i := 0; i < im.st.NumFields(); i++ {
				if _, ok := im.st.Field(i).Type().Underlying().(*types.Signature); ok {
					if tk, ok := kmap[im.KindName()]; ok {
						fnKinds[tk] = true
					}
				}
			}
		}
		for _, im := range l.impls {
			iter := l.iterStateFields(im)
			tk, hasTK := kmap[im.KindName()]
			for _, mname := range []string{"IsEqual", "Display", "Clone"} {
				fd := im.methods[mname]
				if fd == nil {
					if mname != "Clone" {
						obs = append(obs, Obligation{Key: fmt.Sprintf("fields|%s|%s.%s", l.tag, im.Name(), mname), Pos: c.Pos(im.named.Obj().Pos()), Status: Undecided, Detail: "method not found"})
					}
					continue
				}
				read := l.fieldsRead(im, fd, 0, map[string]bool{mname: true})
				for i := 0; i < im.st.NumFields(); i++ {
					f := im.st.Field(i)
					key := fmt.Sprintf("fields|%s|%s.%s|%s", l.tag, im.Name(), mname, f.Name())
					if iter[f.Name()] {
						obs = append(obs, Obligation{Key: key, Pos: c.Pos(fd.Pos()), Status: Info, Detail: fmt.Sprintf("%s is iteration state (written only by the methods IntoIter hands out); not content", f.Name())})
						continue
					}
					if read[f.Name()] {
						obs = append(obs, Obligation{Key: key, Pos: c.Pos(fd.Pos()), Status: Discharged, Nontrivial: true, Detail: fmt.Sprintf("%s.%s reads %s", im.Name(), mname, f.Name())})
						continue
					}
					st := Violated
					why := fmt.Sprintf("%s.%s never reads the content field %s: two values differing only in %s are indistinguishable to it", im.Name(), mname, f.Name(), f.Name())
					if mname != "Clone" {
						switch {
						case !hasTK:
							st = Info
							why += " — internal kind without a Homescript type (never compared / printed by a program)"
						case fnKinds[tk]:
							st = Info
							why += " — function-like kind: functions are opaque (they compare unequal to everything, including themselves, and print as a tag)"
						}
					}
					obs = append(obs, Obligation{Key: key, Pos: c.Pos(fd.Pos()), Status: st, Nontrivial: true, Detail: why})
				}
			}
		}
	}
	return obs
}

// ---------------------------------------------------------------------------
// R-clone-fresh
// ---------------------------------------------------------------------------

// mbHasRefs: values of this type may carry a reference to mutable state.
func mbHasRefs(t types.Type, depth int) bool {
	if depth > 4 {
		return true
	}
	switch u := t.Underlying().(type) {
	case *types.Basic:
		return false
	case *types.Pointer, *types.Map, *types.Slice, *types.Chan, *types.Interface:
		return true
	case *types.Signature:
		return false // code; captured state is invisible to the type system (reported as info)
	case *types.Struct:
		for i := 0; i < u.NumFields(); i++ {
			if mbHasRefs(u.Field(i).Type(), depth+1) {
				return true
			}
		}
		return false
	case *types.Array:
		return mbHasRefs(u.Elem(), depth+1)
	}
	return true
}

func ruleCloneFresh(c *Ctx) []Obligation {
	var obs []Obligation
	for _, l := range []*mbLib{mbLoadLib(c, mbRelVM, "vm"), mbLoadLib(c, mbRelInterp, "interp")} {
		n := 0
		live := mbLiveImpls(c, l, map[string][]string{"vm": {mbRelVMEngine, "homescript/compiler", mbRelVM}, "interp": {mbRelInEngine, mbRelInterp}}[l.tag])
		for _, im := range l.impls {
			fd := im.methods["Clone"]
			if fd == nil {
				continue
			}
			n++
			key := fmt.Sprintf("clone|%s|%s.Clone", l.tag, im.Name())
			info := l.info
			recv := mbRecvObj(info, fd)
			hasRef, funcFields := false, []string{}
			for i := 0; i < im.st.NumFields(); i++ {
				ft := im.st.Field(i).Type()
				if _, ok := ft.Underlying().(*types.Signature); ok {
					funcFields = append(funcFields, im.st.Field(i).Name())
					continue
				}
				if mbHasRefs(ft, 0) {
					hasRef = true
				}
			}
			if !hasRef {
				d := "no map/slice/pointer field: nothing can be shared"
				if len(funcFields) > 0 {
					d += "; func-typed field(s) " + strings.Join(funcFields, ",") + " are copied by reference (a Go func cannot be cloned)"
				}
				obs = append(obs, Obligation{Key: key, Pos: c.Pos(fd.Pos()), Status: Discharged, Detail: d})
				continue
			}
			// may-taint, flow-insensitive fixpoint over the method body; helpers of
			// the library are summarised (which parameters reach the result)
			ta := &mbTaintAn{l: l, c: c, cache: map[types.Object]*mbTaintSum{}}
			leaks, nret, _ := ta.flows(fd, map[types.Object]string{}, recv, 0)
			sort.Strings(leaks)
			switch {
			case nret == 0:
				obs = append(obs, Obligation{Key: key, Pos: c.Pos(fd.Pos()), Status: Undecided, Detail: "Clone has no return statement"})
			case len(leaks) > 0 && !live[im.Name()]:
				obs = append(obs, Obligation{Key: key, Pos: c.Pos(fd.Pos()), Status: Info, Detail: "shallow clone of a kind the engine never constructs: " + strings.Join(leaks, "; ")})
			case len(leaks) > 0:
				obs = append(obs, Obligation{Key: key, Pos: c.Pos(fd.Pos()), Status: Violated, Nontrivial: true, Detail: "a reference held by the receiver flows into the clone: " + strings.Join(leaks, "; ")})
			default:
				obs = append(obs, Obligation{Key: key, Pos: c.Pos(fd.Pos()), Status: Discharged, Nontrivial: true, Detail: "every reference-carrying field reaches the result only through Clone() of its elements into fresh containers"})
			}
		}
		if n == 0 {
			obs = append(obs, Obligation{Key: "clone|" + l.tag + "|no Clone", Pos: c.Pos(l.valueT.Obj().Pos()), Status: Info, Detail: "the " + l.tag + " value library has no Clone method (the tree-walking interpreter never clones values)"})
		}
	}
	return obs
}

// ---------------------------------------------------------------------------
// may-taint analysis used by R-clone-fresh
// ---------------------------------------------------------------------------

// mbTaintSum: what a library function does with one tainted parameter (or its
// receiver): the taint reaches a result, and/or is written into the object
// another parameter refers to.
type mbTaintSum struct {
	toResult bool
	toParams []int // indices of parameters (−1 = receiver) that become tainted
}

type mbTaintAn struct {
	l     *mbLib
	c     *Ctx
	cache map[types.Object]*mbTaintSum
}

func mbParamObjs(info *types.Info, fd *ast.FuncDecl) []types.Object {
	var out []types.Object
	for _, f := range fd.Type.Params.List {
		for _, nm := range f.Names {
			out = append(out, info.Defs[nm])
		}
		if len(f.Names) == 0 {
			out = append(out, nil)
		}
	}
	return out
}

// summary of fd for a taint entering through parameter object o.
func (ta *mbTaintAn) summary(fd *ast.FuncDecl, o types.Object, depth int) *mbTaintSum {
	if s, ok := ta.cache[o]; ok {
		if s == nil {
			return &mbTaintSum{toResult: true} // recursion: conservative
		}
		return s
	}
	ta.cache[o] = nil
	leaks, _, tainted := ta.flows(fd, map[types.Object]string{o: "arg"}, nil, depth)
	sum := &mbTaintSum{toResult: len(leaks) > 0}
	ps := mbParamObjs(ta.l.info, fd)
	for i, p := range ps {
		if p != nil && p != o {
			if _, ok := tainted[p]; ok {
				sum.toParams = append(sum.toParams, i)
			}
		}
	}
	if r := mbRecvObj(ta.l.info, fd); r != nil && r != o {
		if _, ok := tainted[r]; ok {
			sum.toParams = append(sum.toParams, -1)
		}
	}
	ta.cache[o] = sum
	return sum
}

// flows: which returned expressions of fd carry a reference that comes from a
// seed (a tainted local/parameter) or — when selfRecv is set — from a field of
// that receiver. Flow-insensitive fixpoint over the body.
func (ta *mbTaintAn) flows(fd *ast.FuncDecl, seed map[types.Object]string, selfRecv types.Object, depth int) (leaks []string, nret int, tainted map[types.Object]string) {
	l, c, info := ta.l, ta.c, ta.l.info
	tainted = map[types.Object]string{}
	for k, v := range seed {
		tainted[k] = v
	}
	changed := false
	setTaint := func(o types.Object, w string) bool {
		if o == nil || w == "" {
			return false
		}
		if _, ok := tainted[o]; ok {
			return false
		}
		tainted[o] = w
		return true
	}
	rootObj := func(e ast.Expr) types.Object {
		for {
			switch x := e.(type) {
			case *ast.ParenExpr:
				e = x.X
			case *ast.StarExpr:
				e = x.X
			case *ast.IndexExpr:
				e = x.X
			case *ast.SliceExpr:
				e = x.X
			case *ast.SelectorExpr:
				e = x.X
			case *ast.Ident:
				if o := info.Defs[x]; o != nil {
					return o
				}
				return info.Uses[x]
			default:
				return nil
			}
		}
	}
	// whole copies of the receiver: `c := self` (and copies of copies)
	wholeCopies := map[types.Object]bool{}
	var taintOf func(e ast.Expr) string
	if selfRecv != nil {
		for round := 0; round < 2; round++ {
			mbInspectNoLit(fd.Body, func(nd ast.Node) bool {
				as, ok := nd.(*ast.AssignStmt)
				if !ok || len(as.Lhs) != len(as.Rhs) {
					return true
				}
				for i, r := range as.Rhs {
					rid, ok := ast.Unparen(r).(*ast.Ident)
					lid, ok2 := as.Lhs[i].(*ast.Ident)
					if !ok || !ok2 {
						continue
					}
					if ro := info.Uses[rid]; ro != nil && (ro == selfRecv || wholeCopies[ro]) {
						if lo := info.Defs[lid]; lo != nil {
							wholeCopies[lo] = true
						}
					}
				}
				return true
			})
		}
	}
	// sharedFields: reference-carrying fields of the receiver's struct that the
	// copy o (or the receiver itself) still shares: not re-assigned through o
	// with a value that carries nothing of the receiver
	sharedFields := func(o types.Object) []string {
		t := selfRecv.Type()
		if p, ok := t.(*types.Pointer); ok {
			t = p.Elem()
		}
		st, ok := t.Underlying().(*types.Struct)
		if !ok {
			return nil
		}
		fresh := map[string]bool{}
		if o != selfRecv {
			mbInspectNoLit(fd.Body, func(nd ast.Node) bool {
				as, ok := nd.(*ast.AssignStmt)
				if !ok || len(as.Lhs) != len(as.Rhs) {
					return true
				}
				for i, lh := range as.Lhs {
					sel, ok := ast.Unparen(lh).(*ast.SelectorExpr)
					if !ok {
						continue
					}
					if id, ok := ast.Unparen(sel.X).(*ast.Ident); ok && info.Uses[id] == o && taintOf(as.Rhs[i]) == "" {
						fresh[sel.Sel.Name] = true
					}
				}
				return true
			})
		}
		var out []string
		for i := 0; i < st.NumFields(); i++ {
			f := st.Field(i)
			if _, isFn := f.Type().Underlying().(*types.Signature); isFn {
				continue
			}
			if mbHasRefs(f.Type(), 0) && !fresh[f.Name()] {
				out = append(out, f.Name())
			}
		}
		return out
	}
	taintOf = func(e ast.Expr) string {
		if e == nil {
			return ""
		}
		// a value without references cannot share state
		if t := info.TypeOf(e); t != nil {
			if !mbHasRefs(t, 0) {
				return ""
			}
		}
		switch x := e.(type) {
		case *ast.ParenExpr:
			return taintOf(x.X)
		case *ast.Ident:
			if w, ok := tainted[info.Uses[x]]; ok {
				return w
			}
			// the receiver as a whole value, or a local copy of it: it carries
			// every reference field that the copy has not been given a fresh
			// value for (`c := self; c.F = fresh`)
			if o := info.Uses[x]; o != nil && (o == selfRecv || wholeCopies[o]) && selfRecv != nil {
				if rem := sharedFields(o); len(rem) > 0 {
					return "self." + strings.Join(rem, ", self.") + " (carried by a copy of the whole receiver)"
				}
			}
			return ""
		case *ast.SelectorExpr:
			if id, ok := ast.Unparen(x.X).(*ast.Ident); ok && selfRecv != nil && info.Uses[id] == selfRecv {
				if s, ok := info.Selections[x]; ok && s.Kind() == types.FieldVal {
					return "self." + x.Sel.Name
				}
			}
			return taintOf(x.X)
		case *ast.StarExpr:
			if w := taintOf(x.X); w != "" {
				return "*" + w
			}
			return ""
		case *ast.UnaryExpr:
			if w := taintOf(x.X); w != "" {
				return x.Op.String() + w
			}
			return ""
		case *ast.TypeAssertExpr:
			return taintOf(x.X)
		case *ast.IndexExpr:
			return taintOf(x.X)
		case *ast.SliceExpr:
			return taintOf(x.X)
		case *ast.CompositeLit:
			for _, el := range x.Elts {
				v := el
				if kv, ok := el.(*ast.KeyValueExpr); ok {
					v = kv.Value
				}
				if w := taintOf(v); w != "" {
					return w
				}
			}
			return ""
		case *ast.CallExpr:
			// conversions are transparent
			if tv, ok := info.Types[x.Fun]; ok && tv.IsType() && len(x.Args) == 1 {
				return taintOf(x.Args[0])
			}
			if sel, ok := x.Fun.(*ast.SelectorExpr); ok && sel.Sel.Name == "Clone" && len(x.Args) == 0 {
				// a Clone() of a value of the library: fresh by induction
				rt := info.TypeOf(sel.X)
				if l.isValueIface(rt) || l.implOfType(rt) != nil {
					return ""
				}
			}
			if id, ok := x.Fun.(*ast.Ident); ok {
				if b, ok := info.Uses[id].(*types.Builtin); ok {
					switch b.Name() {
					case "make", "new", "len", "cap":
						return ""
					}
				}
			}
			// a function of the library with a body: by its summary (does the
			// tainted operand reach the result; does it taint another operand)
			if fn := CalleeOf(info, x); fn != nil && depth < 3 {
				if hd := l.decls[fn]; hd != nil && hd.Body != nil {
					ps := mbParamObjs(info, hd)
					res := ""
					note := func(w string, po types.Object) {
						if w == "" || po == nil {
							return
						}
						sum := ta.summary(hd, po, depth+1)
						if sum.toResult && res == "" {
							res = w + " → " + exprStr(x.Fun) + "(…)"
						}
						for _, pi := range sum.toParams {
							var target ast.Expr
							if pi == -1 {
								if sel, ok := x.Fun.(*ast.SelectorExpr); ok {
									target = sel.X
								}
							} else if pi < len(x.Args) {
								target = x.Args[pi]
							}
							if target != nil && setTaint(rootObj(target), w+" → "+exprStr(x.Fun)+"(…)") {
								changed = true
							}
						}
					}
					for i, a := range x.Args {
						pi := i
						if pi >= len(ps) {
							pi = len(ps) - 1 // variadic tail
						}
						if pi >= 0 {
							note(taintOf(a), ps[pi])
						}
					}
					if sel, ok := x.Fun.(*ast.SelectorExpr); ok {
						if s, ok := info.Selections[sel]; ok && s.Kind() == types.MethodVal {
							w := taintOf(sel.X)
							if w == "" && selfRecv != nil {
								// self.helper(): the receiver's fields are visible to the helper
								if id, ok := ast.Unparen(sel.X).(*ast.Ident); ok && info.Uses[id] == selfRecv {
									w = "self"
								}
							}
							note(w, mbRecvObj(info, hd))
						}
					}
					return res
				}
			}
			for _, a := range x.Args {
				if w := taintOf(a); w != "" {
					return w + " → " + exprStr(x.Fun) + "(…)"
				}
			}
			if sel, ok := x.Fun.(*ast.SelectorExpr); ok {
				// method on a tainted receiver returning something with references
				if w := taintOf(sel.X); w != "" {
					return w + "." + sel.Sel.Name + "()"
				}
			}
			return ""
		}
		return ""
	}
	// kind refinement: inside a clause of `switch E.Kind()` (or a type switch on
	// E) that lists only kinds whose value structs hold no reference, a copy of
	// the interface value E is a copy of a reference-free struct: it shares
	// nothing with the receiver
	type scalarRegion struct {
		lo, hi token.Pos
		expr   string
	}
	var regions []scalarRegion
	refFree := func(im *mbImpl) bool { return im != nil && !mbHasRefs(im.named, 0) }
	implOfKind := map[string]*mbImpl{}
	for _, im := range l.impls {
		if im.kind != nil {
			implOfKind[im.kind.Name()] = im
		}
	}
	mbInspectNoLit(fd.Body, func(nd ast.Node) bool {
		switch sw := nd.(type) {
		case *ast.SwitchStmt:
			call, ok := ast.Unparen(sw.Tag).(*ast.CallExpr)
			if sw.Tag == nil || !ok || len(call.Args) != 0 {
				return true
			}
			sel, ok := call.Fun.(*ast.SelectorExpr)
			if !ok || sel.Sel.Name != "Kind" || !l.isValueIface(info.TypeOf(sel.X)) {
				return true
			}
			for _, cl := range sw.Body.List {
				cc := cl.(*ast.CaseClause)
				all := len(cc.List) > 0
				for _, v := range cc.List {
					k := ConstOf(info, v)
					if k == nil || !refFree(implOfKind[k.Name()]) {
						all = false
					}
				}
				if all {
					regions = append(regions, scalarRegion{cc.Pos(), cc.End(), exprStr(ast.Unparen(sel.X))})
				}
			}
		case *ast.TypeSwitchStmt:
			var subj ast.Expr
			switch a := sw.Assign.(type) {
			case *ast.ExprStmt:
				if ta, ok := ast.Unparen(a.X).(*ast.TypeAssertExpr); ok {
					subj = ta.X
				}
			case *ast.AssignStmt:
				if ta, ok := ast.Unparen(a.Rhs[0]).(*ast.TypeAssertExpr); ok {
					subj = ta.X
				}
			}
			if subj == nil || !l.isValueIface(info.TypeOf(subj)) {
				return true
			}
			for _, cl := range sw.Body.List {
				cc := cl.(*ast.CaseClause)
				all := len(cc.List) > 0
				for _, v := range cc.List {
					if !refFree(l.implOfType(info.TypeOf(v))) {
						all = false
					}
				}
				if all {
					regions = append(regions, scalarRegion{cc.Pos(), cc.End(), exprStr(ast.Unparen(subj))})
				}
			}
		}
		return true
	})
	refinedScalar := func(at token.Pos, e ast.Expr) bool {
		es := exprStr(ast.Unparen(e))
		for _, r := range regions {
			if r.lo <= at && at < r.hi && r.expr == es {
				return true
			}
		}
		return false
	}
	for first := true; first || changed; first = false {
		changed = false
		mbInspectNoLit(fd.Body, func(nd ast.Node) bool {
			switch x := nd.(type) {
			case *ast.AssignStmt:
				if len(x.Lhs) == len(x.Rhs) {
					for i := range x.Lhs {
						if refinedScalar(x.Pos(), x.Rhs[i]) {
							continue
						}
						if lid, ok := x.Lhs[i].(*ast.Ident); ok && wholeCopies[info.Defs[lid]] {
							continue // judged per field (sharedFields)
						}
						if w := taintOf(x.Rhs[i]); w != "" {
							if setTaint(rootObj(x.Lhs[i]), w) {
								changed = true
							}
						}
					}
				} else if len(x.Rhs) == 1 {
					if w := taintOf(x.Rhs[0]); w != "" {
						for _, lhs := range x.Lhs {
							if setTaint(rootObj(lhs), w) {
								changed = true
							}
						}
					}
				}
			case *ast.RangeStmt:
				if w := taintOf(x.X); w != "" {
					if x.Value != nil {
						if t := info.TypeOf(x.Value); t != nil && mbHasRefs(t, 0) {
							if setTaint(rootObj(x.Value), "elem("+w+")") {
								changed = true
							}
						}
					}
					if x.Key != nil {
						if t := info.TypeOf(x.Key); t != nil && mbHasRefs(t, 0) {
							if setTaint(rootObj(x.Key), "key("+w+")") {
								changed = true
							}
						}
					}
				}
			case *ast.ExprStmt:
				if call, ok := x.X.(*ast.CallExpr); ok {
					// copy(dst, src)
					if len(call.Args) == 2 {
						if id, ok := call.Fun.(*ast.Ident); ok {
							if b, ok := info.Uses[id].(*types.Builtin); ok && b.Name() == "copy" {
								if w := taintOf(call.Args[1]); w != "" {
									if setTaint(rootObj(call.Args[0]), w+" → copy") {
										changed = true
									}
								}
								return true
							}
						}
					}
					// a helper called for its effect on its operands
					_ = taintOf(call)
				}
			case *ast.DeclStmt:
				if gd, ok := x.Decl.(*ast.GenDecl); ok {
					for _, sp := range gd.Specs {
						if vs, ok := sp.(*ast.ValueSpec); ok {
							for i, nm := range vs.Names {
								if i < len(vs.Values) {
									if w := taintOf(vs.Values[i]); w != "" {
										if setTaint(info.Defs[nm], w) {
											changed = true
										}
									}
								}
							}
						}
					}
				}
			}
			return true
		})
	}
	// named results count as returned
	var namedRes []types.Object
	if fd.Type.Results != nil {
		for _, f := range fd.Type.Results.List {
			for _, nm := range f.Names {
				namedRes = append(namedRes, info.Defs[nm])
			}
		}
	}
	mbInspectNoLit(fd.Body, func(nd ast.Node) bool {
		if r, ok := nd.(*ast.ReturnStmt); ok {
			nret++
			for _, res := range r.Results {
				if w := taintOf(res); w != "" {
					leaks = append(leaks, fmt.Sprintf("%s: returns %s, which carries %s unchanged", c.Pos(r.Pos()), exprStr(res), w))
				}
			}
			if len(r.Results) == 0 {
				for _, o := range namedRes {
					if w, ok := tainted[o]; ok {
						leaks = append(leaks, fmt.Sprintf("%s: returns %s, which carries %s unchanged", c.Pos(r.Pos()), o.Name(), w))
					}
				}
			}
		}
		return true
	})
	return leaks, nret, tainted
}
