package main

// R-wait-rebuild (C10, C16, C17): every replacement of the VM's live-core list
// is computed from the *current* list. A flow analysis (dfFlow) tracks, for
// every local variable, whether the list data it holds was read before a
// later re-assignment of the list in the same function ("stale", the snapshot
// bug: two cores finishing in one sweep — removing the second re-adds the
// first and Wait polls a dead channel forever) and whether the guarding mutex
// was released between that read and the write-back (lost update against a
// concurrent spawnCore).

import (
	"fmt"
	"go/ast"
	"go/token"
	"go/types"
	"sort"
	"strings"
)

func init() {
	register(&Rule{ID: "R-wait-rebuild", Floor: 7, Run: ruleWaitRebuild,
		Doc: "C10/C16/C17: the live-core list is only ever replaced by a value computed from its current contents. For every assignment to the list field: (a) no list data flowing into the new value was read before an earlier assignment to the list in the same activation (a per-sweep snapshot used for rebuilding resurrects a core that was removed earlier in the sweep: its channel never signals again, Wait never returns and cancellation cannot end it; it also drops cores spawned after the snapshot); (b) the write happens with the list's mutex held for writing and the mutex was not released between reading the data and writing it back (otherwise a core appended by a concurrent spawn in the gap is dropped: Wait returns while it still runs and its outcome is lost); (c) the new value holds every element of the current list except those identified as the finished core: the rebuilding loop is a filter, not a search — on every path through its body the visited element is appended exactly once unless an identity comparison establishes that it is the finished core, and the loop is never left by break/return (a `break` at the match drops every core listed after it: they are never waited for again)."})
}

const r2tParamBit uint8 = 8

type r2tWaitAn struct {
	c        *Ctx
	info     *types.Info
	coreList *types.Var
	guardKey string
	decls    map[*types.Func]*ast.FuncDecl
	writers  map[*types.Func]bool // write the list (transitively)
	release  map[*types.Func]bool // release the guard (transitively)
	acquire  map[*types.Func]bool // lock the guard (transitively)
	readers  map[*types.Func]bool // read the list (transitively)
	memo     map[*ast.FuncDecl]*r2tWaitRes
	lockSum  map[*types.Func]*[3]uint8 // guard mode after a call, per entry mode (U, R, W); nil: no effect
	lockBusy map[*types.Func]bool
	busy     map[*ast.FuncDecl]bool
}

type r2tTaint struct {
	seq, conc uint8
	src       map[token.Pos]bool // where list data was read
	vars      []string
}

type r2tWrite struct {
	node  *ast.AssignStmt
	rhs   ast.Expr
	t     r2tTaint
	lock  uint8
	plain bool // rhs holds no list data
}

type r2tCallRec struct {
	lock uint8
	args r2tTaint
}

type r2tWaitRes struct {
	writes    map[*ast.AssignStmt]*r2tWrite
	calls     map[*ast.CallExpr]*r2tCallRec
	entryLock uint8
	unsupp    []token.Pos
}

func r2tVarKey(o types.Object) string { return fmt.Sprintf("%s@%d", o.Name(), o.Pos()) }

func (a *r2tWaitAn) isListSel(e ast.Expr) bool {
	s, ok := ast.Unparen(e).(*ast.SelectorExpr)
	return ok && a.info.Uses[s.Sel] == a.coreList
}

// taint of an expression in state st.
func (a *r2tWaitAn) taint(e ast.Expr, st dfState, srcs map[string]map[token.Pos]bool) r2tTaint {
	t := r2tTaint{src: map[token.Pos]bool{}}
	if e == nil {
		return t
	}
	seen := map[string]bool{}
	var walk func(n ast.Node) bool
	walk = func(n ast.Node) bool {
		// an expression whose type cannot hold a core carries no list data (core.Corenum, len(cores))
		if ex, ok := n.(ast.Expr); ok {
			if tv, ok := a.info.Types[ex]; ok && tv.Type != nil && !tv.IsType() && !a.carries(tv.Type, 0) {
				if _, isCall := ex.(*ast.CallExpr); !isCall {
					return false
				}
			}
		}
		switch x := n.(type) {
		case *ast.FuncLit:
			return false
		case *ast.CallExpr:
			if r2tIsBuiltin(a.info, x, "len") || r2tIsBuiltin(a.info, x, "cap") {
				return false // a size carries no list data
			}
			if fn := CalleeOf(a.info, x); fn != nil && a.readers[fn] {
				// a helper that reads the list: its result is list data read during the call
				t.seq |= dfU
				if st.get(a.guardKey)&dfU != 0 || a.release[fn] {
					t.conc |= dfW
				} else {
					t.conc |= dfU
				}
				t.src[x.Pos()] = true
			}
		case *ast.SelectorExpr:
			if a.info.Uses[x.Sel] == a.coreList {
				t.seq |= dfU
				if st.get(a.guardKey)&dfU != 0 {
					t.conc |= dfW // read without the lock
				} else {
					t.conc |= dfU
				}
				t.src[x.Pos()] = true
				return false
			}
		case *ast.Ident:
			o := r2tObj(a.info, x)
			if o == nil {
				return true
			}
			k := r2tVarKey(o)
			if v, ok := st["seq|"+k]; ok && v != 0 {
				t.seq |= v
				t.conc |= st["conc|"+k]
				if !seen[k] {
					seen[k] = true
					t.vars = append(t.vars, o.Name())
				}
				for p := range srcs[k] {
					t.src[p] = true
				}
			}
		}
		return true
	}
	ast.Inspect(e, walk)
	return t
}

// carries: a value of type t can hold elements of the live-core list.
func (a *r2tWaitAn) carries(t types.Type, depth int) bool {
	if depth > 4 {
		return true
	}
	elem := a.coreList.Type().Underlying().(*types.Slice).Elem()
	if types.Identical(t, elem) {
		return true
	}
	switch u := t.Underlying().(type) {
	case *types.Pointer:
		return a.carries(u.Elem(), depth+1)
	case *types.Slice:
		return a.carries(u.Elem(), depth+1)
	case *types.Array:
		return a.carries(u.Elem(), depth+1)
	case *types.Map:
		return a.carries(u.Elem(), depth+1) || a.carries(u.Key(), depth+1)
	case *types.Chan:
		return a.carries(u.Elem(), depth+1)
	case *types.Struct:
		for i := 0; i < u.NumFields(); i++ {
			if a.carries(u.Field(i).Type(), depth+1) {
				return true
			}
		}
	case *types.Interface:
		return true
	case *types.Tuple:
		for i := 0; i < u.Len(); i++ {
			if a.carries(u.At(i).Type(), depth+1) {
				return true
			}
		}
	case *types.Signature:
		return false
	}
	return false
}

func r2tStale(st dfState, prefix string, keep string) {
	for k, v := range st {
		if !strings.HasPrefix(k, prefix) || k == prefix+keep {
			continue
		}
		if v&(dfU|r2tParamBit) != 0 {
			st[k] = (v &^ dfU) | dfW
		}
	}
}

func (a *r2tWaitAn) analyze(fd *ast.FuncDecl, depth int) *r2tWaitRes {
	if r := a.memo[fd]; r != nil {
		return r
	}
	res := &r2tWaitRes{writes: map[*ast.AssignStmt]*r2tWrite{}, calls: map[*ast.CallExpr]*r2tCallRec{}, entryLock: dfU}
	if a.busy[fd] || depth > 3 {
		return res
	}
	a.busy[fd] = true
	defer func() { a.busy[fd] = false }()
	info := a.info
	self, _ := info.Defs[fd.Name].(*types.Func)
	// entry lock: join over in-package call sites
	if depth < 3 {
		var modes uint8
		for _, cfd := range a.decls {
			if cfd == fd {
				continue
			}
			calls := false
			ast.Inspect(cfd.Body, func(n ast.Node) bool {
				if call, ok := n.(*ast.CallExpr); ok && CalleeOf(info, call) == self {
					calls = true
				}
				return true
			})
			if !calls {
				continue
			}
			cr := a.analyze(cfd, depth+1)
			for call, rec := range cr.calls {
				if CalleeOf(info, call) == self {
					modes |= rec.lock
				}
			}
		}
		if modes != 0 {
			res.entryLock = modes
		}
	}
	srcs := map[string]map[token.Pos]bool{}
	addSrc := func(k string, t r2tTaint) {
		if srcs[k] == nil {
			srcs[k] = map[token.Pos]bool{}
		}
		for p := range t.src {
			srcs[k][p] = true
		}
	}
	rangeOf := map[ast.Expr]*ast.RangeStmt{}
	ast.Inspect(fd.Body, func(n ast.Node) bool {
		if rs, ok := n.(*ast.RangeStmt); ok {
			rangeOf[rs.X] = rs
		}
		return true
	})
	setVar := func(st dfState, lhs ast.Expr, t r2tTaint, strong bool) {
		target := ast.Unparen(lhs)
		for {
			switch x := target.(type) {
			case *ast.IndexExpr:
				target, strong = ast.Unparen(x.X), false
				continue
			case *ast.StarExpr:
				target, strong = ast.Unparen(x.X), false
				continue
			case *ast.SliceExpr:
				target, strong = ast.Unparen(x.X), false
				continue
			}
			break
		}
		o := r2tObj(info, target)
		if o == nil {
			return
		}
		if _, isVar := o.(*types.Var); !isVar {
			return
		}
		k := r2tVarKey(o)
		if strong {
			st["seq|"+k], st["conc|"+k] = t.seq, t.conc
			srcs[k] = nil
		} else {
			st["seq|"+k] |= t.seq
			st["conc|"+k] |= t.conc
		}
		addSrc(k, t)
	}
	fl := &dfFlow{info: info}
	fl.At = func(n ast.Node, st dfState) {
		switch x := n.(type) {
		case *ast.AssignStmt:
			for i, lhs := range x.Lhs {
				var rhs ast.Expr
				if len(x.Rhs) == len(x.Lhs) {
					rhs = x.Rhs[i]
				} else if len(x.Rhs) == 1 {
					rhs = x.Rhs[0]
				}
				t := a.taint(rhs, st, srcs)
				if a.isListSel(lhs) {
					w := res.writes[x]
					if w == nil {
						w = &r2tWrite{node: x, rhs: rhs, t: r2tTaint{src: map[token.Pos]bool{}}}
						res.writes[x] = w
					}
					w.t.seq |= t.seq
					w.t.conc |= t.conc
					for p := range t.src {
						w.t.src[p] = true
					}
					for _, v := range t.vars {
						dup := false
						for _, u := range w.t.vars {
							dup = dup || u == v
						}
						if !dup {
							w.t.vars = append(w.t.vars, v)
						}
					}
					w.lock |= st.get(a.guardKey)
					w.plain = w.t.seq == 0
					keep := ""
					if o := r2tObj(info, rhs); o != nil {
						keep = r2tVarKey(o)
					}
					r2tStale(st, "seq|", keep)
					continue
				}
				strong := x.Tok == token.DEFINE || x.Tok == token.ASSIGN
				if x.Tok != token.DEFINE && x.Tok != token.ASSIGN {
					// op-assign keeps the old contents
					t2 := a.taint(lhs, st, srcs)
					t.seq |= t2.seq
					t.conc |= t2.conc
				}
				setVar(st, lhs, t, strong)
			}
		case *ast.DeclStmt:
			if gd, ok := x.Decl.(*ast.GenDecl); ok {
				for _, sp := range gd.Specs {
					if vs, ok := sp.(*ast.ValueSpec); ok {
						for i, nm := range vs.Names {
							var rhs ast.Expr
							if i < len(vs.Values) {
								rhs = vs.Values[i]
							}
							setVar(st, nm, a.taint(rhs, st, srcs), true)
						}
					}
				}
			}
		case ast.Expr:
			if rs := rangeOf[x]; rs != nil {
				t := a.taint(x, st, srcs)
				if rs.Key != nil {
					setVar(st, rs.Key, r2tTaint{}, true)
				}
				if rs.Value != nil {
					setVar(st, rs.Value, t, true)
				}
			}
		}
	}
	fl.Call = func(call *ast.CallExpr, st dfState) {
		if k, op, ok := dfMutexOp(info, call); ok {
			dfApplyMutex(st, k, op)
			if k == a.guardKey && (op == "Unlock" || op == "RUnlock") {
				r2tStale(st, "conc|", "")
			}
			return
		}
		fn := CalleeOf(info, call)
		if fn == nil {
			return
		}
		if sum := a.lockSummary(fn, 0); sum != nil {
			// a helper that locks / unlocks the guard (lock wrappers): apply its effect
			cur := st.get(a.guardKey)
			var next uint8
			for i, bit := range []uint8{dfU, dfR, dfW} {
				if cur&bit != 0 {
					next |= sum[i]
				}
			}
			if next != 0 {
				st[a.guardKey] = next
			}
		}
		if _, inPkg := a.decls[fn]; inPkg {
			rec := res.calls[call]
			if rec == nil {
				rec = &r2tCallRec{args: r2tTaint{src: map[token.Pos]bool{}}}
				res.calls[call] = rec
			}
			rec.lock |= st.get(a.guardKey)
			for _, arg := range call.Args {
				t := a.taint(arg, st, srcs)
				rec.args.seq |= t.seq
				rec.args.conc |= t.conc
				for p := range t.src {
					rec.args.src[p] = true
				}
			}
		}
		if a.writers[fn] {
			r2tStale(st, "seq|", "")
		}
		if a.release[fn] {
			r2tStale(st, "conc|", "")
		}
	}
	entry := dfState{a.guardKey: res.entryLock}
	if fd.Type.Params != nil {
		for _, f := range fd.Type.Params.List {
			for _, nm := range f.Names {
				if o := info.Defs[nm]; o != nil {
					entry["seq|"+r2tVarKey(o)] = r2tParamBit
					entry["conc|"+r2tVarKey(o)] = r2tParamBit
				}
			}
		}
	}
	fl.Run(fd.Body, entry)
	res.unsupp = fl.Unsupp
	a.memo[fd] = res
	return res
}

// lockSummary: the effect of calling fn on the guarding mutex, as exit mode(s) per entry mode,
// computed by running the flow analysis over fn's body (helpers that lock/unlock are followed).
// nil when fn never touches the guard.
func (a *r2tWaitAn) lockSummary(fn *types.Func, depth int) *[3]uint8 {
	if s, ok := a.lockSum[fn]; ok {
		return s
	}
	fd := a.decls[fn]
	if fd == nil || depth > 3 || a.lockBusy[fn] {
		return nil
	}
	touches := false
	ast.Inspect(fd.Body, func(n ast.Node) bool {
		if call, ok := n.(*ast.CallExpr); ok {
			if k, _, ok := dfMutexOp(a.info, call); ok && k == a.guardKey {
				touches = true
			} else if cal := CalleeOf(a.info, call); cal != nil && cal != fn && (a.release[cal] || a.acquire[cal]) {
				touches = true
			}
		}
		return true
	})
	if !touches {
		a.lockSum[fn] = nil
		return nil
	}
	a.lockBusy[fn] = true
	defer func() { a.lockBusy[fn] = false }()
	var sum [3]uint8
	for i, entry := range []uint8{dfU, dfR, dfW} {
		fl := &dfFlow{info: a.info}
		fl.Call = func(call *ast.CallExpr, st dfState) {
			if k, op, ok := dfMutexOp(a.info, call); ok {
				dfApplyMutex(st, k, op)
				return
			}
			if cal := CalleeOf(a.info, call); cal != nil && cal != fn {
				if cs := a.lockSummary(cal, depth+1); cs != nil {
					cur := st.get(a.guardKey)
					var next uint8
					for j, bit := range []uint8{dfU, dfR, dfW} {
						if cur&bit != 0 {
							next |= cs[j]
						}
					}
					if next != 0 {
						st[a.guardKey] = next
					}
				}
			}
		}
		fl.Run(fd.Body, dfState{a.guardKey: entry})
		var out uint8
		for _, e := range fl.Exits {
			if e.kind == "return" {
				out |= e.st.get(a.guardKey)
			}
		}
		if fl.EndExit != nil {
			out |= fl.EndExit.st.get(a.guardKey)
		}
		if out == 0 {
			out = entry
		}
		sum[i] = out
	}
	a.lockSum[fn] = &sum
	return &sum
}

func ruleWaitRebuild(c *Ctx) []Obligation {
	w := wtResolve(c)
	p := c.Pkg("homescript/runtime")
	info := p.TypesInfo
	a := &r2tWaitAn{c: c, info: info, coreList: w.coreList, decls: map[*types.Func]*ast.FuncDecl{},
		writers: map[*types.Func]bool{}, release: map[*types.Func]bool{}, readers: map[*types.Func]bool{}, memo: map[*ast.FuncDecl]*r2tWaitRes{}, busy: map[*ast.FuncDecl]bool{},
		lockSum: map[*types.Func]*[3]uint8{}, lockBusy: map[*types.Func]bool{}, acquire: map[*types.Func]bool{}}
	var obs []Obligation
	// the guarding mutex: a sync mutex field in the struct that owns the list
	scope := p.Types.Scope()
	for _, name := range scope.Names() {
		tn, ok := scope.Lookup(name).(*types.TypeName)
		if !ok {
			continue
		}
		st, ok := tn.Type().Underlying().(*types.Struct)
		if !ok {
			continue
		}
		owns := false
		for i := 0; i < st.NumFields(); i++ {
			owns = owns || st.Field(i) == w.coreList
		}
		if !owns {
			continue
		}
		for i := 0; i < st.NumFields(); i++ {
			if n, ok := st.Field(i).Type().(*types.Named); ok && n.Obj().Pkg() != nil && n.Obj().Pkg().Path() == "sync" && (n.Obj().Name() == "RWMutex" || n.Obj().Name() == "Mutex") {
				a.guardKey = tn.Name() + "." + st.Field(i).Name()
			}
		}
	}
	if a.guardKey == "" {
		obs = append(obs, Obligation{Key: "runtime|live-core list|guarding mutex", Status: Undecided, Pos: c.Pos(w.coreList.Pos()),
			Detail: "no sync mutex field next to " + w.coreList.Name() + ": cannot decide the critical sections"})
		a.guardKey = "?"
	}
	for _, fd := range AllFuncDecls(p) {
		if fn, ok := info.Defs[fd.Name].(*types.Func); ok {
			a.decls[fn] = fd
		}
	}
	// direct writers / releasers, then closure over static calls
	direct := map[*ast.FuncDecl]bool{}
	for fn, fd := range a.decls {
		ast.Inspect(fd.Body, func(n ast.Node) bool {
			switch x := n.(type) {
			case *ast.AssignStmt:
				for _, l := range x.Lhs {
					if a.isListSel(l) {
						a.writers[fn] = true
						direct[fd] = true
					}
				}
			case *ast.CallExpr:
				if k, op, ok := dfMutexOp(info, x); ok && k == a.guardKey {
					if op == "Unlock" || op == "RUnlock" {
						a.release[fn] = true
					} else {
						a.acquire[fn] = true
					}
				}
			case *ast.SelectorExpr:
				if info.Uses[x.Sel] == a.coreList && fn.Type().(*types.Signature).Results().Len() > 0 {
					a.readers[fn] = true
				}
			}
			return true
		})
	}
	for changed := true; changed; {
		changed = false
		for fn, fd := range a.decls {
			ast.Inspect(fd.Body, func(n ast.Node) bool {
				if call, ok := n.(*ast.CallExpr); ok {
					if cal := CalleeOf(info, call); cal != nil {
						if a.writers[cal] && !a.writers[fn] {
							a.writers[fn], changed = true, true
						}
						if a.release[cal] && !a.release[fn] {
							a.release[fn], changed = true, true
						}
						if a.acquire[cal] && !a.acquire[fn] {
							a.acquire[fn], changed = true, true
						}
						if a.readers[cal] && !a.readers[fn] && fn.Type().(*types.Signature).Results().Len() > 0 {
							a.readers[fn], changed = true, true
						}
					}
				}
				return true
			})
		}
	}
	var fds []*ast.FuncDecl
	for fd := range direct {
		fds = append(fds, fd)
	}
	sort.Slice(fds, func(i, j int) bool { return fds[i].Pos() < fds[j].Pos() })
	listName := w.coreList.Name()
	for _, fd := range fds {
		res := a.analyze(fd, 0)
		self, _ := info.Defs[fd.Name].(*types.Func)
		var ws []*r2tWrite
		for _, wr := range res.writes {
			ws = append(ws, wr)
		}
		sort.Slice(ws, func(i, j int) bool { return ws[i].node.Pos() < ws[j].node.Pos() })
		if len(res.unsupp) > 0 {
			obs = append(obs, Obligation{Key: "runtime." + FuncName(fd) + "|control flow", Status: Undecided, Pos: c.Pos(res.unsupp[0]), Detail: "goto/fallthrough in a function that re-assigns the live-core list"})
		}
		var otherWrites []string
		for _, wr := range ws {
			otherWrites = append(otherWrites, c.Pos(wr.node.Pos()))
		}
		for i, wr := range ws {
			base := fmt.Sprintf("runtime.%s|%s write #%d|", FuncName(fd), listName, i+1)
			t := wr.t
			lock := wr.lock
			// data that came in through a parameter: look at the call sites
			viaParam := ""
			if t.seq&r2tParamBit != 0 {
				found := false
				for _, cfd := range a.decls {
					cr := a.memo[cfd]
					if cr == nil {
						cr = a.analyze(cfd, 1)
					}
					for call, rec := range cr.calls {
						if CalleeOf(info, call) != self {
							continue
						}
						found = true
						t.seq |= rec.args.seq &^ r2tParamBit
						t.conc |= rec.args.conc &^ r2tParamBit
						if rec.args.seq&r2tParamBit != 0 {
							viaParam = "the data reaches " + FuncName(fd) + " through a parameter chain longer than one call"
						}
						for p := range rec.args.src {
							t.src[p] = true
						}
					}
				}
				if !found {
					viaParam = "the new list is computed from a parameter of " + FuncName(fd) + " and no call site was found"
				}
			}
			var reads []string
			for p := range t.src {
				reads = append(reads, c.Pos(p))
			}
			sort.Strings(reads)
			via := ""
			if len(t.vars) > 0 {
				via = " via " + strings.Join(t.vars, ", ")
			}
			rhsStr := exprStr(wr.rhs)
			// (a) sequential freshness
			oa := Obligation{Key: base + "computed from the current list", Pos: c.Pos(wr.node.Pos()), Nontrivial: true}
			switch {
			case wr.plain && t.seq == 0:
				oa.Status, oa.Detail = Discharged, fmt.Sprintf("`%s = %s`: the new value holds no data of the old list (the list is cleared / replaced by fresh storage)", listName, rhsStr)
			case viaParam != "":
				oa.Status, oa.Detail = Undecided, viaParam
			case t.seq&dfW != 0:
				oa.Status = Violated
				oa.Detail = fmt.Sprintf("`%s = %s`: the new list is computed from list data read at %s%s, and on some path the list is re-assigned (%s) between that read and this write — the data is a stale snapshot. When two cores signal in one sweep, removing the second is computed from the snapshot that still holds the first: the first core is put back, its channel never signals again, Wait polls it forever (cancellation cannot end it); a core spawned after the snapshot is dropped.",
					listName, rhsStr, strings.Join(reads, ", "), via, strings.Join(otherWrites, ", "))
			default:
				oa.Status, oa.Detail = Discharged, fmt.Sprintf("`%s = %s`: all list data in the new value was read (%s%s) after the last re-assignment of the list on every path", listName, rhsStr, strings.Join(reads, ", "), via)
			}
			obs = append(obs, oa)
			// (b) one critical section
			ob := Obligation{Key: base + "read and written in one critical section", Pos: c.Pos(wr.node.Pos()), Nontrivial: true}
			switch {
			case a.guardKey == "?":
				ob.Status, ob.Detail = Undecided, "guarding mutex unknown"
			case lock != dfW:
				ob.Status, ob.Detail = Violated, fmt.Sprintf("the list is written while %s may be %s (the write lock is required: readers iterate the list)", a.guardKey, dfModeString(lock))
			case t.seq == 0:
				ob.Status, ob.Detail = Discharged, "written under "+a.guardKey+".Lock(); the new value holds no data of the old list"
			case t.conc&dfW != 0:
				ob.Status = Violated
				ob.Detail = fmt.Sprintf("`%s = %s`: the list data in the new value was read at %s%s, then %s was released before this write took the write lock. A spawnCore running in that gap (a core executing `spawn` — it only needs the lock) appends its core, and this write replaces the list by one computed without it: the new core is no longer waited for (Wait returns while it runs, its interrupt is lost). Fix: compute the filtered list inside the Lock()/Unlock() section that assigns it.",
					listName, rhsStr, strings.Join(reads, ", "), via, a.guardKey)
			default:
				ob.Status, ob.Detail = Discharged, fmt.Sprintf("the list data (%s%s) is read and written back without releasing %s in between, and the write holds the write lock", strings.Join(reads, ", "), via, a.guardKey)
			}
			obs = append(obs, ob)
			// (c) filter, not search
			oc := Obligation{Key: base + "keeps every other core", Pos: c.Pos(wr.node.Pos()), Nontrivial: true}
			oc.Status, oc.Detail = a.filterVerdict(fd, wr.rhs, 0)
			oc.Detail = fmt.Sprintf("`%s = %s`: %s", listName, rhsStr, oc.Detail)
			obs = append(obs, oc)
		}
	}
	if len(fds) == 0 {
		obs = append(obs, Obligation{Key: "runtime|live-core list|writes", Status: Undecided, Pos: c.Pos(w.coreList.Pos()), Detail: "no assignment to the live-core list found"})
	}
	return obs
}

// ---------------------------------------------------------------------------
// the rebuilt list keeps every other core (filter, not search)
// ---------------------------------------------------------------------------

type r2tFPath struct {
	conds    []string // rendered decisions
	dropEq   bool     // a decision establishes "this element is the finished core"
	keepNeq  bool     // a decision establishes "this element is not the finished core"
	unknown  bool     // a decision that is not an identity comparison was taken
	appended int
	foreign  string
}

// r2tFilterVerdict decides, for `list = rhs` in fd, whether the new list holds every element of
// the current list except the ones identified as the finished core.
func (a *r2tWaitAn) filterVerdict(fd *ast.FuncDecl, rhs ast.Expr, depth int) (Status, string) {
	info := a.info
	rhs = ast.Unparen(rhs)
	if depth > 2 {
		return Undecided, "helper chain too deep"
	}
	switch x := rhs.(type) {
	case *ast.CallExpr:
		switch {
		case r2tIsBuiltin(info, x, "make"):
			return Discharged, "the list is cleared (no element is kept): not a removal of one core"
		case r2tIsBuiltin(info, x, "append") && len(x.Args) >= 1:
			if a.isListSel(x.Args[0]) {
				return Discharged, "append to the current list keeps every core"
			}
			return Undecided, "append to " + exprStr(x.Args[0])
		}
		if fn := CalleeOf(info, x); fn != nil && fn.Pkg() != nil && strings.HasSuffix(fn.Pkg().Path(), "slices") && fn.Name() == "DeleteFunc" && len(x.Args) == 2 {
			if fl, ok := ast.Unparen(x.Args[1]).(*ast.FuncLit); ok && len(fl.Body.List) == 1 && len(fl.Type.Params.List) == 1 && len(fl.Type.Params.List[0].Names) == 1 {
				if r, ok := fl.Body.List[0].(*ast.ReturnStmt); ok && len(r.Results) == 1 {
					elem := info.Defs[fl.Type.Params.List[0].Names[0]]
					if kind := a.identityCond(r.Results[0], elem); kind == "eq" {
						return Discharged, "slices.DeleteFunc removes exactly the elements for which `" + exprStr(r.Results[0]) + "` holds and keeps the rest"
					}
				}
			}
			return Undecided, "slices.DeleteFunc with a predicate that is not an equality on the element"
		}
		if callee := a.decls[CalleeOf(info, x)]; callee != nil {
			return a.filterOfReturn(callee, depth+1)
		}
		return Undecided, "new list computed by " + exprStr(x.Fun)
	case *ast.CompositeLit:
		return Discharged, "the list is replaced by a literal: not a removal of one core"
	case *ast.Ident:
		obj := r2tObj(info, x)
		if obj == nil {
			return Undecided, "unresolved " + x.Name
		}
		return a.filterOfVar(fd, obj, depth)
	}
	return Undecided, "new list is " + exprStr(rhs)
}

func (a *r2tWaitAn) filterOfReturn(fd *ast.FuncDecl, depth int) (Status, string) {
	var rets []ast.Expr
	ast.Inspect(fd.Body, func(n ast.Node) bool {
		if _, ok := n.(*ast.FuncLit); ok {
			return false
		}
		if r, ok := n.(*ast.ReturnStmt); ok && len(r.Results) == 1 {
			rets = append(rets, r.Results[0])
		}
		return true
	})
	if len(rets) != 1 {
		return Undecided, fmt.Sprintf("helper %s has %d single-value returns", fd.Name.Name, len(rets))
	}
	st, why := a.filterVerdict(fd, rets[0], depth)
	return st, "helper " + fd.Name.Name + ": " + why
}

func (a *r2tWaitAn) filterOfVar(fd *ast.FuncDecl, v types.Object, depth int) (Status, string) {
	info := a.info
	type asg struct {
		st    *ast.AssignStmt
		rhs   ast.Expr
		loops []*ast.RangeStmt
	}
	var asgs []asg
	var stack []ast.Node
	ast.Inspect(fd.Body, func(n ast.Node) bool {
		if n == nil {
			stack = stack[:len(stack)-1]
			return true
		}
		stack = append(stack, n)
		as, ok := n.(*ast.AssignStmt)
		if !ok {
			return true
		}
		for i, l := range as.Lhs {
			if r2tObj(info, l) != v {
				continue
			}
			var rhs ast.Expr
			if len(as.Rhs) == len(as.Lhs) {
				rhs = as.Rhs[i]
			}
			x := asg{st: as, rhs: rhs}
			for _, s := range stack {
				if rs, ok := s.(*ast.RangeStmt); ok {
					x.loops = append(x.loops, rs)
				}
			}
			asgs = append(asgs, x)
		}
		return true
	})
	if len(asgs) == 0 {
		return Undecided, v.Name() + " is never assigned in " + fd.Name.Name
	}
	var loop *ast.RangeStmt
	var inits []asg
	for _, x := range asgs {
		call, isCall := ast.Unparen(x.rhs).(*ast.CallExpr)
		if isCall && r2tIsBuiltin(info, call, "append") && len(call.Args) > 0 && r2tObj(info, call.Args[0]) == v {
			if len(x.loops) == 0 {
				return Undecided, v.Name() + " is appended to outside a loop"
			}
			in := x.loops[len(x.loops)-1]
			if loop != nil && loop != in {
				return Undecided, v.Name() + " is filled by more than one loop"
			}
			loop = in
			continue
		}
		inits = append(inits, x)
	}
	if loop == nil {
		// a single plain definition: look through it
		if len(inits) == 1 && inits[0].rhs != nil {
			return a.filterVerdict(fd, inits[0].rhs, depth+1)
		}
		return Undecided, v.Name() + " is not built by a loop"
	}
	for _, x := range inits {
		ok := false
		if x.rhs != nil {
			switch r := ast.Unparen(x.rhs).(type) {
			case *ast.CallExpr:
				ok = r2tIsBuiltin(info, r, "make")
			case *ast.CompositeLit:
				ok = len(r.Elts) == 0
			case *ast.Ident:
				ok = mbIsNil(info, r)
			}
		}
		if !ok {
			return Undecided, v.Name() + " is also assigned `" + exprStr(x.rhs) + "`"
		}
		for _, l := range x.loops {
			if l == loop {
				return Violated, fmt.Sprintf("%s is re-initialised inside the loop that fills it (%s): the elements kept so far are thrown away", v.Name(), a.c.Pos(x.st.Pos()))
			}
		}
	}
	// the loop must run over list data
	srcT := a.taintless(loop.X)
	if !srcT {
		return Undecided, "the filter loop ranges over " + exprStr(loop.X) + ", which is not the core list"
	}
	var elem, idx types.Object
	if loop.Value != nil {
		elem = r2tObj(info, loop.Value)
	}
	if loop.Key != nil {
		idx = r2tObj(info, loop.Key)
	}
	isElem := func(e ast.Expr) bool {
		e = ast.Unparen(e)
		if elem != nil && r2tObj(info, e) == elem {
			return true
		}
		if ix, ok := e.(*ast.IndexExpr); ok && idx != nil && r2tObj(info, ix.Index) == idx && exprStr(ix.X) == exprStr(loop.X) {
			return true
		}
		return false
	}
	elemOrIdx := elem
	var paths []r2tFPath
	var bad []string
	undecided := ""
	var walk func(list []ast.Stmt, p r2tFPath) (cont []r2tFPath)
	finish := func(p r2tFPath, kind string, pos token.Pos) {
		switch kind {
		case "break", "return", "jump":
			bad = append(bad, fmt.Sprintf("the loop is left by `%s` at %s under [%s]: it is a filter, not a search — every core listed after that element is missing from the new list (those cores are never waited for again; their interrupts are lost)", kind, a.c.Pos(pos), strings.Join(p.conds, " && ")))
		default:
			paths = append(paths, p)
		}
	}
	containsCtl := func(n ast.Node) bool {
		found := false
		ast.Inspect(n, func(m ast.Node) bool {
			switch y := m.(type) {
			case *ast.FuncLit:
				return false
			case *ast.BranchStmt, *ast.ReturnStmt:
				found = true
			case *ast.AssignStmt:
				for _, l := range y.Lhs {
					if r2tObj(info, l) == v {
						found = true
					}
				}
			}
			return true
		})
		return found
	}
	walk = func(list []ast.Stmt, p r2tFPath) []r2tFPath {
		cur := []r2tFPath{p}
		for _, st := range list {
			if len(cur) == 0 {
				return nil
			}
			var next []r2tFPath
			for _, q := range cur {
				switch s := st.(type) {
				case *ast.IfStmt:
					if s.Init != nil && containsCtl(s.Init) {
						undecided = "assignment to the new list in an if-initialiser"
					}
					kind := a.identityCond(s.Cond, elemOrIdx, idx)
					t, e := q, q
					t.conds = append(append([]string(nil), q.conds...), exprStr(s.Cond))
					e.conds = append(append([]string(nil), q.conds...), "!("+exprStr(s.Cond)+")")
					switch kind {
					case "eq":
						t.dropEq, e.keepNeq = true, true
					case "neq":
						t.keepNeq, e.dropEq = true, true
					default:
						t.unknown, e.unknown = true, true
					}
					next = append(next, walk(s.Body.List, t)...)
					switch el := s.Else.(type) {
					case nil:
						next = append(next, e)
					case *ast.BlockStmt:
						next = append(next, walk(el.List, e)...)
					default:
						next = append(next, walk([]ast.Stmt{el}, e)...)
					}
				case *ast.BlockStmt:
					next = append(next, walk(s.List, q)...)
				case *ast.BranchStmt:
					switch {
					case s.Label != nil || s.Tok == token.GOTO:
						finish(q, "jump", s.Pos())
					case s.Tok == token.CONTINUE:
						finish(q, "next", s.Pos())
					case s.Tok == token.BREAK:
						finish(q, "break", s.Pos())
					default:
						undecided = "fallthrough in the filter loop"
					}
				case *ast.ReturnStmt:
					finish(q, "return", s.Pos())
				case *ast.AssignStmt:
					hit := false
					for i, l := range s.Lhs {
						if r2tObj(info, l) != v {
							continue
						}
						hit = true
						call, ok := ast.Unparen(s.Rhs[i]).(*ast.CallExpr)
						if !ok || !r2tIsBuiltin(info, call, "append") {
							undecided = "the new list is assigned `" + exprStr(s.Rhs[i]) + "` inside the loop"
							continue
						}
						for _, arg := range call.Args[1:] {
							if isElem(arg) {
								q.appended++
							} else {
								q.foreign = exprStr(arg)
							}
						}
					}
					_ = hit
					next = append(next, q)
				case *ast.ExprStmt:
					if IsPanicCall(info, s) {
						continue
					}
					next = append(next, q)
				default:
					if containsCtl(st) {
						undecided = "nested control flow in the filter loop at " + a.c.Pos(st.Pos())
					}
					next = append(next, q)
				}
			}
			cur = next
		}
		return cur
	}
	for _, p := range walk(loop.Body.List, r2tFPath{}) {
		finish(p, "next", loop.Body.Rbrace)
	}
	if undecided != "" {
		return Undecided, undecided
	}
	drops := 0
	for _, p := range paths {
		cs := strings.Join(p.conds, " && ")
		if cs == "" {
			cs = "unconditionally"
		}
		switch {
		case p.foreign != "":
			bad = append(bad, fmt.Sprintf("under [%s] `%s` is appended instead of the visited element", cs, p.foreign))
		case p.appended > 1:
			bad = append(bad, fmt.Sprintf("under [%s] the visited element is appended %d times", cs, p.appended))
		case p.appended == 1 && p.dropEq:
			bad = append(bad, fmt.Sprintf("under [%s] the element identified as the finished core is kept", cs))
		case p.appended == 0 && p.dropEq && !p.unknown:
			drops++
		case p.appended == 0 && p.dropEq:
			drops++
		case p.appended == 0 && !p.dropEq:
			if p.unknown {
				return Undecided, fmt.Sprintf("an element is dropped under [%s], which is not understood as an identity comparison", cs)
			}
			bad = append(bad, fmt.Sprintf("under [%s] the visited element is not appended although nothing identifies it as the finished core: it is dropped from the list", cs))
		}
	}
	if len(bad) > 0 {
		return Violated, strings.Join(bad, "; ")
	}
	if drops == 0 {
		return Violated, "no path of the filter loop drops the finished core: the list never shrinks and Wait never sees it empty"
	}
	return Discharged, fmt.Sprintf("filter loop over %s: %d path(s), the visited element is appended exactly once on every path except the %d on which it equals the finished core; the loop is only left at its end", exprStr(loop.X), len(paths), drops)
}

// taintless: the ranged expression is the list itself or a []Core local (snapshot freshness is key (a)'s business).
func (a *r2tWaitAn) taintless(e ast.Expr) bool {
	if a.isListSel(e) {
		return true
	}
	t := a.info.TypeOf(e)
	return t != nil && types.Identical(t, a.coreList.Type())
}

// identityCond: "eq" for `elem.F == other.F` (or `== other`), "neq" for `!=`, "" otherwise.
// One side must select a field of the visited element, the other must not mention it.
func (a *r2tWaitAn) identityCond(e ast.Expr, elem types.Object, idx ...types.Object) string {
	be, ok := ast.Unparen(e).(*ast.BinaryExpr)
	if !ok || (be.Op != token.EQL && be.Op != token.NEQ) {
		return ""
	}
	mentions := func(x ast.Expr) bool {
		found := false
		ast.Inspect(x, func(n ast.Node) bool {
			if id, ok := n.(*ast.Ident); ok {
				if a.info.Uses[id] == elem {
					found = true
				}
				for _, ix := range idx {
					if ix != nil && a.info.Uses[id] == ix {
						found = true
					}
				}
			}
			return true
		})
		return found
	}
	isField := func(x ast.Expr) bool {
		s, ok := ast.Unparen(x).(*ast.SelectorExpr)
		if !ok {
			return false
		}
		v, ok := a.info.Uses[s.Sel].(*types.Var)
		return ok && v.IsField() && mentions(s.X) && a.carries(a.info.TypeOf(s.X), 0)
	}
	l, r := be.X, be.Y
	if !isField(l) {
		l, r = r, l
	}
	if !isField(l) || mentions(r) {
		return ""
	}
	if be.Op == token.EQL {
		return "eq"
	}
	return "neq"
}
