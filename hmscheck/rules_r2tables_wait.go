package main

// R-wait-rebuild (C10, C16, C17): every replacement of the VM's live-core list
// is computed from the *current* list. A flow analysis (dfFlow) tracks, for
// every local variable, whether the list data it holds was read before a
// later re-assignment of the list in the same function ("stale", the snapshot
// bug: two cores finishing in one sweep — removing the second re-adds the
// first and Wait polls a dead channel forever) and whether the guarding mutex
// was released between that read and the write-back (lost update against a
// concurrent spawnCore).

import (
	"fmt"
	"go/ast"
	"go/token"
	"go/types"
	"sort"
	"strings"
)

func init() {
	register(&Rule{ID: "R-wait-rebuild", Floor: 5, Run: ruleWaitRebuild,
		Doc: "C10/C16/C17: the live-core list is only ever replaced by a value computed from its current contents. For every assignment to the list field: (a) no list data flowing into the new value was read before an earlier assignment to the list in the same activation (a per-sweep snapshot used for rebuilding resurrects a core that was removed earlier in the sweep: its channel never signals again, Wait never returns and cancellation cannot end it; it also drops cores spawned after the snapshot); (b) the write happens with the list's mutex held for writing and the mutex was not released between reading the data and writing it back (otherwise a core appended by a concurrent spawn in the gap is dropped: Wait returns while it still runs and its outcome is lost)."})
}

const r2tParamBit uint8 = 8

type r2tWaitAn struct {
	c        *Ctx
	info     *types.Info
	coreList *types.Var
	guardKey string
	decls    map[*types.Func]*ast.FuncDecl
	writers  map[*types.Func]bool // write the list (transitively)
	release  map[*types.Func]bool // release the guard (transitively)
	readers  map[*types.Func]bool // read the list (transitively)
	memo     map[*ast.FuncDecl]*r2tWaitRes
	busy     map[*ast.FuncDecl]bool
}

type r2tTaint struct {
	seq, conc uint8
	src       map[token.Pos]bool // where list data was read
	vars      []string
}

type r2tWrite struct {
	node  *ast.AssignStmt
	rhs   ast.Expr
	t     r2tTaint
	lock  uint8
	plain bool // rhs holds no list data
}

type r2tCallRec struct {
	lock uint8
	args r2tTaint
}

type r2tWaitRes struct {
	writes    map[*ast.AssignStmt]*r2tWrite
	calls     map[*ast.CallExpr]*r2tCallRec
	entryLock uint8
	unsupp    []token.Pos
}

func r2tVarKey(o types.Object) string { return fmt.Sprintf("%s@%d", o.Name(), o.Pos()) }

func (a *r2tWaitAn) isListSel(e ast.Expr) bool {
	s, ok := ast.Unparen(e).(*ast.SelectorExpr)
	return ok && a.info.Uses[s.Sel] == a.coreList
}

// taint of an expression in state st.
func (a *r2tWaitAn) taint(e ast.Expr, st dfState, srcs map[string]map[token.Pos]bool) r2tTaint {
	t := r2tTaint{src: map[token.Pos]bool{}}
	if e == nil {
		return t
	}
	seen := map[string]bool{}
	var walk func(n ast.Node) bool
	walk = func(n ast.Node) bool {
		// an expression whose type cannot hold a core carries no list data (core.Corenum, len(cores))
		if ex, ok := n.(ast.Expr); ok {
			if tv, ok := a.info.Types[ex]; ok && tv.Type != nil && !tv.IsType() && !a.carries(tv.Type, 0) {
				if _, isCall := ex.(*ast.CallExpr); !isCall {
					return false
				}
			}
		}
		switch x := n.(type) {
		case *ast.FuncLit:
			return false
		case *ast.CallExpr:
			if r2tIsBuiltin(a.info, x, "len") || r2tIsBuiltin(a.info, x, "cap") {
				return false // a size carries no list data
			}
			if fn := CalleeOf(a.info, x); fn != nil && a.readers[fn] {
				// a helper that reads the list: its result is list data read during the call
				t.seq |= dfU
				if st.get(a.guardKey)&dfU != 0 || a.release[fn] {
					t.conc |= dfW
				} else {
					t.conc |= dfU
				}
				t.src[x.Pos()] = true
			}
		case *ast.SelectorExpr:
			if a.info.Uses[x.Sel] == a.coreList {
				t.seq |= dfU
				if st.get(a.guardKey)&dfU != 0 {
					t.conc |= dfW // read without the lock
				} else {
					t.conc |= dfU
				}
				t.src[x.Pos()] = true
				return false
			}
		case *ast.Ident:
			o := r2tObj(a.info, x)
			if o == nil {
				return true
			}
			k := r2tVarKey(o)
			if v, ok := st["seq|"+k]; ok && v != 0 {
				t.seq |= v
				t.conc |= st["conc|"+k]
				if !seen[k] {
					seen[k] = true
					t.vars = append(t.vars, o.Name())
				}
				for p := range srcs[k] {
					t.src[p] = true
				}
			}
		}
		return true
	}
	ast.Inspect(e, walk)
	return t
}

// carries: a value of type t can hold elements of the live-core list.
func (a *r2tWaitAn) carries(t types.Type, depth int) bool {
	if depth > 4 {
		return true
	}
	elem := a.coreList.Type().Underlying().(*types.Slice).Elem()
	if types.Identical(t, elem) {
		return true
	}
	switch u := t.Underlying().(type) {
	case *types.Pointer:
		return a.carries(u.Elem(), depth+1)
	case *types.Slice:
		return a.carries(u.Elem(), depth+1)
	case *types.Array:
		return a.carries(u.Elem(), depth+1)
	case *types.Map:
		return a.carries(u.Elem(), depth+1) || a.carries(u.Key(), depth+1)
	case *types.Chan:
		return a.carries(u.Elem(), depth+1)
	case *types.Struct:
		for i := 0; i < u.NumFields(); i++ {
			if a.carries(u.Field(i).Type(), depth+1) {
				return true
			}
		}
	case *types.Interface:
		return true
	case *types.Tuple:
		for i := 0; i < u.Len(); i++ {
			if a.carries(u.At(i).Type(), depth+1) {
				return true
			}
		}
	case *types.Signature:
		return false
	}
	return false
}

func r2tStale(st dfState, prefix string, keep string) {
	for k, v := range st {
		if !strings.HasPrefix(k, prefix) || k == prefix+keep {
			continue
		}
		if v&(dfU|r2tParamBit) != 0 {
			st[k] = (v &^ dfU) | dfW
		}
	}
}

func (a *r2tWaitAn) analyze(fd *ast.FuncDecl, depth int) *r2tWaitRes {
	if r := a.memo[fd]; r != nil {
		return r
	}
	res := &r2tWaitRes{writes: map[*ast.AssignStmt]*r2tWrite{}, calls: map[*ast.CallExpr]*r2tCallRec{}, entryLock: dfU}
	if a.busy[fd] || depth > 3 {
		return res
	}
	a.busy[fd] = true
	defer func() { a.busy[fd] = false }()
	info := a.info
	self, _ := info.Defs[fd.Name].(*types.Func)
	// entry lock: join over in-package call sites
	if depth < 3 {
		var modes uint8
		for _, cfd := range a.decls {
			if cfd == fd {
				continue
			}
			calls := false
			ast.Inspect(cfd.Body, func(n ast.Node) bool {
				if call, ok := n.(*ast.CallExpr); ok && CalleeOf(info, call) == self {
					calls = true
				}
				return true
			})
			if !calls {
				continue
			}
			cr := a.analyze(cfd, depth+1)
			for call, rec := range cr.calls {
				if CalleeOf(info, call) == self {
					modes |= rec.lock
				}
			}
		}
		if modes != 0 {
			res.entryLock = modes
		}
	}
	srcs := map[string]map[token.Pos]bool{}
	addSrc := func(k string, t r2tTaint) {
		if srcs[k] == nil {
			srcs[k] = map[token.Pos]bool{}
		}
		for p := range t.src {
			srcs[k][p] = true
		}
	}
	rangeOf := map[ast.Expr]*ast.RangeStmt{}
	ast.Inspect(fd.Body, func(n ast.Node) bool {
		if rs, ok := n.(*ast.RangeStmt); ok {
			rangeOf[rs.X] = rs
		}
		return true
	})
	setVar := func(st dfState, lhs ast.Expr, t r2tTaint, strong bool) {
		target := ast.Unparen(lhs)
		for {
			switch x := target.(type) {
			case *ast.IndexExpr:
				target, strong = ast.Unparen(x.X), false
				continue
			case *ast.StarExpr:
				target, strong = ast.Unparen(x.X), false
				continue
			case *ast.SliceExpr:
				target, strong = ast.Unparen(x.X), false
				continue
			}
			break
		}
		o := r2tObj(info, target)
		if o == nil {
			return
		}
		if _, isVar := o.(*types.Var); !isVar {
			return
		}
		k := r2tVarKey(o)
		if strong {
			st["seq|"+k], st["conc|"+k] = t.seq, t.conc
			srcs[k] = nil
		} else {
			st["seq|"+k] |= t.seq
			st["conc|"+k] |= t.conc
		}
		addSrc(k, t)
	}
	fl := &dfFlow{info: info}
	fl.At = func(n ast.Node, st dfState) {
		switch x := n.(type) {
		case *ast.AssignStmt:
			for i, lhs := range x.Lhs {
				var rhs ast.Expr
				if len(x.Rhs) == len(x.Lhs) {
					rhs = x.Rhs[i]
				} else if len(x.Rhs) == 1 {
					rhs = x.Rhs[0]
				}
				t := a.taint(rhs, st, srcs)
				if a.isListSel(lhs) {
					w := res.writes[x]
					if w == nil {
						w = &r2tWrite{node: x, rhs: rhs, t: r2tTaint{src: map[token.Pos]bool{}}}
						res.writes[x] = w
					}
					w.t.seq |= t.seq
					w.t.conc |= t.conc
					for p := range t.src {
						w.t.src[p] = true
					}
					for _, v := range t.vars {
						dup := false
						for _, u := range w.t.vars {
							dup = dup || u == v
						}
						if !dup {
							w.t.vars = append(w.t.vars, v)
						}
					}
					w.lock |= st.get(a.guardKey)
					w.plain = w.t.seq == 0
					keep := ""
					if o := r2tObj(info, rhs); o != nil {
						keep = r2tVarKey(o)
					}
					r2tStale(st, "seq|", keep)
					continue
				}
				strong := x.Tok == token.DEFINE || x.Tok == token.ASSIGN
				if x.Tok != token.DEFINE && x.Tok != token.ASSIGN {
					// op-assign keeps the old contents
					t2 := a.taint(lhs, st, srcs)
					t.seq |= t2.seq
					t.conc |= t2.conc
				}
				setVar(st, lhs, t, strong)
			}
		case *ast.DeclStmt:
			if gd, ok := x.Decl.(*ast.GenDecl); ok {
				for _, sp := range gd.Specs {
					if vs, ok := sp.(*ast.ValueSpec); ok {
						for i, nm := range vs.Names {
							var rhs ast.Expr
							if i < len(vs.Values) {
								rhs = vs.Values[i]
							}
							setVar(st, nm, a.taint(rhs, st, srcs), true)
						}
					}
				}
			}
		case ast.Expr:
			if rs := rangeOf[x]; rs != nil {
				t := a.taint(x, st, srcs)
				if rs.Key != nil {
					setVar(st, rs.Key, r2tTaint{}, true)
				}
				if rs.Value != nil {
					setVar(st, rs.Value, t, true)
				}
			}
		}
	}
	fl.Call = func(call *ast.CallExpr, st dfState) {
		if k, op, ok := dfMutexOp(info, call); ok {
			dfApplyMutex(st, k, op)
			if k == a.guardKey && (op == "Unlock" || op == "RUnlock") {
				r2tStale(st, "conc|", "")
			}
			return
		}
		fn := CalleeOf(info, call)
		if fn == nil {
			return
		}
		if _, inPkg := a.decls[fn]; inPkg {
			rec := res.calls[call]
			if rec == nil {
				rec = &r2tCallRec{args: r2tTaint{src: map[token.Pos]bool{}}}
				res.calls[call] = rec
			}
			rec.lock |= st.get(a.guardKey)
			for _, arg := range call.Args {
				t := a.taint(arg, st, srcs)
				rec.args.seq |= t.seq
				rec.args.conc |= t.conc
				for p := range t.src {
					rec.args.src[p] = true
				}
			}
		}
		if a.writers[fn] {
			r2tStale(st, "seq|", "")
		}
		if a.release[fn] {
			r2tStale(st, "conc|", "")
		}
	}
	entry := dfState{a.guardKey: res.entryLock}
	if fd.Type.Params != nil {
		for _, f := range fd.Type.Params.List {
			for _, nm := range f.Names {
				if o := info.Defs[nm]; o != nil {
					entry["seq|"+r2tVarKey(o)] = r2tParamBit
					entry["conc|"+r2tVarKey(o)] = r2tParamBit
				}
			}
		}
	}
	fl.Run(fd.Body, entry)
	res.unsupp = fl.Unsupp
	a.memo[fd] = res
	return res
}

func ruleWaitRebuild(c *Ctx) []Obligation {
	w := wtResolve(c)
	p := c.Pkg("homescript/runtime")
	info := p.TypesInfo
	a := &r2tWaitAn{c: c, info: info, coreList: w.coreList, decls: map[*types.Func]*ast.FuncDecl{},
		writers: map[*types.Func]bool{}, release: map[*types.Func]bool{}, readers: map[*types.Func]bool{}, memo: map[*ast.FuncDecl]*r2tWaitRes{}, busy: map[*ast.FuncDecl]bool{}}
	var obs []Obligation
	// the guarding mutex: a sync mutex field in the struct that owns the list
	scope := p.Types.Scope()
	for _, name := range scope.Names() {
		tn, ok := scope.Lookup(name).(*types.TypeName)
		if !ok {
			continue
		}
		st, ok := tn.Type().Underlying().(*types.Struct)
		if !ok {
			continue
		}
		owns := false
		for i := 0; i < st.NumFields(); i++ {
			owns = owns || st.Field(i) == w.coreList
		}
		if !owns {
			continue
		}
		for i := 0; i < st.NumFields(); i++ {
			if n, ok := st.Field(i).Type().(*types.Named); ok && n.Obj().Pkg() != nil && n.Obj().Pkg().Path() == "sync" && (n.Obj().Name() == "RWMutex" || n.Obj().Name() == "Mutex") {
				a.guardKey = tn.Name() + "." + st.Field(i).Name()
			}
		}
	}
	if a.guardKey == "" {
		obs = append(obs, Obligation{Key: "runtime|live-core list|guarding mutex", Status: Undecided, Pos: c.Pos(w.coreList.Pos()),
			Detail: "no sync mutex field next to " + w.coreList.Name() + ": cannot decide the critical sections"})
		a.guardKey = "?"
	}
	for _, fd := range AllFuncDecls(p) {
		if fn, ok := info.Defs[fd.Name].(*types.Func); ok {
			a.decls[fn] = fd
		}
	}
	// direct writers / releasers, then closure over static calls
	direct := map[*ast.FuncDecl]bool{}
	for fn, fd := range a.decls {
		ast.Inspect(fd.Body, func(n ast.Node) bool {
			switch x := n.(type) {
			case *ast.AssignStmt:
				for _, l := range x.Lhs {
					if a.isListSel(l) {
						a.writers[fn] = true
						direct[fd] = true
					}
				}
			case *ast.CallExpr:
				if k, op, ok := dfMutexOp(info, x); ok && k == a.guardKey && (op == "Unlock" || op == "RUnlock") {
					a.release[fn] = true
				}
			case *ast.SelectorExpr:
				if info.Uses[x.Sel] == a.coreList && fn.Type().(*types.Signature).Results().Len() > 0 {
					a.readers[fn] = true
				}
			}
			return true
		})
	}
	for changed := true; changed; {
		changed = false
		for fn, fd := range a.decls {
			ast.Inspect(fd.Body, func(n ast.Node) bool {
				if call, ok := n.(*ast.CallExpr); ok {
					if cal := CalleeOf(info, call); cal != nil {
						if a.writers[cal] && !a.writers[fn] {
							a.writers[fn], changed = true, true
						}
						if a.release[cal] && !a.release[fn] {
							a.release[fn], changed = true, true
						}
						if a.readers[cal] && !a.readers[fn] && fn.Type().(*types.Signature).Results().Len() > 0 {
							a.readers[fn], changed = true, true
						}
					}
				}
				return true
			})
		}
	}
	var fds []*ast.FuncDecl
	for fd := range direct {
		fds = append(fds, fd)
	}
	sort.Slice(fds, func(i, j int) bool { return fds[i].Pos() < fds[j].Pos() })
	listName := w.coreList.Name()
	for _, fd := range fds {
		res := a.analyze(fd, 0)
		self, _ := info.Defs[fd.Name].(*types.Func)
		var ws []*r2tWrite
		for _, wr := range res.writes {
			ws = append(ws, wr)
		}
		sort.Slice(ws, func(i, j int) bool { return ws[i].node.Pos() < ws[j].node.Pos() })
		if len(res.unsupp) > 0 {
			obs = append(obs, Obligation{Key: "runtime." + FuncName(fd) + "|control flow", Status: Undecided, Pos: c.Pos(res.unsupp[0]), Detail: "goto/fallthrough in a function that re-assigns the live-core list"})
		}
		var otherWrites []string
		for _, wr := range ws {
			otherWrites = append(otherWrites, c.Pos(wr.node.Pos()))
		}
		for i, wr := range ws {
			base := fmt.Sprintf("runtime.%s|%s write #%d|", FuncName(fd), listName, i+1)
			t := wr.t
			lock := wr.lock
			// data that came in through a parameter: look at the call sites
			viaParam := ""
			if t.seq&r2tParamBit != 0 {
				found := false
				for _, cfd := range a.decls {
					cr := a.memo[cfd]
					if cr == nil {
						cr = a.analyze(cfd, 1)
					}
					for call, rec := range cr.calls {
						if CalleeOf(info, call) != self {
							continue
						}
						found = true
						t.seq |= rec.args.seq &^ r2tParamBit
						t.conc |= rec.args.conc &^ r2tParamBit
						if rec.args.seq&r2tParamBit != 0 {
							viaParam = "the data reaches " + FuncName(fd) + " through a parameter chain longer than one call"
						}
						for p := range rec.args.src {
							t.src[p] = true
						}
					}
				}
				if !found {
					viaParam = "the new list is computed from a parameter of " + FuncName(fd) + " and no call site was found"
				}
			}
			var reads []string
			for p := range t.src {
				reads = append(reads, c.Pos(p))
			}
			sort.Strings(reads)
			via := ""
			if len(t.vars) > 0 {
				via = " via " + strings.Join(t.vars, ", ")
			}
			rhsStr := exprStr(wr.rhs)
			// (a) sequential freshness
			oa := Obligation{Key: base + "computed from the current list", Pos: c.Pos(wr.node.Pos()), Nontrivial: true}
			switch {
			case wr.plain && t.seq == 0:
				oa.Status, oa.Detail = Discharged, fmt.Sprintf("`%s = %s`: the new value holds no data of the old list (the list is cleared / replaced by fresh storage)", listName, rhsStr)
			case viaParam != "":
				oa.Status, oa.Detail = Undecided, viaParam
			case t.seq&dfW != 0:
				oa.Status = Violated
				oa.Detail = fmt.Sprintf("`%s = %s`: the new list is computed from list data read at %s%s, and on some path the list is re-assigned (%s) between that read and this write — the data is a stale snapshot. When two cores signal in one sweep, removing the second is computed from the snapshot that still holds the first: the first core is put back, its channel never signals again, Wait polls it forever (cancellation cannot end it); a core spawned after the snapshot is dropped.",
					listName, rhsStr, strings.Join(reads, ", "), via, strings.Join(otherWrites, ", "))
			default:
				oa.Status, oa.Detail = Discharged, fmt.Sprintf("`%s = %s`: all list data in the new value was read (%s%s) after the last re-assignment of the list on every path", listName, rhsStr, strings.Join(reads, ", "), via)
			}
			obs = append(obs, oa)
			// (b) one critical section
			ob := Obligation{Key: base + "read and written in one critical section", Pos: c.Pos(wr.node.Pos()), Nontrivial: true}
			switch {
			case a.guardKey == "?":
				ob.Status, ob.Detail = Undecided, "guarding mutex unknown"
			case lock != dfW:
				ob.Status, ob.Detail = Violated, fmt.Sprintf("the list is written while %s may be %s (the write lock is required: readers iterate the list)", a.guardKey, dfModeString(lock))
			case t.seq == 0:
				ob.Status, ob.Detail = Discharged, "written under "+a.guardKey+".Lock(); the new value holds no data of the old list"
			case t.conc&dfW != 0:
				ob.Status = Violated
				ob.Detail = fmt.Sprintf("`%s = %s`: the list data in the new value was read at %s%s, then %s was released before this write took the write lock. A spawnCore running in that gap (a core executing `spawn` — it only needs the lock) appends its core, and this write replaces the list by one computed without it: the new core is no longer waited for (Wait returns while it runs, its interrupt is lost). Fix: compute the filtered list inside the Lock()/Unlock() section that assigns it.",
					listName, rhsStr, strings.Join(reads, ", "), via, a.guardKey)
			default:
				ob.Status, ob.Detail = Discharged, fmt.Sprintf("the list data (%s%s) is read and written back without releasing %s in between, and the write holds the write lock", strings.Join(reads, ", "), via, a.guardKey)
			}
			obs = append(obs, ob)
		}
	}
	if len(fds) == 0 {
		obs = append(obs, Obligation{Key: "runtime|live-core list|writes", Status: Undecided, Pos: c.Pos(w.coreList.Pos()), Detail: "no assignment to the live-core list found"})
	}
	return obs
}
