package main

// R-interrupt-operands (r6emit): an instruction that ends in an interrupt has
// consumed its operands.

import (
	"fmt"
	"go/ast"
	"go/token"
	"go/types"
	"sort"
	"strings"
)

func init() {
	register(&Rule{ID: "R-interrupt-operands", Floor: 8, Run: ruleR6InterruptOperands,
		Doc: "operand-stack hygiene of raising instructions: the compiler's stack model knows one effect per opcode. When the dispatcher clause of an opcode returns a non-nil interrupt, a catchable one makes Run jump to the innermost handler and continue on the SAME operand stack, so the raising path must have removed the operands exactly as the completing path does. For every dispatcher clause that has a path returning a non-nil interrupt: on each such path the number of operands removed from the value stack (pops, plus overwrites of an existing top slot, which stand for pop+push) is at least the number removed on the completing paths of the same clause. Otherwise every raised-and-caught occurrence leaks an operand: a loop that validates input with `try { x as int } catch e {}` is eventually killed by the stack limit although it never nests more than a few values (C09: limits stop only programs that exceed them; C16: a caught error leaves the program in the state of the try entry)"})
}

func ruleR6InterruptOperands(c *Ctx) []Obligation {
	r2LoopCtx = c
	r := vmRoles(c)
	fn := r.dispatch
	info := fn.info
	stackF := r.stack.field
	ss := r2NewFieldSumm(c, r.fns, stackF, r.stack)

	// peek accessors: one-result functions that only read the stack field through an index expression
	peek := map[*types.Func]bool{}
	for _, g := range r.fns {
		obj, _ := g.info.Defs[g.fd.Name].(*types.Func)
		if obj == nil || g.fd.Body == nil || len(g.fd.Body.List) != 1 {
			continue
		}
		rs, ok := g.fd.Body.List[0].(*ast.ReturnStmt)
		if !ok || len(rs.Results) != 1 || vmWritesField(g.info, g.fd.Body, stackF) {
			continue
		}
		ast.Inspect(rs.Results[0], func(n ast.Node) bool {
			if ix, ok := n.(*ast.IndexExpr); ok && vmFieldOf(g.info, ix.X) == stackF {
				peek[obj] = true
			}
			return true
		})
	}
	isReplace := func(lhs ast.Expr) bool {
		lhs = ast.Unparen(lhs)
		if ix, ok := lhs.(*ast.IndexExpr); ok && vmFieldOf(info, ix.X) == stackF {
			return true
		}
		if st, ok := lhs.(*ast.StarExpr); ok {
			if call, ok := ast.Unparen(st.X).(*ast.CallExpr); ok && peek[CalleeOf(info, call)] {
				return true
			}
		}
		return false
	}

	relevant := func(n ast.Node) bool {
		switch x := n.(type) {
		case *ast.ReturnStmt:
			return true
		case *ast.CallExpr:
			g := CalleeOf(info, x)
			if g == nil {
				if id, ok := x.Fun.(*ast.Ident); ok {
					if b, isB := info.Uses[id].(*types.Builtin); isB && b.Name() == "panic" {
						return true
					}
				}
				return false
			}
			if d, unk := ss.call(g); d != 0 || unk {
				return true
			}
			return vmAlwaysPanics(c, g)
		case *ast.AssignStmt:
			for _, l := range x.Lhs {
				if vmFieldOf(info, vmBaseOfIndex(l)) == stackF || isReplace(l) {
					return true
				}
			}
		}
		return false
	}
	res := vmWalk(vmWalkOpts{fn: fn, replace: vmSlicer(relevant)})
	tops := map[token.Pos]bool{r.dispSw.Pos(): true}
	prefix := fn.name + "|"
	var obs []Obligation
	if res.overflow {
		obs = append(obs, Obligation{Key: prefix + "<paths>", Pos: c.Pos(fn.fd.Pos()), Status: Undecided, Detail: "path cap exceeded"})
	}
	unitPos := map[string]token.Pos{}
	for _, cl := range r.dispSw.Body.List {
		cc := cl.(*ast.CaseClause)
		if cc.List == nil {
			continue
		}
		var names []string
		for _, e := range cc.List {
			if k := ConstOf(info, e); k != nil {
				names = append(names, k.Name())
			}
		}
		unitPos["case "+strings.Join(names, ",")] = cc.Pos()
	}

	type pathEff struct {
		removed int
		unknown string
		opaque  string // calls of helpers whose effect on the stack is not a constant, by position
		p       *vmPath
	}
	type unit struct {
		normal, raising []pathEff
		maybe           int
	}
	units := map[string]*unit{}
	for i := range res.paths {
		p := &res.paths[i]
		u := vmUnitOf(info, tops, p)
		if u == "" || u == "default" || p.o.kind == cPanic {
			continue
		}
		if units[u] == nil {
			units[u] = &unit{}
		}
		pe := pathEff{p: p}
		var ret *ast.ReturnStmt
		for _, e := range p.ev {
			switch e.K {
			case evRet:
				if !e.Deferred {
					ret = e.Ret
				}
			case evAssign:
				if isReplace(e.Lhs) {
					pe.removed++
					continue
				}
				if vmFieldOf(info, vmBaseOfIndex(e.Lhs)) != stackF {
					continue
				}
				if e.Rhs != nil {
					if d, ok := vmSliceWrite(info, e.Lhs, e.Rhs, stackF); ok {
						if d < 0 {
							pe.removed -= d
						}
						continue
					}
				}
				if pe.unknown == "" {
					pe.unknown = fmt.Sprintf("unclassified write of the value stack @%s", c.Pos(e.Pos))
				}
			case evCall:
				d, unk := ss.call(e.Fn)
				if unk {
					// a helper that removes a data-dependent number of values: paths are
					// comparable when they run the same such calls
					pe.opaque += fmt.Sprintf("%s@%d;", e.Fn.Name(), e.Pos)
				}
				if d < 0 {
					pe.removed -= d
				}
			}
		}
		// classify the exit
		kind := "normal"
		if ret != nil && len(ret.Results) >= 1 {
			x := ast.Unparen(ret.Results[0])
			switch {
			case vmIsNil(info, x):
			default:
				kind = "raising"
				if id, ok := x.(*ast.Ident); ok {
					// a variable: non-nil only when the path has decided so
					kind = "maybe"
					o := info.ObjectOf(id)
					for _, e := range p.ev {
						if e.K != evCond {
							continue
						}
						if be, ok := ast.Unparen(e.X).(*ast.BinaryExpr); ok && (be.Op == token.NEQ || be.Op == token.EQL) {
							var other ast.Expr
							switch {
							case vmObjOf(info, be.X) == o:
								other = be.Y
							case vmObjOf(info, be.Y) == o:
								other = be.X
							}
							if other != nil && vmIsNil(info, other) && e.Taken == (be.Op == token.NEQ) {
								kind = "raising"
							}
						}
					}
				}
			}
		}
		switch kind {
		case "normal":
			units[u].normal = append(units[u].normal, pe)
		case "raising":
			units[u].raising = append(units[u].raising, pe)
		default:
			units[u].maybe++
		}
	}
	var names []string
	for u := range units {
		names = append(names, u)
	}
	sort.Strings(names)
	nRaising := 0
	for _, u := range names {
		un := units[u]
		if len(un.raising) == 0 {
			continue
		}
		nRaising++
		ob := Obligation{Key: prefix + u + "|a path that returns an interrupt has removed the operands the completing paths remove", Pos: c.Pos(unitPos[u]), Nontrivial: true}
		var unk, bad []string
		wantBy := map[string]int{}
		for _, pe := range un.normal {
			if pe.unknown != "" {
				unk = append(unk, pe.unknown)
				continue
			}
			if w, ok := wantBy[pe.opaque]; !ok || pe.removed < w {
				wantBy[pe.opaque] = pe.removed
			}
		}
		want := -1
		for _, w := range wantBy {
			if want < 0 || w < want {
				want = w
			}
		}
		for _, pe := range un.raising {
			if pe.unknown != "" {
				unk = append(unk, pe.unknown)
				continue
			}
			w, ok := wantBy[pe.opaque]
			if !ok {
				if pe.opaque != "" && len(wantBy) > 0 {
					unk = append(unk, fmt.Sprintf("path [%s] calls a helper that removes a data-dependent number of values and no completing path runs the same helper calls", vmTrunc(pe.p.decisions(), 120)))
				}
				continue
			}
			if pe.removed < w {
				bad = append(bad, fmt.Sprintf("path [%s] (%s) removes %d value(s), the completing paths remove at least %d", vmTrunc(pe.p.decisions(), 160), pe.p.exitStr(c), pe.removed, w))
			}
		}
		switch {
		case len(bad) > 0:
			ob.Status = Violated
			ob.Detail = strings.Join(vmUniq(bad), " | ") + ". When the interrupt is catchable, Run resumes at the innermost handler on the same value stack: the operand stays there for good. Each raised-and-caught occurrence grows the stack by one, so a loop such as `loop { try { raw as int } catch e { } }` is stopped by the stack limit after StackMaxSize failures although the program never holds more than a few values"
		case len(unk) > 0:
			ob.Status, ob.Detail = Undecided, strings.Join(vmUniq(unk), " | ")
		case want < 0:
			ob.Status, ob.Detail = Info, fmt.Sprintf("%d raising path(s), no completing path to compare with", len(un.raising))
		default:
			ob.Nontrivial = want > 0
			ob.Status, ob.Detail = Discharged, fmt.Sprintf("%d raising path(s), each removes at least the %d value(s) the %d completing path(s) remove", len(un.raising), want, len(un.normal))
		}
		obs = append(obs, ob)
	}
	if nRaising == 0 {
		obs = append(obs, Obligation{Key: prefix + "clauses returning an interrupt", Status: Undecided, Detail: "no dispatcher clause returns a non-nil interrupt: re-anchor the rule"})
	}
	return obs
}
