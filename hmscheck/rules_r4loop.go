package main

import (
	"fmt"
	"go/ast"
	"go/token"
	"go/types"
	"sort"
	"strings"
)

// R-loop-variant: a `for cond { … }` loop whose condition reads nothing the loop can change, and
// whose body cannot leave the loop, either never runs or never ends. With a condition that is
// true on entry it pins the goroutine forever: in the VM's fault path that is a core that never
// signals (the host's Wait never returns), in the analyzer a hang on a particular input.
func init() {
	register(&Rule{ID: "R-loop-variant-front", Floor: 8, Run: func(c *Ctx) []Obligation { return ruleLoopVariantIn(c, true) },
		Doc: "R-loop-variant restricted to the front end (lexer, parser, analyzer and the packages they share): a loop there that cannot end is a hang on some input text"})
	register(&Rule{ID: "R-loop-variant", Floor: 15, Run: func(c *Ctx) []Obligation { return ruleLoopVariantIn(c, false) },
		Doc: "for every conditional loop (`for cond {…}`, with or without init/post) of the pipeline packages: the condition must be able to change between iterations — it reads a variable that the body or post statement assigns (directly, through a field/index path, or whose address is taken), or it calls something that is not a pure function of such unchanged variables, or it reads memory reachable through a pointer/receiver while the body calls anything — OR the body contains an exit (break out of this loop, return, panic, goto). A loop with an invariant condition and no exit is a violation (it spins forever once entered)"})
}

// loopFrontPkg: packages that run before execution (their loops are driven by the program text)
func loopFrontPkg(path string) bool {
	for _, part := range []string{"/lexer", "/parser", "/analyzer", "/diagnostic", "/errors"} {
		if strings.Contains(path, part) {
			return true
		}
	}
	return false
}

func ruleLoopVariantIn(c *Ctx, front bool) []Obligation {
	var obs []Obligation
	pure := func(fn *types.Func) bool {
		if fn == nil || fn.Pkg() == nil {
			return false
		}
		switch fn.Pkg().Path() {
		case "unicode/utf8", "strings", "math", "unicode", "strconv", "bytes", "slices", "sort":
			// value-only helpers (no receiver state): results depend on the arguments only
			sig := fn.Type().(*types.Signature)
			return sig.Recv() == nil
		}
		return false
	}
	var pkgs []string
	for _, p := range c.All {
		pkgs = append(pkgs, p.PkgPath)
	}
	sort.Strings(pkgs)
	for _, path := range pkgs {
		var p = c.pkgByPath(path)
		if p == nil || loopFrontPkg(path) != front {
			continue
		}
		info := p.TypesInfo
		for _, fd := range AllFuncDecls(p) {
			if fd.Body == nil {
				continue
			}
			n := 0
			ast.Inspect(fd.Body, func(nd ast.Node) bool {
				loop, ok := nd.(*ast.ForStmt)
				if !ok || loop.Cond == nil {
					return true
				}
				n++
				key := fmt.Sprintf("%s.%s|for #%d|the condition can change or the body can leave", relPkg(p.PkgPath), FuncName(fd), n)
				o := Obligation{Key: key, Pos: c.Pos(loop.Pos()), Nontrivial: true}
				// exits of the body
				exits := false
				var scan func(s ast.Node, depth int)
				scan = func(s ast.Node, depth int) {
					ast.Inspect(s, func(m ast.Node) bool {
						switch x := m.(type) {
						case *ast.FuncLit:
							return false
						case *ast.ReturnStmt:
							exits = true
						case *ast.BranchStmt:
							switch x.Tok {
							case token.GOTO:
								exits = true
							case token.BREAK:
								// a break inside a nested loop/switch/select without label leaves only that construct
								if x.Label != nil || depth == 0 {
									exits = true
								}
							}
						case *ast.ForStmt:
							if x != loop {
								scan(x.Body, depth+1)
								return false
							}
						case *ast.RangeStmt:
							scan(x.Body, depth+1)
							return false
						case *ast.SwitchStmt:
							scan(x.Body, depth+1)
							return false
						case *ast.TypeSwitchStmt:
							scan(x.Body, depth+1)
							return false
						case *ast.SelectStmt:
							scan(x.Body, depth+1)
							return false
						case *ast.ExprStmt:
							if IsPanicCall(info, x) {
								exits = true
							}
						}
						return true
					})
				}
				scan(loop.Body, 0)
				if exits {
					o.Status, o.Detail = Discharged, "the body can leave the loop (break / return / panic)"
					obs = append(obs, o)
					return true
				}
				// what the body and post can write
				written := map[types.Object]bool{}
				bodyCalls := false
				mark := func(e ast.Expr) {
					for {
						switch x := ast.Unparen(e).(type) {
						case *ast.Ident:
							if obj := info.Uses[x]; obj != nil {
								written[obj] = true
							} else if obj := info.Defs[x]; obj != nil {
								written[obj] = true
							}
							return
						case *ast.SelectorExpr:
							if fv, ok := info.Uses[x.Sel].(*types.Var); ok {
								written[fv] = true
							}
							e = x.X
						case *ast.IndexExpr:
							e = x.X
						case *ast.StarExpr:
							e = x.X
						default:
							return
						}
					}
				}
				walkW := func(s ast.Node) {
					if s == nil {
						return
					}
					ast.Inspect(s, func(m ast.Node) bool {
						switch x := m.(type) {
						case *ast.AssignStmt:
							for _, l := range x.Lhs {
								mark(l)
							}
						case *ast.IncDecStmt:
							mark(x.X)
						case *ast.UnaryExpr:
							if x.Op == token.AND {
								mark(x.X)
							}
						case *ast.CallExpr:
							if fn := CalleeOf(info, x); fn == nil || !pure(fn) {
								if id, ok := x.Fun.(*ast.Ident); !ok || (id.Name != "len" && id.Name != "cap" && id.Name != "append" && !info.Types[x.Fun].IsType()) {
									bodyCalls = true
								}
							}
						case *ast.RangeStmt:
							if x.Key != nil {
								mark(x.Key)
							}
							if x.Value != nil {
								mark(x.Value)
							}
						}
						return true
					})
				}
				walkW(loop.Body)
				if loop.Post != nil {
					walkW(loop.Post)
				}
				// can the condition change?
				changes, why := false, ""
				ast.Inspect(loop.Cond, func(m ast.Node) bool {
					switch x := m.(type) {
					case *ast.Ident:
						obj := info.Uses[x]
						if obj == nil {
							return true
						}
						if written[obj] {
							changes, why = true, "reads "+x.Name+", which the loop assigns"
						}
						if v, ok := obj.(*types.Var); ok && !v.IsField() {
							// a pointer / reference-typed variable: what it refers to may change when the body calls anything
							switch v.Type().Underlying().(type) {
							case *types.Pointer, *types.Map, *types.Chan, *types.Interface:
								if bodyCalls {
									changes, why = true, "reads through "+x.Name+" while the body makes calls"
								}
							}
						}
					case *ast.SelectorExpr:
						if fv, ok := info.Uses[x.Sel].(*types.Var); ok && fv.IsField() {
							if written[fv] {
								changes, why = true, "reads field "+fv.Name()+", which the loop assigns"
							} else if bodyCalls {
								changes, why = true, "reads field "+fv.Name()+" while the body makes calls"
							}
						}
					case *ast.CallExpr:
						if info.Types[x.Fun].IsType() {
							return true
						}
						if id, ok := x.Fun.(*ast.Ident); ok && (id.Name == "len" || id.Name == "cap") {
							return true
						}
						if fn := CalleeOf(info, x); !pure(fn) {
							changes, why = true, "calls "+exprStr(x.Fun)
						}
					case *ast.UnaryExpr:
						if x.Op == token.ARROW {
							changes, why = true, "receives from a channel"
						}
					case *ast.StarExpr:
						if bodyCalls {
							changes, why = true, "dereferences a pointer while the body makes calls"
						}
					}
					return true
				})
				if changes {
					o.Status, o.Detail = Discharged, "the condition "+why
				} else {
					o.Status, o.Detail = Violated, fmt.Sprintf("the condition `%s` reads only values the loop never changes (no variable of it is assigned in the body or post statement, it calls nothing impure) and the body has no exit: once entered the loop never ends", exprStr(loop.Cond))
				}
				obs = append(obs, o)
				return true
			})
		}
	}
	return obs
}
