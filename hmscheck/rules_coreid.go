package main

import (
	"fmt"
	"go/ast"
	"go/token"
	"go/types"
	"strings"
)

func init() {
	register(&Rule{ID: "R-core-identity", Floor: 2, Run: ruleCoreIdentity,
		Doc: "cores are identified by a number that is unique among live cores: (a) the number given to a new core is read from a counter field that is only ever incremented (never derived from the current length of the live-core list, which shrinks when cores finish), and the increment happens in the spawning function; (b) when the host's wait loop collects a finished core it removes from the live list exactly the entries whose number equals that of the core whose signal was received — by identity, never by position (the list is rebuilt while it is being iterated)"})
}

func ruleCoreIdentity(c *Ctx) []Obligation {
	p := c.Pkg("homescript/runtime")
	info := p.TypesInfo
	var obs []Obligation
	coreT, _ := p.Types.Scope().Lookup("Core").Type().(*types.Named)
	if coreT == nil {
		fatalf("anchor unresolved: runtime.Core")
	}
	var numField *types.Var // Core.Corenum: the uint field compared in Wait / set by NewCore
	st := coreT.Underlying().(*types.Struct)
	for i := 0; i < st.NumFields(); i++ {
		if strings.EqualFold(st.Field(i).Name(), "corenum") {
			numField = st.Field(i)
		}
	}
	if numField == nil {
		fatalf("anchor unresolved: runtime.Core has no core-number field")
	}
	// (a) constructor calls: which argument flows into the number field
	newCore, _ := p.Types.Scope().Lookup("NewCore").(*types.Func)
	if newCore == nil {
		fatalf("anchor unresolved: runtime.NewCore")
	}
	ncDecl := FuncDecl(p, "", "NewCore")
	paramIdx := -1
	ast.Inspect(ncDecl.Body, func(n ast.Node) bool {
		kv, ok := n.(*ast.KeyValueExpr)
		if !ok {
			return true
		}
		k, ok := kv.Key.(*ast.Ident)
		if !ok || info.Uses[k] != numField {
			return true
		}
		if id, ok := ast.Unparen(kv.Value).(*ast.Ident); ok {
			sig := newCore.Type().(*types.Signature)
			for i := 0; i < sig.Params().Len(); i++ {
				if sig.Params().At(i) == info.Uses[id] {
					paramIdx = i
				}
			}
		}
		return true
	})
	if paramIdx < 0 {
		obs = append(obs, Obligation{Key: "runtime.NewCore|core number parameter", Status: Undecided, Detail: "cannot see which parameter initialises the core number"})
	} else {
		for _, fd := range AllFuncDecls(p) {
			ast.Inspect(fd.Body, func(n ast.Node) bool {
				call, ok := n.(*ast.CallExpr)
				if !ok || CalleeOf(info, call) != newCore || paramIdx >= len(call.Args) {
					return true
				}
				arg := ast.Unparen(call.Args[paramIdx])
				o := Obligation{Key: "runtime." + FuncName(fd) + "|core number comes from a monotonic counter", Pos: c.Pos(call.Pos()), Nontrivial: true}
				sel, ok := arg.(*ast.SelectorExpr)
				fv, _ := info.Uses[selIdent(sel)].(*types.Var)
				if !ok || fv == nil || !fv.IsField() {
					o.Status, o.Detail = Violated, fmt.Sprintf("the core number is `%s`, not a counter field: numbers derived from the live-core list (its length, an index) are reissued once a core has been collected, and the wait loop then drops two cores for one signal", exprStr(arg))
					obs = append(obs, o)
					return true
				}
				// all writes to the field in the package
				var bad []string
				incHere := false
				for _, fd2 := range AllFuncDecls(p) {
					ast.Inspect(fd2.Body, func(m ast.Node) bool {
						switch x := m.(type) {
						case *ast.IncDecStmt:
							if s, ok := ast.Unparen(x.X).(*ast.SelectorExpr); ok && info.Uses[s.Sel] == fv {
								if x.Tok == token.DEC {
									bad = append(bad, "decremented in "+FuncName(fd2))
								} else if fd2 == fd {
									incHere = true
								}
							}
						case *ast.AssignStmt:
							for _, l := range x.Lhs {
								if s, ok := ast.Unparen(l).(*ast.SelectorExpr); ok && info.Uses[s.Sel] == fv {
									if x.Tok == token.ADD_ASSIGN {
										if fd2 == fd {
											incHere = true
										}
									} else {
										bad = append(bad, "assigned in "+FuncName(fd2)+" ("+c.Pos(x.Pos())+")")
									}
								}
							}
						}
						return true
					})
				}
				if !incHere {
					// … or in a helper this function calls unconditionally (a top-level statement of its body) and
					// that increments the field unconditionally itself
					topInc := func(d *ast.FuncDecl) bool {
						for _, st := range d.Body.List {
							switch x := st.(type) {
							case *ast.IncDecStmt:
								if s, ok := ast.Unparen(x.X).(*ast.SelectorExpr); ok && info.Uses[s.Sel] == fv && x.Tok == token.INC {
									return true
								}
							case *ast.AssignStmt:
								if x.Tok == token.ADD_ASSIGN && len(x.Lhs) == 1 {
									if s, ok := ast.Unparen(x.Lhs[0]).(*ast.SelectorExpr); ok && info.Uses[s.Sel] == fv {
										return true
									}
								}
							}
						}
						return false
					}
					for _, st := range fd.Body.List {
						es, ok := st.(*ast.ExprStmt)
						if !ok {
							continue
						}
						call, ok := es.X.(*ast.CallExpr)
						if !ok {
							continue
						}
						if callee := CalleeOf(info, call); callee != nil {
							for _, d := range AllFuncDecls(p) {
								if d.Body != nil && info.Defs[d.Name] == callee && topInc(d) {
									incHere = true
								}
							}
						}
					}
				}
				switch {
				case len(bad) > 0:
					o.Status, o.Detail = Violated, "counter field "+fv.Name()+" is not monotonic: "+strings.Join(bad, "; ")
				case !incHere:
					o.Status, o.Detail = Violated, "counter field "+fv.Name()+" is not incremented in the function that hands it out: two cores can receive the same number"
				default:
					o.Status, o.Detail = Discharged, "number read from field "+fv.Name()+", which is only ever incremented, and incremented here"
				}
				obs = append(obs, o)
				return true
			})
		}
	}
	// (b) the wait loop: receive from X.SignalHandle, X ranging over the live list
	var chanField *types.Var
	for i := 0; i < st.NumFields(); i++ {
		if _, ok := st.Field(i).Type().Underlying().(*types.Chan); ok {
			chanField = st.Field(i)
		}
	}
	for _, fd := range AllFuncDecls(p) {
		ast.Inspect(fd.Body, func(n ast.Node) bool {
			outer, ok := n.(*ast.RangeStmt)
			if !ok || outer.Value == nil {
				return true
			}
			xv, _ := info.Defs[identOf(outer.Value)].(*types.Var)
			if xv == nil || !types.Identical(xv.Type(), coreT) {
				return true
			}
			// does the body receive from xv.<chan>?
			recv := false
			ast.Inspect(outer.Body, func(m ast.Node) bool {
				if u, ok := m.(*ast.UnaryExpr); ok && u.Op == token.ARROW {
					if s, ok := ast.Unparen(u.X).(*ast.SelectorExpr); ok && info.Uses[s.Sel] == chanField {
						if id, ok := ast.Unparen(s.X).(*ast.Ident); ok && info.Uses[id] == xv {
							recv = true
						}
					}
				}
				return true
			})
			if !recv {
				return true
			}
			// inner loops over a list of cores that build a filtered list: in the wait loop itself, or in a helper
			// it calls with the signalling core / its number as an argument
			found := 0
			sigCore := map[types.Object]bool{xv: true}
			sigNum := map[types.Object]bool{}
			var scanBody func(body ast.Node)
			scanBody = func(body ast.Node) {
				ast.Inspect(body, func(m ast.Node) bool {
					// the iterated element: the range value variable, or LIST[i] with i the range key / the
					// counter of a `for i := 0; i < len(LIST); i++` loop
					var innerBody *ast.BlockStmt
					var innerNode ast.Node
					var isElem func(e ast.Expr) bool
					switch inner := m.(type) {
					case *ast.RangeStmt:
						if inner == outer {
							return true
						}
						lt := info.TypeOf(inner.X)
						sl, isSl := lt.Underlying().(*types.Slice)
						if !isSl || !types.Identical(sl.Elem(), coreT) {
							return true
						}
						var yv, kv *types.Var
						if inner.Value != nil {
							yv, _ = info.Defs[identOf(inner.Value)].(*types.Var)
						}
						if inner.Key != nil {
							kv, _ = info.Defs[identOf(inner.Key)].(*types.Var)
						}
						listTxt := exprStr(inner.X)
						isElem = func(e ast.Expr) bool {
							e = ast.Unparen(e)
							if id, ok := e.(*ast.Ident); ok && yv != nil && info.Uses[id] == yv {
								return true
							}
							if ix, ok := e.(*ast.IndexExpr); ok && kv != nil && exprStr(ix.X) == listTxt {
								if id, ok := ast.Unparen(ix.Index).(*ast.Ident); ok && info.Uses[id] == kv {
									return true
								}
							}
							return false
						}
						innerBody, innerNode = inner.Body, inner
					case *ast.ForStmt:
						// for i := …; i < len(LIST); i++
						cond, ok := inner.Cond.(*ast.BinaryExpr)
						if !ok {
							return true
						}
						call, ok := ast.Unparen(cond.Y).(*ast.CallExpr)
						if !ok || len(call.Args) != 1 {
							return true
						}
						if id, ok := call.Fun.(*ast.Ident); !ok || id.Name != "len" {
							return true
						}
						lt := info.TypeOf(call.Args[0])
						sl, isSl := lt.Underlying().(*types.Slice)
						if !isSl || !types.Identical(sl.Elem(), coreT) {
							return true
						}
						iv, _ := info.Uses[identOf(cond.X)].(*types.Var)
						if iv == nil {
							return true
						}
						listTxt := exprStr(call.Args[0])
						isElem = func(e ast.Expr) bool {
							if ix, ok := ast.Unparen(e).(*ast.IndexExpr); ok && exprStr(ix.X) == listTxt {
								if id, ok := ast.Unparen(ix.Index).(*ast.Ident); ok && info.Uses[id] == iv {
									return true
								}
							}
							return false
						}
						innerBody, innerNode = inner.Body, inner
					case *ast.CallExpr:
						// slices.DeleteFunc(LIST, func(c Core) bool { return <cond> }): the predicate is the filter
						fn := CalleeOf(info, inner)
						if fn == nil || fn.Pkg() == nil || fn.Pkg().Path() != "slices" || fn.Name() != "DeleteFunc" || len(inner.Args) != 2 {
							return true
						}
						lit, ok := ast.Unparen(inner.Args[1]).(*ast.FuncLit)
						if !ok || len(lit.Type.Params.List) != 1 || len(lit.Type.Params.List[0].Names) != 1 || len(lit.Body.List) != 1 {
							return true
						}
						pv, _ := info.Defs[lit.Type.Params.List[0].Names[0]].(*types.Var)
						ret, isRet := lit.Body.List[0].(*ast.ReturnStmt)
						if pv == nil || !types.Identical(pv.Type(), coreT) || !isRet || len(ret.Results) != 1 {
							return true
						}
						isElem = func(e ast.Expr) bool {
							id, ok := ast.Unparen(e).(*ast.Ident)
							return ok && info.Uses[id] == pv
						}
						// same shape as `if <cond> { drop }`
						innerBody = &ast.BlockStmt{List: []ast.Stmt{&ast.IfStmt{Cond: ret.Results[0], Body: &ast.BlockStmt{}}}}
						innerNode = inner
					default:
						return true
					}
					// an element local: c := LIST[i]
					elemLocals := map[types.Object]bool{}
					for _, s := range innerBody.List {
						if as, ok := s.(*ast.AssignStmt); ok && len(as.Lhs) == 1 && len(as.Rhs) == 1 && isElem(as.Rhs[0]) {
							if id, ok := as.Lhs[0].(*ast.Ident); ok {
								if o := info.Defs[id]; o != nil {
									elemLocals[o] = true
								}
							}
						}
					}
					baseElem := isElem
					isElem = func(e ast.Expr) bool {
						if id, ok := ast.Unparen(e).(*ast.Ident); ok && elemLocals[info.Uses[id]] {
							return true
						}
						return baseElem(e)
					}
					inner := struct {
						Body *ast.BlockStmt
						pos  token.Pos
					}{innerBody, innerNode.Pos()}
					// filter condition: the if statement guarding continue / append
					var conds []ast.Expr
					for _, s := range inner.Body.List {
						if ifs, ok := s.(*ast.IfStmt); ok {
							conds = append(conds, ifs.Cond)
						}
					}
					if len(conds) == 0 {
						return true
					}
					found++
					o := Obligation{Key: "runtime." + FuncName(fd) + "|finished core removed by identity", Pos: c.Pos(inner.pos), Nontrivial: true}
					okID := false
					var why []string
					for _, cond := range conds {
						b, isB := ast.Unparen(cond).(*ast.BinaryExpr)
						if !isB || (b.Op != token.EQL && b.Op != token.NEQ) {
							why = append(why, "filter condition `"+exprStr(cond)+"` is not an (in)equality of core numbers")
							continue
						}
						numOf := func(e ast.Expr) ast.Expr {
							s, ok := ast.Unparen(e).(*ast.SelectorExpr)
							if !ok || info.Uses[s.Sel] != numField {
								return nil
							}
							return s.X
						}
						isSignalled := func(e ast.Expr) bool {
							id, ok := ast.Unparen(e).(*ast.Ident)
							return ok && sigCore[info.Uses[id]]
						}
						// the signalling core's number: <signalled>.num, or a helper parameter bound to it
						isSigNum := func(e ast.Expr) bool {
							if x := numOf(e); x != nil && isSignalled(x) {
								return true
							}
							id, ok := ast.Unparen(e).(*ast.Ident)
							return ok && sigNum[info.Uses[id]]
						}
						isElemNum := func(e ast.Expr) bool {
							x := numOf(e)
							return x != nil && isElem(x)
						}
						if (isElemNum(b.X) && isSigNum(b.Y)) || (isSigNum(b.X) && isElemNum(b.Y)) {
							okID = true
						} else {
							why = append(why, "filter condition `"+exprStr(cond)+"` does not compare the number of the iterated core with the number of the core that signalled (positions are not stable: the list is replaced while the outer loop runs over the old one)")
						}
					}
					if okID && len(why) == 0 {
						o.Status, o.Detail = Discharged, "entries are dropped iff their number equals the signalling core's number"
					} else {
						o.Status, o.Detail = Violated, strings.Join(why, "; ")
					}
					obs = append(obs, o)
					return true
				})
			}
			scanBody(outer.Body)
			if found == 0 {
				// one level of helpers
				ast.Inspect(outer.Body, func(m ast.Node) bool {
					call, ok := m.(*ast.CallExpr)
					if !ok {
						return true
					}
					fn := CalleeOf(info, call)
					if fn == nil || fn.Pkg() != p.Types {
						return true
					}
					for _, hd := range AllFuncDecls(p) {
						if hd.Body == nil || info.Defs[hd.Name] != fn {
							continue
						}
						sig := fn.Type().(*types.Signature)
						bound := false
						for i, a := range call.Args {
							if i >= sig.Params().Len() {
								break
							}
							if id, ok := ast.Unparen(a).(*ast.Ident); ok && info.Uses[id] == xv {
								sigCore[sig.Params().At(i)] = true
								bound = true
							}
							if sel, ok := ast.Unparen(a).(*ast.SelectorExpr); ok && info.Uses[sel.Sel] == numField {
								if id, ok := ast.Unparen(sel.X).(*ast.Ident); ok && info.Uses[id] == xv {
									sigNum[sig.Params().At(i)] = true
									bound = true
								}
							}
						}
						if bound {
							scanBody(hd.Body)
						}
					}
					return true
				})
			}
			if found == 0 {
				obs = append(obs, Obligation{Key: "runtime." + FuncName(fd) + "|finished core removed by identity", Pos: c.Pos(outer.Pos()), Status: Undecided,
					Detail: "the loop receives from a core's signal channel but no filtering loop over the live list was recognised"})
			}
			return false
		})
	}
	return obs
}

func selIdent(s *ast.SelectorExpr) *ast.Ident {
	if s == nil {
		return nil
	}
	return s.Sel
}

func identOf(e ast.Expr) *ast.Ident {
	id, _ := ast.Unparen(e).(*ast.Ident)
	return id
}
