package main

// R-map-order, part 4 (round 4): interprocedural summaries of UPWARD-EXPOSED
// READS — which fields (relative to a parameter) or package-level variables a
// function may load before it has definitely overwritten them itself. Only
// the fields / variables the carried-place analysis asks about are tracked.

import (
	"fmt"
	"go/token"
	"go/types"
	"sort"
	"strings"

	"golang.org/x/tools/go/ssa"
)

type r4bRead struct {
	Root string // "param:<i>" | "global:<pkg.Name>"
	Path string // ".f.g"
	Pos  token.Pos
	Via  string // the function containing the load
}

type r4bReads struct {
	sums map[*ssa.Function]map[string]r4bRead
}

type r4bSite struct {
	g  *ssa.Function
	ci ssa.CallInstruction
}

type r4bStoreRec struct {
	in  ssa.Instruction
	key string
}

type r4bReadBuilder struct {
	c           *Ctx
	a           *dmAnalysis
	calleeSt    *r4bStores // definite overwrites by callees (may be nil)
	interesting map[*types.Var]bool
	out         *r4bReads
	stores      map[*ssa.Function][]r4bStoreRec
	index       map[ssa.Instruction]int
}

// r4bSpilledParam: alloc is the cell a by-value parameter was spilled to (its
// only whole-cell store is that parameter).
func r4bSpilledParam(al *ssa.Alloc) *ssa.Parameter {
	var p *ssa.Parameter
	refs := al.Referrers()
	if refs == nil {
		return nil
	}
	for _, r := range *refs {
		st, ok := r.(*ssa.Store)
		if !ok || st.Addr != ssa.Value(al) {
			continue
		}
		q, ok := st.Val.(*ssa.Parameter)
		if !ok || (p != nil && p != q) {
			return nil
		}
		p = q
	}
	return p
}

// addrOrigins: (root, path) pairs an address may designate, relative to the
// parameters of fn / package-level variables.
func (b *r4bReadBuilder) addrOrigins(fn *ssa.Function, addr ssa.Value) [][2]string {
	// strip the field chain down to the base
	var fields []string
	cur := addr
	for i := 0; i < 16; i++ {
		fa, ok := cur.(*ssa.FieldAddr)
		if !ok {
			break
		}
		f := dmFieldOf(fa.X.Type(), fa.Field)
		fields = append([]string{"." + dmFieldName(f, fa.Field)}, fields...)
		cur = fa.X
	}
	suffix := strings.Join(fields, "")
	var out [][2]string
	switch x := cur.(type) {
	case *ssa.Alloc:
		if p := r4bSpilledParam(x); p != nil {
			out = append(out, [2]string{fmt.Sprintf("param:%d", dmParamIndex(fn, p)), suffix})
		}
		return out
	case *ssa.Global:
		name := x.Name()
		if x.Pkg != nil {
			name = relPkg(x.Pkg.Pkg.Path()) + "." + name
		}
		return append(out, [2]string{"global:" + name, suffix})
	}
	for _, o := range b.a.origin(fn, cur).sorted() {
		if strings.HasPrefix(o.Root, "param:") || strings.HasPrefix(o.Root, "global:") {
			out = append(out, [2]string{o.Root, o.Path + suffix})
		}
	}
	return out
}

func (b *r4bReadBuilder) idx(in ssa.Instruction) int {
	if i, ok := b.index[in]; ok {
		return i
	}
	for i, x := range in.Block().Instrs {
		b.index[x] = i
	}
	return b.index[in]
}

func (b *r4bReadBuilder) storesOf(fn *ssa.Function) []r4bStoreRec {
	if s, ok := b.stores[fn]; ok {
		return s
	}
	var recs []r4bStoreRec
	for _, blk := range fn.Blocks {
		for _, in := range blk.Instrs {
			if ci, ok := in.(ssa.CallInstruction); ok && b.calleeSt != nil {
				// a call of a function that definitely overwrites the place acts like a store
				if _, isGo := in.(*ssa.Go); isGo {
					continue
				}
				if _, isDefer := in.(*ssa.Defer); isDefer {
					continue
				}
				cs := b.a.callees(ci)
				if len(cs) != 1 {
					continue
				}
				var mk []string
				for k := range b.calleeSt.must[cs[0]] {
					mk = append(mk, k)
				}
				sort.Strings(mk)
				for _, k := range mk {
					i := strings.Index(k, "|")
					root, path := k[:i], k[i+1:]
					if strings.HasPrefix(root, "global:") {
						recs = append(recs, r4bStoreRec{in: in, key: k})
						continue
					}
					set := b.a.translateOrigin(fn, ci.Common(), cs[0], dmOrigin{Root: root, Path: path}, 0).sorted()
					if len(set) == 1 && (strings.HasPrefix(set[0].Root, "param:") || strings.HasPrefix(set[0].Root, "global:")) {
						recs = append(recs, r4bStoreRec{in: in, key: set[0].Root + "|" + set[0].Path})
					}
				}
				continue
			}
			st, ok := in.(*ssa.Store)
			if !ok || !b.interestingAddr(st.Addr) {
				continue
			}
			os := b.addrOrigins(fn, st.Addr)
			if len(os) == 1 {
				recs = append(recs, r4bStoreRec{in: st, key: os[0][0] + "|" + os[0][1]})
			}
		}
	}
	b.stores[fn] = recs
	return recs
}

func (b *r4bReadBuilder) interestingAddr(addr ssa.Value) bool {
	switch x := addr.(type) {
	case *ssa.FieldAddr:
		return b.interesting[dmFieldOf(x.X.Type(), x.Field)]
	case *ssa.Global:
		if v, ok := x.Object().(*types.Var); ok {
			return b.interesting[v]
		}
	}
	return false
}

// killed: a store of fn to the same place dominates instruction at.
func (b *r4bReadBuilder) killed(fn *ssa.Function, key string, at ssa.Instruction) bool {
	for _, s := range b.storesOf(fn) {
		if s.key != key {
			continue
		}
		sb, ab := s.in.Block(), at.Block()
		if sb == ab {
			if b.idx(s.in) < b.idx(at) {
				return true
			}
			continue
		}
		if sb.Dominates(ab) {
			return true
		}
	}
	return false
}

func (b *r4bReadBuilder) add(fn *ssa.Function, rd r4bRead, at ssa.Instruction) bool {
	key := rd.Root + "|" + rd.Path
	m := b.out.sums[fn]
	if m != nil {
		if _, ok := m[key]; ok {
			return false
		}
	}
	if b.killed(fn, key, at) {
		return false
	}
	if m == nil {
		m = map[string]r4bRead{}
		b.out.sums[fn] = m
	}
	if len(m) > 64 {
		return false
	}
	m[key] = rd
	return true
}

func r4bComputeReads(c *Ctx, a *dmAnalysis, interesting map[*types.Var]bool, stores *r4bStores) *r4bReads {
	out := &r4bReads{sums: map[*ssa.Function]map[string]r4bRead{}}
	if len(interesting) == 0 {
		return out
	}
	b := &r4bReadBuilder{c: c, a: a, calleeSt: stores, interesting: interesting, out: out, stores: map[*ssa.Function][]r4bStoreRec{}, index: map[ssa.Instruction]int{}}
	sites := map[*ssa.Function][]r4bSite{}
	var queue []*ssa.Function
	queued := map[*ssa.Function]bool{}
	for _, fn := range a.funcs {
		direct := false
		for _, blk := range fn.Blocks {
			for _, in := range blk.Instrs {
				switch x := in.(type) {
				case *ssa.UnOp:
					if x.Op != token.MUL || !b.interestingAddr(x.X) {
						continue
					}
					for _, o := range b.addrOrigins(fn, x.X) {
						if b.add(fn, r4bRead{Root: o[0], Path: o[1], Pos: x.Pos(), Via: moCalleeName(fn)}, x) {
							direct = true
						}
					}
				case *ssa.Field:
					if !b.interesting[dmFieldOf(x.X.Type(), x.Field)] {
						continue
					}
					for _, o := range a.origin(fn, x).sorted() {
						if strings.HasPrefix(o.Root, "param:") || strings.HasPrefix(o.Root, "global:") {
							if b.add(fn, r4bRead{Root: o.Root, Path: o.Path, Pos: x.Pos(), Via: moCalleeName(fn)}, x) {
								direct = true
							}
						}
					}
				case ssa.CallInstruction:
					for _, callee := range a.callees(x) {
						sites[callee] = append(sites[callee], r4bSite{fn, x})
					}
				}
			}
		}
		if direct {
			queue = append(queue, fn)
			queued[fn] = true
		}
	}
	for steps := 0; len(queue) > 0 && steps < 100000; steps++ {
		fn := queue[0]
		queue = queue[1:]
		queued[fn] = false
		sum := out.sums[fn]
		var keys []string
		for k := range sum {
			keys = append(keys, k)
		}
		sort.Strings(keys)
		for _, site := range sites[fn] {
			g := site.g
			changed := false
			for _, k := range keys {
				rd := sum[k]
				if strings.HasPrefix(rd.Root, "global:") {
					if b.add(g, rd, site.ci) {
						changed = true
					}
					continue
				}
				set := a.translateOrigin(g, site.ci.Common(), fn, dmOrigin{Root: rd.Root, Path: rd.Path}, 0)
				for _, o := range set.sorted() {
					if strings.HasPrefix(o.Root, "param:") || strings.HasPrefix(o.Root, "global:") {
						if b.add(g, r4bRead{Root: o.Root, Path: o.Path, Pos: rd.Pos, Via: rd.Via}, site.ci) {
							changed = true
						}
					}
				}
			}
			if changed && !queued[g] && a.sums[g] != nil {
				queued[g] = true
				queue = append(queue, g)
			}
		}
	}
	return out
}
