package main

// R-host-call (C16): the host-facing invocation entry points of the VM.

import (
	"bytes"
	"fmt"
	"go/ast"
	"go/constant"
	"go/printer"
	"go/token"
	"go/types"
	"sort"
	"strings"

	"golang.org/x/tools/go/ssa"
)

func init() {
	register(&Rule{ID: "R-host-call", Floor: 12, Run: ruleHostCall,
		Doc: "C16: (1) the exported VM methods that take a FunctionInvocation and start a core (SpawnSync, SpawnAsync) are siblings: everything they do before starting the core — return-type presence, arity check, per-argument DeepCast, argument reversal — must be statement-for-statement identical, otherwise one entry point accepts or orders arguments differently from the other; (2) no VM entry point may write through its FunctionInvocation parameter (in particular the argument reversal must fill a fresh slice): the host keeps and reuses the invocation, an in-place reversal flips the caller's argument order on every second call; (3) HandleTermination must read a return value from the operand stack for exactly those return-type kinds for which compiled code leaves a value, cross-checked against the compiler's own `leave/drop` condition for expression statements: skipping a kind loses the function's result, reading one that is absent indexes an empty stack; (4) (rules_r4rta_waitres.go) every consumer of the interrupt that VM.Wait returns — a caller of Wait (or of a wrapper returning its interrupt), or a function that is handed the interrupt as a parameter (HandleTermination) — is evaluated on SSA under the assumption `interrupt != nil`: every return that stays reachable must return a value built from the interrupt (or the path panics). Any additional conjunct or earlier return that lets a non-nil interrupt fall through to the success-shaped result makes the host see `Exception == nil` for a run that Wait reported as terminated (Wait returns the first interrupt of ANY core)."})
}

func hcStmtString(fset *token.FileSet, s ast.Stmt) string {
	var b bytes.Buffer
	printer.Fprint(&b, fset, s)
	// normalise whitespace so that alignment differences do not matter
	return strings.Join(strings.Fields(b.String()), " ")
}

// hcAlpha numbers the objects declared inside fd (receiver, parameters,
// locals) in order of first mention, so that the statements of two sibling
// functions can be compared up to a consistent renaming of their locals.
type hcAlpha struct {
	info *types.Info
	fd   *ast.FuncDecl
	num  map[types.Object]int
	pars map[types.Object]int // receiver / parameters, by position
}

func (h *hcAlpha) local(id *ast.Ident) types.Object {
	o := h.info.Defs[id]
	if o == nil {
		o = h.info.Uses[id]
	}
	if o == nil || o.Pos() < h.fd.Pos() || o.Pos() > h.fd.End() {
		return nil
	}
	if v, ok := o.(*types.Var); ok && v.IsField() {
		return nil
	}
	return o
}

// String prints s with every local identifier replaced by its number.
func (h *hcAlpha) String(fset *token.FileSet, s ast.Stmt) string {
	type saved struct {
		id   *ast.Ident
		name string
	}
	var undo []saved
	ast.Inspect(s, func(n ast.Node) bool {
		id, ok := n.(*ast.Ident)
		if !ok || id.Name == "_" {
			return true
		}
		o := h.local(id)
		if o == nil {
			return true
		}
		undo = append(undo, saved{id, id.Name})
		if pk, isPar := h.pars[o]; isPar {
			id.Name = fmt.Sprintf("p%d", pk)
			return true
		}
		k, seen := h.num[o]
		if !seen {
			k = len(h.num) + 1
			h.num[o] = k
		}
		id.Name = fmt.Sprintf("v%d", k)
		return true
	})
	out := hcStmtString(fset, s)
	for _, u := range undo {
		u.id.Name = u.name
	}
	return out
}

func ruleHostCall(c *Ctx) []Obligation {
	rt := c.Pkg("homescript/runtime")
	info := rt.TypesInfo
	a := determMod(c)
	invT, _ := rt.Types.Scope().Lookup("FunctionInvocation").(*types.TypeName)
	if invT == nil {
		fatalf("anchor unresolved: runtime.FunctionInvocation")
	}
	// VM methods that start a goroutine (directly)
	spawners := map[types.Object]bool{}
	for _, fd := range AllFuncDecls(rt) {
		if recvTypeName2(fd) != "VM" {
			continue
		}
		ast.Inspect(fd.Body, func(n ast.Node) bool {
			if _, ok := n.(*ast.GoStmt); ok {
				spawners[info.Defs[fd.Name]] = true
			}
			return true
		})
	}
	if len(spawners) == 0 {
		fatalf("anchor unresolved: no VM method starts a goroutine")
	}
	type entry struct {
		fd     *ast.FuncDecl
		invIdx int // parameter index (receiver = 0)
		prefix []ast.Stmt
		spawns bool
	}
	var entries []*entry
	for _, fd := range AllFuncDecls(rt) {
		if recvTypeName2(fd) != "VM" || !fd.Name.IsExported() {
			continue
		}
		idx, pi := -1, 1
		for _, f := range fd.Type.Params.List {
			nn := len(f.Names)
			if nn == 0 {
				nn = 1
			}
			if t := info.TypeOf(f.Type); t != nil && types.Identical(t, invT.Type()) && idx < 0 {
				idx = pi
			}
			pi += nn
		}
		if idx < 0 {
			continue
		}
		e := &entry{fd: fd, invIdx: idx}
		for _, s := range fd.Body.List {
			calls := false
			ast.Inspect(s, func(n ast.Node) bool {
				if call, ok := n.(*ast.CallExpr); ok {
					if fn := CalleeOf(info, call); fn != nil && spawners[fn] {
						calls = true
					}
				}
				return true
			})
			if calls {
				e.spawns = true
				break
			}
			e.prefix = append(e.prefix, s)
		}
		entries = append(entries, e)
	}
	sort.Slice(entries, func(i, j int) bool { return entries[i].fd.Name.Name < entries[j].fd.Name.Name })
	var obs []Obligation
	var sib []*entry
	for _, e := range entries {
		if e.spawns {
			sib = append(sib, e)
		}
	}
	if len(sib) < 2 {
		obs = append(obs, Obligation{Key: "runtime.VM|invocation entry points", Status: Undecided, Detail: fmt.Sprintf("expected at least two exported VM methods taking a FunctionInvocation and starting a core, found %d", len(sib))})
	}
	// (1) sibling prefixes
	for i := 1; i < len(sib); i++ {
		x, y := sib[0], sib[i]
		ob := Obligation{Key: fmt.Sprintf("runtime.VM.%s~%s|identical validation and argument preparation", x.fd.Name.Name, y.fd.Name.Name), Pos: c.Pos(y.fd.Pos()), Nontrivial: true}
		diff := ""
		n := len(x.prefix)
		if len(y.prefix) < n {
			n = len(y.prefix)
		}
		ax := &hcAlpha{info: info, fd: x.fd, num: map[types.Object]int{}}
		ay := &hcAlpha{info: info, fd: y.fd, num: map[types.Object]int{}}
		// the receiver and the parameters correspond by position, not by first mention
		hcSeedParams(ax)
		hcSeedParams(ay)
		for k := 0; k < n && diff == ""; k++ {
			sx, sy := ax.String(c.Fset, x.prefix[k]), ay.String(c.Fset, y.prefix[k])
			if sx != sy {
				sx, sy = hcStmtString(c.Fset, x.prefix[k]), hcStmtString(c.Fset, y.prefix[k])
				diff = fmt.Sprintf("statement %d differs: %s has `%s` (%s), %s has `%s` (%s)", k+1, x.fd.Name.Name, hcTrunc(sx), c.Pos(x.prefix[k].Pos()), y.fd.Name.Name, hcTrunc(sy), c.Pos(y.prefix[k].Pos()))
			}
		}
		if diff == "" && len(x.prefix) != len(y.prefix) {
			diff = fmt.Sprintf("%s performs %d statements before starting the core, %s %d", x.fd.Name.Name, len(x.prefix), y.fd.Name.Name, len(y.prefix))
		}
		if diff == "" {
			ob.Status, ob.Detail = Discharged, fmt.Sprintf("the %d statements before the core is started are identical in both", len(x.prefix))
		} else {
			ob.Status, ob.Detail = Violated, "the sibling entry points prepare an invocation differently: "+diff
		}
		obs = append(obs, ob)
	}
	// (2) no write through the invocation parameter
	for _, e := range entries {
		fnObj, _ := info.Defs[e.fd.Name].(*types.Func)
		sf := a.prog.FuncValue(fnObj)
		ob := Obligation{Key: fmt.Sprintf("runtime.VM.%s|does not write through its FunctionInvocation", e.fd.Name.Name), Pos: c.Pos(e.fd.Pos()), Nontrivial: true}
		if sf == nil || a.sums[sf] == nil {
			ob.Status, ob.Detail = Undecided, "no SSA summary for the method"
			obs = append(obs, ob)
			continue
		}
		var bad []string
		root := fmt.Sprintf("param:%d", e.invIdx)
		for _, ef := range a.sums[sf].sortedEffects() {
			if ef.Root == root {
				bad = append(bad, fmt.Sprintf("%s%s (%s) @%s", "invocation", ef.Path, ef.Op, c.Pos(ef.Pos)))
			}
		}
		if len(bad) == 0 {
			ob.Status, ob.Detail = Discharged, "no store (direct or through callees) reaches memory reachable from the invocation parameter; the reversed argument list is a fresh allocation"
		} else {
			ob.Status = Violated
			ob.Detail = "writes into memory owned by the caller: " + strings.Join(bad, ", ") + ". A slice copied out of the parameter (`x := invocation.Args`) shares its backing array, so an in-place swap reverses the host's own argument slice: the first call is right, a second call with the same FunctionInvocation value passes the arguments in the opposite order (type assertion panics or wrong parameters). Fix: fill a slice obtained from make."
		}
		obs = append(obs, ob)
	}
	// (3) HandleTermination kinds
	obs = append(obs, hcTerminationKinds(c)...)
	// (4) the interrupt returned by VM.Wait reaches the host (rules_r4rta_waitres.go)
	obs = append(obs, r4aWaitConsumers(c)...)
	// (5) an interrupt received from a core's signal channel is handed on (rules_r6rt.go)
	obs = append(obs, r6rtReceivedInterrupts(c)...)
	return obs
}

// hcSeedParams: the receiver and the parameters are numbered by position (p1,
// p2, …) in a namespace of their own, so that an extra trailing parameter of
// one sibling (SpawnAsync's onFinish) does not shift the numbering of locals.
func hcSeedParams(h *hcAlpha) {
	add := func(id *ast.Ident) {
		if id == nil || id.Name == "_" {
			return
		}
		if o := h.info.Defs[id]; o != nil {
			if h.pars == nil {
				h.pars = map[types.Object]int{}
			}
			if _, seen := h.pars[o]; !seen {
				h.pars[o] = len(h.pars) + 1
			}
		}
	}
	if h.fd.Recv != nil {
		for _, f := range h.fd.Recv.List {
			for _, id := range f.Names {
				add(id)
			}
		}
	}
	for _, f := range h.fd.Type.Params.List {
		for _, id := range f.Names {
			add(id)
		}
	}
}

func hcTrunc(s string) string {
	if len(s) > 140 {
		return s[:140] + "…"
	}
	return s
}

func hcTerminationKinds(c *Ctx) []Obligation {
	rt := c.Pkg("homescript/runtime")
	a := determMod(c)
	ht := c.MustFunc("homescript/runtime", "VM", "HandleTermination")
	htObj, _ := rt.TypesInfo.Defs[ht.Name].(*types.Func)
	htFn := a.prog.FuncValue(htObj)
	kindNames := hcTypeKinds(c)
	kindVals := hcTypeKindValues(c, kindNames)
	swKey := "runtime.VM.HandleTermination|switch over the return type kind"
	if htFn == nil || len(htFn.Blocks) == 0 {
		return []Obligation{{Key: swKey, Status: Undecided, Pos: c.Pos(ht.Pos()), Detail: "no SSA body for HandleTermination"}}
	}
	// anchors by type: the operand stack of a core, the declared return type of an invocation
	coreT, _ := rt.Types.Scope().Lookup("Core").(*types.TypeName)
	invT, _ := rt.Types.Scope().Lookup("FunctionInvocation").(*types.TypeName)
	if coreT == nil || invT == nil {
		fatalf("anchor unresolved: runtime.Core / runtime.FunctionInvocation")
	}
	var stackField *types.Var
	if st, ok := coreT.Type().Underlying().(*types.Struct); ok {
		for i := 0; i < st.NumFields(); i++ {
			if st.Field(i).Name() == "Stack" {
				stackField = st.Field(i)
			}
		}
	}
	if stackField == nil {
		fatalf("anchor unresolved: runtime.Core.Stack")
	}
	retTypeFields := hcTypeFields(invT.Type(), 0)
	if len(retTypeFields) == 0 {
		fatalf("anchor unresolved: no field of interface type ast.Type below runtime.FunctionInvocation")
	}
	isFieldLoad := func(v ssa.Value, want func(*types.Var) bool) bool {
		switch x := v.(type) {
		case *ssa.Field:
			return want(dmFieldOf(x.X.Type(), x.Field))
		case *ssa.UnOp:
			if fa, ok := x.X.(*ssa.FieldAddr); ok && x.Op == token.MUL {
				return want(dmFieldOf(fa.X.Type(), fa.Field))
			}
		}
		return false
	}
	isRetType := func(v ssa.Value) bool {
		return isFieldLoad(v, func(f *types.Var) bool { return f != nil && retTypeFields[f] })
	}
	isStackRead := func(in ssa.Instruction) bool {
		var base ssa.Value
		switch x := in.(type) {
		case *ssa.UnOp:
			ia, ok := x.X.(*ssa.IndexAddr)
			if x.Op != token.MUL || !ok {
				return false
			}
			base = ia.X
		case *ssa.Index:
			base = x.X
		default:
			return false
		}
		return isFieldLoad(hcStrip(base), func(f *types.Var) bool { return f == stackField })
	}
	isCast := func(in ssa.Instruction) bool {
		call, ok := in.(*ssa.Call)
		if !ok {
			return false
		}
		f := call.Common().StaticCallee()
		return f != nil && f.Name() == "DeepCast" && f.Pkg != nil && strings.HasSuffix(f.Pkg.Pkg.Path(), "runtime/value")
	}
	inRuntime := func(f *ssa.Function) bool { return f.Pkg != nil && f.Pkg.Pkg == rt.Types }
	type kres struct{ read, cast hcKindResult }
	results := map[string]kres{}
	usesKind := false
	for _, name := range kindNames {
		rd := (&hcKindEval{a: a, K: kindVals[name], isTypeSrc: isRetType, hit: isStackRead, descend: inRuntime}).run(htFn, hcBinding{}, 0)
		cs := (&hcKindEval{a: a, K: kindVals[name], isTypeSrc: isRetType, hit: isCast, descend: inRuntime}).run(htFn, hcBinding{}, 0)
		results[name] = kres{rd, cs}
		if rd.usesKind {
			usesKind = true
		}
	}
	if !usesKind {
		return []Obligation{{Key: swKey, Status: Undecided, Pos: c.Pos(ht.Pos()), Detail: "no branch of HandleTermination (or of the helpers of the package it calls) is decided by comparing the kind of the invocation's declared return type with a type-kind constant"}}
	}
	// compiler side: kinds for which an expression statement leaves no value
	// (the emission of the drop instruction is unreachable for them)
	leavesValue, condPos, found := hcCompilerLeaves(c, a, kindNames, kindVals)
	if !found {
		return []Obligation{{Key: "compiler|drop condition of expression statements", Status: Undecided, Detail: "cannot find an emission of Opcode_Drop in the compiler that is controlled by a comparison of a type kind: the oracle for `which kinds leave a value` moved"}}
	}
	noValue := map[string]bool{}
	for _, name := range kindNames {
		if !leavesValue[name] {
			noValue[name] = true
		}
	}
	// kinds that never yield a value at run time by construction: a function of
	// type never does not return; unknown only exists after a reported error.
	exempt := map[string]string{"NeverTypeKind": "a function returning `never` does not return normally", "UnknownTypeKind": "the unknown type only exists in programs the analyzer rejected"}
	var obs []Obligation
	for _, name := range kindNames {
		r := results[name]
		readsVal := r.read.hit
		ob := Obligation{Key: "runtime.VM.HandleTermination|return kind " + name, Pos: c.Pos(ht.Pos()), Nontrivial: true}
		switch {
		case readsVal && r.read.hitPos.IsValid():
			ob.Pos = c.Pos(r.read.hitPos)
		case !readsVal && r.read.prunePos.IsValid():
			ob.Pos = c.Pos(r.read.prunePos)
		}
		leaves := !noValue[name]
		how := "reads and casts it"
		if !r.cast.hit {
			how = "reads it (no DeepCast on that path: see R-cast-boundary)"
		}
		switch {
		case exempt[name] != "":
			ob.Status, ob.Detail = Discharged, exempt[name]+" (no value is read)"
			if readsVal {
				ob.Detail = exempt[name] + " (a value would be read; harmless)"
			}
		case leaves && readsVal:
			ob.Status, ob.Detail = Discharged, fmt.Sprintf("compiled code leaves a value for this kind (compiler drop condition at %s) and HandleTermination %s", c.Pos(condPos), how)
		case !leaves && !readsVal:
			ob.Status, ob.Detail = Discharged, fmt.Sprintf("compiled code leaves no value for this kind (compiler drop condition at %s) and none is read", c.Pos(condPos))
		case leaves && !readsVal:
			ob.Status = Violated
			ob.Detail = fmt.Sprintf("the compiler leaves a value on the operand stack for every kind except %s (condition at %s), but HandleTermination reads none for %s: a host invoking `fn f() -> %s` receives ReturnValue == nil instead of the function's result (and the value stays on the dead core's stack). Fix: remove %s from the no-value case.", hcKeys(noValue), c.Pos(condPos), name, hcKindExample(name), name)
		default:
			ob.Status = Violated
			ob.Detail = fmt.Sprintf("HandleTermination reads the stack top for %s although compiled code leaves no value for it: exitCore.Stack[len-1] indexes an empty stack (panic)", name)
		}
		obs = append(obs, ob)
	}
	return obs
}

// hcTypeFields: the struct fields of interface type ast.Type reachable from t
// through struct-typed fields (FunctionInvocation.FunctionSignature.ReturnType).
func hcTypeFields(t types.Type, depth int) map[*types.Var]bool {
	out := map[*types.Var]bool{}
	st, ok := t.Underlying().(*types.Struct)
	if !ok || depth > 2 {
		return out
	}
	for i := 0; i < st.NumFields(); i++ {
		f := st.Field(i)
		if n, ok := f.Type().(*types.Named); ok {
			if _, isI := n.Underlying().(*types.Interface); isI && n.Obj().Name() == "Type" && n.Obj().Pkg() != nil && strings.HasSuffix(n.Obj().Pkg().Path(), "analyzer/ast") {
				out[f] = true
				continue
			}
		}
		for k := range hcTypeFields(f.Type(), depth+1) {
			out[k] = true
		}
	}
	return out
}

func hcTypeKindValues(c *Ctx, names []string) map[string]constant.Value {
	p := c.Pkg("homescript/analyzer/ast")
	out := map[string]constant.Value{}
	for _, n := range names {
		k, _ := p.Types.Scope().Lookup(n).(*types.Const)
		if k == nil || k.Val().Kind() != constant.Int {
			fatalf("anchor unresolved: type kind constant ast.%s", n)
		}
		out[n] = k.Val()
	}
	return out
}

// hcCompilerLeaves: for every type kind, whether the compiler's emission of the
// drop instruction that is guarded by a type-kind comparison stays reachable.
func hcCompilerLeaves(c *Ctx, a *dmAnalysis, kindNames []string, kindVals map[string]constant.Value) (map[string]bool, token.Pos, bool) {
	cp := c.Pkg("homescript/compiler")
	var drop *types.Const
	for _, n := range cp.Types.Scope().Names() {
		if k, ok := cp.Types.Scope().Lookup(n).(*types.Const); ok && strings.HasSuffix(k.Name(), "_Drop") {
			drop = k
		}
	}
	if drop == nil {
		return nil, token.NoPos, false
	}
	type site struct {
		fn   *ssa.Function
		call ssa.Instruction
		ops  map[ssa.Value]bool
		// guarded emit helper (`insertIf(kind != K, drop, span)`): the emission is
		// the use of the helper's instruction parameter inside the helper
		helper    *ssa.Function
		helperArg *ssa.Parameter
	}
	var sites []site
	for _, fn := range a.funcs {
		if fn.Pkg == nil || fn.Pkg.Pkg != cp.Types {
			continue
		}
		for _, b := range fn.Blocks {
			for _, in := range b.Instrs {
				call, ok := in.(*ssa.Call)
				if !ok {
					continue
				}
				isDrop := false
				for _, arg := range call.Common().Args {
					if k, ok := hcStrip(arg).(*ssa.Const); ok && k.Value != nil && types.Identical(k.Type(), drop.Type()) && constant.Compare(k.Value, token.EQL, drop.Val()) {
						isDrop = true
					}
				}
				if !isDrop {
					continue
				}
				if ops := hcKindCondOperands(b); len(ops) > 0 {
					sites = append(sites, site{fn: fn, call: in, ops: ops})
				} else if hs, ok := hcGuardedEmitHelper(call); ok {
					// the drop instruction is built unconditionally and handed, together with a
					// boolean decided by the kind, to a helper that emits it only when the boolean holds
					sites = append(sites, site{fn: fn, call: hs.use, ops: hs.ops, helper: hs.helper, helperArg: hs.param})
				} else if len(fn.Blocks) == 1 && fn.Object() != nil && !fn.Object().Exported() {
					// a straight-line emit helper (`func (c *Compiler) drop(span) { c.insert(… Opcode_Drop …) }`):
					// its call sites are the emission sites
					for _, caller := range a.sortedCallers(fn) {
						for _, cb := range caller.Blocks {
							for _, cin := range cb.Instrs {
								if cc, ok := cin.(*ssa.Call); ok && cc.Common().StaticCallee() == fn {
									if ops := hcKindCondOperands(cb); len(ops) > 0 {
										sites = append(sites, site{fn: caller, call: cin, ops: ops})
									}
								}
							}
						}
					}
				}
			}
		}
	}
	if len(sites) == 0 {
		return nil, token.NoPos, false
	}
	sort.Slice(sites, func(i, j int) bool { return c.Pos(sites[i].call.Pos()) < c.Pos(sites[j].call.Pos()) })
	s := sites[0]
	leaves := map[string]bool{}
	var pos token.Pos
	for _, name := range kindNames {
		ev := &hcKindEval{a: a, K: kindVals[name], isKindSrc: func(v ssa.Value) bool { return s.ops[v] }, hit: func(in ssa.Instruction) bool { return in == s.call }}
		if s.helper != nil {
			ev.descend = func(f *ssa.Function) bool { return f == s.helper }
			ev.hit = func(in ssa.Instruction) bool {
				ci, ok := in.(ssa.CallInstruction)
				if !ok || in.Parent() != s.helper {
					return false
				}
				for _, arg := range ci.Common().Args {
					if hcStrip(arg) == ssa.Value(s.helperArg) {
						return true
					}
				}
				return false
			}
		}
		r := ev.run(s.fn, hcBinding{}, 0)
		leaves[name] = r.hit
		if !r.hit && r.prunePos.IsValid() && !pos.IsValid() {
			pos = r.prunePos
		}
	}
	if !pos.IsValid() {
		pos = s.call.Pos()
	}
	return leaves, pos, true
}

type hcGuardedEmit struct {
	use    ssa.Instruction // the call of the helper
	helper *ssa.Function
	param  *ssa.Parameter // the helper's parameter that receives the instruction
	ops    map[ssa.Value]bool
}

// hcGuardedEmitHelper: the value built by call (the drop instruction) is an
// argument of a call of a module function that also receives a boolean decided
// by a type-kind comparison.
func hcGuardedEmitHelper(call *ssa.Call) (hcGuardedEmit, bool) {
	refs := call.Referrers()
	if refs == nil {
		return hcGuardedEmit{}, false
	}
	for _, r := range *refs {
		var use *ssa.Call
		var val ssa.Value = call
		switch x := r.(type) {
		case *ssa.Call:
			use = x
		case *ssa.MakeInterface:
			// the instruction is passed as an interface value
			if xr := x.Referrers(); xr != nil {
				for _, r2 := range *xr {
					if c2, ok := r2.(*ssa.Call); ok {
						use, val = c2, x
					}
				}
			}
		}
		if use == nil {
			continue
		}
		callee := use.Common().StaticCallee()
		if callee == nil || len(callee.Blocks) < 2 || !dmInModule(callee) {
			continue
		}
		ops := map[ssa.Value]bool{}
		var param *ssa.Parameter
		for i, p := range callee.Params {
			arg := dmArgFor(use.Common(), callee, i)
			if arg == nil {
				continue
			}
			if arg == val {
				param = p
			}
			if bt, ok := p.Type().Underlying().(*types.Basic); ok && bt.Kind() == types.Bool {
				hcKindOperandsOf(arg, 0, ops)
			}
		}
		if param != nil && len(ops) > 0 {
			return hcGuardedEmit{use: use, helper: callee, param: param, ops: ops}, true
		}
	}
	return hcGuardedEmit{}, false
}

func hcKeys(m map[string]bool) string {
	var ks []string
	for k := range m {
		ks = append(ks, k)
	}
	sort.Strings(ks)
	return strings.Join(ks, ", ")
}

func hcKindExample(kind string) string {
	switch kind {
	case "AnyObjectTypeKind":
		return "{ ? }"
	}
	return strings.ToLower(strings.TrimSuffix(kind, "TypeKind"))
}

func hcIsTypeKind(t types.Type) bool {
	n, ok := t.(*types.Named)
	return ok && n.Obj().Name() == "TypeKind" && n.Obj().Pkg() != nil && strings.HasSuffix(n.Obj().Pkg().Path(), "analyzer/ast")
}

// hcTypeKinds: the type-kind constants are untyped (`X = iota`), so the enum
// model does not see them; they are the constants returned by the `Kind()
// TypeKind` methods plus those listed by TypeKind's String method.
func hcTypeKinds(c *Ctx) []string {
	p := c.Pkg("homescript/analyzer/ast")
	set := map[string]token.Pos{}
	for _, fd := range AllFuncDecls(p) {
		if fd.Recv == nil {
			continue
		}
		obj, _ := p.TypesInfo.Defs[fd.Name].(*types.Func)
		if obj == nil {
			continue
		}
		sig := obj.Type().(*types.Signature)
		switch {
		case fd.Name.Name == "Kind" && sig.Results().Len() == 1 && hcIsTypeKind(sig.Results().At(0).Type()):
			ast.Inspect(fd.Body, func(n ast.Node) bool {
				if r, ok := n.(*ast.ReturnStmt); ok && len(r.Results) == 1 {
					if k := ConstOf(p.TypesInfo, r.Results[0]); k != nil {
						set[k.Name()] = k.Pos()
					}
				}
				return true
			})
		case fd.Name.Name == "String" && hcIsTypeKind(sig.Recv().Type()):
			ast.Inspect(fd.Body, func(n ast.Node) bool {
				if cc, ok := n.(*ast.CaseClause); ok {
					for _, e := range cc.List {
						if k := ConstOf(p.TypesInfo, e); k != nil {
							set[k.Name()] = k.Pos()
						}
					}
				}
				return true
			})
		}
	}
	if len(set) < 5 {
		fatalf("anchor unresolved: fewer than 5 type kinds found in analyzer/ast")
	}
	var names []string
	for k := range set {
		names = append(names, k)
	}
	sort.Slice(names, func(i, j int) bool { return dmPosLess(c, set[names[i]], set[names[j]]) })
	return names
}
