package main

// R-host-call (C16): the host-facing invocation entry points of the VM.

import (
	"bytes"
	"fmt"
	"go/ast"
	"go/printer"
	"go/token"
	"go/types"
	"sort"
	"strings"
)

func init() {
	register(&Rule{ID: "R-host-call", Floor: 8, Run: ruleHostCall,
		Doc: "C16: (1) the exported VM methods that take a FunctionInvocation and start a core (SpawnSync, SpawnAsync) are siblings: everything they do before starting the core — return-type presence, arity check, per-argument DeepCast, argument reversal — must be statement-for-statement identical, otherwise one entry point accepts or orders arguments differently from the other; (2) no VM entry point may write through its FunctionInvocation parameter (in particular the argument reversal must fill a fresh slice): the host keeps and reuses the invocation, an in-place reversal flips the caller's argument order on every second call; (3) HandleTermination must read a return value from the operand stack for exactly those return-type kinds for which compiled code leaves a value, cross-checked against the compiler's own `leave/drop` condition for expression statements: skipping a kind loses the function's result, reading one that is absent indexes an empty stack."})
}

func hcStmtString(fset *token.FileSet, s ast.Stmt) string {
	var b bytes.Buffer
	printer.Fprint(&b, fset, s)
	// normalise whitespace so that alignment differences do not matter
	return strings.Join(strings.Fields(b.String()), " ")
}

func ruleHostCall(c *Ctx) []Obligation {
	rt := c.Pkg("homescript/runtime")
	info := rt.TypesInfo
	a := determMod(c)
	invT, _ := rt.Types.Scope().Lookup("FunctionInvocation").(*types.TypeName)
	if invT == nil {
		fatalf("anchor unresolved: runtime.FunctionInvocation")
	}
	// VM methods that start a goroutine (directly)
	spawners := map[types.Object]bool{}
	for _, fd := range AllFuncDecls(rt) {
		if recvTypeName2(fd) != "VM" {
			continue
		}
		ast.Inspect(fd.Body, func(n ast.Node) bool {
			if _, ok := n.(*ast.GoStmt); ok {
				spawners[info.Defs[fd.Name]] = true
			}
			return true
		})
	}
	if len(spawners) == 0 {
		fatalf("anchor unresolved: no VM method starts a goroutine")
	}
	type entry struct {
		fd     *ast.FuncDecl
		invIdx int // parameter index (receiver = 0)
		prefix []ast.Stmt
		spawns bool
	}
	var entries []*entry
	for _, fd := range AllFuncDecls(rt) {
		if recvTypeName2(fd) != "VM" || !fd.Name.IsExported() {
			continue
		}
		idx, pi := -1, 1
		for _, f := range fd.Type.Params.List {
			nn := len(f.Names)
			if nn == 0 {
				nn = 1
			}
			if t := info.TypeOf(f.Type); t != nil && types.Identical(t, invT.Type()) && idx < 0 {
				idx = pi
			}
			pi += nn
		}
		if idx < 0 {
			continue
		}
		e := &entry{fd: fd, invIdx: idx}
		for _, s := range fd.Body.List {
			calls := false
			ast.Inspect(s, func(n ast.Node) bool {
				if call, ok := n.(*ast.CallExpr); ok {
					if fn := CalleeOf(info, call); fn != nil && spawners[fn] {
						calls = true
					}
				}
				return true
			})
			if calls {
				e.spawns = true
				break
			}
			e.prefix = append(e.prefix, s)
		}
		entries = append(entries, e)
	}
	sort.Slice(entries, func(i, j int) bool { return entries[i].fd.Name.Name < entries[j].fd.Name.Name })
	var obs []Obligation
	var sib []*entry
	for _, e := range entries {
		if e.spawns {
			sib = append(sib, e)
		}
	}
	if len(sib) < 2 {
		obs = append(obs, Obligation{Key: "runtime.VM|invocation entry points", Status: Undecided, Detail: fmt.Sprintf("expected at least two exported VM methods taking a FunctionInvocation and starting a core, found %d", len(sib))})
	}
	// (1) sibling prefixes
	for i := 1; i < len(sib); i++ {
		x, y := sib[0], sib[i]
		ob := Obligation{Key: fmt.Sprintf("runtime.VM.%s~%s|identical validation and argument preparation", x.fd.Name.Name, y.fd.Name.Name), Pos: c.Pos(y.fd.Pos()), Nontrivial: true}
		diff := ""
		n := len(x.prefix)
		if len(y.prefix) < n {
			n = len(y.prefix)
		}
		for k := 0; k < n && diff == ""; k++ {
			sx, sy := hcStmtString(c.Fset, x.prefix[k]), hcStmtString(c.Fset, y.prefix[k])
			if sx != sy {
				diff = fmt.Sprintf("statement %d differs: %s has `%s` (%s), %s has `%s` (%s)", k+1, x.fd.Name.Name, hcTrunc(sx), c.Pos(x.prefix[k].Pos()), y.fd.Name.Name, hcTrunc(sy), c.Pos(y.prefix[k].Pos()))
			}
		}
		if diff == "" && len(x.prefix) != len(y.prefix) {
			diff = fmt.Sprintf("%s performs %d statements before starting the core, %s %d", x.fd.Name.Name, len(x.prefix), y.fd.Name.Name, len(y.prefix))
		}
		if diff == "" {
			ob.Status, ob.Detail = Discharged, fmt.Sprintf("the %d statements before the core is started are identical in both", len(x.prefix))
		} else {
			ob.Status, ob.Detail = Violated, "the sibling entry points prepare an invocation differently: "+diff
		}
		obs = append(obs, ob)
	}
	// (2) no write through the invocation parameter
	for _, e := range entries {
		fnObj, _ := info.Defs[e.fd.Name].(*types.Func)
		sf := a.prog.FuncValue(fnObj)
		ob := Obligation{Key: fmt.Sprintf("runtime.VM.%s|does not write through its FunctionInvocation", e.fd.Name.Name), Pos: c.Pos(e.fd.Pos()), Nontrivial: true}
		if sf == nil || a.sums[sf] == nil {
			ob.Status, ob.Detail = Undecided, "no SSA summary for the method"
			obs = append(obs, ob)
			continue
		}
		var bad []string
		root := fmt.Sprintf("param:%d", e.invIdx)
		for _, ef := range a.sums[sf].sortedEffects() {
			if ef.Root == root {
				bad = append(bad, fmt.Sprintf("%s%s (%s) @%s", "invocation", ef.Path, ef.Op, c.Pos(ef.Pos)))
			}
		}
		if len(bad) == 0 {
			ob.Status, ob.Detail = Discharged, "no store (direct or through callees) reaches memory reachable from the invocation parameter; the reversed argument list is a fresh allocation"
		} else {
			ob.Status = Violated
			ob.Detail = "writes into memory owned by the caller: " + strings.Join(bad, ", ") + ". A slice copied out of the parameter (`x := invocation.Args`) shares its backing array, so an in-place swap reverses the host's own argument slice: the first call is right, a second call with the same FunctionInvocation value passes the arguments in the opposite order (type assertion panics or wrong parameters). Fix: fill a slice obtained from make."
		}
		obs = append(obs, ob)
	}
	// (3) HandleTermination kinds
	obs = append(obs, hcTerminationKinds(c)...)
	return obs
}

func hcTrunc(s string) string {
	if len(s) > 140 {
		return s[:140] + "…"
	}
	return s
}

func hcTerminationKinds(c *Ctx) []Obligation {
	rt := c.Pkg("homescript/runtime")
	info := rt.TypesInfo
	ht := c.MustFunc("homescript/runtime", "VM", "HandleTermination")
	// the switch over the return type's kind
	var sw *ast.SwitchStmt
	ast.Inspect(ht.Body, func(n ast.Node) bool {
		s, ok := n.(*ast.SwitchStmt)
		if !ok || s.Tag == nil || sw != nil {
			return true
		}
		if hcIsTypeKind(info.TypeOf(s.Tag)) {
			sw = s
		}
		return true
	})
	kindNames := hcTypeKinds(c)
	if sw == nil {
		return []Obligation{{Key: "runtime.VM.HandleTermination|switch over the return type kind", Status: Undecided, Pos: c.Pos(ht.Pos()), Detail: "no switch over ast.TypeKind found"}}
	}
	reads := func(body []ast.Stmt) bool {
		r := false
		for _, s := range body {
			ast.Inspect(s, func(n ast.Node) bool {
				if ix, ok := n.(*ast.IndexExpr); ok {
					if sel, ok := ast.Unparen(ix.X).(*ast.SelectorExpr); ok && sel.Sel.Name == "Stack" {
						r = true
					}
				}
				return true
			})
		}
		return r
	}
	skip := map[string]token.Pos{}
	defaultReads, hasDefault := false, false
	explicitRead := map[string]bool{}
	for _, cl := range sw.Body.List {
		cc := cl.(*ast.CaseClause)
		r := reads(cc.Body)
		if cc.List == nil {
			hasDefault, defaultReads = true, r
			continue
		}
		for _, e := range cc.List {
			if k := ConstOf(info, e); k != nil {
				if r {
					explicitRead[k.Name()] = true
				} else {
					skip[k.Name()] = e.Pos()
				}
			}
		}
	}
	// compiler side: kinds for which an expression statement leaves no value
	// (the condition guarding the emission of the drop instruction)
	cp := c.Pkg("homescript/compiler")
	noValue := map[string]bool{}
	found := false
	var condPos token.Pos
	for _, fd := range AllFuncDecls(cp) {
		ast.Inspect(fd.Body, func(n ast.Node) bool {
			is, ok := n.(*ast.IfStmt)
			if !ok || found {
				return true
			}
			drops := false
			for _, s := range is.Body.List {
				ast.Inspect(s, func(m ast.Node) bool {
					if id, ok := m.(*ast.Ident); ok {
						if k, ok := cp.TypesInfo.Uses[id].(*types.Const); ok && strings.HasSuffix(k.Name(), "_Drop") {
							drops = true
						}
					}
					return true
				})
			}
			if !drops {
				return true
			}
			var kinds []string
			okShape := true
			var conj func(e ast.Expr)
			conj = func(e ast.Expr) {
				be, ok := ast.Unparen(e).(*ast.BinaryExpr)
				if !ok {
					okShape = false
					return
				}
				if be.Op == token.LAND {
					conj(be.X)
					conj(be.Y)
					return
				}
				if be.Op != token.NEQ {
					okShape = false
					return
				}
				k := ConstOf(cp.TypesInfo, be.Y)
				call, isCall := ast.Unparen(be.X).(*ast.CallExpr)
				if k == nil || !isCall {
					okShape = false
					return
				}
				if sel, ok := call.Fun.(*ast.SelectorExpr); !ok || sel.Sel.Name != "Kind" {
					okShape = false
					return
				}
				if !hcIsTypeKind(cp.TypesInfo.TypeOf(call)) {
					okShape = false
					return
				}
				kinds = append(kinds, k.Name())
			}
			conj(is.Cond)
			if okShape && len(kinds) > 0 {
				found = true
				condPos = is.Pos()
				for _, k := range kinds {
					noValue[k] = true
				}
			}
			return true
		})
	}
	if !found {
		return []Obligation{{Key: "compiler|drop condition of expression statements", Status: Undecided, Detail: "cannot find `if <expr>.Kind() != <TypeKind> { … Opcode_Drop … }` in the compiler: the oracle for `which kinds leave a value` moved"}}
	}
	// kinds that never yield a value at run time by construction: a function of
	// type never does not return; unknown only exists after a reported error.
	exempt := map[string]string{"NeverTypeKind": "a function returning `never` does not return normally", "UnknownTypeKind": "the unknown type only exists in programs the analyzer rejected"}
	var obs []Obligation
	for _, name := range kindNames {
		_, skipped := skip[name]
		readsVal := explicitRead[name] || (!skipped && hasDefault && defaultReads)
		ob := Obligation{Key: "runtime.VM.HandleTermination|return kind " + name, Pos: c.Pos(sw.Pos()), Nontrivial: true}
		if p, ok := skip[name]; ok {
			ob.Pos = c.Pos(p)
		}
		leaves := !noValue[name]
		switch {
		case exempt[name] != "":
			ob.Status, ob.Detail = Discharged, exempt[name]+" (no value is read)"
			if readsVal {
				ob.Detail = exempt[name] + " (a value would be read; harmless)"
			}
		case leaves && readsVal:
			ob.Status, ob.Detail = Discharged, fmt.Sprintf("compiled code leaves a value for this kind (compiler drop condition at %s) and HandleTermination reads and casts it", c.Pos(condPos))
		case !leaves && !readsVal:
			ob.Status, ob.Detail = Discharged, fmt.Sprintf("compiled code leaves no value for this kind (compiler drop condition at %s) and none is read", c.Pos(condPos))
		case leaves && !readsVal:
			ob.Status = Violated
			ob.Detail = fmt.Sprintf("the compiler leaves a value on the operand stack for every kind except %s (condition at %s), but HandleTermination reads none for %s: a host invoking `fn f() -> %s` receives ReturnValue == nil instead of the function's result (and the value stays on the dead core's stack). Fix: remove %s from the no-value case.", hcKeys(noValue), c.Pos(condPos), name, hcKindExample(name), name)
		default:
			ob.Status = Violated
			ob.Detail = fmt.Sprintf("HandleTermination reads the stack top for %s although compiled code leaves no value for it: exitCore.Stack[len-1] indexes an empty stack (panic)", name)
		}
		obs = append(obs, ob)
	}
	return obs
}

func hcKeys(m map[string]bool) string {
	var ks []string
	for k := range m {
		ks = append(ks, k)
	}
	sort.Strings(ks)
	return strings.Join(ks, ", ")
}

func hcKindExample(kind string) string {
	switch kind {
	case "AnyObjectTypeKind":
		return "{ ? }"
	}
	return strings.ToLower(strings.TrimSuffix(kind, "TypeKind"))
}

func hcIsTypeKind(t types.Type) bool {
	n, ok := t.(*types.Named)
	return ok && n.Obj().Name() == "TypeKind" && n.Obj().Pkg() != nil && strings.HasSuffix(n.Obj().Pkg().Path(), "analyzer/ast")
}

// hcTypeKinds: the type-kind constants are untyped (`X = iota`), so the enum
// model does not see them; they are the constants returned by the `Kind()
// TypeKind` methods plus those listed by TypeKind's String method.
func hcTypeKinds(c *Ctx) []string {
	p := c.Pkg("homescript/analyzer/ast")
	set := map[string]token.Pos{}
	for _, fd := range AllFuncDecls(p) {
		if fd.Recv == nil {
			continue
		}
		obj, _ := p.TypesInfo.Defs[fd.Name].(*types.Func)
		if obj == nil {
			continue
		}
		sig := obj.Type().(*types.Signature)
		switch {
		case fd.Name.Name == "Kind" && sig.Results().Len() == 1 && hcIsTypeKind(sig.Results().At(0).Type()):
			ast.Inspect(fd.Body, func(n ast.Node) bool {
				if r, ok := n.(*ast.ReturnStmt); ok && len(r.Results) == 1 {
					if k := ConstOf(p.TypesInfo, r.Results[0]); k != nil {
						set[k.Name()] = k.Pos()
					}
				}
				return true
			})
		case fd.Name.Name == "String" && hcIsTypeKind(sig.Recv().Type()):
			ast.Inspect(fd.Body, func(n ast.Node) bool {
				if cc, ok := n.(*ast.CaseClause); ok {
					for _, e := range cc.List {
						if k := ConstOf(p.TypesInfo, e); k != nil {
							set[k.Name()] = k.Pos()
						}
					}
				}
				return true
			})
		}
	}
	if len(set) < 5 {
		fatalf("anchor unresolved: fewer than 5 type kinds found in analyzer/ast")
	}
	var names []string
	for k := range set {
		names = append(names, k)
	}
	sort.Slice(names, func(i, j int) bool { return set[names[i]] < set[names[j]] })
	return names
}
