package main

import (
	"fmt"
	"go/ast"
	"go/constant"
	"go/token"
	"go/types"
	"sort"
	"strings"
)

// E2 for the operator rules — dispatch extraction by *specialisation*.
//
// Instead of pattern-matching `switch x.Kind() { case A: switch op { ... } }`
// nests syntactically, a dispatching function is walked (paths.go) once per
// point of its finite domain (operator constant x kind constant) with the
// dimension expressions (`node.Operator`, `lhs.Type().Kind()`, `l.Kind()`,
// `instruction.Opcode()`) evaluated to the assumed constants. Switch clauses
// and ==/!= tests over those expressions become decidable, everything else is
// explored both ways. What is extracted is therefore the *relation* the code
// implements (point -> set of path outcomes and events) whatever its shape:
// nested switches in either order, if-chains, early returns, helper functions
// (calls that receive a dimension value, an AST node or an operand are inlined
// up to a small depth). A refactor that preserves the relation yields the same
// table.

type opsVK int

const (
	ovUnknown opsVK = iota
	ovConst         // a named constant of an enum type (c)
	ovLit           // any other compile-time constant (lit)
	ovNode          // the AST node / instruction the function dispatches on
	ovSrc           // an unevaluated child expression of the node (role = 1 left/base, 2 right)
	ovOperand       // an evaluated operand (role; VM: pop ordinal)
	ovInstr         // a compiler instruction value carrying opcode c
	ovApplied       // result of a Go operator applied to operand payloads
)

type opsVal struct {
	k      opsVK
	c      *types.Const
	lit    constant.Value
	nodeT  types.Type
	role   int
	via    bool         // reached through an accessor (x.Type()): not the operand value itself
	inner  bool         // the payload field (.Inner) of the operand was selected
	innerT types.Type   // its Go type
	convs  []types.Type // Go conversions applied to the payload, innermost first
}

func (v opsVal) String() string {
	switch v.k {
	case ovConst:
		return v.c.Name()
	case ovLit:
		return v.lit.ExactString()
	case ovNode:
		return "node"
	case ovSrc:
		return fmt.Sprintf("child#%d", v.role)
	case ovOperand:
		s := fmt.Sprintf("operand#%d", v.role)
		if v.inner {
			s += ".Inner"
		}
		for _, t := range v.convs {
			s = types.TypeString(t, func(p *types.Package) string { return p.Name() }) + "(" + s + ")"
		}
		return s
	case ovInstr:
		if v.c != nil {
			return "instr " + v.c.Name()
		}
		return "instr ?"
	case ovApplied:
		return "applied"
	}
	return "?"
}

type opsEvKind int

const (
	oeAcquire   opsEvKind = iota // child expression `role` evaluated / compiled
	oePop                        // VM: operand popped (role = ordinal)
	oeEmit                       // compiler: instruction with opcode c emitted
	oeError                      // analyzer: an error diagnostic is reported
	oeApply                      // Go binary operator tok (or 2-argument function fn) applied to x, y
	oeUnary                      // Go unary operator tok applied to x
	oeConstruct                  // a value of kind c is constructed
	oeField                      // composite literal field `name` set to constant c
	oeCond                       // decision on an operand payload: x tok lit holds on this path
	oeFork                       // a multi-path callee was entered: alts
)

type opsEvent struct {
	k    opsEvKind
	role int
	c    *types.Const
	tok  token.Token
	fn   string
	x, y opsVal
	goT  types.Type
	lit  constant.Value
	name string
	alts []opsPath
	pos  token.Pos
}

func (e opsEvent) String() string {
	switch e.k {
	case oeAcquire:
		return fmt.Sprintf("eval(child#%d)", e.role)
	case oePop:
		return fmt.Sprintf("pop#%d", e.role)
	case oeEmit:
		if e.c != nil {
			return "emit " + e.c.Name()
		}
		return "emit ?" + e.name
	case oeError:
		return "error-diagnostic"
	case oeApply:
		if e.fn != "" {
			return fmt.Sprintf("%s(%s, %s)", e.fn, e.x, e.y)
		}
		return fmt.Sprintf("%s %s %s", e.x, e.tok, e.y)
	case oeUnary:
		return fmt.Sprintf("%s%s", e.tok, e.x)
	case oeConstruct:
		return "construct " + e.c.Name()
	case oeField:
		return fmt.Sprintf("%s:=%s", e.name, e.c.Name())
	case oeCond:
		return fmt.Sprintf("[%s %s %s]", e.x, e.tok, e.lit.ExactString())
	case oeFork:
		return fmt.Sprintf("fork(%d)", len(e.alts))
	}
	return "?"
}

type opsPath struct {
	ev  []opsEvent
	out ctrlKind // cReturn, cPanic, cNormal (fell off the end)
	why string   // reason of a panic outcome
	ret []opsVal
	pos token.Pos
	pop int
}

func (p opsPath) render() string {
	var b []string
	for _, e := range p.ev {
		b = append(b, e.String())
	}
	o := "return"
	switch p.out {
	case cPanic:
		o = "PANIC(" + p.why + ")"
	case cNormal:
		o = "end"
	}
	return strings.Join(b, "; ") + " => " + o
}

func (p opsPath) has(k opsEvKind) bool {
	for _, e := range p.ev {
		if e.k == k {
			return true
		}
	}
	return false
}

// opsCfg: what the dimension expressions of one engine look like and which
// constants they are assumed to hold during one walk.
type opsCfg struct {
	g *opsEng
	// receiver type of the engine's methods (Analyzer, Compiler, Core, Interpreter)
	recv *types.TypeName
	// dimensions read from the dispatched node (operator field, Opcode(), Kind() of the node itself)
	nodeDims map[*types.TypeName]*types.Const
	// dimensions read from an operand (TypeKind / ValueKind)
	opndDims map[*types.TypeName]*types.Const
	// only the first (left / base) operand carries the kind dimension
	primaryOnly bool
	// further enum types whose constants make a callee worth inlining (operator enums)
	trigger  map[*types.TypeName]bool
	isPop    func(*types.Func) bool
	isErr    func(*types.Func) bool
	maxDepth int
}

type opsSt struct {
	env  map[types.Object]opsVal
	ev   []opsEvent
	nPop int
	ret  []opsVal
	dead string
}

func opsCloneSt(s *opsSt) *opsSt {
	n := &opsSt{env: make(map[types.Object]opsVal, len(s.env)), nPop: s.nPop, dead: s.dead}
	for k, v := range s.env {
		n.env[k] = v
	}
	n.ev = append([]opsEvent(nil), s.ev...)
	n.ret = append([]opsVal(nil), s.ret...)
	return n
}

// opsEng: program-wide lookups shared by all walks.
type opsEng struct {
	c        *Ctx
	infoOf   map[*token.File]*types.Info
	decls    map[*types.Func]*ast.FuncDecl
	kindMemo map[*types.TypeName]*types.Const
	consMemo map[*types.Func]*types.Const
	ordMemo  map[*types.TypeName]opsFieldOrder
	enumMemo map[*types.TypeName]bool
	// constants of usage-based enums (untyped constants used as a named type)
	constEnum map[*types.Const]*types.TypeName
	exprIfs   []*types.TypeName // the expression interfaces of the two ASTs
	instrIf   *types.TypeName   // compiler.Instruction
	inlines   int
}

func newOpsEng(c *Ctx) *opsEng {
	g := &opsEng{c: c, infoOf: map[*token.File]*types.Info{}, decls: map[*types.Func]*ast.FuncDecl{},
		enumMemo: map[*types.TypeName]bool{}, constEnum: map[*types.Const]*types.TypeName{}, kindMemo: map[*types.TypeName]*types.Const{}, consMemo: map[*types.Func]*types.Const{}, ordMemo: map[*types.TypeName]opsFieldOrder{}}
	for _, p := range c.All {
		for _, f := range p.Syntax {
			g.infoOf[c.Fset.File(f.Pos())] = p.TypesInfo
			for _, d := range f.Decls {
				if fd, ok := d.(*ast.FuncDecl); ok && fd.Body != nil {
					if fn, ok := p.TypesInfo.Defs[fd.Name].(*types.Func); ok {
						g.decls[fn] = fd
					}
				}
			}
		}
	}
	return g
}

func (g *opsEng) info(n ast.Node) *types.Info {
	return g.infoOf[g.c.Fset.File(n.Pos())]
}

func opsTypeName(t types.Type) *types.TypeName {
	if t == nil {
		return nil
	}
	t = types.Unalias(t)
	if p, ok := t.(*types.Pointer); ok {
		t = types.Unalias(p.Elem())
	}
	if n, ok := t.(*types.Named); ok {
		return n.Obj()
	}
	return nil
}

func (g *opsEng) isExprIface(t types.Type) bool {
	tn := opsTypeName(t)
	if tn == nil {
		return false
	}
	if _, ok := types.Unalias(t).(*types.Pointer); ok {
		return false
	}
	for _, e := range g.exprIfs {
		if e == tn {
			return true
		}
	}
	return false
}

// constMethod: the constant a nullary method of T returns on its single
// `return K` (nil when the method has another shape).
func (g *opsEng) constMethod(tn *types.TypeName, name string) *types.Const {
	obj, _, _ := types.LookupFieldOrMethod(tn.Type(), true, tn.Pkg(), name)
	fn, ok := obj.(*types.Func)
	if !ok {
		return nil
	}
	fd := g.decls[fn]
	if fd == nil || len(fd.Body.List) != 1 {
		return nil
	}
	rs, ok := fd.Body.List[0].(*ast.ReturnStmt)
	if !ok || len(rs.Results) != 1 {
		return nil
	}
	return ConstOf(g.info(fd), rs.Results[0])
}

// kindOf: the Kind() constant of a concrete value / node type.
func (g *opsEng) kindOf(tn *types.TypeName) *types.Const {
	if tn == nil {
		return nil
	}
	if k, ok := g.kindMemo[tn]; ok {
		return k
	}
	k := g.constMethod(tn, "Kind")
	g.kindMemo[tn] = k
	return k
}

// constructs: the value kind a constructor function builds (its body contains
// composite literals of exactly one concrete type that has a constant Kind()).
func (g *opsEng) constructs(fn *types.Func) *types.Const {
	if k, ok := g.consMemo[fn]; ok {
		return k
	}
	var res *types.Const
	fd := g.decls[fn]
	if fd != nil {
		info := g.info(fd)
		n := 0
		seen := map[*types.TypeName]bool{}
		ast.Inspect(fd.Body, func(x ast.Node) bool {
			if _, ok := x.(*ast.FuncLit); ok {
				return false
			}
			if cl, ok := x.(*ast.CompositeLit); ok {
				tn := opsTypeName(info.TypeOf(cl))
				if tn != nil && !seen[tn] {
					seen[tn] = true
					if k := g.kindOf(tn); k != nil {
						res = k
						n++
					}
				}
			}
			return true
		})
		if n != 1 {
			res = nil
		}
	}
	g.consMemo[fn] = res
	return res
}

func opsSameConst(a, b *types.Const) bool {
	if a == nil || b == nil {
		return false
	}
	if a == b {
		return true
	}
	ta, tb := opsTypeName(a.Type()), opsTypeName(b.Type())
	if ta != nil && tb != nil && ta != tb {
		return false
	}
	// an untyped constant compared with a constant of the switch's type: by value
	return a.Val().Kind() == b.Val().Kind() && constant.Compare(a.Val(), token.EQL, b.Val())
}

// enumTypeOf: the enum type a constant belongs to (its own type, or the type
// it is used as when the constant block is untyped).
func (g *opsEng) enumTypeOf(k *types.Const) *types.TypeName {
	if k == nil {
		return nil
	}
	if tn := g.constEnum[k]; tn != nil {
		return tn
	}
	return opsTypeName(k.Type())
}

// opsEnumOf: c.EnumOf, falling back to "constants of the defining package
// that are used where the expression has type t" when the constant block is
// untyped (analyzer/ast.TypeKind).
func (g *opsEng) opsEnumOf(t types.Type) *Enum {
	if e := g.c.EnumOf(t); e != nil {
		// a framework that already resolves untyped constant blocks: remember the membership
		for _, k := range e.Consts {
			if opsTypeName(k.Type()) == nil {
				g.constEnum[k] = e.Type.Obj()
			}
		}
		return e
	}
	n, ok := types.Unalias(t).(*types.Named)
	if !ok || n.Obj().Pkg() == nil {
		return nil
	}
	if b, ok := n.Underlying().(*types.Basic); !ok || b.Info()&types.IsInteger == 0 {
		return nil
	}
	e := &Enum{Type: n, ByVal: map[string][]*types.Const{}}
	seen := map[*types.Const]bool{}
	for _, p := range g.c.All {
		for id, obj := range p.TypesInfo.Uses {
			k, ok := obj.(*types.Const)
			if !ok || k.Pkg() != n.Obj().Pkg() || seen[k] || k.Parent() != k.Pkg().Scope() {
				continue
			}
			if _, untyped := k.Type().(*types.Basic); !untyped {
				continue
			}
			var tv types.TypeAndValue
			var found bool
			if tv, found = p.TypesInfo.Types[id]; !found {
				continue
			}
			if types.Identical(tv.Type, n) {
				seen[k] = true
				e.Consts = append(e.Consts, k)
			}
		}
		// qualified uses pkg.Const are recorded on the selector expression
		for ex, tv := range p.TypesInfo.Types {
			sel, ok := ex.(*ast.SelectorExpr)
			if !ok || !types.Identical(tv.Type, n) {
				continue
			}
			if k, ok := p.TypesInfo.Uses[sel.Sel].(*types.Const); ok && !seen[k] && k.Pkg() == n.Obj().Pkg() && k.Parent() == k.Pkg().Scope() {
				if _, untyped := k.Type().(*types.Basic); untyped {
					seen[k] = true
					e.Consts = append(e.Consts, k)
				}
			}
		}
	}
	if len(e.Consts) < 2 {
		return nil
	}
	sort.Slice(e.Consts, func(i, j int) bool { return e.Consts[i].Pos() < e.Consts[j].Pos() })
	for _, k := range e.Consts {
		e.ByVal[k.Val().ExactString()] = append(e.ByVal[k.Val().ExactString()], k)
		g.constEnum[k] = n.Obj()
	}
	return e
}

// ---------------------------------------------------------------- evaluation

type opsEv struct {
	cfg   *opsCfg
	info  *types.Info
	depth int
}

func (ev *opsEv) valOfConst(k *types.Const) opsVal {
	if ev.cfg.g.constEnum[k] != nil {
		return opsVal{k: ovConst, c: k}
	}
	if tn := opsTypeName(k.Type()); tn != nil {
		g := ev.cfg.g
		is, ok := g.enumMemo[tn]
		if !ok {
			is = g.c.EnumOf(k.Type()) != nil
			g.enumMemo[tn] = is
		}
		if is {
			return opsVal{k: ovConst, c: k}
		}
	}
	return opsVal{k: ovLit, lit: k.Val()}
}

func (ev *opsEv) eval(st *opsSt, e ast.Expr) opsVal {
	if e == nil {
		return opsVal{}
	}
	info := ev.info
	switch x := e.(type) {
	case *ast.ParenExpr:
		return ev.eval(st, x.X)
	case *ast.StarExpr:
		return ev.eval(st, x.X)
	case *ast.BasicLit:
		if tv, ok := info.Types[x]; ok && tv.Value != nil {
			return opsVal{k: ovLit, lit: tv.Value}
		}
		return opsVal{}
	case *ast.Ident:
		obj := info.Uses[x]
		if obj == nil {
			obj = info.Defs[x]
		}
		switch o := obj.(type) {
		case *types.Const:
			return ev.valOfConst(o)
		case *types.Var:
			if v, ok := st.env[o]; ok {
				return v
			}
		}
		return opsVal{}
	case *ast.SelectorExpr:
		if k, ok := info.Uses[x.Sel].(*types.Const); ok {
			return ev.valOfConst(k)
		}
		sel := info.Selections[x]
		if sel == nil || sel.Kind() != types.FieldVal {
			return opsVal{}
		}
		base := ev.eval(st, x.X)
		ft := sel.Obj().Type()
		switch base.k {
		case ovNode:
			if tn := opsTypeName(ft); tn != nil {
				if k := ev.cfg.nodeDims[tn]; k != nil {
					return opsVal{k: ovConst, c: k}
				}
			}
			if ev.cfg.g.isExprIface(ft) {
				if owner := opsTypeName(base.nodeT); owner != nil {
					if r := ev.cfg.g.childRole(owner, x.Sel.Name); r > 0 {
						return opsVal{k: ovSrc, role: r}
					}
				}
			}
		case ovOperand:
			if !base.inner {
				if _, ok := ft.Underlying().(*types.Basic); ok {
					base.inner = true
					base.innerT = ft
					return base
				}
			}
		}
		return opsVal{}
	case *ast.UnaryExpr:
		v := ev.eval(st, x.X)
		if x.Op == token.AND {
			return v
		}
		if v.k == ovOperand && v.inner {
			st.ev = append(st.ev, opsEvent{k: oeUnary, tok: x.Op, x: v, goT: info.TypeOf(x.X), pos: x.Pos()})
			return opsVal{k: ovApplied}
		}
		return opsVal{}
	case *ast.BinaryExpr:
		l := ev.eval(st, x.X)
		r := ev.eval(st, x.Y)
		if l.k == ovOperand && l.inner && r.k == ovOperand && r.inner {
			st.ev = append(st.ev, opsEvent{k: oeApply, tok: x.Op, x: l, y: r, goT: info.TypeOf(x.X), pos: x.OpPos})
			return opsVal{k: ovApplied}
		}
		return opsVal{}
	case *ast.TypeAssertExpr:
		v := ev.eval(st, x.X)
		if x.Type == nil {
			return v
		}
		return ev.assert(st, v, info.TypeOf(x.Type), x.Pos())
	case *ast.CompositeLit:
		for _, el := range x.Elts {
			if kv, ok := el.(*ast.KeyValueExpr); ok {
				v := ev.eval(st, kv.Value)
				if id, ok := kv.Key.(*ast.Ident); ok && v.k == ovConst {
					st.ev = append(st.ev, opsEvent{k: oeField, name: id.Name, c: v.c, pos: kv.Pos()})
				}
			} else {
				ev.eval(st, el)
			}
		}
		return opsVal{}
	case *ast.IndexExpr:
		ev.eval(st, x.X)
		ev.eval(st, x.Index)
		return opsVal{}
	case *ast.SliceExpr:
		ev.eval(st, x.X)
		return opsVal{}
	case *ast.KeyValueExpr:
		return ev.eval(st, x.Value)
	case *ast.FuncLit:
		return opsVal{}
	case *ast.CallExpr:
		return ev.call(st, x)
	}
	return opsVal{}
}

// assert models a single-result type assertion v.(T).
func (ev *opsEv) assert(st *opsSt, v opsVal, T types.Type, pos token.Pos) opsVal {
	tn := opsTypeName(T)
	switch v.k {
	case ovNode:
		if tn != nil {
			if k := ev.cfg.g.kindOf(tn); k != nil {
				if a := ev.cfg.nodeDims[ev.cfg.g.enumTypeOf(k)]; a != nil && !opsSameConst(a, k) {
					st.dead = fmt.Sprintf("type assertion to %s fails for node kind %s", tn.Name(), a.Name())
				}
			}
		}
		return opsVal{k: ovNode, nodeT: T}
	case ovSrc:
		// a child asserted to a concrete node type: a different node, not an operand
		return opsVal{k: ovNode, nodeT: T}
	case ovOperand:
		if tn != nil && !v.inner {
			if k := ev.cfg.g.kindOf(tn); k != nil {
				if a := ev.cfg.opndDims[ev.cfg.g.enumTypeOf(k)]; a != nil && !opsSameConst(a, k) {
					st.dead = fmt.Sprintf("operand#%d asserted to %s but holds a value of kind %s", v.role, tn.Name(), a.Name())
				}
			}
		}
		return v
	}
	return v
}

func (ev *opsEv) isChildEval(fn *types.Func) bool {
	sig := fn.Type().(*types.Signature)
	if sig.Recv() == nil || opsTypeName(sig.Recv().Type()) != ev.cfg.recv {
		return false
	}
	return sig.Params().Len() == 1 && ev.cfg.g.isExprIface(sig.Params().At(0).Type())
}

func (ev *opsEv) call(st *opsSt, call *ast.CallExpr) opsVal {
	info := ev.info
	g := ev.cfg.g
	// conversion T(x)
	if tv, ok := info.Types[call.Fun]; ok && tv.IsType() {
		if len(call.Args) != 1 {
			return opsVal{}
		}
		v := ev.eval(st, call.Args[0])
		if v.k == ovOperand && v.inner {
			v.convs = append(append([]types.Type(nil), v.convs...), tv.Type)
			return v
		}
		if v.k == ovLit || v.k == ovApplied {
			return v
		}
		return opsVal{}
	}
	// builtins
	if id, ok := ast.Unparen(call.Fun).(*ast.Ident); ok {
		if _, ok := info.Uses[id].(*types.Builtin); ok {
			for _, a := range call.Args {
				ev.eval(st, a)
			}
			return opsVal{}
		}
	}
	callee := CalleeOf(info, call)
	var recvVal opsVal
	hasRecv := false
	if sel, ok := ast.Unparen(call.Fun).(*ast.SelectorExpr); ok {
		if s := info.Selections[sel]; s != nil {
			hasRecv = true
			recvVal = ev.eval(st, sel.X)
		}
	}
	args := make([]opsVal, len(call.Args))
	for i, a := range call.Args {
		args[i] = ev.eval(st, a)
	}
	if callee == nil {
		return opsVal{}
	}
	sig, _ := callee.Type().(*types.Signature)
	if sig == nil {
		return opsVal{}
	}
	if ev.cfg.isPop != nil && ev.cfg.isPop(callee) {
		st.nPop++
		st.ev = append(st.ev, opsEvent{k: oePop, role: st.nPop, pos: call.Pos()})
		return opsVal{k: ovOperand, role: st.nPop}
	}
	if len(args) == 1 && args[0].k == ovSrc && ev.isChildEval(callee) {
		st.ev = append(st.ev, opsEvent{k: oeAcquire, role: args[0].role, pos: call.Pos()})
		return opsVal{k: ovOperand, role: args[0].role}
	}
	if ev.cfg.isErr != nil && ev.cfg.isErr(callee) {
		st.ev = append(st.ev, opsEvent{k: oeError, pos: call.Pos()})
		return opsVal{}
	}
	// nullary method: a dimension, or a transparent accessor (.Type())
	if hasRecv && len(args) == 0 && sig.Results().Len() == 1 {
		rt := sig.Results().At(0).Type()
		if tn := opsTypeName(rt); tn != nil {
			if k := ev.cfg.nodeDims[tn]; k != nil && recvVal.k == ovNode {
				return opsVal{k: ovConst, c: k}
			}
			if k, isDim := ev.cfg.opndDims[tn]; isDim && (recvVal.k == ovSrc || recvVal.k == ovOperand) && !recvVal.inner {
				if k != nil && (!ev.cfg.primaryOnly || recvVal.role == 1) {
					return opsVal{k: ovConst, c: k}
				}
				return opsVal{}
			}
		}
		if recvVal.k == ovSrc || (recvVal.k == ovOperand && !recvVal.inner) {
			if _, isBasic := rt.Underlying().(*types.Basic); !isBasic {
				recvVal.via = true
				return recvVal
			}
		}
	}
	// instruction constructors and the emitter
	if g.instrIf != nil {
		if res := sig.Results(); res.Len() == 1 && g.implementsInstr(res.At(0).Type()) && sig.Recv() == nil {
			v := opsVal{k: ovInstr}
			if len(args) > 0 && args[0].k == ovConst {
				v.c = args[0].c
			}
			return v
		}
		if sig.Recv() != nil && opsTypeName(sig.Recv().Type()) == ev.cfg.recv {
			for _, a := range args {
				if a.k == ovInstr {
					st.ev = append(st.ev, opsEvent{k: oeEmit, c: a.c, name: callee.Name(), pos: call.Pos()})
					return opsVal{}
				}
			}
		}
	}
	if k := g.constructs(callee); k != nil {
		st.ev = append(st.ev, opsEvent{k: oeConstruct, c: k, pos: call.Pos()})
	}
	// a 2-argument function of another module applied to both operand payloads (math.Pow)
	if len(args) == 2 && g.decls[callee] == nil && args[0].k == ovOperand && args[0].inner && args[1].k == ovOperand && args[1].inner {
		name := callee.Name()
		if callee.Pkg() != nil {
			name = callee.Pkg().Name() + "." + name
		}
		st.ev = append(st.ev, opsEvent{k: oeApply, fn: name, x: args[0], y: args[1], pos: call.Pos()})
		return opsVal{k: ovApplied}
	}
	// inline statically bound helpers that receive a dimension value, a node or an operand
	fd := g.decls[callee]
	if fd == nil || ev.depth >= ev.cfg.maxDepth {
		return opsVal{}
	}
	if fn := ast.Unparen(call.Fun); hasRecv {
		if s := info.Selections[fn.(*ast.SelectorExpr)]; s != nil && types.IsInterface(s.Recv()) {
			return opsVal{}
		}
	}
	interesting := func(v opsVal) bool {
		switch v.k {
		case ovConst:
			tn := g.enumTypeOf(v.c)
			_, a := ev.cfg.nodeDims[tn]
			_, b := ev.cfg.opndDims[tn]
			return a || b || ev.cfg.trigger[tn]
		case ovNode:
			return true
		case ovSrc, ovOperand:
			return !v.via
		}
		return false
	}
	trig := hasRecv && recvVal.k != ovNode && interesting(recvVal)
	for _, a := range args {
		if interesting(a) {
			trig = true
		}
	}
	if !trig || sig.Variadic() {
		return opsVal{}
	}
	bind := map[types.Object]opsVal{}
	cinfo := g.info(fd)
	if fd.Recv != nil && len(fd.Recv.List) > 0 && len(fd.Recv.List[0].Names) > 0 && hasRecv {
		bind[cinfo.Defs[fd.Recv.List[0].Names[0]]] = recvVal
	}
	i := 0
	for _, f := range fd.Type.Params.List {
		for _, n := range f.Names {
			if i < len(args) {
				bind[cinfo.Defs[n]] = args[i]
			}
			i++
		}
	}
	g.inlines++
	sub, ok := g.walk(ev.cfg, fd, bind, ev.depth+1, st.nPop)
	if !ok || len(sub) == 0 {
		return opsVal{}
	}
	same := true
	for _, p := range sub[1:] {
		if p.render() != sub[0].render() {
			same = false
		}
	}
	if same {
		st.ev = append(st.ev, sub[0].ev...)
		st.nPop = sub[0].pop
		if sub[0].out == cPanic {
			st.dead = sub[0].why
			return opsVal{}
		}
		if len(sub[0].ret) == 1 {
			return sub[0].ret[0]
		}
		return opsVal{}
	}
	st.ev = append(st.ev, opsEvent{k: oeFork, alts: sub, name: callee.Name(), pos: call.Pos()})
	return opsVal{}
}

func (g *opsEng) implementsInstr(t types.Type) bool {
	if g.instrIf == nil {
		return false
	}
	if opsTypeName(t) == g.instrIf {
		return true
	}
	iface, _ := g.instrIf.Type().Underlying().(*types.Interface)
	return iface != nil && opsTypeName(t) != nil && opsTypeName(t).Pkg() == g.instrIf.Pkg() && types.Implements(t, iface)
}

// ---------------------------------------------------------------- the walk

func opsNegate(t token.Token) token.Token {
	switch t {
	case token.EQL:
		return token.NEQ
	case token.NEQ:
		return token.EQL
	case token.LSS:
		return token.GEQ
	case token.GEQ:
		return token.LSS
	case token.GTR:
		return token.LEQ
	case token.LEQ:
		return token.GTR
	}
	return token.ILLEGAL
}

func opsFlip(t token.Token) token.Token {
	switch t {
	case token.LSS:
		return token.GTR
	case token.GTR:
		return token.LSS
	case token.LEQ:
		return token.GEQ
	case token.GEQ:
		return token.LEQ
	}
	return t
}

// walk enumerates the paths of fd under cfg's assumptions.
func (g *opsEng) walk(cfg *opsCfg, fd *ast.FuncDecl, bind map[types.Object]opsVal, depth, nPop int) (paths []opsPath, ok bool) {
	info := g.info(fd)
	ev := &opsEv{cfg: cfg, info: info, depth: depth}
	st0 := &opsSt{env: map[types.Object]opsVal{}, nPop: nPop}
	for k, v := range bind {
		if k != nil {
			st0.env[k] = v
		}
	}
	record := func(st *opsSt, out ctrlKind, why string, pos token.Pos) {
		paths = append(paths, opsPath{ev: st.ev, out: out, why: why, ret: st.ret, pos: pos, pop: st.nPop})
	}
	died := func(st *opsSt, pos token.Pos) bool {
		if st.dead != "" {
			record(st, cPanic, st.dead, pos)
			return true
		}
		return false
	}
	bindIdent := func(st *opsSt, l ast.Expr, v opsVal) {
		id, ok := l.(*ast.Ident)
		if !ok || id.Name == "_" {
			return
		}
		obj := info.Defs[id]
		if obj == nil {
			obj = info.Uses[id]
		}
		if obj != nil {
			st.env[obj] = v
		}
	}
	w := &Walker[*opsSt]{
		Clone:    opsCloneSt,
		MaxPaths: 4000,
		IsPanic:  func(s ast.Stmt) bool { return IsPanicCall(info, s) },
		OnStmt: func(st *opsSt, s ast.Stmt) (*opsSt, bool) {
			switch x := s.(type) {
			case *ast.ExprStmt:
				ev.eval(st, x.X)
			case *ast.AssignStmt:
				if len(x.Lhs) == 2 && len(x.Rhs) == 1 {
					if ta, ok := ast.Unparen(x.Rhs[0]).(*ast.TypeAssertExpr); ok {
						v := ev.eval(st, ta.X) // comma-ok: never panics
						bindIdent(st, x.Lhs[0], v)
						bindIdent(st, x.Lhs[1], opsVal{})
						break
					}
				}
				vals := make([]opsVal, len(x.Rhs))
				for i, r := range x.Rhs {
					vals[i] = ev.eval(st, r)
				}
				if x.Tok == token.ASSIGN || x.Tok == token.DEFINE {
					for i, l := range x.Lhs {
						v := opsVal{}
						if len(x.Rhs) == len(x.Lhs) {
							v = vals[i]
						} else if i == 0 {
							v = vals[0]
						}
						bindIdent(st, l, v)
					}
				} else {
					for _, l := range x.Lhs {
						bindIdent(st, l, opsVal{})
					}
				}
			case *ast.DeclStmt:
				if gd, ok := x.Decl.(*ast.GenDecl); ok {
					for _, sp := range gd.Specs {
						if vs, ok := sp.(*ast.ValueSpec); ok {
							for i, n := range vs.Names {
								v := opsVal{}
								if i < len(vs.Values) {
									v = ev.eval(st, vs.Values[i])
								}
								if obj := info.Defs[n]; obj != nil {
									st.env[obj] = v
								}
							}
						}
					}
				}
			case *ast.ReturnStmt:
				st.ret = st.ret[:0]
				for _, r := range x.Results {
					st.ret = append(st.ret, ev.eval(st, r))
				}
			case *ast.IncDecStmt, *ast.GoStmt, *ast.SendStmt:
			}
			if died(st, s.Pos()) {
				return st, false
			}
			return st, true
		},
		OnCond: func(st *opsSt, cond ast.Expr, taken bool) (*opsSt, bool) {
			if be, ok := cond.(*ast.BinaryExpr); ok {
				switch be.Op {
				case token.EQL, token.NEQ, token.LSS, token.LEQ, token.GTR, token.GEQ:
					l := ev.eval(st, be.X)
					r := ev.eval(st, be.Y)
					if died(st, cond.Pos()) {
						return st, false
					}
					if be.Op == token.EQL || be.Op == token.NEQ {
						if l.k == ovConst && r.k == ovConst {
							eq := opsSameConst(l.c, r.c)
							return st, (eq == (be.Op == token.EQL)) == taken
						}
					}
					op := be.Op
					if l.k == ovLit && r.k == ovOperand {
						l, r = r, l
						op = opsFlip(op)
					}
					if l.k == ovOperand && l.inner && r.k == ovLit {
						if !taken {
							op = opsNegate(op)
						}
						st.ev = append(st.ev, opsEvent{k: oeCond, x: l, tok: op, lit: r.lit, pos: be.OpPos})
					} else if l.k == ovOperand && l.inner && r.k == ovOperand && r.inner {
						st.ev = append(st.ev, opsEvent{k: oeApply, tok: be.Op, x: l, y: r, goT: info.TypeOf(be.X), pos: be.OpPos})
					}
					return st, true
				}
			}
			ev.eval(st, cond)
			if died(st, cond.Pos()) {
				return st, false
			}
			return st, true
		},
		OnCase: func(st *opsSt, sw *ast.SwitchStmt, vals, others []ast.Expr) (*opsSt, bool) {
			tag := ev.eval(st, sw.Tag)
			if died(st, sw.Pos()) {
				return st, false
			}
			if tag.k != ovConst {
				return st, true
			}
			match := func(list []ast.Expr) (hit bool, decidable bool) {
				decidable = true
				for _, v := range list {
					k := ConstOf(info, v)
					if k == nil {
						decidable = false
						continue
					}
					if opsSameConst(k, tag.c) {
						hit = true
					}
				}
				return
			}
			if vals == nil {
				hit, dec := match(others)
				if hit {
					return st, false
				}
				_ = dec
				return st, true
			}
			hit, dec := match(vals)
			if hit {
				return st, true
			}
			return st, !dec
		},
		OnRange: func(st *opsSt, r *ast.RangeStmt) (*opsSt, bool) {
			ev.eval(st, r.X)
			if r.Key != nil {
				bindIdent(st, r.Key, opsVal{})
			}
			if r.Value != nil {
				bindIdent(st, r.Value, opsVal{})
			}
			return st, true
		},
	}
	w.Exit = func(st *opsSt, o outcome) {
		switch o.kind {
		case cPanic:
			record(st, cPanic, "panic() statement", o.at)
		case cReturn:
			record(st, cReturn, "", o.at)
		default:
			record(st, cNormal, "", fd.End())
		}
	}
	w.Run(fd.Body, st0)
	if w.Overflow {
		return nil, false
	}
	// expand forks
	var out []opsPath
	for _, p := range paths {
		out = append(out, opsExpand(p)...)
		if len(out) > 6000 {
			return nil, false
		}
	}
	return out, true
}

// opsExpand substitutes every alternative of every fork event.
func opsExpand(p opsPath) []opsPath {
	for i, e := range p.ev {
		if e.k != oeFork {
			continue
		}
		rest := opsExpand(opsPath{ev: p.ev[i+1:], out: p.out, why: p.why, ret: p.ret, pos: p.pos, pop: p.pop})
		var out []opsPath
		for _, a := range e.alts {
			pre := append(append([]opsEvent(nil), p.ev[:i]...), a.ev...)
			if a.out == cPanic {
				out = append(out, opsPath{ev: pre, out: cPanic, why: a.why, pos: a.pos, pop: a.pop})
				continue
			}
			for _, r := range rest {
				out = append(out, opsPath{ev: append(append([]opsEvent(nil), pre...), r.ev...), out: r.out, why: r.why, ret: r.ret, pos: r.pos, pop: r.pop})
			}
		}
		return out
	}
	return []opsPath{p}
}

// ---------------------------------------------------------------- source order of node fields

// opsFieldOrder: the order in which the fields of an AST node struct occur in
// source text. Oracle: the node's own printer — the argument order of the
// `return fmt.Sprintf(...)` of its String() method, local variables traced
// back to the fields they are computed from. Fields the printer does not
// mention are unordered with respect to the others; when String() has another
// shape the declaration order is used and `how` says so.
type opsFieldOrder struct {
	rank map[string]int
	how  string
}

func (g *opsEng) fieldOrder(tn *types.TypeName) opsFieldOrder {
	if o, ok := g.ordMemo[tn]; ok {
		return o
	}
	st, _ := tn.Type().Underlying().(*types.Struct)
	res := opsFieldOrder{rank: map[string]int{}, how: "declaration order (String() not analysable)"}
	if st == nil {
		g.ordMemo[tn] = res
		return res
	}
	decl := func() {
		for i := 0; i < st.NumFields(); i++ {
			res.rank[st.Field(i).Name()] = i
		}
	}
	obj, _, _ := types.LookupFieldOrMethod(tn.Type(), true, tn.Pkg(), "String")
	fn, _ := obj.(*types.Func)
	fd := g.decls[fn]
	if fn == nil || fd == nil || fd.Recv == nil || len(fd.Recv.List[0].Names) == 0 || len(fd.Body.List) == 0 {
		decl()
		g.ordMemo[tn] = res
		return res
	}
	info := g.info(fd)
	recv := info.Defs[fd.Recv.List[0].Names[0]]
	rs, ok := fd.Body.List[len(fd.Body.List)-1].(*ast.ReturnStmt)
	if !ok || len(rs.Results) != 1 {
		decl()
		g.ordMemo[tn] = res
		return res
	}
	call, ok := ast.Unparen(rs.Results[0]).(*ast.CallExpr)
	var fargs []ast.Expr
	if ok {
		if cal := CalleeOf(info, call); cal != nil && cal.Pkg() != nil && cal.Pkg().Path() == "fmt" && strings.HasPrefix(cal.Name(), "Sprint") {
			fargs = call.Args
		}
	}
	if fargs == nil {
		decl()
		g.ordMemo[tn] = res
		return res
	}
	// definitions of local variables, and range variables
	defs := map[types.Object][]ast.Expr{}
	ast.Inspect(fd.Body, func(n ast.Node) bool {
		switch x := n.(type) {
		case *ast.AssignStmt:
			for i, l := range x.Lhs {
				root := l
				for {
					if ix, ok := root.(*ast.IndexExpr); ok {
						root = ix.X
						continue
					}
					break
				}
				if id, ok := root.(*ast.Ident); ok {
					o := info.Defs[id]
					if o == nil {
						o = info.Uses[id]
					}
					if o != nil {
						if len(x.Rhs) == len(x.Lhs) {
							defs[o] = append(defs[o], x.Rhs[i])
						} else {
							defs[o] = append(defs[o], x.Rhs...)
						}
					}
				}
			}
		case *ast.RangeStmt:
			for _, kv := range []ast.Expr{x.Key, x.Value} {
				if id, ok := kv.(*ast.Ident); ok {
					if o := info.Defs[id]; o != nil {
						defs[o] = append(defs[o], x.X)
					}
				}
			}
		}
		return true
	})
	var order []string
	seenF := map[string]bool{}
	seenV := map[types.Object]bool{}
	var fieldsOf func(e ast.Expr)
	fieldsOf = func(e ast.Expr) {
		ast.Inspect(e, func(n ast.Node) bool {
			switch x := n.(type) {
			case *ast.SelectorExpr:
				if id, ok := x.X.(*ast.Ident); ok && info.Uses[id] == recv {
					if s := info.Selections[x]; s != nil && s.Kind() == types.FieldVal {
						if !seenF[x.Sel.Name] {
							seenF[x.Sel.Name] = true
							order = append(order, x.Sel.Name)
						}
						return false
					}
				}
			case *ast.Ident:
				if o, ok := info.Uses[x].(*types.Var); ok && o != recv && !seenV[o] {
					seenV[o] = true
					for _, d := range defs[o] {
						fieldsOf(d)
					}
				}
			}
			return true
		})
	}
	for _, a := range fargs {
		fieldsOf(a)
	}
	for i, f := range order {
		res.rank[f] = i
	}
	res.how = "print order of " + tn.Name() + ".String()"
	g.ordMemo[tn] = res
	return res
}

// before reports whether field a precedes field b in source order; known is
// false when the oracle does not order the two.
func (o opsFieldOrder) before(a, b string) (before, known bool) {
	ra, oka := o.rank[a]
	rb, okb := o.rank[b]
	if !oka || !okb {
		return false, false
	}
	return ra < rb, true
}

// childRole: 1-based position of an expression-typed field among the
// expression-typed fields of the node in source order (0 = not a child).
func (g *opsEng) childRole(tn *types.TypeName, field string) int {
	st, _ := tn.Type().Underlying().(*types.Struct)
	if st == nil {
		return 0
	}
	ord := g.fieldOrder(tn)
	var kids []string
	for i := 0; i < st.NumFields(); i++ {
		if g.isExprIface(st.Field(i).Type()) {
			if _, ok := ord.rank[st.Field(i).Name()]; !ok {
				return 0 // not ordered by the oracle: undecidable here
			}
			kids = append(kids, st.Field(i).Name())
		}
	}
	sort.SliceStable(kids, func(i, j int) bool { return ord.rank[kids[i]] < ord.rank[kids[j]] })
	for i, k := range kids {
		if k == field {
			return i + 1
		}
	}
	return 0
}
