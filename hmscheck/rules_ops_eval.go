package main

import (
	"fmt"
	"go/ast"
	"go/constant"
	"go/token"
	"go/types"
	"sort"
	"strings"
)

// E2 for the operator rules — dispatch extraction by *specialisation*.
//
// Instead of pattern-matching `switch x.Kind() { case A: switch op { ... } }`
// nests syntactically, a dispatching function is walked (paths.go) once per
// point of its finite domain (operator constant x kind constant) with the
// dimension expressions (`node.Operator`, `lhs.Type().Kind()`, `l.Kind()`,
// `instruction.Opcode()`) evaluated to the assumed constants. Switch clauses
// and ==/!= tests over those expressions become decidable, everything else is
// explored both ways. What is extracted is therefore the *relation* the code
// implements (point -> set of path outcomes and events) whatever its shape:
// nested switches in either order, if-chains, early returns, helper functions
// (calls that receive a dimension value, an AST node or an operand are inlined
// up to a small depth). A refactor that preserves the relation yields the same
// table.

type opsVK int

const (
	ovUnknown opsVK = iota
	ovConst         // a named constant of an enum type (c)
	ovLit           // any other compile-time constant (lit)
	ovNode          // the AST node / instruction the function dispatches on
	ovSrc           // an unevaluated child expression of the node (role = 1 left/base, 2 right)
	ovOperand       // an evaluated operand (role; VM: pop ordinal)
	ovInstr         // a compiler instruction value carrying opcode c
	ovApplied       // result of a Go operator applied to operand payloads
	ovDiag          // a diagnostic value of level c (nil: level not a known constant)
	ovTuple         // the results of a multi-result call (tup)
	ovFunc          // a function literal bound to a local (fn)
	ovTable         // a map / slice / array written as a composite literal with constant keys or elements (tbl)
	ovCmp           // the truth value of `x tok lit` for an operand payload x (cmp)
	ovNil           // the nil literal
	ovNonNil        // a pointer / interface value known not to be nil
	ovRecord        // a struct value written as a literal: the fields whose values are known (rec)
)

// opsTable: a table written as data (map[K]V{...}, []T{...}) whose keys /
// elements are compile-time constants.
type opsTable struct {
	info  *types.Info
	isMap bool
	keys  []ast.Expr
	vals  []ast.Expr
	elemT types.Type
}

type opsCmp struct {
	x   opsVal
	tok token.Token
	lit constant.Value
}

type opsVal struct {
	k      opsVK
	c      *types.Const
	lit    constant.Value
	nodeT  types.Type
	role   int
	via    bool         // reached through an accessor (x.Type()): not the operand value itself
	inner  bool         // the payload field (.Inner) of the operand was selected
	innerT types.Type   // its Go type
	convs  []types.Type // Go conversions applied to the payload, innermost first
	tup    []opsVal
	fn     *ast.FuncLit
	tbl    *opsTable
	cmp    *opsCmp
	rec    map[string]opsVal       // ovRecord: known fields
	recT   *types.Struct           // ovRecord: the struct type
	fenv   map[types.Object]opsVal // ovFunc: the bindings at the function literal (its free variables)
	finfo  *types.Info             // ovFunc: type information of the file the literal stands in
}

func (v opsVal) String() string {
	switch v.k {
	case ovConst:
		return v.c.Name()
	case ovLit:
		return v.lit.ExactString()
	case ovNode:
		return "node"
	case ovSrc:
		return fmt.Sprintf("child#%d", v.role)
	case ovOperand:
		s := fmt.Sprintf("operand#%d", v.role)
		if v.inner {
			s += ".Inner"
		}
		for _, t := range v.convs {
			s = types.TypeString(t, func(p *types.Package) string { return p.Name() }) + "(" + s + ")"
		}
		return s
	case ovInstr:
		if v.c != nil {
			return "instr " + v.c.Name()
		}
		return "instr ?"
	case ovApplied:
		return "applied"
	case ovDiag:
		if v.c != nil {
			return "diagnostic " + v.c.Name()
		}
		return "diagnostic ?"
	case ovTuple:
		var s []string
		for _, t := range v.tup {
			s = append(s, t.String())
		}
		return "(" + strings.Join(s, ", ") + ")"
	case ovFunc:
		return "func literal"
	case ovTable:
		return "table"
	case ovCmp:
		return fmt.Sprintf("[%s %s %s]", v.cmp.x, v.cmp.tok, v.cmp.lit.ExactString())
	case ovNil:
		return "nil"
	case ovNonNil:
		return "non-nil"
	case ovRecord:
		var ks []string
		for k := range v.rec {
			ks = append(ks, k)
		}
		sort.Strings(ks)
		var b []string
		for _, k := range ks {
			b = append(b, k+":"+v.rec[k].String())
		}
		return "{" + strings.Join(b, " ") + "}"
	}
	return "?"
}

type opsEvKind int

const (
	oeAcquire   opsEvKind = iota // child expression `role` evaluated / compiled
	oePop                        // VM: operand popped (role = ordinal)
	oeEmit                       // compiler: instruction with opcode c emitted
	oeError                      // analyzer: an error diagnostic is reported
	oeApply                      // Go binary operator tok (or 2-argument function fn) applied to x, y
	oeUnary                      // Go unary operator tok applied to x
	oeConstruct                  // a value of kind c is constructed
	oeField                      // composite literal field `name` set to constant c
	oeCond                       // decision on an operand payload: x tok lit holds on this path
	oeFork                       // a multi-path callee was entered: alts
)

type opsEvent struct {
	k    opsEvKind
	role int
	c    *types.Const
	tok  token.Token
	fn   string
	x, y opsVal
	goT  types.Type
	lit  constant.Value
	name string
	alts []opsPath
	pos  token.Pos
}

func (e opsEvent) String() string {
	switch e.k {
	case oeAcquire:
		return fmt.Sprintf("eval(child#%d)", e.role)
	case oePop:
		return fmt.Sprintf("pop#%d", e.role)
	case oeEmit:
		if e.c != nil {
			return "emit " + e.c.Name()
		}
		return "emit ?" + e.name
	case oeError:
		return "error-diagnostic"
	case oeApply:
		if e.fn != "" {
			return fmt.Sprintf("%s(%s, %s)", e.fn, e.x, e.y)
		}
		return fmt.Sprintf("%s %s %s", e.x, e.tok, e.y)
	case oeUnary:
		return fmt.Sprintf("%s%s", e.tok, e.x)
	case oeConstruct:
		return "construct " + e.c.Name()
	case oeField:
		return fmt.Sprintf("%s:=%s", e.name, e.c.Name())
	case oeCond:
		return fmt.Sprintf("[%s %s %s]", e.x, e.tok, e.lit.ExactString())
	case oeFork:
		return fmt.Sprintf("fork(%d)", len(e.alts))
	}
	return "?"
}

type opsPath struct {
	ev  []opsEvent
	out ctrlKind // cReturn, cPanic, cNormal (fell off the end)
	why string   // reason of a panic outcome
	ret []opsVal
	pos token.Pos
	pop int
}

func (p opsPath) render() string {
	var b []string
	for _, e := range p.ev {
		b = append(b, e.String())
	}
	o := "return"
	switch p.out {
	case cPanic:
		o = "PANIC(" + p.why + ")"
	case cNormal:
		o = "end"
	}
	return strings.Join(b, "; ") + " => " + o
}

func (p opsPath) has(k opsEvKind) bool {
	for _, e := range p.ev {
		if e.k == k {
			return true
		}
	}
	return false
}

// opsCfg: what the dimension expressions of one engine look like and which
// constants they are assumed to hold during one walk.
type opsCfg struct {
	g *opsEng
	// receiver type of the engine's methods (Analyzer, Compiler, Core, Interpreter)
	recv *types.TypeName
	// dimensions read from the dispatched node (operator field, Opcode(), Kind() of the node itself)
	nodeDims map[*types.TypeName]*types.Const
	// dimensions read from an operand (TypeKind / ValueKind)
	opndDims map[*types.TypeName]*types.Const
	// only the first (left / base) operand carries the kind dimension
	primaryOnly bool
	// further enum types whose constants make a callee worth inlining (operator enums)
	trigger map[*types.TypeName]bool
	isPop   func(*types.Func) bool
	isErr   func(*types.Func, []opsVal) bool
	diag    *opsModel // analyzer walks: the model resolving diagnostic values / lists
	// callees that are inlined whatever their arguments (helpers that pop operands)
	inlineAlways func(*types.Func) bool
	maxDepth     int
}

type opsSt struct {
	env     map[types.Object]opsVal
	ev      []opsEvent
	nPop    int
	ret     []opsVal
	dead    string
	deadPos token.Pos
	// multi-path callees: which alternative is taken at the n-th such call on this path
	choices []int
	nFork   int
	// operand of the type switch being entered
	tsVal opsVal
	// set on the state that continues behind a type switch without default clause when one of
	// its clauses certainly matches: that continuation is infeasible
	tsSkip bool
	// the path is not a path of this run (see enter): silently discarded
	drop bool
	// deferred calls, with the bindings at the defer statement
	deferred []opsDeferred
}

type opsDeferred struct {
	call *ast.CallExpr
	env  map[types.Object]opsVal
}

func opsCloneSt(s *opsSt) *opsSt {
	n := &opsSt{env: make(map[types.Object]opsVal, len(s.env)), nPop: s.nPop, dead: s.dead, deadPos: s.deadPos, nFork: s.nFork, tsVal: s.tsVal, tsSkip: s.tsSkip, drop: s.drop}
	n.choices = append([]int(nil), s.choices...)
	n.deferred = append([]opsDeferred(nil), s.deferred...)
	for k, v := range s.env {
		n.env[k] = v
	}
	n.ev = append([]opsEvent(nil), s.ev...)
	n.ret = append([]opsVal(nil), s.ret...)
	return n
}

// opsEng: program-wide lookups shared by all walks.
type opsEng struct {
	c        *Ctx
	infoOf   map[*token.File]*types.Info
	decls    map[*types.Func]*ast.FuncDecl
	kindMemo map[*types.TypeName]*types.Const
	consMemo map[*types.Func]*types.Const
	ordMemo  map[*types.TypeName]opsFieldOrder
	enumMemo map[*types.TypeName]bool
	divMemo  map[*types.Func]bool
	// constants of usage-based enums (untyped constants used as a named type)
	constEnum map[*types.Const]*types.TypeName
	exprIfs   []*types.TypeName // the expression interfaces of the two ASTs
	instrIf   *types.TypeName   // compiler.Instruction
	opcodeT   *types.TypeName   // the opcode enum
	inlines   int
	pkgVars   map[*types.Var]*opsPkgVar
	nonNil    map[*types.Func]int
	// table loops unrolled before walking (rules_ops_rewrite.go)
	unrolled   map[*ast.BlockStmt]*ast.BlockStmt
	unrollBind map[ast.Stmt]*opsUnrollBind
}

type opsPkgVar struct {
	init    ast.Expr
	info    *types.Info
	mutated bool
	stores  [][2]ast.Expr // table[K] = v statements of init functions, in order
	val     opsVal        // the table, once evaluated
	done    bool
}

func newOpsEng(c *Ctx) *opsEng {
	g := &opsEng{c: c, infoOf: map[*token.File]*types.Info{}, decls: map[*types.Func]*ast.FuncDecl{},
		unrolled: map[*ast.BlockStmt]*ast.BlockStmt{}, unrollBind: map[ast.Stmt]*opsUnrollBind{}, enumMemo: map[*types.TypeName]bool{}, divMemo: map[*types.Func]bool{}, constEnum: map[*types.Const]*types.TypeName{}, kindMemo: map[*types.TypeName]*types.Const{}, consMemo: map[*types.Func]*types.Const{}, ordMemo: map[*types.TypeName]opsFieldOrder{}}
	for _, p := range c.All {
		for _, f := range p.Syntax {
			g.infoOf[c.Fset.File(f.Pos())] = p.TypesInfo
			for _, d := range f.Decls {
				if fd, ok := d.(*ast.FuncDecl); ok && fd.Body != nil {
					if fn, ok := p.TypesInfo.Defs[fd.Name].(*types.Func); ok {
						g.decls[fn] = fd
					}
				}
			}
		}
	}
	return g
}

func (g *opsEng) info(n ast.Node) *types.Info {
	return g.infoOf[g.c.Fset.File(n.Pos())]
}

func opsTypeName(t types.Type) *types.TypeName {
	if t == nil {
		return nil
	}
	t = types.Unalias(t)
	if p, ok := t.(*types.Pointer); ok {
		t = types.Unalias(p.Elem())
	}
	if n, ok := t.(*types.Named); ok {
		return n.Obj()
	}
	return nil
}

func (g *opsEng) isExprIface(t types.Type) bool {
	tn := opsTypeName(t)
	if tn == nil {
		return false
	}
	if _, ok := types.Unalias(t).(*types.Pointer); ok {
		return false
	}
	for _, e := range g.exprIfs {
		if e == tn {
			return true
		}
	}
	return false
}

// constMethod: the constant a nullary method of T returns on its single
// `return K` (nil when the method has another shape).
func (g *opsEng) constMethod(tn *types.TypeName, name string) *types.Const {
	obj, _, _ := types.LookupFieldOrMethod(tn.Type(), true, tn.Pkg(), name)
	fn, ok := obj.(*types.Func)
	if !ok {
		return nil
	}
	fd := g.decls[fn]
	if fd == nil || len(fd.Body.List) != 1 {
		return nil
	}
	rs, ok := fd.Body.List[0].(*ast.ReturnStmt)
	if !ok || len(rs.Results) != 1 {
		return nil
	}
	return ConstOf(g.info(fd), rs.Results[0])
}

// kindOf: the Kind() constant of a concrete value / node type.
func (g *opsEng) kindOf(tn *types.TypeName) *types.Const {
	if tn == nil {
		return nil
	}
	if k, ok := g.kindMemo[tn]; ok {
		return k
	}
	k := g.constMethod(tn, "Kind")
	g.kindMemo[tn] = k
	return k
}

// constructs: the value kind a constructor function builds (its body contains
// composite literals of exactly one concrete type that has a constant Kind()).
func (g *opsEng) constructs(fn *types.Func) *types.Const {
	if k, ok := g.consMemo[fn]; ok {
		return k
	}
	var res *types.Const
	fd := g.decls[fn]
	if fd != nil {
		info := g.info(fd)
		n := 0
		seen := map[*types.TypeName]bool{}
		ast.Inspect(fd.Body, func(x ast.Node) bool {
			if _, ok := x.(*ast.FuncLit); ok {
				return false
			}
			if cl, ok := x.(*ast.CompositeLit); ok {
				tn := opsTypeName(info.TypeOf(cl))
				if tn != nil && !seen[tn] {
					seen[tn] = true
					if k := g.kindOf(tn); k != nil {
						res = k
						n++
					}
				}
			}
			return true
		})
		if n != 1 {
			res = nil
		}
	}
	g.consMemo[fn] = res
	return res
}

func opsSameConst(a, b *types.Const) bool {
	if a == nil || b == nil {
		return false
	}
	if a == b {
		return true
	}
	ta, tb := opsTypeName(a.Type()), opsTypeName(b.Type())
	if ta != nil && tb != nil && ta != tb {
		return false
	}
	// an untyped constant compared with a constant of the switch's type: by value
	return a.Val().Kind() == b.Val().Kind() && constant.Compare(a.Val(), token.EQL, b.Val())
}

// enumTypeOf: the enum type a constant belongs to (its own type, or the type
// it is used as when the constant block is untyped).
func (g *opsEng) enumTypeOf(k *types.Const) *types.TypeName {
	if k == nil {
		return nil
	}
	if tn := g.constEnum[k]; tn != nil {
		return tn
	}
	return opsTypeName(k.Type())
}

// opsEnumOf: c.EnumOf, falling back to "constants of the defining package
// that are used where the expression has type t" when the constant block is
// untyped (analyzer/ast.TypeKind).
func (g *opsEng) opsEnumOf(t types.Type) *Enum {
	if e := g.c.EnumOf(t); e != nil {
		// a framework that already resolves untyped constant blocks: remember the membership
		for _, k := range e.Consts {
			if opsTypeName(k.Type()) == nil {
				g.constEnum[k] = e.Type.Obj()
			}
		}
		return e
	}
	n, ok := types.Unalias(t).(*types.Named)
	if !ok || n.Obj().Pkg() == nil {
		return nil
	}
	if b, ok := n.Underlying().(*types.Basic); !ok || b.Info()&types.IsInteger == 0 {
		return nil
	}
	e := &Enum{Type: n, ByVal: map[string][]*types.Const{}}
	seen := map[*types.Const]bool{}
	for _, p := range g.c.All {
		for id, obj := range p.TypesInfo.Uses {
			k, ok := obj.(*types.Const)
			if !ok || k.Pkg() != n.Obj().Pkg() || seen[k] || k.Parent() != k.Pkg().Scope() {
				continue
			}
			if _, untyped := k.Type().(*types.Basic); !untyped {
				continue
			}
			var tv types.TypeAndValue
			var found bool
			if tv, found = p.TypesInfo.Types[id]; !found {
				continue
			}
			if types.Identical(tv.Type, n) {
				seen[k] = true
				e.Consts = append(e.Consts, k)
			}
		}
		// qualified uses pkg.Const are recorded on the selector expression
		for ex, tv := range p.TypesInfo.Types {
			sel, ok := ex.(*ast.SelectorExpr)
			if !ok || !types.Identical(tv.Type, n) {
				continue
			}
			if k, ok := p.TypesInfo.Uses[sel.Sel].(*types.Const); ok && !seen[k] && k.Pkg() == n.Obj().Pkg() && k.Parent() == k.Pkg().Scope() {
				if _, untyped := k.Type().(*types.Basic); untyped {
					seen[k] = true
					e.Consts = append(e.Consts, k)
				}
			}
		}
	}
	if len(e.Consts) < 2 {
		return nil
	}
	sort.Slice(e.Consts, func(i, j int) bool { return e.Consts[i].Pos() < e.Consts[j].Pos() })
	for _, k := range e.Consts {
		e.ByVal[k.Val().ExactString()] = append(e.ByVal[k.Val().ExactString()], k)
		g.constEnum[k] = n.Obj()
	}
	return e
}

// ---------------------------------------------------------------- evaluation

type opsEv struct {
	cfg   *opsCfg
	info  *types.Info
	depth int
	spawn func(prefix []int) // request a re-run of the enclosing walk with this choice prefix
}

func (ev *opsEv) valOfConst(k *types.Const) opsVal {
	if ev.cfg.g.constEnum[k] != nil {
		return opsVal{k: ovConst, c: k}
	}
	if tn := opsTypeName(k.Type()); tn != nil {
		g := ev.cfg.g
		is, ok := g.enumMemo[tn]
		if !ok {
			is = g.c.EnumOf(k.Type()) != nil
			g.enumMemo[tn] = is
		}
		if is {
			return opsVal{k: ovConst, c: k}
		}
	}
	return opsVal{k: ovLit, lit: k.Val()}
}

func (ev *opsEv) eval(st *opsSt, e ast.Expr) (out opsVal) {
	if e == nil {
		return opsVal{}
	}
	info := ev.info
	switch x := e.(type) {
	case *ast.ParenExpr:
		return ev.eval(st, x.X)
	case *ast.StarExpr:
		return ev.eval(st, x.X)
	case *ast.BasicLit:
		if tv, ok := info.Types[x]; ok && tv.Value != nil {
			return opsVal{k: ovLit, lit: tv.Value}
		}
		return opsVal{}
	case *ast.Ident:
		obj := info.Uses[x]
		if obj == nil {
			obj = info.Defs[x]
		}
		switch o := obj.(type) {
		case *types.Const:
			return ev.valOfConst(o)
		case *types.Var:
			if v, ok := st.env[o]; ok {
				return v
			}
			return ev.pkgTable(o)
		case *types.Nil:
			return opsVal{k: ovNil}
		}
		return opsVal{}
	case *ast.SelectorExpr:
		if k, ok := info.Uses[x.Sel].(*types.Const); ok {
			return ev.valOfConst(k)
		}
		if pv, ok := info.Uses[x.Sel].(*types.Var); ok && !pv.IsField() {
			return ev.pkgTable(pv) // pkg.Table
		}
		sel := info.Selections[x]
		if sel == nil || sel.Kind() != types.FieldVal {
			return opsVal{}
		}
		base := ev.eval(st, x.X)
		ft := sel.Obj().Type()
		switch base.k {
		case ovRecord:
			if fv, ok := base.rec[x.Sel.Name]; ok {
				return fv
			}
			// a field the literal does not set (or sets to something unknown)
			if base.recT != nil {
				for i := 0; i < base.recT.NumFields(); i++ {
					if base.recT.Field(i).Name() == x.Sel.Name && base.rec[x.Sel.Name+"\x00set"].k == ovUnknown {
						return ev.zeroOf(ft)
					}
				}
			}
			return opsVal{}
		case ovNode:
			if tn := opsTypeName(ft); tn != nil {
				if k := ev.cfg.nodeDims[tn]; k != nil {
					return opsVal{k: ovConst, c: k}
				}
			}
			if ev.cfg.g.isExprIface(ft) {
				if owner := opsTypeName(base.nodeT); owner != nil {
					if r := ev.cfg.g.childRole(owner, x.Sel.Name); r > 0 {
						return opsVal{k: ovSrc, role: r}
					}
				}
			}
		case ovOperand:
			if !base.inner {
				if _, ok := ft.Underlying().(*types.Basic); ok {
					base.inner = true
					base.innerT = ft
					return base
				}
			}
		}
		return opsVal{}
	case *ast.UnaryExpr:
		v := ev.eval(st, x.X)
		if x.Op == token.AND {
			if v.k == ovUnknown || v.k == ovNil {
				return opsVal{k: ovNonNil}
			}
			return v
		}
		if x.Op == token.NOT {
			switch v.k {
			case ovLit:
				if v.lit.Kind() == constant.Bool {
					return opsVal{k: ovLit, lit: constant.MakeBool(!constant.BoolVal(v.lit))}
				}
			case ovCmp:
				if nt := opsNegate(v.cmp.tok); nt != token.ILLEGAL {
					return opsVal{k: ovCmp, cmp: &opsCmp{x: v.cmp.x, tok: nt, lit: v.cmp.lit}}
				}
				return opsVal{}
			}
		}
		if v.k == ovOperand && v.inner {
			st.ev = append(st.ev, opsEvent{k: oeUnary, tok: x.Op, x: v, goT: info.TypeOf(x.X), pos: x.Pos()})
			return opsVal{k: ovApplied}
		}
		return opsVal{}
	case *ast.BinaryExpr:
		l := ev.eval(st, x.X)
		r := ev.eval(st, x.Y)
		if l.k == ovOperand && l.inner && r.k == ovOperand && r.inner {
			st.ev = append(st.ev, opsEvent{k: oeApply, tok: x.Op, x: l, y: r, goT: info.TypeOf(x.X), pos: x.OpPos})
			return opsVal{k: ovApplied}
		}
		switch x.Op {
		case token.EQL, token.NEQ:
			if l.k == ovConst && r.k == ovConst {
				return opsVal{k: ovLit, lit: constant.MakeBool(opsSameConst(l.c, r.c) == (x.Op == token.EQL))}
			}
			isNil := func(v opsVal) (known, null bool) {
				switch v.k {
				case ovNil:
					return true, true
				case ovNonNil:
					return true, false
				}
				return false, false
			}
			if lk, ln := isNil(l); lk {
				if rk, rn := isNil(r); rk && (ln || rn) {
					return opsVal{k: ovLit, lit: constant.MakeBool((ln == rn) == (x.Op == token.EQL))}
				}
			}
			if l.k == ovLit && r.k == ovLit && l.lit.Kind() == r.lit.Kind() && l.lit.Kind() != constant.Unknown {
				return opsVal{k: ovLit, lit: constant.MakeBool(constant.Compare(l.lit, x.Op, r.lit))}
			}
			fallthrough
		case token.LSS, token.LEQ, token.GTR, token.GEQ:
			if l.k == ovConst && r.k == ovConst && ev.cfg.g.enumTypeOf(l.c) == ev.cfg.g.enumTypeOf(r.c) {
				// a range test over the constants of one enum
				return opsVal{k: ovLit, lit: constant.MakeBool(constant.Compare(l.c.Val(), x.Op, r.c.Val()))}
			}
			op := x.Op
			if l.k == ovLit && r.k == ovOperand {
				l, r = r, l
				op = opsFlip(op)
			}
			if l.k == ovOperand && l.inner && r.k == ovLit {
				return opsVal{k: ovCmp, cmp: &opsCmp{x: l, tok: op, lit: r.lit}}
			}
		case token.LAND, token.LOR:
			if l.k == ovLit && r.k == ovLit && l.lit.Kind() == constant.Bool && r.lit.Kind() == constant.Bool {
				a, b := constant.BoolVal(l.lit), constant.BoolVal(r.lit)
				if x.Op == token.LAND {
					return opsVal{k: ovLit, lit: constant.MakeBool(a && b)}
				}
				return opsVal{k: ovLit, lit: constant.MakeBool(a || b)}
			}
		}
		return opsVal{}
	case *ast.TypeAssertExpr:
		v := ev.eval(st, x.X)
		if x.Type == nil {
			return v
		}
		return ev.assert(st, v, info.TypeOf(x.Type), x.Pos())
	case *ast.CompositeLit:
		res := opsVal{}
		lt := info.TypeOf(x)
		if dm := ev.cfg.diag; dm != nil && lt != nil && dm.isDiagType(lt) {
			res = opsVal{k: ovDiag}
		}
		var lst *types.Struct
		if lt != nil {
			lst, _ = lt.Underlying().(*types.Struct)
		}
		if lt != nil && res.k == ovUnknown && ev.cfg.g.implementsInstr(lt) {
			res = opsVal{k: ovInstr}
		}
		if tn := opsTypeName(lt); tn != nil && lst != nil && res.k == ovUnknown {
			// a runtime value written as a literal instead of through its constructor
			if k := ev.cfg.g.kindOf(tn); k != nil {
				for dt := range ev.cfg.opndDims {
					if ev.cfg.g.enumTypeOf(k) == dt {
						st.ev = append(st.ev, opsEvent{k: oeConstruct, c: k, pos: x.Pos()})
					}
				}
			}
		}
		nev := len(st.ev)
		defer func() {
			// a literal of map / slice / array type whose parts have no effects is a table
			if lt == nil || res.k != ovUnknown || opsEffects(st.ev, nev) != 0 {
				return
			}
			switch lt.Underlying().(type) {
			case *types.Map, *types.Slice, *types.Array:
				out = ev.cfg.g.tableOf(info, x)
			}
		}()
		var rec map[string]opsVal
		if lst != nil && res.k == ovUnknown {
			rec = map[string]opsVal{}
			defer func() {
				// a plain struct literal: a record of its fields. A field that is set to a value that is not
				// known is remembered as set (so that it does not read as the zero value)
				if out.k == ovUnknown && opsEffects(st.ev, nev) == 0 {
					known := false
					for k, fv := range rec {
						if !strings.HasSuffix(k, "\x00set") && fv.k != ovUnknown {
							known = true
						}
					}
					if known || len(x.Elts) == 0 {
						out = opsVal{k: ovRecord, rec: rec, recT: lst}
					}
				}
			}()
		}
		setField := func(name string, v opsVal) {
			if rec == nil {
				return
			}
			switch v.k {
			case ovConst, ovLit, ovTable, ovRecord, ovNil:
				rec[name] = v
			default:
				rec[name+"\x00set"] = opsVal{k: ovNonNil}
			}
		}
		for i, el := range x.Elts {
			if kv, ok := el.(*ast.KeyValueExpr); ok {
				v := ev.eval(st, kv.Value)
				if id, ok := kv.Key.(*ast.Ident); ok && lst != nil {
					setField(id.Name, v)
				}
				if id, ok := kv.Key.(*ast.Ident); ok && v.k == ovConst && lst != nil {
					st.ev = append(st.ev, opsEvent{k: oeField, name: id.Name, c: v.c, pos: kv.Pos()})
					if res.k == ovDiag && ev.cfg.g.enumTypeOf(v.c) == ev.cfg.diag.levelT {
						res.c = v.c
					}
					if res.k == ovInstr && res.c == nil && ev.cfg.g.enumTypeOf(v.c) == ev.cfg.g.opcodeT {
						res.c = v.c
					}
				}
			} else {
				v := ev.eval(st, el)
				if lst != nil && i < lst.NumFields() {
					setField(lst.Field(i).Name(), v)
				}
				if v.k == ovConst && lst != nil && i < lst.NumFields() {
					// positional struct literal: same event as the keyed form
					st.ev = append(st.ev, opsEvent{k: oeField, name: lst.Field(i).Name(), c: v.c, pos: el.Pos()})
					if res.k == ovDiag && ev.cfg.g.enumTypeOf(v.c) == ev.cfg.diag.levelT {
						res.c = v.c
					}
					if res.k == ovInstr && res.c == nil && ev.cfg.g.enumTypeOf(v.c) == ev.cfg.g.opcodeT {
						res.c = v.c
					}
				}
			}
		}
		return res
	case *ast.IndexExpr:
		t := ev.eval(st, x.X)
		i := ev.eval(st, x.Index)
		if t.k == ovTable {
			v, _, _ := ev.lookup(st, t.tbl, i)
			return v
		}
		return opsVal{}
	case *ast.SliceExpr:
		ev.eval(st, x.X)
		return opsVal{}
	case *ast.KeyValueExpr:
		return ev.eval(st, x.Value)
	case *ast.FuncLit:
		// the literal with the bindings of its free variables (it may be called from another function)
		fenv := make(map[types.Object]opsVal, len(st.env))
		for k, v := range st.env {
			fenv[k] = v
		}
		return opsVal{k: ovFunc, fn: x, fenv: fenv, finfo: info}
	case *ast.CallExpr:
		return ev.call(st, x)
	}
	return opsVal{}
}

// assert models a single-result type assertion v.(T).
func (ev *opsEv) assert(st *opsSt, v opsVal, T types.Type, pos token.Pos) opsVal {
	tn := opsTypeName(T)
	switch v.k {
	case ovNode:
		if tn != nil {
			if k := ev.cfg.g.kindOf(tn); k != nil {
				if a := ev.cfg.nodeDims[ev.cfg.g.enumTypeOf(k)]; a != nil && !opsSameConst(a, k) {
					st.dead = fmt.Sprintf("type assertion to %s fails for node kind %s", tn.Name(), a.Name())
				}
			}
		}
		return opsVal{k: ovNode, nodeT: T}
	case ovSrc:
		// a child asserted to a concrete node type: a different node, not an operand
		return opsVal{k: ovNode, nodeT: T}
	case ovOperand:
		if tn != nil && !v.inner {
			if k := ev.cfg.g.kindOf(tn); k != nil {
				if a := ev.cfg.opndDims[ev.cfg.g.enumTypeOf(k)]; a != nil && !opsSameConst(a, k) {
					st.dead = fmt.Sprintf("operand#%d asserted to %s but holds a value of kind %s", v.role, tn.Name(), a.Name())
				}
			}
		}
		return v
	}
	return v
}

// opsEffects: the number of events after position from, not counting the notes about literal fields.
func opsEffects(ev []opsEvent, from int) int {
	n := 0
	for i := from; i < len(ev); i++ {
		if ev[i].k != oeField {
			n++
		}
	}
	return n
}

// zeroOf: the zero value of t (for an enum the constant with value 0, when there is exactly one).
func (ev *opsEv) zeroOf(t types.Type) opsVal {
	if v := opsZeroOf(t); v.k != ovUnknown {
		return v
	}
	if en := ev.cfg.g.opsEnumOf(t); en != nil {
		if ks := en.ByVal["0"]; len(ks) == 1 {
			return opsVal{k: ovConst, c: ks[0]}
		}
	}
	return opsVal{}
}

// assertHolds: does v.(T) succeed under the assumed dimensions (1 yes, 0 no, -1 not decidable).
func (ev *opsEv) assertHolds(v opsVal, T types.Type) int {
	tn := opsTypeName(T)
	if tn == nil {
		return -1
	}
	if _, isIface := tn.Type().Underlying().(*types.Interface); isIface {
		return -1
	}
	k := ev.cfg.g.kindOf(tn)
	if k == nil {
		return -1
	}
	var a *types.Const
	switch {
	case v.k == ovNode:
		a = ev.cfg.nodeDims[ev.cfg.g.enumTypeOf(k)]
	case v.k == ovOperand && !v.inner:
		a = ev.cfg.opndDims[ev.cfg.g.enumTypeOf(k)]
	}
	if a == nil {
		return -1
	}
	if opsSameConst(a, k) {
		return 1
	}
	return 0
}

func (ev *opsEv) isChildEval(fn *types.Func) bool {
	sig := fn.Type().(*types.Signature)
	if sig.Recv() == nil || opsTypeName(sig.Recv().Type()) != ev.cfg.recv {
		return false
	}
	return sig.Params().Len() == 1 && ev.cfg.g.isExprIface(sig.Params().At(0).Type())
}

func (ev *opsEv) call(st *opsSt, call *ast.CallExpr) opsVal {
	info := ev.info
	g := ev.cfg.g
	// conversion T(x)
	if tv, ok := info.Types[call.Fun]; ok && tv.IsType() {
		if len(call.Args) != 1 {
			return opsVal{}
		}
		v := ev.eval(st, call.Args[0])
		if v.k == ovOperand && v.inner {
			v.convs = append(append([]types.Type(nil), v.convs...), tv.Type)
			return v
		}
		if v.k == ovConst {
			// conversion between enums: the constant of the target enum with the same value
			if opsTypeName(tv.Type) == g.enumTypeOf(v.c) {
				return v
			}
			if en := g.opsEnumOf(tv.Type); en != nil {
				if ks := en.ByVal[v.c.Val().ExactString()]; len(ks) == 1 {
					return opsVal{k: ovConst, c: ks[0]}
				}
			}
			return opsVal{}
		}
		if v.k == ovLit || v.k == ovApplied {
			return v
		}
		return opsVal{}
	}
	// builtins
	if id, ok := ast.Unparen(call.Fun).(*ast.Ident); ok {
		if b, ok := info.Uses[id].(*types.Builtin); ok {
			vals := make([]opsVal, len(call.Args))
			for i, a := range call.Args {
				vals[i] = ev.eval(st, a)
			}
			// make(map[K]V): an empty table (filled by element stores)
			if b.Name() == "make" && len(call.Args) >= 1 {
				if mt, ok := info.TypeOf(call.Args[0]).Underlying().(*types.Map); ok {
					return opsVal{k: ovTable, tbl: &opsTable{info: info, isMap: true, elemT: mt.Elem()}}
				}
			}
			// append(<the Analyzer's diagnostic list>, <diagnostic of level Error>): an error report written in place
			if dm := ev.cfg.diag; dm != nil && b.Name() == "append" && len(call.Args) >= 2 && dm.diagListField(info, call.Args[0]) != nil {
				for _, v := range vals[1:] {
					if v.k == ovDiag && dm.isErrLevel(v.c) {
						st.ev = append(st.ev, opsEvent{k: oeError, pos: call.Pos()})
						break
					}
				}
			}
			return opsVal{}
		}
	}
	callee := CalleeOf(info, call)
	var recvVal opsVal
	hasRecv := false
	if sel, ok := ast.Unparen(call.Fun).(*ast.SelectorExpr); ok {
		if s := info.Selections[sel]; s != nil {
			hasRecv = true
			recvVal = ev.eval(st, sel.X)
		}
	}
	args := make([]opsVal, len(call.Args))
	for i, a := range call.Args {
		args[i] = ev.eval(st, a)
	}
	if callee == nil {
		// a function literal bound to a local (closure helper): walked in place with the current bindings
		var lit *ast.FuncLit
		var fenv map[types.Object]opsVal
		linfo := info
		switch f := ast.Unparen(call.Fun).(type) {
		case *ast.Ident:
			if obj, ok := info.Uses[f].(*types.Var); ok {
				if fv := st.env[obj]; fv.k == ovFunc {
					lit, fenv = fv.fn, fv.fenv
					if fv.finfo != nil {
						linfo = fv.finfo
					}
				}
			}
		case *ast.FuncLit:
			lit = f
		}
		if lit != nil && ev.depth < ev.cfg.maxDepth+1 && !call.Ellipsis.IsValid() {
			// free variables: the bindings at the literal, overridden by the current ones (a closure called in
			// the function that defines it sees later assignments)
			bind := make(map[types.Object]opsVal, len(st.env)+len(fenv)+len(args))
			for k, v := range fenv {
				bind[k] = v
			}
			for k, v := range st.env {
				bind[k] = v
			}
			n := 0
			for _, fl := range lit.Type.Params.List {
				for _, nm := range fl.Names {
					if n < len(args) {
						bind[linfo.Defs[nm]] = args[n]
					}
					n++
				}
			}
			sub, ok := g.walkBody(ev.cfg, lit.Body, lit.End(), linfo, bind, ev.depth+1, st.nPop)
			if !ok || len(sub) == 0 {
				return opsVal{}
			}
			return ev.enter(st, sub)
		}
		return opsVal{}
	}
	sig, _ := callee.Type().(*types.Signature)
	if sig == nil {
		return opsVal{}
	}
	if ev.cfg.isPop != nil && ev.cfg.isPop(callee) {
		st.nPop++
		st.ev = append(st.ev, opsEvent{k: oePop, role: st.nPop, pos: call.Pos()})
		return opsVal{k: ovOperand, role: st.nPop}
	}
	if len(args) == 1 && args[0].k == ovSrc && ev.isChildEval(callee) {
		st.ev = append(st.ev, opsEvent{k: oeAcquire, role: args[0].role, pos: call.Pos()})
		return opsVal{k: ovOperand, role: args[0].role}
	}
	if ev.cfg.isErr != nil && ev.cfg.isErr(callee, args) {
		st.ev = append(st.ev, opsEvent{k: oeError, pos: call.Pos()})
		return opsVal{}
	}
	if dm := ev.cfg.diag; dm != nil {
		// a diagnostic constructor: the level it is given / it fixes
		if ct := dm.diagCtors[callee]; ct != nil {
			v := opsVal{k: ovDiag}
			switch ct.k {
			case orConst:
				v.c = ct.c
			case orParam:
				if ct.param < len(args) && args[ct.param].k == ovConst {
					v.c = args[ct.param].c
				}
			}
			return v
		}
	}
	// membership in a table written as data: slices.Contains(tbl, k)
	if callee.Pkg() != nil && callee.Pkg().Path() == "slices" && callee.Name() == "Contains" && len(args) == 2 && args[0].k == ovTable {
		if has, known := ev.contains(args[0].tbl, args[1]); known {
			return opsVal{k: ovLit, lit: constant.MakeBool(has)}
		}
		return opsVal{}
	}
	// nullary method: a dimension, or a transparent accessor (.Type())
	if hasRecv && len(args) == 0 && sig.Results().Len() == 1 {
		rt := sig.Results().At(0).Type()
		if tn := opsTypeName(rt); tn != nil {
			if k := ev.cfg.nodeDims[tn]; k != nil && recvVal.k == ovNode {
				return opsVal{k: ovConst, c: k}
			}
			if k, isDim := ev.cfg.opndDims[tn]; isDim && (recvVal.k == ovSrc || recvVal.k == ovOperand) && !recvVal.inner {
				if k != nil && (!ev.cfg.primaryOnly || recvVal.role == 1) {
					return opsVal{k: ovConst, c: k}
				}
				return opsVal{}
			}
		}
		if recvVal.k == ovSrc || (recvVal.k == ovOperand && !recvVal.inner) {
			if _, isBasic := rt.Underlying().(*types.Basic); !isBasic {
				recvVal.via = true
				return recvVal
			}
		}
	}
	// instruction constructors and the emitter
	if g.instrIf != nil {
		if res := sig.Results(); res.Len() == 1 && g.implementsInstr(res.At(0).Type()) && sig.Recv() == nil {
			v := opsVal{k: ovInstr}
			// the opcode: the argument of the opcode enum type (by type, wherever it stands)
			for _, a := range args {
				if a.k == ovConst && g.opcodeT != nil && g.enumTypeOf(a.c) == g.opcodeT {
					v.c = a.c
					break
				}
			}
			if v.c == nil && len(args) > 0 && args[0].k == ovConst {
				v.c = args[0].c
			}
			if v.c == nil {
				// the constructor fixes the opcode itself (newCastInstruction)
				if fd := g.decls[callee]; fd != nil && ev.depth < ev.cfg.maxDepth {
					if sub, ok := g.walk(ev.cfg, fd, ev.bindParams(fd, opsVal{}, false, args), ev.depth+1, st.nPop); ok {
						var k *types.Const
						uniq := true
						for _, p := range sub {
							if p.out == cPanic {
								continue
							}
							if len(p.ret) != 1 || p.ret[0].k != ovInstr || p.ret[0].c == nil || (k != nil && k != p.ret[0].c) {
								uniq = false
								break
							}
							k = p.ret[0].c
						}
						if uniq {
							v.c = k
						}
					}
				}
			}
			return v
		}
		if sig.Recv() != nil && opsTypeName(sig.Recv().Type()) == ev.cfg.recv {
			for _, a := range args {
				if a.k == ovInstr {
					st.ev = append(st.ev, opsEvent{k: oeEmit, c: a.c, name: callee.Name(), pos: call.Pos()})
					return opsVal{}
				}
			}
		}
	}
	if k := g.constructs(callee); k != nil {
		st.ev = append(st.ev, opsEvent{k: oeConstruct, c: k, pos: call.Pos()})
	}
	// a 2-argument function of another module applied to both operand payloads (math.Pow)
	if len(args) == 2 && g.decls[callee] == nil && args[0].k == ovOperand && args[0].inner && args[1].k == ovOperand && args[1].inner {
		name := callee.Name()
		if callee.Pkg() != nil {
			name = callee.Pkg().Name() + "." + name
		}
		st.ev = append(st.ev, opsEvent{k: oeApply, fn: name, x: args[0], y: args[1], pos: call.Pos()})
		return opsVal{k: ovApplied}
	}
	// results known not to be nil (error constructors)
	nonNil := func() opsVal {
		if sig.Results().Len() == 1 && g.decls[callee] != nil && g.nonNilResults(callee)&1 != 0 {
			return opsVal{k: ovNonNil}
		}
		return opsVal{}
	}
	// inline statically bound helpers that receive a dimension value, a node or an operand
	fd := g.decls[callee]
	if fd == nil || ev.depth >= ev.cfg.maxDepth {
		return nonNil()
	}
	if fn := ast.Unparen(call.Fun); hasRecv {
		if s := info.Selections[fn.(*ast.SelectorExpr)]; s != nil && types.IsInterface(s.Recv()) {
			return opsVal{}
		}
	}
	interesting := func(v opsVal) bool {
		switch v.k {
		case ovConst:
			tn := g.enumTypeOf(v.c)
			_, a := ev.cfg.nodeDims[tn]
			_, b := ev.cfg.opndDims[tn]
			return a || b || ev.cfg.trigger[tn]
		case ovNode:
			return true
		case ovSrc, ovOperand:
			return !v.via
		case ovCmp:
			return true
		case ovTuple:
			return true
		case ovFunc:
			return true // a callback: what it does happens inside the callee
		}
		return false
	}
	trig := hasRecv && recvVal.k != ovNode && interesting(recvVal)
	// a method of the dispatched node itself (declared on the node's own type) that yields a truth value or a
	// dimension / operator constant: an accessor such as node.IsCompound()
	if hasRecv && recvVal.k == ovNode && sig.Recv() != nil && opsTypeName(sig.Recv().Type()) != nil && opsTypeName(sig.Recv().Type()) == opsTypeName(recvVal.nodeT) {
		for i := 0; i < sig.Results().Len(); i++ {
			rt := sig.Results().At(i).Type()
			if opsIsBool(rt) {
				trig = true
			}
			if tn := opsTypeName(rt); tn != nil {
				_, a := ev.cfg.nodeDims[tn]
				_, b := ev.cfg.opndDims[tn]
				if a || b || ev.cfg.trigger[tn] {
					trig = true
				}
			}
		}
	}
	for _, a := range args {
		if interesting(a) {
			trig = true
		}
	}
	if ev.cfg.inlineAlways != nil && ev.cfg.inlineAlways(callee) {
		trig = true
	}
	// a helper of the engine's own package that yields a dimension / operator / opcode constant or an
	// instruction (e.g. the get/set opcodes of a variable): its result matters whatever it receives
	if !trig && callee.Pkg() != nil && ev.cfg.recv != nil && callee.Pkg() == ev.cfg.recv.Pkg() {
		for i := 0; i < sig.Results().Len(); i++ {
			rt := sig.Results().At(i).Type()
			if tn := opsTypeName(rt); tn != nil {
				if _, isPtr := types.Unalias(rt).(*types.Pointer); isPtr {
					continue
				}
				_, a := ev.cfg.nodeDims[tn]
				_, b := ev.cfg.opndDims[tn]
				if a || b || ev.cfg.trigger[tn] {
					trig = true
				}
			}
		}
	}
	if !trig || sig.Variadic() {
		return nonNil()
	}
	g.inlines++
	sub, ok := g.walk(ev.cfg, fd, ev.bindParams(fd, recvVal, hasRecv, args), ev.depth+1, st.nPop)
	if !ok || len(sub) == 0 {
		return opsVal{}
	}
	return ev.enter(st, sub)
}

// bindParams binds the receiver and the parameters of fd to the evaluated
// receiver / arguments of a call.
func (ev *opsEv) bindParams(fd *ast.FuncDecl, recvVal opsVal, hasRecv bool, args []opsVal) map[types.Object]opsVal {
	bind := map[types.Object]opsVal{}
	cinfo := ev.cfg.g.info(fd)
	if fd.Recv != nil && len(fd.Recv.List) > 0 && len(fd.Recv.List[0].Names) > 0 && hasRecv {
		bind[cinfo.Defs[fd.Recv.List[0].Names[0]]] = recvVal
	}
	// f(g()) with a multi-result g: the tuple is spread over the parameters
	if len(args) == 1 && args[0].k == ovTuple {
		args = args[0].tup
	}
	i := 0
	for _, f := range fd.Type.Params.List {
		for _, n := range f.Names {
			if i < len(args) {
				bind[cinfo.Defs[n]] = args[i]
			}
			i++
		}
	}
	return bind
}

func opsRetVal(ret []opsVal) opsVal {
	switch len(ret) {
	case 0:
		return opsVal{}
	case 1:
		return ret[0]
	}
	return opsVal{k: ovTuple, tup: append([]opsVal(nil), ret...)}
}

func opsAltKey(p opsPath) string {
	var b strings.Builder
	b.WriteString(p.render())
	for _, r := range p.ret {
		b.WriteString("|")
		b.WriteString(r.String())
	}
	fmt.Fprintf(&b, "|%d", p.pop)
	return b.String()
}

// enter continues the caller's path through an inlined callee. A callee with a
// single behaviour is spliced in. A callee with several alternatives (early
// error return, guard, ...) makes the caller's walk fork: this path takes the
// alternative recorded in its choice list, the walk is re-run for the others
// (walkBody), so that the events of an alternative and the values it returns
// stay correlated.
func (ev *opsEv) enter(st *opsSt, sub []opsPath) opsVal {
	var alts []opsPath
	seen := map[string]bool{}
	for _, p := range sub {
		k := opsAltKey(p)
		if !seen[k] {
			seen[k] = true
			alts = append(alts, p)
		}
	}
	j := 0
	if len(alts) > 1 {
		n := st.nFork
		st.nFork++
		if n < len(st.choices) {
			j = st.choices[n]
			if j >= len(alts) {
				// this choice prefix belongs to another call site reached with the same number of earlier
				// choices (the other arm of a branch): no such path here
				st.drop = true
				return opsVal{}
			}
		} else {
			for a := 1; a < len(alts) && ev.spawn != nil; a++ {
				ev.spawn(append(append([]int(nil), st.choices[:n]...), a))
			}
			st.choices = append(append([]int(nil), st.choices[:n]...), 0)
		}
	}
	a := alts[j]
	st.ev = append(st.ev, a.ev...)
	st.nPop = a.pop
	if a.out == cPanic {
		st.dead = a.why
		st.deadPos = a.pos
		return opsVal{}
	}
	return opsRetVal(a.ret)
}

func (g *opsEng) implementsInstr(t types.Type) bool {
	if g.instrIf == nil {
		return false
	}
	if opsTypeName(t) == g.instrIf {
		return true
	}
	iface, _ := g.instrIf.Type().Underlying().(*types.Interface)
	return iface != nil && opsTypeName(t) != nil && opsTypeName(t).Pkg() == g.instrIf.Pkg() && types.Implements(t, iface)
}

// ---------------------------------------------------------------- the walk

func opsNegate(t token.Token) token.Token {
	switch t {
	case token.EQL:
		return token.NEQ
	case token.NEQ:
		return token.EQL
	case token.LSS:
		return token.GEQ
	case token.GEQ:
		return token.LSS
	case token.GTR:
		return token.LEQ
	case token.LEQ:
		return token.GTR
	}
	return token.ILLEGAL
}

func opsFlip(t token.Token) token.Token {
	switch t {
	case token.LSS:
		return token.GTR
	case token.GTR:
		return token.LSS
	case token.LEQ:
		return token.GEQ
	case token.GEQ:
		return token.LEQ
	}
	return t
}

// walk enumerates the paths of fd under cfg's assumptions.
func (g *opsEng) walk(cfg *opsCfg, fd *ast.FuncDecl, bind map[types.Object]opsVal, depth, nPop int) (paths []opsPath, ok bool) {
	return g.walkBody(cfg, fd.Body, fd.End(), g.info(fd), bind, depth, nPop)
}

// walkBody: the walk is run once per choice prefix (see opsEv.enter); a run
// with prefix P contributes the paths that made at least len(P) choices.
func (g *opsEng) walkBody(cfg *opsCfg, body *ast.BlockStmt, end token.Pos, info *types.Info, bind map[types.Object]opsVal, depth, nPop int) (paths []opsPath, ok bool) {
	body = g.unrollTables(cfg, body, info)
	pending := [][]int{nil}
	queued := map[string]bool{"": true}
	runs := 0
	for len(pending) > 0 {
		prefix := pending[0]
		pending = pending[1:]
		runs++
		if runs > 400 {
			return nil, false
		}
		spawn := func(p []int) {
			k := fmt.Sprint(p)
			if !queued[k] {
				queued[k] = true
				pending = append(pending, p)
			}
		}
		ps, ok := g.walkOnce(cfg, body, end, info, bind, depth, nPop, prefix, spawn)
		if !ok {
			return nil, false
		}
		paths = append(paths, ps...)
		if len(paths) > 6000 {
			return nil, false
		}
	}
	return paths, true
}

func (g *opsEng) walkOnce(cfg *opsCfg, body *ast.BlockStmt, end token.Pos, info *types.Info, bind map[types.Object]opsVal, depth, nPop int, prefix []int, spawn func([]int)) (paths []opsPath, ok bool) {
	ev := &opsEv{cfg: cfg, info: info, depth: depth, spawn: spawn}
	st0 := &opsSt{env: map[types.Object]opsVal{}, nPop: nPop, choices: append([]int(nil), prefix...)}
	for k, v := range bind {
		if k != nil {
			st0.env[k] = v
		}
	}
	record := func(st *opsSt, out ctrlKind, why string, pos token.Pos) {
		if st.drop {
			return
		}
		if st.nFork < len(prefix) {
			return // enumerated by the run with the shorter prefix
		}
		paths = append(paths, opsPath{ev: st.ev, out: out, why: why, ret: st.ret, pos: pos, pop: st.nPop})
	}
	died := func(st *opsSt, pos token.Pos) bool {
		if st.dead != "" {
			if st.deadPos.IsValid() {
				pos = st.deadPos
			}
			record(st, cPanic, st.dead, pos)
			return true
		}
		return false
	}
	bindIdent := func(st *opsSt, l ast.Expr, v opsVal) {
		switch x := ast.Unparen(l).(type) {
		case *ast.Ident:
			if x.Name == "_" {
				return
			}
			obj := info.Defs[x]
			if obj == nil {
				obj = info.Uses[x]
			}
			if obj != nil {
				st.env[obj] = v
			}
		case *ast.IndexExpr:
			// t[k] = v on a local table: its content is no longer the literal's
			if id, ok := ast.Unparen(x.X).(*ast.Ident); ok {
				if obj := info.Uses[id]; obj != nil {
					if t, ok := st.env[obj]; ok && t.k == ovTable {
						st.env[obj] = opsVal{}
					}
				}
			}
		}
	}
	tsOf := map[ast.Stmt]*ast.TypeSwitchStmt{}
	ast.Inspect(body, func(n ast.Node) bool {
		if ts, ok := n.(*ast.TypeSwitchStmt); ok {
			tsOf[ts.Assign] = ts
		}
		return true
	})
	// tsClass: does clause type e match the assumed kind of the switched value v (1 yes, 0 no, -1 not decidable)
	tsClass := func(v opsVal, e ast.Expr) int {
		if id, ok := ast.Unparen(e).(*ast.Ident); ok {
			if _, isNil := info.Uses[id].(*types.Nil); isNil {
				if v.k == ovNode || v.k == ovOperand {
					return 0
				}
				return -1
			}
		}
		if v.via {
			return -1
		}
		return ev.assertHolds(v, info.TypeOf(e))
	}
	// enterTypeSwitch: called on the guard statement
	enterTypeSwitch := func(st *opsSt, s ast.Stmt, v opsVal) {
		st.tsVal = v
		st.tsSkip = false
		ts := tsOf[s]
		if ts == nil {
			return
		}
		hasDefault, certain := false, false
		for _, c := range ts.Body.List {
			cc := c.(*ast.CaseClause)
			if cc.List == nil {
				hasDefault = true
			}
			for _, e := range cc.List {
				if tsClass(v, e) == 1 {
					certain = true
				}
			}
		}
		if !hasDefault && certain {
			st.tsSkip = true
		}
	}
	isTypeSwitchGuard := func(e ast.Expr) (ast.Expr, bool) {
		ta, ok := ast.Unparen(e).(*ast.TypeAssertExpr)
		if ok && ta.Type == nil {
			return ta.X, true
		}
		return nil, false
	}
	w := &Walker[*opsSt]{
		Clone:    opsCloneSt,
		MaxPaths: 4000,
		IsPanic: func(s ast.Stmt) bool {
			if IsPanicCall(info, s) {
				return true
			}
			if es, ok := s.(*ast.ExprStmt); ok {
				if call, ok := ast.Unparen(es.X).(*ast.CallExpr); ok {
					return g.divergingCall(info, call)
				}
			}
			return false
		},
		OnStmt: func(st *opsSt, s ast.Stmt) (*opsSt, bool) {
			if st.tsSkip || st.drop {
				return st, false
			}
			if ub := g.unrollBind[s]; ub != nil {
				// one iteration of an unrolled table loop begins: the loop variables hold this element
				if ub.keyObj != nil {
					st.env[ub.keyObj] = opsVal{k: ovLit, lit: constant.MakeInt64(int64(ub.idx))}
				}
				if ub.valObj != nil {
					st.env[ub.valObj] = ev.pureEval(ub.tbl, ub.tbl.vals[ub.idx])
				}
				return st, true
			}
			switch x := s.(type) {
			case *ast.ExprStmt:
				if sx, ok := isTypeSwitchGuard(x.X); ok {
					enterTypeSwitch(st, s, ev.eval(st, sx))
					break
				}
				ev.eval(st, x.X)
			case *ast.AssignStmt:
				if len(x.Lhs) == 1 && len(x.Rhs) == 1 {
					if sx, ok := isTypeSwitchGuard(x.Rhs[0]); ok {
						enterTypeSwitch(st, s, ev.eval(st, sx))
						break
					}
				}
				if len(x.Lhs) == 1 && len(x.Rhs) == 1 && x.Tok == token.ASSIGN {
					// t[K] = v on a local map table: the table with that entry added
					if ix, ok := ast.Unparen(x.Lhs[0]).(*ast.IndexExpr); ok {
						if id, ok := ast.Unparen(ix.X).(*ast.Ident); ok {
							if obj := info.Uses[id]; obj != nil {
								if t, ok := st.env[obj]; ok && t.k == ovTable && t.tbl.isMap && t.tbl.info == info {
									ev.eval(st, ix.Index)
									ev.eval(st, x.Rhs[0])
									st.env[obj] = opsVal{k: ovTable, tbl: t.tbl.with(ix.Index, x.Rhs[0])}
									break
								}
							}
						}
					}
				}
				if len(x.Lhs) == 2 && len(x.Rhs) == 1 {
					if ta, ok := ast.Unparen(x.Rhs[0]).(*ast.TypeAssertExpr); ok {
						v := ev.eval(st, ta.X) // comma-ok: never panics
						switch ev.assertHolds(v, info.TypeOf(ta.Type)) {
						case 1:
							if v.k == ovNode {
								v = opsVal{k: ovNode, nodeT: info.TypeOf(ta.Type)}
							}
							bindIdent(st, x.Lhs[0], v)
							bindIdent(st, x.Lhs[1], opsVal{k: ovLit, lit: constant.MakeBool(true)})
						case 0:
							bindIdent(st, x.Lhs[0], opsVal{})
							bindIdent(st, x.Lhs[1], opsVal{k: ovLit, lit: constant.MakeBool(false)})
						default:
							bindIdent(st, x.Lhs[0], v)
							bindIdent(st, x.Lhs[1], opsVal{})
						}
						break
					}
					if ix, ok := ast.Unparen(x.Rhs[0]).(*ast.IndexExpr); ok {
						// v, ok := table[k]
						t := ev.eval(st, ix.X)
						k := ev.eval(st, ix.Index)
						if t.k == ovTable && t.tbl.isMap {
							v, found, known := ev.lookup(st, t.tbl, k)
							bindIdent(st, x.Lhs[0], v)
							if known {
								bindIdent(st, x.Lhs[1], opsVal{k: ovLit, lit: constant.MakeBool(found)})
							} else {
								bindIdent(st, x.Lhs[1], opsVal{})
							}
							break
						}
						bindIdent(st, x.Lhs[0], opsVal{})
						bindIdent(st, x.Lhs[1], opsVal{})
						break
					}
				}
				vals := make([]opsVal, len(x.Rhs))
				for i, r := range x.Rhs {
					vals[i] = ev.eval(st, r)
				}
				if x.Tok == token.ASSIGN || x.Tok == token.DEFINE {
					for i, l := range x.Lhs {
						v := opsVal{}
						switch {
						case len(x.Rhs) == len(x.Lhs):
							v = vals[i]
							if v.k == ovTuple {
								v = opsVal{}
							}
						case len(x.Rhs) == 1 && vals[0].k == ovTuple:
							if i < len(vals[0].tup) {
								v = vals[0].tup[i]
							}
						case i == 0:
							v = vals[0]
						}
						bindIdent(st, l, v)
					}
				} else {
					for _, l := range x.Lhs {
						bindIdent(st, l, opsVal{})
					}
				}
			case *ast.DeclStmt:
				if gd, ok := x.Decl.(*ast.GenDecl); ok {
					for _, sp := range gd.Specs {
						if vs, ok := sp.(*ast.ValueSpec); ok {
							var tup []opsVal
							if len(vs.Values) == 1 && len(vs.Names) > 1 {
								if v := ev.eval(st, vs.Values[0]); v.k == ovTuple {
									tup = v.tup
								}
							}
							for i, n := range vs.Names {
								v := opsVal{}
								switch {
								case tup != nil:
									if i < len(tup) {
										v = tup[i]
									}
								case len(vs.Values) == len(vs.Names):
									v = ev.eval(st, vs.Values[i])
								}
								if obj := info.Defs[n]; obj != nil {
									st.env[obj] = v
								}
							}
						}
					}
				}
			case *ast.ReturnStmt:
				st.ret = st.ret[:0]
				for _, r := range x.Results {
					st.ret = append(st.ret, ev.eval(st, r))
				}
				if len(st.ret) == 1 && st.ret[0].k == ovTuple {
					st.ret = append([]opsVal(nil), st.ret[0].tup...)
				}
			case *ast.IncDecStmt, *ast.GoStmt, *ast.SendStmt:
			}
			if died(st, s.Pos()) {
				return st, false
			}
			return st, true
		},
		OnDefer: func(st *opsSt, d *ast.DeferStmt) (*opsSt, bool) {
			if st.tsSkip || st.drop {
				return st, false
			}
			snap := make(map[types.Object]opsVal, len(st.env))
			for k, v := range st.env {
				snap[k] = v
			}
			st.deferred = append(st.deferred, opsDeferred{call: d.Call, env: snap})
			return st, true
		},
		OnCond: func(st *opsSt, cond ast.Expr, taken bool) (*opsSt, bool) {
			if st.tsSkip || st.drop {
				return st, false
			}
			v := ev.eval(st, cond)
			if died(st, cond.Pos()) {
				return st, false
			}
			switch v.k {
			case ovLit:
				if v.lit.Kind() == constant.Bool {
					return st, constant.BoolVal(v.lit) == taken
				}
			case ovCmp:
				op := v.cmp.tok
				if !taken {
					op = opsNegate(op)
				}
				pos := cond.Pos()
				if be, ok := cond.(*ast.BinaryExpr); ok {
					pos = be.OpPos
				}
				st.ev = append(st.ev, opsEvent{k: oeCond, x: v.cmp.x, tok: op, lit: v.cmp.lit, pos: pos})
			}
			return st, true
		},
		OnCase: func(st *opsSt, sw *ast.SwitchStmt, vals, others []ast.Expr) (*opsSt, bool) {
			if st.tsSkip || st.drop {
				return st, false
			}
			tag := ev.eval(st, sw.Tag)
			if died(st, sw.Pos()) {
				return st, false
			}
			if tag.k != ovConst {
				return st, true
			}
			match := func(list []ast.Expr) (hit bool, decidable bool) {
				decidable = true
				for _, v := range list {
					k := ConstOf(info, v)
					if k == nil {
						decidable = false
						continue
					}
					if opsSameConst(k, tag.c) {
						hit = true
					}
				}
				return
			}
			if vals == nil {
				hit, _ := match(others)
				if hit {
					return st, false
				}
				return st, true
			}
			hit, dec := match(vals)
			if hit {
				return st, true
			}
			return st, !dec
		},
		OnTypeCase: func(st *opsSt, sw *ast.TypeSwitchStmt, cc *ast.CaseClause) (*opsSt, bool) {
			v := st.tsVal
			st.tsSkip = false // this is a clause state (a clone), not the continuation behind the switch
			feasible := false
			if cc.List == nil {
				feasible = true
				for _, c := range sw.Body.List {
					for _, e := range c.(*ast.CaseClause).List {
						if tsClass(v, e) == 1 {
							feasible = false
						}
					}
				}
			} else {
				for _, e := range cc.List {
					if tsClass(v, e) != 0 {
						feasible = true
					}
				}
			}
			if !feasible {
				return st, false
			}
			if as, ok := sw.Assign.(*ast.AssignStmt); ok && len(as.Lhs) == 1 {
				if obj := info.Implicits[cc]; obj != nil {
					bv := v
					if v.k == ovNode && len(cc.List) == 1 {
						bv = opsVal{k: ovNode, nodeT: info.TypeOf(cc.List[0])}
					}
					st.env[obj] = bv
				}
			}
			return st, true
		},
		OnRange: func(st *opsSt, r *ast.RangeStmt) (*opsSt, bool) {
			if st.tsSkip || st.drop {
				return st, false
			}
			ev.eval(st, r.X)
			if r.Key != nil {
				bindIdent(st, r.Key, opsVal{})
			}
			if r.Value != nil {
				bindIdent(st, r.Value, opsVal{})
			}
			return st, true
		},
	}
	w.Exit = func(st *opsSt, o outcome) {
		if st.tsSkip || st.drop {
			return
		}
		if o.kind != cPanic && len(st.deferred) > 0 {
			// deferred calls run when the function returns, last first, with the arguments bound at the defer
			ret := append([]opsVal(nil), st.ret...)
			cur := st.env
			for i := len(st.deferred) - 1; i >= 0; i-- {
				st.env = st.deferred[i].env
				ev.eval(st, st.deferred[i].call)
			}
			st.env = cur
			st.ret = ret
			st.deferred = nil
			if died(st, o.at) {
				return
			}
		}
		switch o.kind {
		case cPanic:
			record(st, cPanic, "panic() statement", o.at)
		case cReturn:
			record(st, cReturn, "", o.at)
		default:
			record(st, cNormal, "", end)
		}
	}
	w.Run(body, st0)
	if w.Overflow {
		return nil, false
	}
	return paths, true
}

// ---------------------------------------------------------------- source order of node fields

// opsFieldOrder: the order in which the fields of an AST node struct occur in
// source text. Oracle: the node's own printer — the argument order of the
// `return fmt.Sprintf(...)` of its String() method, local variables traced
// back to the fields they are computed from. Fields the printer does not
// mention are unordered with respect to the others; when String() has another
// shape the declaration order is used and `how` says so.
type opsFieldOrder struct {
	rank map[string]int
	how  string
}

func (g *opsEng) fieldOrder(tn *types.TypeName) opsFieldOrder {
	if o, ok := g.ordMemo[tn]; ok {
		return o
	}
	st, _ := tn.Type().Underlying().(*types.Struct)
	res := opsFieldOrder{rank: map[string]int{}, how: "declaration order (String() not analysable)"}
	if st == nil {
		g.ordMemo[tn] = res
		return res
	}
	decl := func() {
		for i := 0; i < st.NumFields(); i++ {
			res.rank[st.Field(i).Name()] = i
		}
	}
	obj, _, _ := types.LookupFieldOrMethod(tn.Type(), true, tn.Pkg(), "String")
	fn, _ := obj.(*types.Func)
	fd := g.decls[fn]
	if fn == nil || fd == nil || fd.Recv == nil || len(fd.Recv.List[0].Names) == 0 || len(fd.Body.List) == 0 {
		decl()
		g.ordMemo[tn] = res
		return res
	}
	info := g.info(fd)
	recv := info.Defs[fd.Recv.List[0].Names[0]]
	// the printed text: the results of the return statements, locals traced back to what
	// they are computed / accumulated from, in statement order
	var rets []ast.Expr
	defs := map[types.Object][]ast.Expr{}
	rootVar := func(e ast.Expr) types.Object {
		for {
			switch x := ast.Unparen(e).(type) {
			case *ast.IndexExpr:
				e = x.X
				continue
			case *ast.UnaryExpr:
				if x.Op == token.AND {
					e = x.X
					continue
				}
			case *ast.StarExpr:
				e = x.X
				continue
			case *ast.Ident:
				o := info.Defs[x]
				if o == nil {
					o = info.Uses[x]
				}
				if v, ok := o.(*types.Var); ok && v != recv && !v.IsField() {
					return v
				}
			}
			return nil
		}
	}
	ast.Inspect(fd.Body, func(n ast.Node) bool {
		switch x := n.(type) {
		case *ast.FuncLit:
			return false
		case *ast.ReturnStmt:
			if len(x.Results) == 1 {
				rets = append(rets, x.Results[0])
			}
		case *ast.AssignStmt:
			for i, l := range x.Lhs {
				if o := rootVar(l); o != nil {
					if len(x.Rhs) == len(x.Lhs) {
						defs[o] = append(defs[o], x.Rhs[i])
					} else {
						defs[o] = append(defs[o], x.Rhs...)
					}
				}
			}
		case *ast.DeclStmt:
			if gd, ok := x.Decl.(*ast.GenDecl); ok {
				for _, sp := range gd.Specs {
					if vs, ok := sp.(*ast.ValueSpec); ok {
						for i, nm := range vs.Names {
							if o := info.Defs[nm]; o != nil && i < len(vs.Values) {
								defs[o] = append(defs[o], vs.Values[i])
							}
						}
					}
				}
			}
		case *ast.RangeStmt:
			for _, kv := range []ast.Expr{x.Key, x.Value} {
				if id, ok := kv.(*ast.Ident); ok {
					if o := info.Defs[id]; o != nil {
						defs[o] = append(defs[o], x.X)
					}
				}
			}
		case *ast.ExprStmt:
			// accumulation into a local: b.WriteString(x), fmt.Fprintf(&b, ...), list = append(list, x) is an AssignStmt
			if call, ok := ast.Unparen(x.X).(*ast.CallExpr); ok {
				if sel, ok := ast.Unparen(call.Fun).(*ast.SelectorExpr); ok {
					if o := rootVar(sel.X); o != nil {
						defs[o] = append(defs[o], call.Args...)
					} else if len(call.Args) > 1 {
						if o := rootVar(call.Args[0]); o != nil {
							defs[o] = append(defs[o], call.Args[1:]...)
						}
					}
				}
			}
		}
		return true
	})
	if len(rets) == 0 {
		decl()
		g.ordMemo[tn] = res
		return res
	}
	orderOf := func(e ast.Expr) []string {
		var order []string
		seenF := map[string]bool{}
		seenV := map[types.Object]bool{}
		var fieldsOf func(e ast.Expr)
		fieldsOf = func(e ast.Expr) {
			ast.Inspect(e, func(n ast.Node) bool {
				switch x := n.(type) {
				case *ast.SelectorExpr:
					if id, ok := x.X.(*ast.Ident); ok && info.Uses[id] == recv {
						if s := info.Selections[x]; s != nil && s.Kind() == types.FieldVal {
							if !seenF[x.Sel.Name] {
								seenF[x.Sel.Name] = true
								order = append(order, x.Sel.Name)
							}
							return false
						}
					}
				case *ast.Ident:
					if o, ok := info.Uses[x].(*types.Var); ok && o != recv && !seenV[o] {
						seenV[o] = true
						for _, d := range defs[o] {
							fieldsOf(d)
						}
					}
				}
				return true
			})
		}
		// a Sprint-style call: its arguments in order (the format string carries no fields)
		fieldsOf(e)
		return order
	}
	var order []string
	sprint := false
	for _, r := range rets {
		if o := orderOf(r); len(o) >= len(order) {
			order = o
			sprint = false
			if call, ok := ast.Unparen(r).(*ast.CallExpr); ok {
				if cal := CalleeOf(info, call); cal != nil && cal.Pkg() != nil && cal.Pkg().Path() == "fmt" && strings.HasPrefix(cal.Name(), "Sprint") {
					sprint = true
				}
			}
		}
	}
	// a printer that is not a Sprint call and shows fewer than two fields orders nothing: declaration order
	if len(order) == 0 || (len(order) < 2 && !sprint) {
		decl()
		g.ordMemo[tn] = res
		return res
	}
	for i, f := range order {
		res.rank[f] = i
	}
	res.how = "print order of " + tn.Name() + ".String()"
	g.ordMemo[tn] = res
	return res
}

// before reports whether field a precedes field b in source order; known is
// false when the oracle does not order the two.
func (o opsFieldOrder) before(a, b string) (before, known bool) {
	ra, oka := o.rank[a]
	rb, okb := o.rank[b]
	if !oka || !okb {
		return false, false
	}
	return ra < rb, true
}

// childRole: 1-based position of an expression-typed field among the
// expression-typed fields of the node in source order (0 = not a child).
func (g *opsEng) childRole(tn *types.TypeName, field string) int {
	st, _ := tn.Type().Underlying().(*types.Struct)
	if st == nil {
		return 0
	}
	ord := g.fieldOrder(tn)
	var kids []string
	for i := 0; i < st.NumFields(); i++ {
		if g.isExprIface(st.Field(i).Type()) {
			if _, ok := ord.rank[st.Field(i).Name()]; !ok {
				return 0 // not ordered by the oracle: undecidable here
			}
			kids = append(kids, st.Field(i).Name())
		}
	}
	sort.SliceStable(kids, func(i, j int) bool { return ord.rank[kids[i]] < ord.rank[kids[j]] })
	for i, k := range kids {
		if k == field {
			return i + 1
		}
	}
	return 0
}
