package main

// R-members: agreement of the three builtin-member tables (analyzer
// Type.Fields, VM Value.Fields, interpreter Value.Fields).

import (
	"fmt"
	"go/ast"
	"go/token"
	"go/types"
	"sort"
	"strings"
)

func init() {
	register(&Rule{ID: "R-members", Floor: 250, Run: ruleMembers,
		Doc: "for every (type kind x member) the analyzer's Type.Fields offers: the member exists in the VM's and in the interpreter's Value.Fields table of the corresponding value kind (otherwise the lookup site panics 'field not found' on an accepted program); for function members the declared parameter count equals 1 + the highest args[i] index the builtin closure reads (more = index-out-of-range panic, fewer = an accepted argument is ignored), every args[i] type assertion in the closure names the value kind of the declared parameter type (otherwise an accepted call panics on the assertion), and the constructor on every normal return path of the closure has the value kind of the declared return type (otherwise later typing-licensed assertions on the result panic); for conditionally offered members the set of inner kinds for which the analyzer offers the member is a subset of the kinds the runtime closure handles without reaching its panic default"})
}

// ---------------------------------------------------------------------------
// builtin closures
// ---------------------------------------------------------------------------

type mbRet struct {
	pos     token.Pos
	ctor    *mbCtor
	generic string // result is taken from the receiver / an argument unchanged
	text    string
}

type mbKindSwitch struct {
	pos     token.Pos
	tag     string
	handled mbKindSet
	panics  bool // unhandled kinds reach a panic
}

type mbClosure struct {
	lit      *ast.FuncLit
	via      string // wrapper / helper chain, for the witness
	maxIdx   int
	otherUse []string
	asserts  map[int][]*mbImpl
	rawUse   map[int]bool
	rets     []mbRet
	errs     map[string]bool // interrupt classes on error returns
	panics   int
	kindSw   []*mbKindSwitch
}

// closureOf resolves a table entry value to the builtin closure it stores:
// a function literal with a variadic parameter of the library's Value type,
// passed through a wrapper call, possibly via a helper returning that.
func (l *mbLib) closureOf(e ast.Expr, depth int) (*ast.FuncLit, string) {
	e = ast.Unparen(e)
	switch x := e.(type) {
	case *ast.FuncLit:
		if l.variadicArgs(x) != nil {
			return x, ""
		}
	case *ast.CallExpr:
		for _, a := range x.Args {
			if fl, ok := ast.Unparen(a).(*ast.FuncLit); ok && l.variadicArgs(fl) != nil {
				return fl, exprStr(x.Fun)
			}
		}
		if depth < 2 {
			fn := CalleeOf(l.info, x)
			if fd := l.decls[fn]; fd != nil && fn.Pkg() == l.pkg.Types {
				var found *ast.FuncLit
				via := ""
				n := 0
				mbInspectNoLit(fd.Body, func(nd ast.Node) bool {
					if r, ok := nd.(*ast.ReturnStmt); ok && len(r.Results) >= 1 {
						n++
						if fl, v := l.closureOf(r.Results[0], depth+1); fl != nil {
							found, via = fl, v
						}
					}
					return true
				})
				if n == 1 && found != nil {
					return found, fn.Name() + "→" + via
				}
			}
		}
	}
	return nil, ""
}

func (l *mbLib) variadicArgs(fl *ast.FuncLit) types.Object {
	ps := fl.Type.Params.List
	if len(ps) == 0 {
		return nil
	}
	last := ps[len(ps)-1]
	el, ok := last.Type.(*ast.Ellipsis)
	if !ok || len(last.Names) != 1 {
		return nil
	}
	if !l.isValueIface(l.info.TypeOf(el.Elt)) {
		return nil
	}
	return l.info.Defs[last.Names[0]]
}

var mbClosureCache = map[*ast.FuncLit]*mbClosure{}

func (l *mbLib) analyzeClosure(fl *ast.FuncLit, via string) *mbClosure {
	if c := mbClosureCache[fl]; c != nil {
		return c
	}
	c := &mbClosure{lit: fl, via: via, maxIdx: -1, asserts: map[int][]*mbImpl{}, rawUse: map[int]bool{}, errs: map[string]bool{}}
	argsObj := l.variadicArgs(fl)
	info := l.info
	// uses of args
	consumed := map[*ast.Ident]bool{}
	argIndex := func(e ast.Expr) (int, *ast.Ident, bool) {
		ix, ok := ast.Unparen(e).(*ast.IndexExpr)
		if !ok {
			return 0, nil, false
		}
		id, ok := ast.Unparen(ix.X).(*ast.Ident)
		if !ok || info.Uses[id] != argsObj {
			return 0, nil, false
		}
		tv := info.Types[ix.Index]
		if tv.Value == nil {
			return -1, id, true
		}
		var n int
		fmt.Sscan(tv.Value.ExactString(), &n)
		return n, id, true
	}
	// locals that merely name an argument: `first := args[0]` (defined once)
	aliasIdx := map[types.Object]int{}
	aliasDef := map[*ast.IndexExpr]bool{}
	{
		ndef := map[types.Object]int{}
		cand := map[types.Object]int{}
		ast.Inspect(fl.Body, func(n ast.Node) bool {
			as, ok := n.(*ast.AssignStmt)
			if !ok {
				return true
			}
			for k, lhs := range as.Lhs {
				lid, ok := lhs.(*ast.Ident)
				if !ok {
					continue
				}
				o := info.Defs[lid]
				if o == nil {
					o = info.Uses[lid]
				}
				if o == nil {
					continue
				}
				ndef[o]++
				if len(as.Lhs) == len(as.Rhs) && as.Tok == token.DEFINE {
					if i, _, ok := argIndex(as.Rhs[k]); ok && i >= 0 {
						cand[o] = i
						aliasDef[ast.Unparen(as.Rhs[k]).(*ast.IndexExpr)] = true
					}
				}
			}
			return true
		})
		for o, i := range cand {
			if ndef[o] == 1 {
				aliasIdx[o] = i
			}
		}
	}
	aliasOf := func(e ast.Expr) (int, bool) {
		id, ok := ast.Unparen(e).(*ast.Ident)
		if !ok {
			return 0, false
		}
		i, ok := aliasIdx[info.Uses[id]]
		return i, ok
	}
	assertedAlias := map[*ast.Ident]bool{}
	ast.Inspect(fl.Body, func(n ast.Node) bool {
		switch x := n.(type) {
		case *ast.TypeAssertExpr:
			if i, ok := aliasOf(x.X); ok && x.Type != nil {
				assertedAlias[ast.Unparen(x.X).(*ast.Ident)] = true
				if i > c.maxIdx {
					c.maxIdx = i
				}
				if im := l.implOfType(info.TypeOf(x.Type)); im != nil {
					c.asserts[i] = append(c.asserts[i], im)
				} else {
					c.otherUse = append(c.otherUse, "args["+fmt.Sprint(i)+"] asserted to "+exprStr(x.Type))
				}
				return false
			}
			if i, id, ok := argIndex(x.X); ok && i >= 0 && x.Type != nil {
				consumed[id] = true
				if i > c.maxIdx {
					c.maxIdx = i
				}
				if im := l.implOfType(info.TypeOf(x.Type)); im != nil {
					c.asserts[i] = append(c.asserts[i], im)
				} else {
					c.otherUse = append(c.otherUse, "args["+fmt.Sprint(i)+"] asserted to "+exprStr(x.Type))
				}
				return false
			}
		case *ast.IndexExpr:
			if i, id, ok := argIndex(x); ok {
				consumed[id] = true
				if i < 0 {
					c.otherUse = append(c.otherUse, "args indexed by non-constant "+exprStr(x.Index))
				} else {
					if i > c.maxIdx {
						c.maxIdx = i
					}
					if !aliasDef[x] || aliasIdx[mbAliasTarget(info, fl, x)] != i {
						c.rawUse[i] = true
					}
				}
				return false
			}
		}
		return true
	})
	// an alias used other than under a type assertion is a raw use of the argument
	ast.Inspect(fl.Body, func(n ast.Node) bool {
		if id, ok := n.(*ast.Ident); ok && !assertedAlias[id] {
			if o := info.Uses[id]; o != nil {
				if i, ok := aliasIdx[o]; ok {
					c.rawUse[i] = true
				}
			}
		}
		return true
	})
	ast.Inspect(fl.Body, func(n ast.Node) bool {
		if id, ok := n.(*ast.Ident); ok && info.Uses[id] == argsObj && !consumed[id] {
			c.otherUse = append(c.otherUse, "args used as a whole at "+l.c.Pos(id.Pos()))
		}
		return true
	})
	// returns, panics, kind switches (own body only)
	defs := mbCollectDefs(info, fl.Body)
	mbVisitStmts(fl.Body.List, nil, func(s ast.Stmt, stack []mbCondCtx) {
		switch x := s.(type) {
		case *ast.ReturnStmt:
			l.closureReturn(c, x, defs, argsObj, 0)
		case *ast.ExprStmt:
			if IsPanicCall(info, x) {
				c.panics++
			}
		case *ast.SwitchStmt:
			if ks := l.kindSwitch(x, fl.Body); ks != nil {
				c.kindSw = append(c.kindSw, ks)
			}
		}
	})
	// kind dispatch read off the executed paths (if-chain, switch, early
	// returns alike): for every subject compared with value-kind constants, the
	// kinds under which no panic is reachable are handled; the dispatch
	// "panics otherwise" when a panic is reachable for none of the tested kinds.
	if ks, ok := l.kindDispatch(fl); ok {
		c.kindSw = ks
	}
	mbClosureCache[fl] = c
	return c
}

func (l *mbLib) kindDispatch(fl *ast.FuncLit) ([]*mbKindSwitch, bool) {
	n := mbNewNormLit(l, nil, fl)
	outs, reg, inc := mbSymExecDepth(l, n, fl.Body.List, false, 0) // the closure's own dispatch only
	if inc != "" {
		return nil, false
	}
	hasPanic := func(os []mbSymOut) bool {
		for _, o := range os {
			if o.kind == "panic" && mbSatB(o.cond) {
				return true
			}
		}
		return false
	}
	var res []*mbKindSwitch
	for _, subj := range reg.subjects() {
		labels := reg.labelsOf(subj)
		isKind := len(labels) > 0
		for _, lb := range labels {
			k := reg.consts[lb]
			if k == nil || !types.Identical(k.Type(), l.kinds.Type) {
				isKind = false
			}
		}
		if !isKind {
			continue
		}
		ks := &mbKindSwitch{pos: fl.Pos(), tag: subj, handled: mbKindSet{}}
		for _, lb := range labels {
			if !hasPanic(mbSymRestrict(outs, reg.selecting(subj, lb))) {
				ks.handled[reg.consts[lb].Name()] = true
			}
		}
		ks.panics = hasPanic(mbSymRestrict(outs, reg.selecting(subj, "")))
		// position: the statement that mentions the subject's first kind constant
		ast.Inspect(fl.Body, func(nd ast.Node) bool {
			switch x := nd.(type) {
			case *ast.SwitchStmt:
				if ks.pos == fl.Pos() && l.kindSwitch(x, fl.Body) != nil {
					ks.pos = x.Pos()
				}
			}
			return true
		})
		res = append(res, ks)
	}
	return res, true
}

// closureReturn records one return statement of a builtin closure. A
// `return helper(…)` of a library function with the closure's result pair is
// read through: the helper's own returns are the closure's returns (two levels).
func (l *mbLib) closureReturn(c *mbClosure, x *ast.ReturnStmt, defs map[types.Object][]ast.Expr, argsObj types.Object, depth int) {
	info := l.info
	if len(x.Results) == 1 && depth < 2 {
		if call, ok := ast.Unparen(x.Results[0]).(*ast.CallExpr); ok {
			if fn := CalleeOf(info, call); fn != nil && l.ctorOf(fn) == nil {
				if hd := l.decls[fn]; hd != nil && hd.Body != nil {
					if sig, ok := fn.Type().(*types.Signature); ok && sig.Results().Len() == 2 {
						hdefs := mbCollectDefs(info, hd.Body)
						mbVisitStmts(hd.Body.List, nil, func(s ast.Stmt, _ []mbCondCtx) {
							if r, ok := s.(*ast.ReturnStmt); ok {
								l.closureReturn(c, r, hdefs, nil, depth+1)
							}
						})
						return
					}
				}
			}
		}
	}
	if len(x.Results) != 2 {
		return
	}
	if mbIsNil(info, x.Results[1]) {
		c.rets = append(c.rets, l.classifyRet(x.Results[0], defs, argsObj))
	} else if mbIsNil(info, x.Results[0]) {
		cls := l.errClass(x.Results[1])
		if cls == "" {
			cls = "propagated"
		}
		c.errs[cls] = true
	}
}

// mbAliasTarget: the local that `x := args[i]` (ix is that args[i]) defines.
func mbAliasTarget(info *types.Info, fl *ast.FuncLit, ix *ast.IndexExpr) types.Object {
	var out types.Object
	ast.Inspect(fl.Body, func(n ast.Node) bool {
		as, ok := n.(*ast.AssignStmt)
		if !ok || len(as.Lhs) != len(as.Rhs) {
			return true
		}
		for k, r := range as.Rhs {
			if ast.Unparen(r) == ast.Expr(ix) {
				if lid, ok := as.Lhs[k].(*ast.Ident); ok {
					out = info.Defs[lid]
				}
			}
		}
		return true
	})
	return out
}

// mbCollectDefs: single-assignment definitions of locals in a body.
func mbCollectDefs(info *types.Info, body ast.Node) map[types.Object][]ast.Expr {
	defs := map[types.Object][]ast.Expr{}
	mbInspectNoLit(body, func(n ast.Node) bool {
		as, ok := n.(*ast.AssignStmt)
		if !ok {
			return true
		}
		for i, lhs := range as.Lhs {
			id, ok := lhs.(*ast.Ident)
			if !ok {
				continue
			}
			o := info.Defs[id]
			if o == nil {
				o = info.Uses[id]
			}
			if o == nil {
				continue
			}
			if len(as.Lhs) == len(as.Rhs) {
				defs[o] = append(defs[o], as.Rhs[i])
			} else if len(as.Rhs) == 1 {
				defs[o] = append(defs[o], &ast.IndexExpr{X: as.Rhs[0], Index: &ast.BasicLit{Kind: token.INT, Value: fmt.Sprint(i)}})
			}
		}
		return true
	})
	return defs
}

func (l *mbLib) classifyRet(e ast.Expr, defs map[types.Object][]ast.Expr, argsObj types.Object) mbRet {
	r := mbRet{pos: e.Pos(), text: exprStr(e)}
	e = ast.Unparen(e)
	for hop := 0; hop < 4; hop++ {
		if cc := l.valueOfCall(e); cc != nil {
			r.ctor = cc
			return r
		}
		switch x := e.(type) {
		case *ast.UnaryExpr:
			if x.Op == token.AND {
				if ix, ok := ast.Unparen(x.X).(*ast.IndexExpr); ok {
					if id, ok := ast.Unparen(ix.X).(*ast.Ident); ok && l.info.Uses[id] == argsObj {
						r.generic = "argument " + exprStr(x.X)
						return r
					}
				}
			}
			return r
		case *ast.SelectorExpr:
			if l.isValuePtr(l.info.TypeOf(x)) {
				r.generic = "receiver payload " + exprStr(x)
			}
			return r
		case *ast.Ident:
			ds := defs[l.info.Uses[x]]
			if len(ds) != 1 {
				return r
			}
			e = ast.Unparen(ds[0])
			if ix, ok := e.(*ast.IndexExpr); ok {
				if bl, ok := ix.Index.(*ast.BasicLit); ok && bl.Value == "0" {
					if call, ok := ast.Unparen(ix.X).(*ast.CallExpr); ok {
						// first result of a helper: dynamic unless the helper is a constructor
						if cc := l.valueOfCall(call); cc != nil {
							r.ctor = cc
							return r
						}
						r.text += " (= first result of " + exprStr(call.Fun) + ")"
						return r
					}
				}
			}
		default:
			return r
		}
	}
	return r
}

// kindSwitch recognises `switch <value>.Kind() { case K...: ... }` whose
// unhandled kinds reach a panic (default clause, or the statement following
// the switch in its block).
func (l *mbLib) kindSwitch(sw *ast.SwitchStmt, scope *ast.BlockStmt) *mbKindSwitch {
	if sw.Tag == nil {
		return nil
	}
	call, ok := ast.Unparen(sw.Tag).(*ast.CallExpr)
	if !ok {
		return nil
	}
	sel, ok := call.Fun.(*ast.SelectorExpr)
	if !ok || sel.Sel.Name != "Kind" {
		return nil
	}
	rt := l.info.TypeOf(sel.X)
	if !l.isValueIface(rt) && l.implOfType(rt) == nil {
		return nil
	}
	ks := &mbKindSwitch{pos: sw.Pos(), tag: exprStr(sw.Tag), handled: mbKindSet{}}
	hasDefault := false
	for _, c := range sw.Body.List {
		cc := c.(*ast.CaseClause)
		pan := BodyPanics(l.info, cc.Body)
		if cc.List == nil {
			hasDefault = true
			if pan {
				ks.panics = true
			}
			continue
		}
		if pan {
			continue
		}
		for _, v := range cc.List {
			if k := ConstOf(l.info, v); k != nil {
				ks.handled[k.Name()] = true
			}
		}
	}
	if !hasDefault {
		// statement after the switch in the enclosing block
		var next ast.Stmt
		mbInspectNoLit(scope, func(n ast.Node) bool {
			if b, ok := n.(*ast.BlockStmt); ok {
				for i, s := range b.List {
					if s == ast.Stmt(sw) && i+1 < len(b.List) {
						next = b.List[i+1]
					}
				}
			}
			return true
		})
		if next != nil && IsPanicCall(l.info, next) {
			ks.panics = true
		}
	}
	return ks
}

// ---------------------------------------------------------------------------
// the rule
// ---------------------------------------------------------------------------

type mbMember struct {
	name    string
	pos     token.Pos
	typ     *mbType
	cond    bool
	subject string
	kinds   mbKindSet
	condWhy string
}

func (a *mbAn) members(im *mbAnImpl) []mbMember {
	var recv types.Object
	if im.fields != nil && len(im.fields.Recv.List[0].Names) > 0 {
		recv = a.info.Defs[im.fields.Recv.List[0].Names[0]]
	}
	// locals of the method that are defined exactly once (k := self.Inner.Kind())
	a.curDefs = map[types.Object]ast.Expr{}
	seenEnc := map[*ast.FuncDecl]bool{}
	noteDefs := func(fd *ast.FuncDecl) {
		if fd == nil || seenEnc[fd] {
			return
		}
		seenEnc[fd] = true
		for o, ds := range mbCollectDefs(a.info, fd.Body) {
			if len(ds) == 1 {
				a.curDefs[o] = ds[0]
			}
		}
	}
	noteDefs(im.fields)
	for _, e := range im.table.entries {
		noteDefs(e.enc) // a table built by a helper: the helper's locals
	}
	defer func() { a.curDefs = nil }()
	var out []mbMember
	for _, e := range im.table.entries {
		r := recv
		if e.enc != nil && e.enc != im.fields {
			r = e.recv
		}
		m := mbMember{name: e.key, pos: e.pos, typ: a.evalType(e.val, r)}
		if len(e.guard) > 0 {
			m.cond = true
			m.subject, m.kinds, m.condWhy = a.guardKinds(e.guard)
		}
		out = append(out, m)
	}
	sort.Slice(out, func(i, j int) bool { return out[i].name < out[j].name })
	return out
}

func ruleMembers(c *Ctx) []Obligation {
	an := mbLoadAn(c)
	vm := mbLoadLib(c, mbRelVM, "vm")
	in := mbLoadLib(c, mbRelInterp, "interp")
	kmap := mbKindMap(c) // value kind -> type kind
	var obs []Obligation
	add := func(key string, pos token.Pos, st Status, nontrivial bool, detail string) {
		obs = append(obs, Obligation{Key: key, Pos: c.Pos(pos), Status: st, Detail: detail, Nontrivial: nontrivial})
	}
	// the function type kind: the type kind of the value kind whose struct holds the variadic callback
	for _, l := range []*mbLib{vm, in} {
		// twin enums must use the names the kind map is keyed by
		for _, k := range l.kinds.Consts {
			if _, ok := kmap[k.Name()]; !ok {
				// pointer / iterator kinds have no type kind: fine
				continue
			}
		}
	}

	for _, aim := range an.impls {
		tk := aim.kind.Name()
		tname := mbShortKind(tk)
		if !aim.table.ok {
			add("members|"+tname+"|analyzer table", aim.named.Obj().Pos(), Undecided, false, "cannot extract the analyzer member table: "+aim.table.why)
			continue
		}
		mems := an.members(aim)
		if len(aim.table.dynamic) > 0 {
			add("members|"+tname+"|dynamic members", aim.table.dynamic[0], Info, false, "members with non-constant names (user-declared object fields) are added to the table; not part of the builtin table")
		}
		for _, l := range []*mbLib{vm, in} {
			// value kinds of this library with that type kind
			var vimpls []*mbImpl
			for _, vi := range l.impls {
				if vi.kind != nil && kmap[vi.kind.Name()] == tk {
					vimpls = append(vimpls, vi)
				}
			}
			if len(mems) == 0 {
				continue
			}
			if len(vimpls) == 0 {
				add(fmt.Sprintf("members|%s|%s|value kind", tname, l.tag), aim.named.Obj().Pos(), Violated, false,
					fmt.Sprintf("analyzer type kind %s has %d members but library %s has no value kind mapped to it", tname, len(mems), l.rel))
				continue
			}
			for _, vi := range vimpls {
				rt := mbExtractTable(l.info, vi.methods["Fields"])
				if !rt.ok {
					add(fmt.Sprintf("members|%s|%s|runtime table", tname, l.tag), vi.named.Obj().Pos(), Undecided, false,
						"cannot extract the member table of "+l.tag+" "+vi.Name()+".Fields: "+rt.why)
					continue
				}
				if rt.panics {
					add(fmt.Sprintf("members|%s|%s|runtime table", tname, l.tag), vi.named.Obj().Pos(), Violated, false,
						fmt.Sprintf("%s.Fields panics unconditionally although the analyzer offers %d members on %s", vi.Name(), len(mems), tname))
					continue
				}
				offered := map[string]bool{}
				for _, m := range mems {
					offered[m.name] = true
					obs = append(obs, mbCheckMember(c, an, l, vi, &rt, tname, m, kmap)...)
				}
				// reverse direction: informational
				var extra []string
				seen := map[string]bool{}
				for _, e := range rt.entries {
					if !offered[e.key] && !seen[e.key] {
						seen[e.key] = true
						extra = append(extra, e.key)
					}
				}
				if len(extra) > 0 {
					sort.Strings(extra)
					add(fmt.Sprintf("members|%s|%s|runtime-only", tname, l.tag), vi.named.Obj().Pos(), Info, false,
						fmt.Sprintf("%s %s.Fields has members the analyzer never offers on %s (unreachable from accepted programs): %s", l.tag, vi.Name(), tname, strings.Join(extra, ", ")))
				}
			}
		}
	}
	// twin-only difference in member names (the fragment boundary), informational
	// member lookup sites
	obs = append(obs, mbLookupSites(c, vm, mbRelVMEngine)...)
	obs = append(obs, mbLookupSites(c, in, mbRelInEngine)...)
	return obs
}

func mbCheckMember(c *Ctx, an *mbAn, l *mbLib, vi *mbImpl, rt *mbTable, tname string, m mbMember, kmap map[string]string) []Obligation {
	var obs []Obligation
	base := fmt.Sprintf("members|%s.%s|%s|", tname, m.name, l.tag)
	add := func(what string, pos token.Pos, st Status, nontrivial bool, detail string) {
		obs = append(obs, Obligation{Key: base + what, Pos: c.Pos(pos), Status: st, Detail: detail, Nontrivial: nontrivial})
	}
	if m.typ.Bad != "" {
		add("analyzer type", m.pos, Undecided, false, "cannot evaluate the declared member type: "+m.typ.Bad)
		return obs
	}
	ents := rt.find(m.name)
	if len(ents) == 0 {
		add("name", m.pos, Violated, false, fmt.Sprintf("analyzer offers %s.%s : %s, but %s %s.Fields (%s) has no entry '%s': the member lookup panics on an accepted program",
			tname, m.name, m.typ, l.tag, vi.Name(), c.Pos(vi.methods["Fields"].Pos()), m.name))
		return obs
	}
	if len(ents) > 1 {
		add("name", ents[1].pos, Undecided, false, "member defined more than once in the runtime table")
		return obs
	}
	ent := ents[0]
	add("name", ent.pos, Discharged, false, fmt.Sprintf("%s.%s present in %s %s.Fields", tname, m.name, l.tag, vi.Name()))
	if len(ent.guard) > 0 {
		add("runtime guard", ent.pos, Undecided, false, "the runtime adds this member under a condition; not modelled")
		return obs
	}
	fl, via := l.closureOf(ent.val, 0)
	if m.typ.Fn == nil {
		// plain value member
		if fl != nil {
			add("shape", ent.pos, Violated, true, fmt.Sprintf("analyzer declares %s.%s as a value of type %s, the runtime stores a builtin function", tname, m.name, m.typ))
		} else {
			st := Info
			detail := fmt.Sprintf("value member %s.%s : %s is stored as %s; the kind of a stored payload is not statically visible here", tname, m.name, m.typ, exprStr(ent.val))
			if cc := l.valueOfCall(ent.val); cc != nil {
				st = Discharged
				if kmap[cc.impl.KindName()] != m.typ.Kind {
					st = Violated
				}
				detail = fmt.Sprintf("value member %s.%s : %s is built by a constructor of %s", tname, m.name, m.typ, cc.impl.Name())
			}
			add("shape", ent.pos, st, false, detail)
		}
		return obs
	}
	if fl == nil {
		add("shape", ent.pos, Violated, true, fmt.Sprintf("analyzer declares %s.%s as %s, but the runtime entry %s is not a builtin closure (calling it is an assertion panic)", tname, m.name, m.typ, exprStr(ent.val)))
		return obs
	}
	cl := l.analyzeClosure(fl, via)
	sig := m.typ.Fn
	if sig.Variadic {
		add("arity", ent.pos, Undecided, false, "variadic builtin member: not modelled")
		return obs
	}
	for _, p := range sig.Params {
		if p.Bad != "" {
			add("arity", m.pos, Undecided, false, "cannot evaluate a declared parameter type: "+p.Bad)
			return obs
		}
	}
	// arity
	if len(cl.otherUse) > 0 {
		add("arity", fl.Pos(), Undecided, true, "the closure uses args in a form other than args[<const>]: "+strings.Join(cl.otherUse, "; "))
	} else {
		reads := cl.maxIdx + 1
		switch {
		case reads > len(sig.Params):
			add("arity", fl.Pos(), Violated, true, fmt.Sprintf("analyzer declares %d parameter(s) for %s.%s, the %s closure reads args[%d]: index out of range on an accepted call", len(sig.Params), tname, m.name, l.tag, cl.maxIdx))
		case reads < len(sig.Params):
			add("arity", fl.Pos(), Violated, true, fmt.Sprintf("analyzer declares %d parameter(s) for %s.%s, the %s closure reads only %d: an accepted argument is ignored", len(sig.Params), tname, m.name, l.tag, reads))
		default:
			add("arity", fl.Pos(), Discharged, true, fmt.Sprintf("declared %d parameter(s) = 1 + highest args index read (%d)", len(sig.Params), cl.maxIdx))
		}
	}
	// argument kinds
	for i, p := range sig.Params {
		key := fmt.Sprintf("argkind[%d]", i)
		as := cl.asserts[i]
		if p.Generic != "" || p.Kind == "" {
			if len(as) > 0 {
				add(key, fl.Pos(), Info, false, fmt.Sprintf("parameter %d is generic (%s), the closure asserts %s", i, p, as[0].Name()))
			} else {
				add(key, fl.Pos(), Discharged, false, fmt.Sprintf("parameter %d is generic (%s), used without assertion", i, p))
			}
			continue
		}
		if pim := an.byKind[p.Kind]; pim != nil && len(as) > 0 {
			bad := ""
			for _, t := range as {
				if kmap[t.KindName()] != p.Kind {
					bad = t.Name()
				}
			}
			if bad != "" {
				add(key, fl.Pos(), Violated, true, fmt.Sprintf("parameter %d of %s.%s is declared %s, the %s closure asserts args[%d].(%s): assertion panic on an accepted call", i, tname, m.name, p, l.tag, i, bad))
			} else {
				add(key, fl.Pos(), Discharged, true, fmt.Sprintf("args[%d] asserted to %s = value kind of declared %s", i, as[0].Name(), p))
			}
			continue
		}
		if len(as) == 0 {
			if cl.rawUse[i] {
				add(key, fl.Pos(), Discharged, false, fmt.Sprintf("args[%d] (declared %s) is used without a type assertion", i, p))
			}
			// not read at all: reported by arity
			continue
		}
	}
	// result kind
	if sig.Ret == nil || sig.Ret.Bad != "" {
		add("result", m.pos, Undecided, false, "cannot evaluate the declared return type")
		return obs
	}
	if len(cl.rets) == 0 {
		add("result", fl.Pos(), Violated, true, "the closure has no normal return path")
		return obs
	}
	anyT := false
	if sig.Ret.Generic != "" {
		anyT = true
	}
	var okays, bads, unknown []string
	for _, r := range cl.rets {
		switch {
		case anyT:
			okays = append(okays, r.text)
		case r.ctor != nil:
			got := kmap[r.ctor.impl.KindName()]
			if got == sig.Ret.Kind || mbIsTopKind(an, sig.Ret.Kind) {
				okays = append(okays, r.ctor.impl.Name())
			} else {
				bads = append(bads, fmt.Sprintf("%s at %s builds %s", r.text, c.Pos(r.pos), r.ctor.impl.Name()))
			}
		case mbIsTopKind(an, sig.Ret.Kind):
			okays = append(okays, r.text)
		default:
			unknown = append(unknown, fmt.Sprintf("%s at %s", r.text, c.Pos(r.pos)))
		}
	}
	switch {
	case len(bads) > 0:
		add("result", fl.Pos(), Violated, true, fmt.Sprintf("%s.%s is declared to return %s, but the %s closure returns: %s", tname, m.name, sig.Ret, l.tag, strings.Join(bads, "; ")))
	case len(unknown) > 0:
		add("result", fl.Pos(), Undecided, true, fmt.Sprintf("%s.%s is declared to return %s; the kind of these returned values cannot be resolved: %s", tname, m.name, sig.Ret, strings.Join(unknown, "; ")))
	default:
		sort.Strings(okays)
		add("result", fl.Pos(), Discharged, !anyT, fmt.Sprintf("declared %s; %d normal return(s): %s", sig.Ret, len(cl.rets), strings.Join(mbUniq(okays), ", ")))
	}
	// conditional members / panicking kind switches
	offered := an.universe()
	offeredTxt := "every inner kind (unconditional member)"
	if m.cond {
		if m.condWhy != "" {
			add("condition", m.pos, Undecided, true, "cannot evaluate the analyzer guard of this member: "+m.condWhy)
			return obs
		}
		offered = m.kinds
		offeredTxt = fmt.Sprintf("%s.Kind() in %s", m.subject, m.kinds)
	}
	for _, ks := range cl.kindSw {
		if !ks.panics {
			continue
		}
		handled := mbKindSet{}
		for k := range ks.handled {
			handled[kmap[k]] = true
		}
		var missing []string
		for k := range offered {
			if !handled[k] {
				missing = append(missing, mbShortKind(k))
			}
		}
		sort.Strings(missing)
		if len(missing) > 0 {
			add("condition", ks.pos, Violated, true, fmt.Sprintf("analyzer offers %s.%s for %s; the %s closure's `switch %s` handles %s and panics otherwise: unhandled %v",
				tname, m.name, offeredTxt, l.tag, ks.tag, ks.handled, missing))
		} else {
			add("condition", ks.pos, Discharged, true, fmt.Sprintf("offered for %s is a subset of the kinds `switch %s` handles %s", offeredTxt, ks.tag, ks.handled))
		}
	}
	if m.cond && len(cl.kindSw) == 0 {
		add("condition", fl.Pos(), Discharged, false, fmt.Sprintf("conditional member (%s); the runtime closure has no panicking kind switch", offeredTxt))
	}
	return obs
}

// mbIsTopKind: declared types that admit every value (any / unknown).
func mbIsTopKind(an *mbAn, kind string) bool {
	im := an.byKind[kind]
	if im == nil {
		return false
	}
	// a kind whose struct has no Type-valued field and whose Fields table is
	// empty, and which no value kind maps to: any / unknown / never
	return im.table.ok && len(im.table.entries) == 0 && !mbHasValueKind(an.c, kind)
}

func mbHasValueKind(c *Ctx, typeKind string) bool {
	for _, tk := range mbKindMap(c) {
		if tk == typeKind {
			return true
		}
	}
	return false
}

func mbUniq(in []string) []string {
	var out []string
	seen := map[string]bool{}
	for _, s := range in {
		if !seen[s] {
			seen[s] = true
			out = append(out, s)
		}
	}
	return out
}

// mbLookupSites reports where the engine looks a member up in a Fields()
// table and what happens on a miss.
func mbLookupSites(c *Ctx, l *mbLib, engineRel string) []Obligation {
	var obs []Obligation
	p := c.Pkg(engineRel)
	info := p.TypesInfo
	n := 0
	for _, fd := range AllFuncDecls(p) {
		mbVisitStmts(fd.Body.List, nil, func(s ast.Stmt, stack []mbCondCtx) {
			as, ok := s.(*ast.AssignStmt)
			if !ok || len(as.Rhs) != 1 {
				return
			}
			call, ok := ast.Unparen(as.Rhs[0]).(*ast.CallExpr)
			if !ok {
				return
			}
			sel, ok := call.Fun.(*ast.SelectorExpr)
			if !ok || sel.Sel.Name != "Fields" {
				return
			}
			rt := info.TypeOf(sel.X)
			if !l.isValueIface(rt) && l.implOfType(rt) == nil {
				return
			}
			where := FuncName(fd)
			for _, g := range stack {
				if g.clause != nil && g.clause.List != nil {
					where += " case " + exprStr(g.clause.List[0])
				}
			}
			n++
			obs = append(obs, Obligation{Key: "members|lookup site|" + l.tag + "|" + where, Pos: c.Pos(as.Pos()), Status: Info,
				Detail: fmt.Sprintf("member lookup site: %s reads %s and indexes the table by member name; a missing name ends in a Go panic at this site (no interrupt)", where, exprStr(call))})
		})
	}
	// sibling member opcodes: case clauses of the same switch whose constant
	// extends the name of a clause found above (Opcode_Member_Anyobj, _Unwrap)
	for _, fd := range AllFuncDecls(p) {
		ast.Inspect(fd.Body, func(nd ast.Node) bool {
			sw, ok := nd.(*ast.SwitchStmt)
			if !ok {
				return true
			}
			var bases []string
			for _, c := range sw.Body.List {
				cc := c.(*ast.CaseClause)
				calls := false
				ast.Inspect(cc, func(m ast.Node) bool {
					if call, ok := m.(*ast.CallExpr); ok {
						if sel, ok := call.Fun.(*ast.SelectorExpr); ok && sel.Sel.Name == "Fields" {
							rt := info.TypeOf(sel.X)
							if l.isValueIface(rt) || l.implOfType(rt) != nil {
								calls = true
							}
						}
					}
					return true
				})
				if calls && len(cc.List) > 0 {
					if k := ConstOf(info, cc.List[0]); k != nil {
						bases = append(bases, k.Name())
					}
				}
			}
			for _, cl := range sw.Body.List {
				cc := cl.(*ast.CaseClause)
				if len(cc.List) == 0 {
					continue
				}
				k := ConstOf(info, cc.List[0])
				if k == nil {
					continue
				}
				for _, b := range bases {
					if k.Name() != b && strings.HasPrefix(k.Name(), b) {
						obs = append(obs, Obligation{Key: "members|lookup site|" + l.tag + "|" + FuncName(fd) + " case " + k.Name(), Pos: c.Pos(cc.Pos()), Status: Info,
							Detail: fmt.Sprintf("member lookup variant %s: reads the payload of the value directly (no Fields() table): any-object field access / option unwrap", k.Name())})
					}
				}
			}
			return true
		})
	}
	if n == 0 {
		obs = append(obs, Obligation{Key: "members|lookup site|" + l.tag, Pos: "?", Status: Undecided, Detail: "no call of Value.Fields found in " + engineRel})
	}
	return obs
}
