package main

import (
	"crypto/sha1"
	"encoding/json"
	"flag"
	"fmt"
	"os"
	"path/filepath"
	"sort"
	"strconv"
	"strings"
	"time"
)

// Finding is one entry of known_findings.json (never written at run time).
type Finding struct {
	Rule   string `json:"rule"`
	Key    string `json:"key"`
	Status string `json:"status"` // "known" | "fixed"
	Commit string `json:"commit,omitempty"`
	What   string `json:"what"`
}

type findingsFile struct {
	Comment  string    `json:"comment"`
	Findings []Finding `json:"findings"`
}

func loadFindings(verif string) []Finding {
	b, err := os.ReadFile(filepath.Join(verif, "known_findings.json"))
	if err != nil {
		return nil
	}
	var ff findingsFile
	if err := json.Unmarshal(b, &ff); err != nil {
		fatalf("known_findings.json: %v", err)
	}
	return ff.Findings
}

var allRules = map[string]*Rule{}

func register(r *Rule) {
	if allRules[r.ID] != nil {
		panic("duplicate rule " + r.ID)
	}
	allRules[r.ID] = r
}

type ruleResult struct {
	Rule        string
	Obligations []Obligation
	WallS       float64
}

// acceptedExceptions: see runRule. Key = rule id + "|" + obligation key.
var acceptedExceptions = map[string]string{
	"R-traversal|interpreter/value.ValueRange.Display|ValueRange.EndIsInclusive": "the repository's regression script tests/regression_range_type.hms pins the display of 0..=42 as `0..42`",
	"R-traversal|runtime/value.ValueRange.Display|ValueRange.EndIsInclusive":     "the repository's regression script tests/regression_range_type.hms pins the display of 0..=42 as `0..42`",
	"R-value-fields|fields|interp|ValueRange.Display|EndIsInclusive":             "the repository's regression script tests/regression_range_type.hms pins the display of 0..=42 as `0..42`",
	"R-value-fields|fields|vm|ValueRange.Display|EndIsInclusive":                 "the repository's regression script tests/regression_range_type.hms pins the display of 0..=42 as `0..42`",
}

func runRule(c *Ctx, id string) (res ruleResult) {
	r := allRules[id]
	if r == nil {
		fatalf("unknown rule %s", id)
	}
	t0 := time.Now()
	defer func() {
		if e := recover(); e != nil {
			if fe, ok := e.(fatalErr); ok {
				res = ruleResult{Rule: id, Obligations: []Obligation{{Rule: id, Key: "<rule aborted>", Status: Undecided, Detail: fe.msg}}}
			} else {
				res = ruleResult{Rule: id, Obligations: []Obligation{{Rule: id, Key: "<rule panicked>", Status: Undecided, Detail: fmt.Sprint(e)}}}
			}
		}
		res.WallS = time.Since(t0).Seconds()
	}()
	obs := r.Run(c)
	for i := range obs {
		obs[i].Rule = id
		// accepted exceptions: exact rule+key pairs for which the repository itself documents that the flagged
		// shape is intended (one named construct each, with the evidence); they are listed, not counted
		if obs[i].Status == Violated {
			if why, ok := acceptedExceptions[id+"|"+obs[i].Key]; ok {
				obs[i].Status = Info
				obs[i].Detail = "accepted exception (" + why + "); the rule's finding was: " + obs[i].Detail
			}
		}
		obs[i].StatusStr = obs[i].Status.String()
	}
	floor := r.Floor
	if floor == 0 {
		floor = 1
	}
	n := 0
	for _, o := range obs {
		if o.Status != Info {
			n++
		}
	}
	if n < floor {
		obs = append(obs, Obligation{Rule: id, Key: "<instance floor>", Status: Undecided, StatusStr: "undecided",
			Detail: fmt.Sprintf("rule enumerated %d obligations, fewer than its floor %d: anchors moved or the rule is vacuous", n, floor)})
	}
	sort.SliceStable(obs, func(i, j int) bool { return obs[i].Key < obs[j].Key })
	return ruleResult{Rule: id, Obligations: obs}
}

type replayFile struct {
	Property string     `json:"property"`
	Rule     string     `json:"rule"`
	Key      string     `json:"key"`
	Ob       Obligation `json:"obligation"`
	Repo     string     `json:"repo"`
}

func main() {
	defer func() {
		if e := recover(); e != nil {
			if fe, ok := e.(fatalErr); ok {
				fmt.Fprintln(os.Stderr, "hmscheck: aborted:", fe.msg)
				os.Exit(2)
			}
			panic(e)
		}
	}()
	var (
		prop     = flag.String("prop", "", "property id (C01..C20) to check")
		tier     = flag.String("tier", "quick", "quick|thorough")
		repo     = flag.String("repo", envOr("HMS_REPO", "/repo"), "repository working tree to analyse")
		verif    = flag.String("verif", envOr("HMS_VERIF", "/verif"), "verification directory")
		ruleF    = flag.String("rule", "", "debug: run one rule (or comma list, or 'all') and print every obligation")
		replay   = flag.String("replay", "", "re-decide the obligation recorded in a replay file")
		noEv     = flag.Bool("noevidence", false, "do not write evidence/replay files (used by self-tests on scratch copies)")
		manifest = flag.Bool("manifest", false, "print MANIFEST.json generated from the property registry")
		verbose  = flag.Bool("v", false, "print discharged obligations too")
		dump     = flag.Bool("dump", false, "run every registered rule and print the violated/undecided obligations as JSON")
		allProps = flag.Bool("all", false, "run every claimed property in one process (no evidence written) and print, as JSON, the non-known violated/undecided obligations per property")
	)
	flag.Parse()
	if *manifest {
		printManifest()
		return
	}
	if *allProps {
		os.Exit(runAll(*repo, *verif))
	}
	if *dump {
		// every registered rule, violated/undecided obligations only, as JSON (used by tools/record_fixes.py)
		c := load(*repo)
		var ids []string
		for id := range allRules {
			ids = append(ids, id)
		}
		sort.Strings(ids)
		var out []map[string]string
		for _, id := range ids {
			for _, o := range runRule(c, id).Obligations {
				if o.Status == Violated || o.Status == Undecided {
					out = append(out, map[string]string{"rule": o.Rule, "key": o.Key, "status": o.Status.String(), "pos": o.Pos, "detail": o.Detail})
				}
			}
		}
		b, _ := json.MarshalIndent(out, "", " ")
		os.Stdout.Write(b)
		fmt.Println()
		return
	}
	if *replay != "" {
		os.Exit(doReplay(*replay, *repo, *verif))
	}
	if *ruleF != "" {
		c := load(*repo)
		ids := strings.Split(*ruleF, ",")
		if *ruleF == "all" {
			ids = nil
			for id := range allRules {
				ids = append(ids, id)
			}
			sort.Strings(ids)
		}
		bad := 0
		for _, id := range ids {
			res := runRule(c, id)
			cnt := map[Status]int{}
			for _, o := range res.Obligations {
				cnt[o.Status]++
				if o.Status != Discharged || *verbose {
					fmt.Printf("%-10s %s | %s | %s\n    %s\n", o.Status, o.Rule, o.Key, o.Pos, o.Detail)
				}
				if o.Status == Violated || o.Status == Undecided {
					bad++
				}
			}
			fmt.Printf("== %s: %d obligations: %d discharged, %d violated, %d undecided, %d info (%.2fs)\n", id, len(res.Obligations), cnt[Discharged], cnt[Violated], cnt[Undecided], cnt[Info], res.WallS)
		}
		if bad > 0 {
			os.Exit(1)
		}
		return
	}
	if *prop == "" {
		flag.Usage()
		os.Exit(2)
	}
	os.Exit(checkProperty(*prop, *tier, *repo, *verif, *noEv, *verbose))
}

func envOr(k, d string) string {
	if v := os.Getenv(k); v != "" {
		return v
	}
	return d
}

func obHash(o Obligation) string {
	h := sha1.Sum([]byte(o.Rule + "|" + o.Key))
	return fmt.Sprintf("%x", h[:5])
}

func checkProperty(prop, tier, repo, verif string, noEv, verbose bool) int {
	t0 := time.Now()
	pd := propByID(prop)
	if pd == nil {
		fmt.Fprintf(os.Stderr, "hmscheck: property %s is not claimed (see MANIFEST not_applicable)\n", prop)
		return 2
	}
	seed, _ := strconv.Atoi(os.Getenv("VERIF_SEED"))
	c := load(repo)
	findings := loadFindings(verif)
	known := map[string]Finding{}
	for _, f := range findings {
		if f.Status == "known" {
			known[f.Rule+"|"+f.Key] = f
		}
	}
	var results []ruleResult
	for _, id := range pd.Rules {
		results = append(results, runRule(c, id))
	}
	type perRule struct {
		Obligations int     `json:"obligations"`
		Discharged  int     `json:"discharged"`
		Violated    int     `json:"violated"`
		Undecided   int     `json:"undecided"`
		Known       int     `json:"known_findings"`
		Info        int     `json:"informational"`
		OutOfScope  int     `json:"out_of_scope_for_this_property"`
		WallS       float64 `json:"wall_s"`
		Doc         string  `json:"rule_text"`
	}
	per := map[string]*perRule{}
	var total, discharged, nontrivial, nviol, nknown int
	var samples []Obligation
	var bad []Obligation
	distinct := map[string]bool{}
	for _, r := range results {
		pr := &perRule{WallS: r.WallS, Doc: allRules[r.Rule].Doc}
		per[r.Rule] = pr
		nsample := 0
		for _, o := range r.Obligations {
			if outOfScope(prop, o) {
				pr.OutOfScope++
				continue
			}
			if o.Status == Info {
				pr.Info++
				fmt.Printf("INFO %s | %s | %s | %s\n", o.Rule, o.Key, o.Pos, o.Detail)
				continue
			}
			total++
			pr.Obligations++
			if !distinct[o.Rule+"|"+o.Key] {
				distinct[o.Rule+"|"+o.Key] = true
				if o.Nontrivial {
					nontrivial++
				}
			}
			switch o.Status {
			case Discharged:
				discharged++
				pr.Discharged++
				if verbose {
					fmt.Printf("ok   %s | %s | %s | %s\n", o.Rule, o.Key, o.Pos, o.Detail)
				}
				if nsample < 3 {
					samples = append(samples, o)
					nsample++
				}
			default:
				if f, ok := matchKnown(known, o); ok {
					nknown++
					pr.Known++
					fmt.Printf("KNOWN-FINDING: property=%s %s | %s | %s | %s\n", prop, o.Rule, o.Key, o.Pos, f.What)
					samples = append(samples, o)
					continue
				}
				if o.Status == Violated {
					pr.Violated++
				} else {
					pr.Undecided++
				}
				nviol++
				bad = append(bad, o)
			}
		}
	}
	exit := 0
	if !noEv {
		os.MkdirAll(filepath.Join(verif, "evidence", "replay"), 0o755)
	}
	for _, o := range bad {
		rp := filepath.Join(verif, "evidence", "replay", fmt.Sprintf("%s-%s-%s.json", prop, strings.ReplaceAll(o.Rule, "/", "_"), obHash(o)))
		if !noEv {
			b, _ := json.MarshalIndent(replayFile{Property: prop, Rule: o.Rule, Key: o.Key, Ob: o, Repo: repo}, "", " ")
			os.WriteFile(rp, b, 0o644)
		}
		fmt.Printf("%s %s | %s | %s\n    %s\n", strings.ToUpper(o.Status.String()), o.Rule, o.Key, o.Pos, o.Detail)
		fmt.Printf("VIOLATION property=%s replay=%s\n", prop, rp)
		samples = append(samples, o)
		exit = 1
	}
	var st *selfTestReport
	if tier == "thorough" && !noEv {
		st = runSelfTests(prop, repo, verif)
		if st != nil && st.Missed > 0 && exit == 0 {
			fmt.Fprintf(os.Stderr, "hmscheck: SELF-TEST SENSITIVITY LOST for %s: %d recorded mutant(s) no longer detected: %v\n", prop, st.Missed, st.MissedNames)
			exit = 2
		}
	}
	var nc *negControlReport
	if tier == "thorough" && !noEv {
		// packages in which this property's obligations are anchored
		anchored := map[string]bool{}
		for _, r := range results {
			for _, o := range r.Obligations {
				if i := strings.LastIndex(o.Pos, "/"); i > 0 {
					anchored[o.Pos[:i]] = true
				}
			}
		}
		nc = runNegativeControls(prop, repo, verif, anchored)
		if nc != nil && nc.Alarms > 0 && exit == 0 {
			fmt.Fprintf(os.Stderr, "hmscheck: NEGATIVE-CONTROL ALARM for %s: %d behaviour-preserving refactoring(s) make the check report a violation: %v\n", prop, nc.Alarms, nc.AlarmNames)
			exit = 2
		}
	}
	if len(samples) > 40 {
		samples = samples[:40]
	}
	var pkgs []string
	for _, p := range c.All {
		pkgs = append(pkgs, relPkg(p.PkgPath))
	}
	cov := map[string]any{
		"explanation":         pd.Decides + " NOT DECIDED (outside static reach, not approximated): " + pd.NotDecided,
		"obligations":         total,
		"discharged":          discharged,
		"known_findings":      nknown,
		"evaluations":         total,
		"distinct_nontrivial": nontrivial,
		"rule":                "obligations are enumerated from the current source of " + repo + " by the rules listed under per_rule (keyed rule+construct); an obligation is counted non-trivial when deciding it needed a path, table-join or guard argument rather than a mere presence test (flag set by the rule); distinct = distinct rule+key",
		"samples":             samples,
		"per_rule":            per,
		"packages_analysed":   pkgs,
		"checker_cmd":         fmt.Sprintf("/verif/bin/hmscheck -prop %s -tier %s", prop, tier),
		"trusted_base":        []string{"go/types, go/ast, go/cfg, go/ssa, go/callgraph(vta) of golang.org/x/tools v0.29.0", "Go toolchain type checker", "the rule implementations in /verif/hmscheck", "the argument that each rule is a necessary condition of the property (DESIGN.md sections 4-5)"},
		"exhaustive":          true,
	}
	if st != nil {
		cov["self_test"] = st
	}
	if nc != nil {
		cov["negative_controls"] = nc
	}
	ev := map[string]any{
		"property_id": prop,
		"tier":        tier,
		"seed":        seed,
		"level":       "other",
		"coverage":    cov,
		"assumptions": pd.Assumptions,
		"wall_s":      time.Since(t0).Seconds(),
		"violations":  nviol,
	}
	if !noEv {
		b, _ := json.MarshalIndent(ev, "", " ")
		if err := os.WriteFile(filepath.Join(verif, "evidence", prop+".json"), b, 0o644); err != nil {
			fmt.Fprintln(os.Stderr, "hmscheck: cannot write evidence:", err)
			return 2
		}
	}
	fmt.Printf("hmscheck: property=%s tier=%s rules=%d obligations=%d discharged=%d known=%d violations=%d wall=%.1fs\n",
		prop, tier, len(pd.Rules), total, discharged, nknown, nviol, time.Since(t0).Seconds())
	return exit
}

// matchKnown: exact rule+key, or a finding key ending in '*' that prefixes the
// obligation key (one named construct, e.g. one function).
func matchKnown(known map[string]Finding, o Obligation) (Finding, bool) {
	if f, ok := known[o.Rule+"|"+o.Key]; ok {
		return f, true
	}
	for _, f := range known {
		if f.Rule == o.Rule && strings.HasSuffix(f.Key, "*") && strings.HasPrefix(o.Key, strings.TrimSuffix(f.Key, "*")) {
			return f, true
		}
	}
	return Finding{}, false
}

func doReplay(path, repo, verif string) int {
	b, err := os.ReadFile(path)
	if err != nil {
		fmt.Fprintln(os.Stderr, err)
		return 2
	}
	var rf replayFile
	if err := json.Unmarshal(b, &rf); err != nil {
		fmt.Fprintln(os.Stderr, err)
		return 2
	}
	c := load(repo)
	res := runRule(c, rf.Rule)
	for _, o := range res.Obligations {
		if o.Key == rf.Key {
			fmt.Printf("%s %s | %s | %s\n    %s\n", strings.ToUpper(o.Status.String()), o.Rule, o.Key, o.Pos, o.Detail)
			if o.Status == Violated || o.Status == Undecided {
				fmt.Printf("VIOLATION property=%s replay=%s\n", rf.Property, path)
				return 1
			}
			return 0
		}
	}
	fmt.Printf("obligation %s | %s no longer exists on this tree\n", rf.Rule, rf.Key)
	return 0
}

// runAll: every claimed property against one tree, in one process; used by
// tools/seeded_matrix.py to record which checks catch which seeded change.
func runAll(repo, verif string) int {
	c := load(repo)
	known := map[string]Finding{}
	for _, f := range loadFindings(verif) {
		if f.Status == "known" {
			known[f.Rule+"|"+f.Key] = f
		}
	}
	cache := map[string]ruleResult{}
	out := map[string][]map[string]string{}
	exit := 0
	for _, pd := range props {
		if len(pd.Rules) == 0 {
			continue
		}
		out[pd.ID] = []map[string]string{}
		for _, id := range pd.Rules {
			res, ok := cache[id]
			if !ok {
				res = runRule(c, id)
				cache[id] = res
			}
			for _, o := range res.Obligations {
				if o.Status != Violated && o.Status != Undecided {
					continue
				}
				if outOfScope(pd.ID, o) {
					continue
				}
				if _, ok := matchKnown(known, o); ok {
					continue
				}
				out[pd.ID] = append(out[pd.ID], map[string]string{"rule": o.Rule, "key": o.Key, "status": o.Status.String(), "pos": o.Pos, "detail": o.Detail})
				exit = 1
			}
		}
	}
	b, _ := json.MarshalIndent(out, "", " ")
	os.Stdout.Write(b)
	fmt.Println()
	return exit
}
