package main

import (
	"fmt"
	"go/ast"
	"go/types"
	"sort"
	"strings"

	"golang.org/x/tools/go/packages"
)

func init() {
	register(&Rule{ID: "R-unused-param", Floor: 450, Run: ruleUnusedParam,
		Doc: "every named parameter of a declared function or method of the pipeline packages (everything under homescript/) is read somewhere in the body. A parameter that is never read means a distinction the caller makes is dropped on the floor (fieldURI.push ignores `kind`, so cast errors print list indices and option steps as object fields — C12). Exempt: `_`, `_name` and unnamed parameters, parameters whose type carries only a source position, methods that implement a method of an interface their receiver type satisfies (signature is imposed), functions/methods used as values (callbacks with a fixed signature), and bodies that unconditionally panic (declared-unsupported stubs)."})
}

// gdPositionOnly: a struct type all of whose fields are source positions
// (types of package errors: Span / Location).
func gdPositionOnly(t types.Type) bool {
	st, ok := t.Underlying().(*types.Struct)
	if !ok || st.NumFields() == 0 {
		return false
	}
	for i := 0; i < st.NumFields(); i++ {
		n, ok := types.Unalias(st.Field(i).Type()).(*types.Named)
		if !ok || n.Obj().Pkg() == nil || !strings.HasSuffix(n.Obj().Pkg().Path(), "/homescript/errors") {
			return false
		}
		if n.Obj().Name() != "Span" && n.Obj().Name() != "Location" {
			return false
		}
	}
	return true
}

func ruleUnusedParam(c *Ctx) []Obligation {
	var pkgs []*packages.Package
	for _, p := range c.All {
		rel := relPkg(p.PkgPath)
		if strings.HasPrefix(rel, "homescript") {
			pkgs = append(pkgs, p)
		}
	}
	// interfaces of the module + the universal ones
	type ifaceT struct {
		name string
		t    *types.Interface
	}
	var ifaces []ifaceT
	seenPkg := map[*types.Package]bool{}
	var addPkg func(p *types.Package)
	addPkg = func(p *types.Package) {
		if p == nil || seenPkg[p] {
			return
		}
		seenPkg[p] = true
		sc := p.Scope()
		for _, n := range sc.Names() {
			if tn, ok := sc.Lookup(n).(*types.TypeName); ok {
				if it, ok := tn.Type().Underlying().(*types.Interface); ok && it.NumMethods() > 0 {
					if _, isTP := tn.Type().(*types.TypeParam); !isTP {
						ifaces = append(ifaces, ifaceT{p.Name() + "." + n, it})
					}
				}
			}
		}
	}
	for _, p := range c.All {
		addPkg(p.Types)
		for _, imp := range p.Types.Imports() {
			switch imp.Path() {
			case "fmt", "sort", "io", "encoding/json", "context", "errors":
				addPkg(imp)
			}
		}
	}
	if er, ok := types.Universe.Lookup("error").Type().Underlying().(*types.Interface); ok {
		ifaces = append(ifaces, ifaceT{"error", er})
	}

	// functions / methods used as values anywhere in the module
	usedAsValue := map[*types.Func]bool{}
	for _, p := range c.All {
		for _, f := range p.Syntax {
			var stack []ast.Node
			ast.Inspect(f, func(n ast.Node) bool {
				if n == nil {
					stack = stack[:len(stack)-1]
					return false
				}
				stack = append(stack, n)
				var id *ast.Ident
				var whole ast.Expr
				switch x := n.(type) {
				case *ast.SelectorExpr:
					id, whole = x.Sel, x
				case *ast.Ident:
					id, whole = x, x
					if len(stack) >= 2 {
						if se, ok := stack[len(stack)-2].(*ast.SelectorExpr); ok && se.Sel == x {
							return true // handled at the selector
						}
					}
				default:
					return true
				}
				fn, ok := p.TypesInfo.Uses[id].(*types.Func)
				if !ok {
					return true
				}
				// called directly?
				if len(stack) >= 2 {
					parent := stack[len(stack)-2]
					if pe, ok := parent.(*ast.ParenExpr); ok && len(stack) >= 3 {
						_ = pe
						parent = stack[len(stack)-3]
					}
					if call, ok := parent.(*ast.CallExpr); ok && ast.Unparen(call.Fun) == whole {
						return true
					}
				}
				usedAsValue[fn.Origin()] = true
				return true
			})
		}
	}

	var obs []Obligation
	keys := gdKeyer{}
	for _, p := range pkgs {
		for _, fd := range AllFuncDecls(p) {
			fobj, _ := p.TypesInfo.Defs[fd.Name].(*types.Func)
			if fobj == nil {
				continue
			}
			var params []*ast.Ident
			for _, fl := range fd.Type.Params.List {
				for _, n := range fl.Names {
					// `_` and `_name`: the author's marker for "intentionally unused"
					if !strings.HasPrefix(n.Name, "_") {
						params = append(params, n)
					}
				}
			}
			if len(params) == 0 {
				continue
			}
			exempt := ""
			if fd.Recv != nil {
				sig := fobj.Type().(*types.Signature)
				rt := sig.Recv().Type()
				base := rt
				if pt, ok := rt.(*types.Pointer); ok {
					base = pt.Elem()
				}
				for _, it := range ifaces {
					for i := 0; i < it.t.NumMethods(); i++ {
						m := it.t.Method(i)
						if m.Name() != fobj.Name() {
							continue
						}
						if types.Implements(base, it.t) || types.Implements(types.NewPointer(base), it.t) {
							exempt = "implements " + it.name + "." + m.Name()
						}
					}
					if exempt != "" {
						break
					}
				}
			}
			if exempt == "" && usedAsValue[fobj] {
				exempt = "used as a function value (callback signature)"
			}
			if exempt == "" && BodyPanics(p.TypesInfo, fd.Body.List) && len(fd.Body.List) == 1 {
				exempt = "body is an unconditional panic (unsupported stub)"
			}
			read := map[types.Object]bool{}
			ast.Inspect(fd.Body, func(n ast.Node) bool {
				if as, ok := n.(*ast.AssignStmt); ok && as.Tok.String() == "=" {
					// plain assignment to the parameter is a write, not a read
					for _, r := range as.Rhs {
						ast.Inspect(r, func(m ast.Node) bool {
							if id, ok := m.(*ast.Ident); ok {
								if o := p.TypesInfo.Uses[id]; o != nil {
									read[o] = true
								}
							}
							return true
						})
					}
					for _, l := range as.Lhs {
						if _, isIdent := ast.Unparen(l).(*ast.Ident); isIdent {
							continue
						}
						ast.Inspect(l, func(m ast.Node) bool {
							if id, ok := m.(*ast.Ident); ok {
								if o := p.TypesInfo.Uses[id]; o != nil {
									read[o] = true
								}
							}
							return true
						})
					}
					return false
				}
				if id, ok := n.(*ast.Ident); ok {
					if o := p.TypesInfo.Uses[id]; o != nil {
						read[o] = true
					}
				}
				return true
			})
			for _, id := range params {
				obj := p.TypesInfo.Defs[id]
				key := keys.key(strings.TrimPrefix(relPkg(p.PkgPath), "homescript/")+"."+FuncName(fd), "param "+id.Name)
				switch {
				case read[obj]:
					obs = append(obs, Obligation{Key: key, Pos: c.Pos(id.Pos()), Status: Discharged, Detail: "read in the body"})
				case exempt != "":
					obs = append(obs, Obligation{Key: key, Pos: c.Pos(id.Pos()), Status: Info, Detail: "never read; exempt: " + exempt})
				case gdPositionOnly(obj.Type()):
					obs = append(obs, Obligation{Key: key, Pos: c.Pos(id.Pos()), Status: Info, Detail: "never read; exempt: its type carries nothing but a source position (no payload a caller could vary)"})
				case !gdConstStoredForParam(p.TypesInfo, fd, id.Name):
					// a dead parameter alone changes no behaviour: reported, not armed. It is armed
					// (below) when the body stores a *constant* into a struct field of the parameter's
					// own name — the value the callers pass is replaced by a hard-wired one.
					obs = append(obs, Obligation{Key: key, Pos: c.Pos(id.Pos()), Status: Info,
						Detail: fmt.Sprintf("parameter %s of %s is never read (dead parameter; no field of that name is filled with a constant instead)", id.Name, FuncName(fd))})
				default:
					obs = append(obs, Obligation{Key: key, Pos: c.Pos(id.Pos()), Status: Violated, Nontrivial: true,
						Detail: fmt.Sprintf("parameter %s (%s) of %s is never read although the body fills the field of the same name with a constant: whatever the callers pass is replaced by that constant", id.Name, types.TypeString(obj.Type(), func(q *types.Package) string { return q.Name() }), FuncName(fd))})
				}
			}
		}
	}
	sort.SliceStable(obs, func(i, j int) bool { return obs[i].Key < obs[j].Key })
	return obs
}

// gdConstStoredForParam: the body contains a composite-literal field or an
// assignment `x.<name> = <constant>` for the field called like the parameter.
func gdConstStoredForParam(info *types.Info, fd *ast.FuncDecl, name string) bool {
	found := false
	isConst := func(e ast.Expr) bool {
		tv, ok := info.Types[e]
		return ok && tv.Value != nil
	}
	ast.Inspect(fd.Body, func(n ast.Node) bool {
		switch x := n.(type) {
		case *ast.KeyValueExpr:
			if k, ok := x.Key.(*ast.Ident); ok && k.Name == name && isConst(x.Value) {
				found = true
			}
		case *ast.AssignStmt:
			for i, l := range x.Lhs {
				if sel, ok := l.(*ast.SelectorExpr); ok && sel.Sel.Name == name && i < len(x.Rhs) && isConst(x.Rhs[i]) {
					found = true
				}
			}
		}
		return true
	})
	return found
}
