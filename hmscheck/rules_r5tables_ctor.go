package main

// R-ctor-invariant (C13, C04): the constructor of a value kind may establish
// an invariant on the payload (the VM's string constructor stores the NFC
// normal form). Every other place that builds the value struct directly must
// preserve it, and the twin libraries must establish the same invariant.

import (
	"fmt"
	"go/ast"
	"go/token"
	"go/types"
	"sort"
	"strings"

	"golang.org/x/tools/go/packages"
)

func init() {
	register(&Rule{ID: "R-ctor-invariant", Floor: 6, Run: ruleCtorInvariant,
		Doc: "C13/C04: a value struct is built by its constructor; when the constructor stores a payload field not as given but as the result of a function applied to its parameter (normalisation: `Inner: norm.NFC.String(inner)`), that function establishes an invariant every value of the kind satisfies — equality, len(), iteration and hashing of the payload rely on it. (a) Every composite literal of the struct outside the constructor (in any package) must set such a field either through the same function or by copying the same field of an existing value of the kind; an expression computed from normalised parts (a concatenation) is not normalised. (b) The twin libraries must apply the same function to the same payload field: otherwise `\"e\\u0301\" == \"é\"` and `.len()` differ between the engines."})
}

type r5kSite struct {
	pkg  *packages.Package
	fd   *ast.FuncDecl
	lit  *ast.CompositeLit
	impl *mbImpl
}

// r5kTransform: how the literal's value for a field is computed inside fd: "" (the parameter /
// fresh storage / anything not derived from a parameter through a call) or the function applied.
func r5kTransform(info *types.Info, fd *ast.FuncDecl, v ast.Expr, depth int) string {
	v = ast.Unparen(v)
	if u, ok := v.(*ast.UnaryExpr); ok && u.Op == token.AND {
		v = ast.Unparen(u.X)
	}
	params := map[types.Object]bool{}
	if fd.Type.Params != nil {
		for _, f := range fd.Type.Params.List {
			for _, nm := range f.Names {
				params[info.Defs[nm]] = true
			}
		}
	}
	switch x := v.(type) {
	case *ast.BinaryExpr, *ast.IndexExpr, *ast.SliceExpr:
		// an arithmetic / slicing expression over a parameter is a transformation of it
		uses := false
		ast.Inspect(v, func(n ast.Node) bool {
			if id, ok := n.(*ast.Ident); ok && params[r2tObj(info, id)] {
				uses = true
			}
			return true
		})
		if uses {
			txt := exprStr(v)
			for o := range params {
				if o != nil {
					txt = strings.ReplaceAll(txt, o.Name(), "$")
				}
			}
			return "expr:" + txt
		}
	case *ast.Ident:
		if depth < 3 {
			if def := r2tSingleDef(info, fd, x); def != nil {
				return r5kTransform(info, fd, def, depth+1)
			}
		}
	case *ast.CallExpr:
		if tv, ok := info.Types[x.Fun]; ok && tv.IsType() {
			if len(x.Args) == 1 {
				return r5kTransform(info, fd, x.Args[0], depth+1)
			}
			return ""
		}
		if id, ok := ast.Unparen(x.Fun).(*ast.Ident); ok {
			if _, isB := info.Uses[id].(*types.Builtin); isB {
				return ""
			}
		}
		// applied to a parameter?
		usesParam := false
		for _, a := range x.Args {
			ast.Inspect(a, func(n ast.Node) bool {
				if id, ok := n.(*ast.Ident); ok && params[r2tObj(info, id)] {
					usesParam = true
				}
				return true
			})
		}
		if usesParam {
			if fn := CalleeOf(info, x); fn != nil {
				return fn.FullName()
			}
			return exprStr(x.Fun)
		}
	}
	return ""
}

func r5kField(cl *ast.CompositeLit, name string) ast.Expr {
	for _, el := range cl.Elts {
		if kv, ok := el.(*ast.KeyValueExpr); ok {
			if id, ok := kv.Key.(*ast.Ident); ok && id.Name == name {
				return kv.Value
			}
		}
	}
	return nil
}

func ruleCtorInvariant(c *Ctx) []Obligation {
	var obs []Obligation
	libs := r2tLibs(c)
	type fieldT struct {
		fn   string
		ctor string
		pos  token.Pos
	}
	transforms := map[*mbLib]map[string]fieldT{} // "Impl.Field" -> transformation in the constructor
	ctorOfImpl := map[*mbLib]map[*mbImpl]map[*ast.FuncDecl]bool{}
	for _, l := range libs {
		transforms[l] = map[string]fieldT{}
		ctorOfImpl[l] = map[*mbImpl]map[*ast.FuncDecl]bool{}
		var fns []*types.Func
		for fn := range l.decls {
			fns = append(fns, fn)
		}
		sort.Slice(fns, func(i, j int) bool { return fns[i].Pos() < fns[j].Pos() })
		for _, fn := range fns {
			fd := l.decls[fn]
			if fd.Recv != nil {
				continue // methods (Clone …) are users of the constructor, not constructors
			}
			ast.Inspect(fd.Body, func(n ast.Node) bool {
				cl, ok := n.(*ast.CompositeLit)
				if !ok {
					return true
				}
				im := l.implOfType(l.info.TypeOf(cl))
				if im == nil {
					return true
				}
				if ctorOfImpl[l][im] == nil {
					ctorOfImpl[l][im] = map[*ast.FuncDecl]bool{}
				}
				ctorOfImpl[l][im][fd] = true
				for i := 0; i < im.st.NumFields(); i++ {
					f := im.st.Field(i)
					if v := r5kField(cl, f.Name()); v != nil {
						if t := r5kTransform(l.info, fd, v, 0); t != "" {
							transforms[l][im.Name()+"."+f.Name()] = fieldT{t, fd.Name.Name, v.Pos()}
						}
					}
				}
				return true
			})
		}
	}
	// (a) literal sites outside the constructors, in every package
	for _, l := range libs {
		seen := map[string]int{}
		for _, p := range c.All {
			for _, fd := range AllFuncDecls(p) {
				var lits []*ast.CompositeLit
				ast.Inspect(fd.Body, func(n ast.Node) bool {
					if cl, ok := n.(*ast.CompositeLit); ok {
						if im := l.implOfType(p.TypesInfo.TypeOf(cl)); im != nil && !ctorOfImpl[l][im][fd] {
							lits = append(lits, cl)
						}
					}
					return true
				})
				for _, cl := range lits {
					im := l.implOfType(p.TypesInfo.TypeOf(cl))
					base := fmt.Sprintf("ctor|%s|%s|literal in %s.%s", l.tag, im.Name(), strings.TrimPrefix(relPkg(p.PkgPath), "homescript/"), FuncName(fd))
					seen[base]++
					key := base
					if seen[base] > 1 {
						key = fmt.Sprintf("%s #%d", base, seen[base])
					}
					o := Obligation{Key: key, Pos: c.Pos(cl.Pos()), Nontrivial: true}
					var bad, okf []string
					for i := 0; i < im.st.NumFields(); i++ {
						f := im.st.Field(i)
						ft, has := transforms[l][im.Name()+"."+f.Name()]
						if !has {
							continue
						}
						v := r5kField(cl, f.Name())
						if v == nil {
							okf = append(okf, f.Name()+" left zero")
							continue
						}
						// the same function, or a copy of the same field of a value of the kind
						if r5kTransform(p.TypesInfo, fd, v, 0) == ft.fn {
							okf = append(okf, f.Name()+" through "+ft.fn)
							continue
						}
						if sel, ok := ast.Unparen(v).(*ast.SelectorExpr); ok && sel.Sel.Name == f.Name() && l.implOfType(p.TypesInfo.TypeOf(sel.X)) == im {
							okf = append(okf, f.Name()+" copied from "+exprStr(sel.X))
							continue
						}
						if call, ok := ast.Unparen(v).(*ast.CallExpr); ok {
							if fn := CalleeOf(p.TypesInfo, call); fn != nil && fn.FullName() == ft.fn {
								okf = append(okf, f.Name()+" through "+ft.fn)
								continue
							}
						}
						bad = append(bad, fmt.Sprintf("%s is set to `%s`, but the constructor %s stores %s(…) there: the value built here does not satisfy the invariant every other %s satisfies (a computation over normalised parts is not normalised)", f.Name(), exprStr(v), ft.ctor, ft.fn, im.Name()))
					}
					if len(bad) > 0 {
						o.Status, o.Detail = Violated, strings.Join(bad, "; ")
					} else if len(okf) > 0 {
						o.Status, o.Detail = Discharged, "constructor invariants preserved: "+strings.Join(okf, ", ")
					} else {
						o.Status, o.Detail = Discharged, "the constructor of "+im.Name()+" stores its parameters unchanged: nothing to preserve"
					}
					obs = append(obs, o)
				}
			}
		}
	}
	// (b) twins apply the same function to the same payload field
	vm, in := libs[0], libs[1]
	for _, vi := range vm.impls {
		tn := mbLookupType(in, vi.Name())
		if tn == nil || in.byType[tn] == nil {
			continue
		}
		ii := in.byType[tn]
		for i := 0; i < vi.st.NumFields(); i++ {
			f := vi.st.Field(i)
			if b, ok := f.Type().Underlying().(*types.Basic); !ok || b.Info()&(types.IsString|types.IsNumeric|types.IsBoolean) == 0 {
				continue
			}
			has := false
			for j := 0; j < ii.st.NumFields(); j++ {
				has = has || ii.st.Field(j).Name() == f.Name()
			}
			if !has || len(ctorOfImpl[vm][vi]) == 0 || len(ctorOfImpl[in][ii]) == 0 {
				continue
			}
			a, b := transforms[vm][vi.Name()+"."+f.Name()], transforms[in][ii.Name()+"."+f.Name()]
			pos := vi.named.Obj().Pos()
			if a.pos != token.NoPos {
				pos = a.pos
			}
			o := Obligation{Key: fmt.Sprintf("ctor|twins|%s.%s", vi.Name(), f.Name()), Pos: c.Pos(pos), Nontrivial: true}
			desc := func(t fieldT) string {
				if t.fn == "" {
					return "the parameter as given"
				}
				return t.fn + "(parameter) in " + t.ctor
			}
			if a.fn == b.fn {
				o.Status, o.Detail = Discharged, "both constructors store "+desc(a)
			} else {
				o.Status = Violated
				o.Detail = fmt.Sprintf("the VM constructor stores %s, the interpreter constructor stores %s: the same script value has different payloads in the two engines (equality, length and iteration of the payload differ whenever the function changes its argument)", desc(a), desc(b))
			}
			obs = append(obs, o)
		}
	}
	return obs
}
